package main

import (
	"fmt"
	"go/ast"
	"go/token"
	"sort"
	"strings"
)

// ------------------------------------------------------------ constructors of recyclable types

type ctorFact struct {
	Type, Ctor, Pool string
	Fields, Assigned []string
}

func callName(e ast.Expr) string {
	c, ok := e.(*ast.CallExpr)
	if !ok {
		return ""
	}
	switch f := c.Fun.(type) {
	case *ast.Ident:
		return f.Name
	case *ast.SelectorExpr:
		return exprPath(f)
	}
	return ""
}

func exprPath(e ast.Expr) string {
	switch x := e.(type) {
	case *ast.Ident:
		return x.Name
	case *ast.SelectorExpr:
		return exprPath(x.X) + "." + x.Sel.Name
	case *ast.CallExpr:
		return exprPath(x.Fun) + "()"
	case *ast.StarExpr:
		return "*" + exprPath(x.X)
	case *ast.IndexExpr:
		return exprPath(x.X) + "[]"
	case *ast.ParenExpr:
		return exprPath(x.X)
	case *ast.TypeAssertExpr:
		return exprPath(x.X) + ".()"
	}
	return "?"
}

func rootIdent(e ast.Expr) string {
	switch x := e.(type) {
	case *ast.Ident:
		return x.Name
	case *ast.SelectorExpr:
		return rootIdent(x.X)
	case *ast.IndexExpr:
		return rootIdent(x.X)
	case *ast.StarExpr:
		return rootIdent(x.X)
	case *ast.ParenExpr:
		return rootIdent(x.X)
	case *ast.CallExpr:
		return rootIdent(x.Fun)
	case *ast.TypeAssertExpr:
		return rootIdent(x.X)
	}
	return ""
}

func ctorFacts(p *pkgInfo) []ctorFact {
	var out []ctorFact
	fns := p.funcs()
	keys := make([]string, 0, len(fns))
	for k := range fns {
		keys = append(keys, k)
	}
	sort.Strings(keys)
	for _, k := range keys {
		fd := fns[k]
		if fd.Body == nil {
			continue
		}
		// find `v = pools.poolOfX.BorrowValidator()` and `v = new(T)`
		var varName, pool, typ string
		ast.Inspect(fd.Body, func(n ast.Node) bool {
			as, ok := n.(*ast.AssignStmt)
			if !ok || len(as.Lhs) != 1 || len(as.Rhs) != 1 {
				return true
			}
			id, ok := as.Lhs[0].(*ast.Ident)
			if !ok {
				return true
			}
			cn := callName(as.Rhs[0])
			if strings.HasPrefix(cn, "pools.poolOf") && strings.HasSuffix(cn, ".BorrowValidator") {
				varName = id.Name
				pool = strings.TrimSuffix(strings.TrimPrefix(cn, "pools."), ".BorrowValidator")
			}
			if cn == "new" && varName == id.Name {
				if c := as.Rhs[0].(*ast.CallExpr); len(c.Args) == 1 {
					typ = exprPath(c.Args[0])
				}
			}
			return true
		})
		if varName == "" || typ == "" {
			continue
		}
		// a field counts as overwritten only by an assignment that is a statement of the function body itself: one
		// nested in an if/for/switch does not run on every call and leaves the previous user's value on a recycled object
		assigned := map[string]bool{}
		for _, st := range fd.Body.List {
			as, ok := st.(*ast.AssignStmt)
			if !ok {
				continue
			}
			for _, l := range as.Lhs {
				if se, ok := l.(*ast.SelectorExpr); ok {
					if id, ok := se.X.(*ast.Ident); ok && id.Name == varName {
						assigned[se.Sel.Name] = true
					}
				}
			}
		}
		var al []string
		for a := range assigned {
			al = append(al, a)
		}
		sort.Strings(al)
		out = append(out, ctorFact{Type: typ, Ctor: k, Pool: pool, Fields: p.structFields(typ), Assigned: al})
	}
	return out
}

// fields reset by (*Result).cleared()
func clearedFact(p *pkgInfo) ctorFact {
	fd := p.funcs()["Result.cleared"]
	cf := ctorFact{Type: "Result", Ctor: "Result.cleared", Pool: "poolOfResults", Fields: p.structFields("Result")}
	if fd == nil {
		return cf
	}
	r := recvName(fd)
	seen := map[string]bool{}
	ast.Inspect(fd.Body, func(n ast.Node) bool {
		switch x := n.(type) {
		case *ast.AssignStmt:
			for _, l := range x.Lhs {
				if rootIdent(l) == r {
					seen[strings.TrimPrefix(exprPath(l), r+".")] = true
				}
			}
		case *ast.RangeStmt:
			// for k := range r.F { delete(r.F, k) } empties the map F
			if rootIdent(x.X) == r {
				f := strings.TrimPrefix(exprPath(x.X), r+".")
				ast.Inspect(x.Body, func(m ast.Node) bool {
					if c, ok := m.(*ast.CallExpr); ok && callName(c) == "delete" && len(c.Args) == 2 &&
						strings.TrimPrefix(exprPath(c.Args[0]), r+".") == f {
						seen[f] = true
					}
					return true
				})
			}
		}
		return true
	})
	for a := range seen {
		cf.Assigned = append(cf.Assigned, a)
	}
	sort.Strings(cf.Assigned)
	return cf
}

// ------------------------------------------------------------ validator chains

type chainFact struct {
	Owner string
	Size  string
	Elems []string
}

func chainFacts(p *pkgInfo) []chainFact {
	var out []chainFact
	fns := p.funcs()
	keys := make([]string, 0, len(fns))
	for k := range fns {
		keys = append(keys, k)
	}
	sort.Strings(keys)
	for _, k := range keys {
		fd := fns[k]
		if fd.Body == nil {
			continue
		}
		ast.Inspect(fd.Body, func(n ast.Node) bool {
			cl, ok := n.(*ast.CompositeLit)
			if !ok {
				return true
			}
			at, ok := cl.Type.(*ast.ArrayType)
			if !ok || at.Len == nil || exprPath(at.Elt) != "valueValidator" {
				return true
			}
			cf := chainFact{Owner: k, Size: p.src(at.Len)}
			for _, e := range cl.Elts {
				name := callName(e)
				if i := strings.LastIndex(name, "."); i >= 0 {
					name = name[i+1:]
				}
				cf.Elems = append(cf.Elems, name)
			}
			out = append(out, cf)
			return true
		})
	}
	return out
}

// ------------------------------------------------------------ loop header of the additional items loop

type loopFact struct {
	Func, Init, Cond, Post, Guard string
}

func addlItemsLoop(p *pkgInfo) loopFact {
	fd := p.funcs()["schemaSliceValidator.Validate"]
	lf := loopFact{Func: "schemaSliceValidator.Validate"}
	if fd == nil {
		return lf
	}
	// the for-loop whose body builds a validator from s.AdditionalItems.Schema
	ast.Inspect(fd.Body, func(n ast.Node) bool {
		ifs, ok := n.(*ast.IfStmt)
		if ok && strings.Contains(p.src(ifs.Cond), "AdditionalItems.Schema != nil") {
			ast.Inspect(ifs.Body, func(m ast.Node) bool {
				if fs, ok := m.(*ast.ForStmt); ok && strings.Contains(p.src(fs.Body), "AdditionalItems.Schema") {
					lf.Init, lf.Cond, lf.Post = p.src(fs.Init), p.src(fs.Cond), p.src(fs.Post)
					lf.Guard = p.src(ifs.Cond)
				}
				return true
			})
		}
		return true
	})
	return lf
}

// ------------------------------------------------------------ writes through inputs

type writeFact struct {
	Site, Func, Expr, Target, Detail string
}

func splitClass(c string) (string, string) {
	if i := strings.Index(c, ":"); i >= 0 {
		return c[:i], c[i+1:]
	}
	return c, ""
}

func isInstanceType(t string) bool {
	switch t {
	case "interface{}", "any", "map[string]interface{}", "[]interface{}", "map[string]any", "[]any", "reflect.Value":
		return true
	}
	return false
}

func isDocType(t string) bool {
	t = strings.TrimPrefix(t, "*")
	switch t {
	case "spec.Schema", "loads.Document", "spec.Swagger", "spec.Parameter", "spec.Response", "spec.Header",
		"spec.Items", "spec.Operation", "spec.SchemaOrBool", "spec.SchemaOrArray", "analysis.Spec":
		return true
	}
	return false
}

// classify the root identifier of a written expression inside fd
func classifyRoot(p *pkgInfo, fd *ast.FuncDecl, root string) string {
	if root == recvName(fd) && root != "" {
		return "receiver"
	}
	if fd.Type.Params != nil {
		for _, f := range fd.Type.Params.List {
			for _, n := range f.Names {
				if n.Name == root {
					t := p.src(f.Type)
					switch {
					case isInstanceType(t):
						return "param-instance"
					case isDocType(t):
						return "param-document:" + t
					default:
						return "param:" + t
					}
				}
			}
		}
	}
	// local: find its first definition
	kind := ""
	ast.Inspect(fd.Body, func(n ast.Node) bool {
		if kind != "" {
			return false
		}
		switch x := n.(type) {
		case *ast.AssignStmt:
			for i, l := range x.Lhs {
				id, ok := l.(*ast.Ident)
				if !ok || id.Name != root {
					continue
				}
				var rhs ast.Expr
				if len(x.Rhs) == len(x.Lhs) {
					rhs = x.Rhs[i]
				} else if len(x.Rhs) == 1 {
					rhs = x.Rhs[0]
				}
				if x.Tok == token.DEFINE || kind == "" {
					kind = classifyInit(p, rhs)
				}
			}
		case *ast.ValueSpec:
			for i, n := range x.Names {
				if n.Name != root {
					continue
				}
				if x.Type != nil {
					t := p.src(x.Type)
					switch {
					case isInstanceType(t):
						kind = "local-instance-typed"
					case isDocType(t):
						kind = "local-document-typed:" + t
					default:
						kind = "local"
					}
				} else if i < len(x.Values) {
					kind = classifyInit(p, x.Values[i])
				}
			}
		case *ast.RangeStmt:
			for _, kv := range []ast.Expr{x.Key, x.Value} {
				if id, ok := kv.(*ast.Ident); ok && id.Name == root {
					kind = "range-copy-of:" + exprPath(x.X)
				}
			}
		}
		return true
	})
	if kind == "" {
		return "global-or-unknown"
	}
	return kind
}

func classifyInit(p *pkgInfo, rhs ast.Expr) string {
	if rhs == nil {
		return "local"
	}
	switch x := rhs.(type) {
	case *ast.CompositeLit:
		return "local-fresh"
	case *ast.CallExpr:
		cn := callName(x)
		switch {
		case cn == "make" || cn == "new":
			return "local-fresh"
		case strings.Contains(cn, "Borrow"):
			return "local-borrowed"
		case cn == "reflect.ValueOf":
			return "local-instance-alias"
		default:
			return "local-from-call:" + cn
		}
	case *ast.UnaryExpr:
		if x.Op == token.AND {
			if _, ok := x.X.(*ast.CompositeLit); ok {
				return "local-fresh"
			}
			return "local-address-of:" + exprPath(x.X)
		}
	case *ast.TypeAssertExpr:
		t := p.src(x.Type)
		if isInstanceType(t) {
			return "local-instance-alias"
		}
		if isDocType(t) {
			return "local-document-alias:" + t
		}
		return "local"
	case *ast.Ident, *ast.SelectorExpr, *ast.IndexExpr, *ast.StarExpr:
		return "local-alias-of:" + exprPath(rhs)
	}
	return "local"
}

func writeFacts(p *pkgInfo) []writeFact {
	var out []writeFact
	fns := p.funcs()
	keys := make([]string, 0, len(fns))
	for k := range fns {
		keys = append(keys, k)
	}
	sort.Strings(keys)
	for _, k := range keys {
		fd := fns[k]
		if fd.Body == nil {
			continue
		}
		add := func(n ast.Node, target ast.Expr, what string) {
			root := rootIdent(target)
			cls, detail := splitClass(classifyRoot(p, fd, root))
			out = append(out, writeFact{Site: p.pos(n), Func: k, Expr: what + " " + exprPath(target), Target: cls, Detail: detail})
		}
		ast.Inspect(fd.Body, func(n ast.Node) bool {
			switch x := n.(type) {
			case *ast.AssignStmt:
				for _, l := range x.Lhs {
					switch t := l.(type) {
					case *ast.IndexExpr:
						add(x, t, "index")
					case *ast.StarExpr:
						add(x, t, "deref")
					case *ast.SelectorExpr:
						// field write: only interesting when the object may belong to the caller
						cls := classifyRoot(p, fd, rootIdent(t))
						if strings.HasPrefix(cls, "param-document") || strings.HasPrefix(cls, "param-instance") ||
							strings.Contains(cls, "alias") || strings.HasPrefix(cls, "range-copy") ||
							strings.HasPrefix(cls, "local-from-call") || strings.HasPrefix(cls, "local-document") {
							add(x, t, "field")
						}
					}
				}
			case *ast.IncDecStmt:
				if t, ok := x.X.(*ast.IndexExpr); ok {
					add(x, t, "index")
				}
			case *ast.CallExpr:
				cn := callName(x)
				if cn == "delete" && len(x.Args) == 2 {
					add(x, x.Args[0], "delete")
				}
				// library calls that rewrite their first argument in place
				if strings.HasPrefix(cn, "spec.Expand") && len(x.Args) >= 1 {
					arg := x.Args[0]
					if u, ok := arg.(*ast.UnaryExpr); ok && u.Op == token.AND {
						arg = u.X
					}
					add(x, arg, "expand-in-place("+cn+")")
				}
			}
			return true
		})
	}
	return out
}

// ------------------------------------------------------------ walks over the caller's definitions

// docWalkFact: a call made from inside a loop over `…Spec().Definitions` that is handed the loop's schema
type docWalkFact struct {
	Func, Callee string
	Scratch      bool // the schema goes through scratchSchema(…) first
}

func docWalkFacts(p *pkgInfo) []docWalkFact {
	var out []docWalkFact
	fns := p.funcs()
	keys := make([]string, 0, len(fns))
	for k := range fns {
		keys = append(keys, k)
	}
	sort.Strings(keys)
	for _, k := range keys {
		fd := fns[k]
		if fd.Body == nil {
			continue
		}
		ast.Inspect(fd.Body, func(n ast.Node) bool {
			rs, ok := n.(*ast.RangeStmt)
			if !ok || !strings.HasSuffix(exprPath(rs.X), "Spec().Definitions") {
				return true
			}
			val, _ := rs.Value.(*ast.Ident)
			if val == nil {
				return true
			}
			ast.Inspect(rs.Body, func(m ast.Node) bool {
				c, ok := m.(*ast.CallExpr)
				if !ok || callName(c) == "scratchSchema" {
					return true
				}
				for _, a := range c.Args {
					scratch := false
					if callName(a) == "scratchSchema" && len(a.(*ast.CallExpr).Args) == 1 {
						a = a.(*ast.CallExpr).Args[0]
						scratch = true
					}
					if u, ok := a.(*ast.UnaryExpr); ok && u.Op == token.AND {
						a = u.X
					}
					if id, ok := a.(*ast.Ident); ok && id.Name == val.Name {
						out = append(out, docWalkFact{Func: k, Callee: callName(c), Scratch: scratch})
					}
				}
				return true
			})
			return true
		})
	}
	return out
}

// ------------------------------------------------------------ writes of a validator to itself while validating

// selfWriteFact: an assignment through the receiver inside a Validate/validate*/Applies method
type selfWriteFact struct {
	Func, Lhs string
	Guarded   bool // inside `if …recycleValidators { … }` (or a deferred function under it)
}

func selfWriteFacts(p *pkgInfo) []selfWriteFact {
	var out []selfWriteFact
	fns := p.funcs()
	keys := make([]string, 0, len(fns))
	for k := range fns {
		keys = append(keys, k)
	}
	sort.Strings(keys)
	for _, k := range keys {
		fd := fns[k]
		if fd.Body == nil || fd.Recv == nil || len(fd.Recv.List) == 0 || len(fd.Recv.List[0].Names) == 0 {
			continue
		}
		nm := fd.Name.Name
		if !(nm == "Validate" || strings.HasPrefix(nm, "validate") || nm == "Applies") {
			continue
		}
		recv := fd.Recv.List[0].Names[0].Name
		var walk func(n ast.Node, guarded bool)
		walk = func(n ast.Node, guarded bool) {
			ast.Inspect(n, func(m ast.Node) bool {
				switch x := m.(type) {
				case *ast.IfStmt:
					if m != n && strings.Contains(p.src(x.Cond), "recycleValidators") && !strings.Contains(p.src(x.Cond), "!") {
						if x.Init != nil {
							walk(x.Init, guarded)
						}
						walk(x.Body, true)
						if x.Else != nil {
							walk(x.Else, guarded)
						}
						return false
					}
				case *ast.AssignStmt:
					for _, l := range x.Lhs {
						if _, isIdent := l.(*ast.Ident); isIdent {
							continue
						}
						if rootIdent(l) == recv {
							out = append(out, selfWriteFact{Func: k, Lhs: p.src(l), Guarded: guarded})
						}
					}
				case *ast.IncDecStmt:
					if _, isIdent := x.X.(*ast.Ident); !isIdent && rootIdent(x.X) == recv {
						out = append(out, selfWriteFact{Func: k, Lhs: p.src(x.X), Guarded: guarded})
					}
				}
				return true
			})
		}
		walk(fd.Body, false)
	}
	return out
}

// ------------------------------------------------------------ which results are written to

// resultMutationFact: a call of a mutating *Result method, with where the receiver variable comes from
type resultMutationFact struct {
	Func, Method, Recv, Origin string
}

var mutatingResultMethods = map[string]bool{"Inc": true, "AddErrors": true, "AddWarnings": true, "Merge": true, "MergeAsErrors": true,
	"MergeAsWarnings": true, "mergeForField": true, "mergeForSlice": true, "mergeWithoutRootSchemata": true,
	"addRootObjectSchemata": true, "addPropertySchemata": true, "addSliceSchemata": true, "cleared": true}

func classifyResultInit(p *pkgInfo, rhs ast.Expr) string {
	src := p.src(rhs)
	switch {
	case src == "new(Result)" || src == "&Result{}" || strings.HasPrefix(src, "&Result{"):
		return "fresh"
	case strings.HasSuffix(src, "BorrowResult()"):
		return "fresh"
	case src == "nil":
		return "nil"
	}
	if c, ok := rhs.(*ast.CallExpr); ok {
		cn := callName(c)
		if strings.HasSuffix(cn, ".Validate") || strings.HasSuffix(cn, ".validate") {
			return "child-answer"
		}
		return "call " + cn
	}
	if id, ok := rhs.(*ast.Ident); ok {
		return "alias " + id.Name
	}
	return "expr " + src
}

func resultMutationFacts(p *pkgInfo) []resultMutationFact {
	var out []resultMutationFact
	fns := p.funcs()
	keys := make([]string, 0, len(fns))
	for k := range fns {
		keys = append(keys, k)
	}
	sort.Strings(keys)
	for _, k := range keys {
		fd := fns[k]
		if fd.Body == nil {
			continue
		}
		// origins of every local identifier: all right-hand sides assigned to it in this function
		origins := map[string][]string{}
		addOrigin := func(name, o string) {
			for _, e := range origins[name] {
				if e == o {
					return
				}
			}
			origins[name] = append(origins[name], o)
		}
		if fd.Type.Params != nil {
			for _, f := range fd.Type.Params.List {
				for _, n := range f.Names {
					addOrigin(n.Name, "param")
				}
			}
		}
		if fd.Type.Results != nil {
			for _, f := range fd.Type.Results.List {
				for _, n := range f.Names {
					addOrigin(n.Name, "named-result")
				}
			}
		}
		if r := recvName(fd); r != "" {
			addOrigin(r, "receiver")
		}
		ast.Inspect(fd.Body, func(n ast.Node) bool {
			switch x := n.(type) {
			case *ast.AssignStmt:
				if len(x.Lhs) == len(x.Rhs) {
					for i, l := range x.Lhs {
						if id, ok := l.(*ast.Ident); ok {
							addOrigin(id.Name, classifyResultInit(p, x.Rhs[i]))
						}
					}
				} else if len(x.Rhs) == 1 {
					for _, l := range x.Lhs {
						if id, ok := l.(*ast.Ident); ok && id.Name != "_" {
							addOrigin(id.Name, "multi "+classifyResultInit(p, x.Rhs[0]))
						}
					}
				}
			case *ast.ValueSpec:
				for i, id := range x.Names {
					if i < len(x.Values) {
						addOrigin(id.Name, classifyResultInit(p, x.Values[i]))
					} else {
						addOrigin(id.Name, "zero")
					}
				}
			case *ast.RangeStmt:
				for _, e := range []ast.Expr{x.Key, x.Value} {
					if id, ok := e.(*ast.Ident); ok && id.Name != "_" {
						addOrigin(id.Name, "range "+exprPath(x.X))
					}
				}
			}
			return true
		})
		ast.Inspect(fd.Body, func(n ast.Node) bool {
			c, ok := n.(*ast.CallExpr)
			if !ok {
				return true
			}
			sel, ok := c.Fun.(*ast.SelectorExpr)
			if !ok || !mutatingResultMethods[sel.Sel.Name] {
				return true
			}
			id, ok := sel.X.(*ast.Ident)
			if !ok {
				out = append(out, resultMutationFact{Func: k, Method: sel.Sel.Name, Recv: p.src(sel.X), Origin: "expr"})
				return true
			}
			os := append([]string{}, origins[id.Name]...)
			sort.Strings(os)
			if len(os) == 0 {
				os = []string{"package-level"}
			}
			out = append(out, resultMutationFact{Func: k, Method: sel.Sel.Name, Recv: id.Name, Origin: strings.Join(os, " | ")})
			return true
		})
	}
	// one row per (func, method, receiver, origin)
	seen := map[resultMutationFact]bool{}
	var uniq []resultMutationFact
	for _, f := range out {
		if !seen[f] {
			seen[f] = true
			uniq = append(uniq, f)
		}
	}
	return uniq
}

// ------------------------------------------------------------ rendering

func genFacts(p *pkgInfo) string {
	var b strings.Builder
	b.WriteString("/- GENERATED by /verif/extract from the current /repo sources (tie T1). Do not edit. -/\n")
	b.WriteString("namespace VM.Generated\n\n")
	b.WriteString("structure Ctor where\n  type : String\n  ctor : String\n  pool : String\n  fields : List String\n  assigned : List String\n  deriving Repr, DecidableEq\n\n")
	b.WriteString("def ctorFields : List Ctor := [\n")
	cfs := ctorFacts(p)
	for i, c := range cfs {
		fmt.Fprintf(&b, "  { type := %s, ctor := %s, pool := %s,\n    fields := %s,\n    assigned := %s }", leanStr(c.Type), leanStr(c.Ctor), leanStr(c.Pool), leanStrList(c.Fields), leanStrList(c.Assigned))
		if i < len(cfs)-1 {
			b.WriteString(",")
		}
		b.WriteString("\n")
	}
	b.WriteString("]\n\n")
	cl := clearedFact(p)
	fmt.Fprintf(&b, "def clearedFields : Ctor :=\n  { type := %s, ctor := %s, pool := %s,\n    fields := %s,\n    assigned := %s }\n\n", leanStr(cl.Type), leanStr(cl.Ctor), leanStr(cl.Pool), leanStrList(cl.Fields), leanStrList(cl.Assigned))
	b.WriteString("/-- the `[n]valueValidator{…}` literals: owner function, size, constructor calls in order -/\n")
	b.WriteString("def validatorOrder : List (String × String × List String) := [\n")
	chs := chainFacts(p)
	for i, c := range chs {
		fmt.Fprintf(&b, "  (%s, %s, %s)", leanStr(c.Owner), leanStr(c.Size), leanStrList(c.Elems))
		if i < len(chs)-1 {
			b.WriteString(",")
		}
		b.WriteString("\n")
	}
	b.WriteString("]\n\n")
	lf := addlItemsLoop(p)
	fmt.Fprintf(&b, "/-- header of the additional-items loop of %s and the guard it sits under -/\n", lf.Func)
	fmt.Fprintf(&b, "def addlItemsLoop : String × String × String × String := (%s, %s, %s, %s)\n\n", leanStr(lf.Init), leanStr(lf.Cond), leanStr(lf.Post), leanStr(lf.Guard))
	b.WriteString("structure Write where\n  site : String\n  func : String\n  expr : String\n  target : String\n  detail : String\n  deriving Repr, DecidableEq\n\n")
	b.WriteString("/-- index writes, deletes, dereferencing writes and field writes through possibly caller-owned objects -/\n")
	b.WriteString("def inputWrites : List Write := [\n")
	ws := writeFacts(p)
	for i, w := range ws {
		fmt.Fprintf(&b, "  { site := %s, func := %s, expr := %s, target := %s, detail := %s }", leanStr(w.Site), leanStr(w.Func), leanStr(w.Expr), leanStr(w.Target), leanStr(w.Detail))
		if i < len(ws)-1 {
			b.WriteString(",")
		}
		b.WriteString("\n")
	}
	b.WriteString("]\n\n")
	b.WriteString("/-- calls made with the schema of a loop over the caller's definitions: (function, callee, through scratchSchema) -/\n")
	b.WriteString("def definitionWalks : List (String × String × Bool) := [\n")
	dws := docWalkFacts(p)
	for i, f := range dws {
		fmt.Fprintf(&b, "  (%s, %s, %s)", leanStr(f.Func), leanStr(f.Callee), leanBool(f.Scratch))
		if i < len(dws)-1 {
			b.WriteString(",")
		}
		b.WriteString("\n")
	}
	b.WriteString("]\n\n")
	b.WriteString("/-- assignments through the receiver inside Validate/validate*/Applies methods: (method, left-hand side, under the recycling guard) -/\n")
	b.WriteString("def selfWrites : List (String × String × Bool) := [\n")
	sws := selfWriteFacts(p)
	for i, f := range sws {
		fmt.Fprintf(&b, "  (%s, %s, %s)", leanStr(f.Func), leanStr(f.Lhs), leanBool(f.Guarded))
		if i < len(sws)-1 {
			b.WriteString(",")
		}
		b.WriteString("\n")
	}
	b.WriteString("]\n\n")
	b.WriteString("/-- calls of mutating *Result methods: (function, method, receiver variable, where that variable comes from) -/\n")
	b.WriteString("def resultMutations : List (String × String × String × String) := [\n")
	rms := resultMutationFacts(p)
	for i, f := range rms {
		fmt.Fprintf(&b, "  (%s, %s, %s, %s)", leanStr(f.Func), leanStr(f.Method), leanStr(f.Recv), leanStr(f.Origin))
		if i < len(rms)-1 {
			b.WriteString(",")
		}
		b.WriteString("\n")
	}
	b.WriteString("]\n\n")
	b.WriteString("structure Proto where\n  func : String\n  deferRedeem : Bool\n  nilBeforeCall : Bool\n  calls : Nat\n  deriving Repr, DecidableEq\n\n")
	b.WriteString("/-- redeem protocol of the validators that own child slots -/\n")
	b.WriteString("def redeemProtocol : List Proto := [\n")
	pfs := protoFacts(p)
	for i, f := range pfs {
		fmt.Fprintf(&b, "  { func := %s, deferRedeem := %s, nilBeforeCall := %s, calls := %d }", leanStr(f.Func), leanBool(f.DeferRedeem), leanBool(f.NilBeforeCall), f.Calls)
		if i < len(pfs)-1 {
			b.WriteString(",")
		}
		b.WriteString("\n")
	}
	b.WriteString("]\n\n")
	b.WriteString("/-- every `Redeem*` of the default pools: number of `Put` calls, and whether the shared empty result is let go first -/\n")
	b.WriteString("def redeemFns : List (String × Nat × Bool) := [\n")
	rfs := redeemFnFacts(p)
	for i, f := range rfs {
		fmt.Fprintf(&b, "  (%s, %d, %s)", leanStr(f.Func), f.Puts, leanBool(f.EmptyGuard))
		if i < len(rfs)-1 {
			b.WriteString(",")
		}
		b.WriteString("\n")
	}
	b.WriteString("]\n\n")
	b.WriteString("/-- variables read in the same block after being handed to Merge*/mergeFor*/RedeemResult: (func, var, merge site, use site) -/\n")
	b.WriteString("def useAfterMerge : List (String × String × String × String) := [\n")
	ufs := useAfterMerge(p)
	for i, f := range ufs {
		fmt.Fprintf(&b, "  (%s, %s, %s, %s)", leanStr(f.Func), leanStr(f.Var), leanStr(f.MergeSite), leanStr(f.UseSite))
		if i < len(ufs)-1 {
			b.WriteString(",")
		}
		b.WriteString("\n")
	}
	b.WriteString("]\n\n")
	rf := rexpFacts(p)
	b.WriteString("structure RexpShape where\n  lookupKey : String\n  compileArg : String\n  insertKey : String\n  testKey : String\n  storeArg : String\n  lockPresent : Bool\n  unlockDeferred : Bool\n  loadAfterLock : Bool\n  onlyFreshWritten : Bool\n  copiesOld : Bool\n  mustLookupKey : String\n  mustCompileArg : String\n  deriving Repr, DecidableEq\n\n")
	fmt.Fprintf(&b, "/-- shape of compileRegexp / mustCompileRegexp / cacheRegexp (rexp.go) -/\ndef rexpShape : RexpShape :=\n  { lookupKey := %s, compileArg := %s, insertKey := %s, testKey := %s, storeArg := %s,\n    lockPresent := %s, unlockDeferred := %s, loadAfterLock := %s, onlyFreshWritten := %s, copiesOld := %s,\n    mustLookupKey := %s, mustCompileArg := %s }\n\n",
		leanStr(rf.LookupKey), leanStr(rf.CompileArg), leanStr(rf.InsertKey), leanStr(rf.TestKey), leanStr(rf.StoreArg),
		leanBool(rf.LockPresent), leanBool(rf.UnlockDeferred), leanBool(rf.LoadAfterLock), leanBool(rf.OnlyFreshWritten), leanBool(rf.CopiesOld),
		leanStr(rf.MustLookupKey), leanStr(rf.MustCompileArg))
	b.WriteString("/-- the schema handed to every newSchemaValidator call: (calling function, first argument) -/\ndef schemaValidatorArgs : List (String × String) := [\n")
	svas := schemaValidatorArgs(p)
	for i, v := range svas {
		fmt.Fprintf(&b, "  (%s, %s)", leanStr(v[0]), leanStr(v[1]))
		if i < len(svas)-1 {
			b.WriteString(",")
		}
		b.WriteString("\n")
	}
	b.WriteString("]\n\n")
	b.WriteString("/-- every package-level variable of package validate: (file, name) -/\ndef packageVars : List (String × String) := [\n")
	pvs := packageVars(p)
	for i, v := range pvs {
		fmt.Fprintf(&b, "  (%s, %s)", leanStr(v[0]), leanStr(v[1]))
		if i < len(pvs)-1 {
			b.WriteString(",")
		}
		b.WriteString("\n")
	}
	b.WriteString("]\n\n")
	fmt.Fprintf(&b, "/-- where NewSpecValidator takes the options object of its schema validators from -/\ndef specOptionsOrigin : String := %s\n\n", leanStr(specOptionsOrigin(p)))
	fmt.Fprintf(&b, "/-- what compileRegexp returns, in source order, and the package-level variables of rexp.go -/\ndef rexpReturns : List String := %s\ndef rexpPkgVars : List String := %s\n\n", leanStrList(rexpReturns(p)), leanStrList(rexpPkgVars(p)))
	b.WriteString("/-- every mention of a mutex-guarded package-level variable: (variable, function, site, inside a function that takes the lock) -/\n")
	b.WriteString("def guardedAccess : List (String × String × String × Bool) := [\n")
	afs := guardedAccessFacts(p)
	for i, f := range afs {
		fmt.Fprintf(&b, "  (%s, %s, %s, %s)", leanStr(f.Var), leanStr(f.Func), leanStr(f.Site), leanBool(f.Guarded))
		if i < len(afs)-1 {
			b.WriteString(",")
		}
		b.WriteString("\n")
	}
	b.WriteString("]\n\n")
	b.WriteString("end VM.Generated\n")
	return b.String()
}

// ------------------------------------------------------------ redeem protocol

type protoFact struct {
	Func          string
	DeferRedeem   bool // deferred redeem of self (and children) guarded by the recycling option
	NilBeforeCall bool // every child slot is released before the child's Validate is called
	Calls         int  // number of (slot release, child call) pairs found
}

func containsCall(p *pkgInfo, n ast.Node, suffix string) bool {
	found := false
	ast.Inspect(n, func(m ast.Node) bool {
		if c, ok := m.(*ast.CallExpr); ok {
			if strings.HasSuffix(callName(c), suffix) {
				found = true
			}
		}
		return !found
	})
	return found
}

// slotRelease reports whether stmt is `if …recycleValidators { <slot> = nil }`
func slotRelease(p *pkgInfo, st ast.Stmt) bool {
	ifs, ok := st.(*ast.IfStmt)
	if !ok || !strings.Contains(p.src(ifs.Cond), "recycleValidators") {
		return false
	}
	for _, b := range ifs.Body.List {
		as, ok := b.(*ast.AssignStmt)
		if !ok || len(as.Rhs) != 1 || p.src(as.Rhs[0]) != "nil" {
			return false
		}
	}
	return len(ifs.Body.List) > 0
}

func protoFacts(p *pkgInfo) []protoFact {
	names := []string{"SchemaValidator.Validate", "itemsValidator.Validate", "HeaderValidator.Validate", "ParamValidator.Validate",
		"schemaPropsValidator.validateAnyOf", "schemaPropsValidator.validateOneOf", "schemaPropsValidator.validateAllOf",
		"schemaPropsValidator.validateNot", "schemaPropsValidator.Validate"}
	fns := p.funcs()
	var out []protoFact
	for _, name := range names {
		fd := fns[name]
		pf := protoFact{Func: name, NilBeforeCall: true}
		if fd == nil || fd.Body == nil {
			pf.NilBeforeCall = false
			out = append(out, pf)
			continue
		}
		// deferred redeem
		ast.Inspect(fd.Body, func(n ast.Node) bool {
			ifs, ok := n.(*ast.IfStmt)
			if ok && strings.Contains(p.src(ifs.Cond), "recycleValidators") {
				for _, st := range ifs.Body.List {
					if d, ok := st.(*ast.DeferStmt); ok && containsCall(p, d, ".redeem") {
						pf.DeferRedeem = true
					}
				}
			}
			return true
		})
		// in every block: a child call `<x>.Validate(...)` that is followed or preceded by a slot release
		ast.Inspect(fd.Body, func(n ast.Node) bool {
			blk, ok := n.(*ast.BlockStmt)
			if !ok {
				return true
			}
			for i, st := range blk.List {
				if _, isIf := st.(*ast.IfStmt); isIf {
					continue
				}
				if _, isFor := st.(*ast.RangeStmt); isFor {
					continue
				}
				if _, isFor := st.(*ast.ForStmt); isFor {
					continue
				}
				if !containsCall(p, st, ".Validate") {
					continue
				}
				before, after := false, false
				for j, o := range blk.List {
					if slotRelease(p, o) {
						if j < i {
							before = true
						} else if j > i {
							after = true
						}
					}
				}
				if before || after {
					pf.Calls++
					if !before {
						pf.NilBeforeCall = false
					}
				}
			}
			return true
		})
		out = append(out, pf)
	}
	return out
}

// ------------------------------------------------------------ Redeem* functions

type redeemFnFact struct {
	Func        string
	Puts        int
	EmptyGuard  bool // `if s == emptyResult { return }` precedes the Put
}

func redeemFnFacts(p *pkgInfo) []redeemFnFact {
	fns := p.funcs()
	keys := make([]string, 0)
	for k := range fns {
		if strings.Contains(k, "Pool.Redeem") {
			keys = append(keys, k)
		}
	}
	sort.Strings(keys)
	var out []redeemFnFact
	for _, k := range keys {
		fd := fns[k]
		rf := redeemFnFact{Func: k}
		ast.Inspect(fd.Body, func(n ast.Node) bool {
			if c, ok := n.(*ast.CallExpr); ok && strings.HasSuffix(callName(c), ".Put") {
				rf.Puts++
			}
			if ifs, ok := n.(*ast.IfStmt); ok && strings.Contains(p.src(ifs.Cond), "emptyResult") && containsReturn(ifs.Body) {
				rf.EmptyGuard = true
			}
			return true
		})
		out = append(out, rf)
	}
	return out
}

func containsReturn(b *ast.BlockStmt) bool {
	for _, st := range b.List {
		if _, ok := st.(*ast.ReturnStmt); ok {
			return true
		}
	}
	return false
}

// ------------------------------------------------------------ use after merge / redeem

type uamFact struct {
	Func, Var, MergeSite, UseSite string
}

var mergeNames = map[string]bool{"Merge": true, "MergeAsErrors": true, "MergeAsWarnings": true, "mergeForField": true, "mergeForSlice": true, "RedeemResult": true}

func identsIn(n ast.Node) map[string]bool {
	out := map[string]bool{}
	ast.Inspect(n, func(m ast.Node) bool {
		if id, ok := m.(*ast.Ident); ok {
			out[id.Name] = true
		}
		return true
	})
	return out
}

func useAfterMerge(p *pkgInfo) []uamFact {
	fns := p.funcs()
	keys := make([]string, 0, len(fns))
	for k := range fns {
		keys = append(keys, k)
	}
	sort.Strings(keys)
	var out []uamFact
	for _, k := range keys {
		fd := fns[k]
		if fd.Body == nil {
			continue
		}
		ast.Inspect(fd.Body, func(n ast.Node) bool {
			blk, ok := n.(*ast.BlockStmt)
			if !ok {
				return true
			}
			for i, st := range blk.List {
				// variables handed to a merge / redeem in this statement (top level of the block)
				merged := map[string]ast.Node{}
				switch st.(type) {
				case *ast.ExprStmt, *ast.AssignStmt:
				default:
					// compound statements are visited block by block; a deferred merge happens at exit
					continue
				}
				if _, isCompound := st.(*ast.IfStmt); isCompound {
					continue
				}
				if _, isCompound := st.(*ast.ForStmt); isCompound {
					continue
				}
				if _, isCompound := st.(*ast.RangeStmt); isCompound {
					continue
				}
				ast.Inspect(st, func(m ast.Node) bool {
					c, ok := m.(*ast.CallExpr)
					if !ok {
						return true
					}
					se, ok := c.Fun.(*ast.SelectorExpr)
					if !ok || !mergeNames[se.Sel.Name] {
						return true
					}
					for _, a := range c.Args {
						if id, ok := a.(*ast.Ident); ok && id.Name != "nil" {
							merged[id.Name] = c
						}
					}
					return true
				})
				if len(merged) == 0 {
					continue
				}
				for _, later := range blk.List[i+1:] {
					// a re-assignment of the variable ends its old life
					if as, ok := later.(*ast.AssignStmt); ok {
						for _, l := range as.Lhs {
							if id, ok := l.(*ast.Ident); ok {
								if _, was := merged[id.Name]; was && !identsIn(as.Rhs[0])[id.Name] {
									delete(merged, id.Name)
								}
							}
						}
					}
					used := identsIn(later)
					for v, site := range merged {
						if used[v] {
							out = append(out, uamFact{Func: k, Var: v, MergeSite: p.pos(site), UseSite: p.pos(later)})
							delete(merged, v)
						}
					}
				}
			}
			return true
		})
	}
	return out
}

// ------------------------------------------------------------ regexp cache shape (rexp.go)

type rexpFact struct {
	LookupKey, CompileArg, InsertKey, TestKey, StoreArg string
	LockPresent, UnlockDeferred, LoadAfterLock         bool
	OnlyFreshWritten, CopiesOld                        bool
	MustLookupKey, MustCompileArg                      string
}

func rexpFacts(p *pkgInfo) rexpFact {
	var rf rexpFact
	fns := p.funcs()
	scanCompile := func(fd *ast.FuncDecl, compileFn string) (lookup, arg string) {
		if fd == nil {
			return
		}
		ast.Inspect(fd.Body, func(n ast.Node) bool {
			switch x := n.(type) {
			case *ast.IndexExpr:
				if exprPath(x.X) == "cache" && lookup == "" {
					lookup = p.src(x.Index)
				}
			case *ast.CallExpr:
				if callName(x) == compileFn && len(x.Args) == 1 {
					arg = p.src(x.Args[0])
				}
			}
			return true
		})
		return
	}
	rf.LookupKey, rf.CompileArg = scanCompile(fns["compileRegexp"], "re.Compile")
	rf.MustLookupKey, rf.MustCompileArg = scanCompile(fns["mustCompileRegexp"], "re.MustCompile")
	fd := fns["cacheRegexp"]
	if fd == nil {
		return rf
	}
	lockPos, loadPos := token.NoPos, token.NoPos
	rf.OnlyFreshWritten = true
	ast.Inspect(fd.Body, func(n ast.Node) bool {
		switch x := n.(type) {
		case *ast.CallExpr:
			switch callName(x) {
			case "cacheMutex.Lock":
				rf.LockPresent = true
				lockPos = x.Pos()
			case "reDict.Load":
				if loadPos == token.NoPos {
					loadPos = x.Pos()
				}
			case "reDict.Store":
				if len(x.Args) == 1 {
					rf.StoreArg = p.src(x.Args[0])
				}
			}
		case *ast.DeferStmt:
			if callName(x.Call) == "cacheMutex.Unlock" {
				rf.UnlockDeferred = true
			}
		case *ast.BinaryExpr:
			if x.Op == token.EQL {
				if ie, ok := x.X.(*ast.IndexExpr); ok && exprPath(ie.X) == "cache" {
					rf.TestKey = p.src(ie.Index)
				}
			}
		case *ast.CompositeLit:
			if _, ok := x.Type.(*ast.MapType); ok && len(x.Elts) == 1 {
				if kv, ok := x.Elts[0].(*ast.KeyValueExpr); ok {
					rf.InsertKey = p.src(kv.Key)
				}
			}
		case *ast.AssignStmt:
			for _, l := range x.Lhs {
				if ie, ok := l.(*ast.IndexExpr); ok && exprPath(ie.X) != "newCache" {
					rf.OnlyFreshWritten = false
				}
			}
		case *ast.RangeStmt:
			if exprPath(x.X) == "cache" && strings.Contains(p.src(x.Body), "newCache[k] = v") {
				rf.CopiesOld = true
			}
		}
		return true
	})
	rf.LoadAfterLock = lockPos != token.NoPos && loadPos != token.NoPos && lockPos < loadPos
	return rf
}

// specOptionsOrigin: how NewSpecValidator obtains the options object it stores in the field schemaOptions
// ("local new(T)" when it is a variable of the constructor initialised by new(T); otherwise the source text)
func specOptionsOrigin(p *pkgInfo) string {
	fd := p.funcs()["NewSpecValidator"]
	if fd == nil || fd.Body == nil {
		return "missing"
	}
	locals := map[string]string{}
	origin := "not assigned"
	ast.Inspect(fd.Body, func(n ast.Node) bool {
		switch x := n.(type) {
		case *ast.AssignStmt:
			if x.Tok == token.DEFINE && len(x.Lhs) == 1 && len(x.Rhs) == 1 {
				if id, ok := x.Lhs[0].(*ast.Ident); ok {
					locals[id.Name] = p.src(x.Rhs[0])
				}
			}
		case *ast.KeyValueExpr:
			if k, ok := x.Key.(*ast.Ident); ok && k.Name == "schemaOptions" {
				if id, ok := x.Value.(*ast.Ident); ok {
					if init, isLocal := locals[id.Name]; isLocal {
						origin = "local " + init
						return true
					}
				}
				origin = p.src(x.Value)
			}
		}
		return true
	})
	return origin
}

// schemaValidatorArgs: the schema handed to every newSchemaValidator call: (calling function, source text of the first argument)
func schemaValidatorArgs(p *pkgInfo) [][2]string {
	var out [][2]string
	fns := p.funcs()
	keys := make([]string, 0, len(fns))
	for k := range fns {
		keys = append(keys, k)
	}
	sort.Strings(keys)
	for _, k := range keys {
		fd := fns[k]
		if fd.Body == nil {
			continue
		}
		ast.Inspect(fd.Body, func(n ast.Node) bool {
			if c, ok := n.(*ast.CallExpr); ok && callName(c) == "newSchemaValidator" && len(c.Args) > 0 {
				out = append(out, [2]string{k, p.src(c.Args[0])})
			}
			return true
		})
	}
	return out
}

// packageVars: every package-level variable of the package (file, name): the inventory of process-wide state
func packageVars(p *pkgInfo) [][2]string {
	var out [][2]string
	for _, fn := range p.sortedFiles() {
		for _, d := range p.files[fn].Decls {
			gd, ok := d.(*ast.GenDecl)
			if !ok || gd.Tok != token.VAR {
				continue
			}
			for _, sp := range gd.Specs {
				if vs, ok := sp.(*ast.ValueSpec); ok {
					for _, n := range vs.Names {
						if n.Name != "_" {
							out = append(out, [2]string{fn, n.Name})
						}
					}
				}
			}
		}
	}
	return out
}

// rexpReturns: the return statements of compileRegexp in source order; rexpPkgVars: the package-level variables of rexp.go
func rexpReturns(p *pkgInfo) []string {
	var out []string
	if fd := p.funcs()["compileRegexp"]; fd != nil && fd.Body != nil {
		ast.Inspect(fd.Body, func(n ast.Node) bool {
			if r, ok := n.(*ast.ReturnStmt); ok {
				out = append(out, strings.TrimPrefix(p.src(r), "return "))
			}
			return true
		})
	}
	return out
}

func rexpPkgVars(p *pkgInfo) []string {
	var out []string
	f := p.files["rexp.go"]
	if f == nil {
		return out
	}
	for _, d := range f.Decls {
		gd, ok := d.(*ast.GenDecl)
		if !ok || gd.Tok != token.VAR {
			continue
		}
		for _, sp := range gd.Specs {
			if vs, ok := sp.(*ast.ValueSpec); ok {
				for _, n := range vs.Names {
					out = append(out, n.Name)
				}
			}
		}
	}
	return out
}

// ------------------------------------------------------------ accesses to guarded package-level state

type accessFact struct {
	Var, Func, Site string
	Guarded         bool
}

func guardedAccessFacts(p *pkgInfo) []accessFact {
	guards := map[string]string{"defaultOpts": "defaultOptsMutex.Lock"}
	fns := p.funcs()
	keys := make([]string, 0, len(fns))
	for k := range fns {
		keys = append(keys, k)
	}
	sort.Strings(keys)
	var out []accessFact
	for _, k := range keys {
		fd := fns[k]
		if fd.Body == nil {
			continue
		}
		for v, lock := range guards {
			locked := containsCall(p, fd.Body, lock)
			ast.Inspect(fd.Body, func(n ast.Node) bool {
				if id, ok := n.(*ast.Ident); ok && id.Name == v {
					out = append(out, accessFact{Var: v, Func: k, Site: p.pos(id), Guarded: locked})
				}
				return true
			})
		}
	}
	return out
}
