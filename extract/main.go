// Command extract is tie T1: it reads the non-test Go sources of /repo (default build tags)
// with go/parser and rewrites lean/VM/Generated/*.lean — tables of structural facts and Lean
// renderings of a few whitelisted pure functions. Files are rewritten only when their content
// changes, so an unchanged source tree keeps the Lake cache warm.
package main

import (
	"bytes"
	"flag"
	"fmt"
	"go/ast"
	"go/parser"
	"go/printer"
	"go/token"
	"os"
	"path/filepath"
	"sort"
	"strings"
)

type pkgInfo struct {
	fset  *token.FileSet
	files map[string]*ast.File // base name -> file
}

func fatal(format string, a ...interface{}) {
	fmt.Fprintf(os.Stderr, "extract: "+format+"\n", a...)
	os.Exit(1)
}

func load(repo string) *pkgInfo {
	fset := token.NewFileSet()
	entries, err := os.ReadDir(repo)
	if err != nil {
		fatal("%v", err)
	}
	p := &pkgInfo{fset: fset, files: map[string]*ast.File{}}
	for _, e := range entries {
		n := e.Name()
		if e.IsDir() || !strings.HasSuffix(n, ".go") || strings.HasSuffix(n, "_test.go") {
			continue
		}
		src, err := os.ReadFile(filepath.Join(repo, n))
		if err != nil {
			fatal("%v", err)
		}
		// default build: skip files guarded by a positive custom tag (validatedebug, verif)
		head := string(src)
		if i := strings.Index(head, "package "); i >= 0 {
			head = head[:i]
		}
		if strings.Contains(head, "//go:build validatedebug") || strings.Contains(head, "//go:build verif") {
			continue
		}
		f, err := parser.ParseFile(fset, filepath.Join(repo, n), src, parser.ParseComments)
		if err != nil {
			fatal("parse %s: %v", n, err)
		}
		p.files[n] = f
	}
	return p
}

func (p *pkgInfo) src(n ast.Node) string {
	var b bytes.Buffer
	printer.Fprint(&b, p.fset, n)
	return b.String()
}

func (p *pkgInfo) pos(n ast.Node) string {
	pos := p.fset.Position(n.Pos())
	return fmt.Sprintf("%s:%d", filepath.Base(pos.Filename), pos.Line)
}

func (p *pkgInfo) sortedFiles() []string {
	names := make([]string, 0, len(p.files))
	for n := range p.files {
		names = append(names, n)
	}
	sort.Strings(names)
	return names
}

// funcs returns every function declaration, keyed "Recv.Name" or "Name".
func (p *pkgInfo) funcs() map[string]*ast.FuncDecl {
	out := map[string]*ast.FuncDecl{}
	for _, fn := range p.sortedFiles() {
		for _, d := range p.files[fn].Decls {
			fd, ok := d.(*ast.FuncDecl)
			if !ok {
				continue
			}
			out[funcKey(fd)] = fd
		}
	}
	return out
}

func recvType(fd *ast.FuncDecl) string {
	if fd.Recv == nil || len(fd.Recv.List) == 0 {
		return ""
	}
	t := fd.Recv.List[0].Type
	if s, ok := t.(*ast.StarExpr); ok {
		t = s.X
	}
	if id, ok := t.(*ast.Ident); ok {
		return id.Name
	}
	return ""
}

func recvName(fd *ast.FuncDecl) string {
	if fd.Recv == nil || len(fd.Recv.List) == 0 || len(fd.Recv.List[0].Names) == 0 {
		return ""
	}
	return fd.Recv.List[0].Names[0].Name
}

func funcKey(fd *ast.FuncDecl) string {
	if r := recvType(fd); r != "" {
		return r + "." + fd.Name.Name
	}
	return fd.Name.Name
}

func (p *pkgInfo) structFields(name string) []string {
	for _, fn := range p.sortedFiles() {
		for _, d := range p.files[fn].Decls {
			gd, ok := d.(*ast.GenDecl)
			if !ok {
				continue
			}
			for _, s := range gd.Specs {
				ts, ok := s.(*ast.TypeSpec)
				if !ok || ts.Name.Name != name {
					continue
				}
				st, ok := ts.Type.(*ast.StructType)
				if !ok {
					continue
				}
				var out []string
				for _, f := range st.Fields.List {
					for _, n := range f.Names {
						out = append(out, n.Name)
					}
				}
				return out
			}
		}
	}
	return nil
}

func leanStr(s string) string {
	s = strings.ReplaceAll(s, "\\", "\\\\")
	s = strings.ReplaceAll(s, "\"", "\\\"")
	s = strings.ReplaceAll(s, "\n", "\\n")
	s = strings.ReplaceAll(s, "\t", " ")
	return "\"" + s + "\""
}

func leanStrList(l []string) string {
	q := make([]string, len(l))
	for i, s := range l {
		q[i] = leanStr(s)
	}
	return "[" + strings.Join(q, ", ") + "]"
}

func leanBool(b bool) string {
	if b {
		return "true"
	}
	return "false"
}

func writeIfChanged(path, content string) {
	old, err := os.ReadFile(path)
	if err == nil && string(old) == content {
		return
	}
	if err := os.MkdirAll(filepath.Dir(path), 0o755); err != nil {
		fatal("%v", err)
	}
	if err := os.WriteFile(path, []byte(content), 0o644); err != nil {
		fatal("%v", err)
	}
}

func main() {
	repo := flag.String("repo", "/repo", "repository root")
	out := flag.String("out", "", "output directory (lean/VM/Generated)")
	flag.Parse()
	if *out == "" {
		fatal("-out required")
	}
	p := load(*repo)
	writeIfChanged(filepath.Join(*out, "Facts.lean"), genFacts(p))
	writeIfChanged(filepath.Join(*out, "Values.lean"), genValues(p))
	writeIfChanged(filepath.Join(*out, "SpecFacts.lean"), genSpecFacts(p))
}
