package main

import (
	"fmt"
	"go/ast"
	"go/token"
	"sort"
	"strings"
)

// Facts about spec validation (spec.go, default_validator.go, example_validator.go) for C02, C07, C09, C10:
//
//   pipeline     the statements of (*SpecValidator).Validate that merge a stage result into errs, the guards of
//                its early returns, and its deferred bookkeeping, in source order
//   exitRanges   every `for … range X` of the package's spec-validation files whose body can leave the loop early
//                (return, break, labelled break/continue) together with a classification of X: a loop that leaves
//                early while ranging over a map reports different things from run to run
//   nilableReads every read of a field of a result returned by a function that may return nil, and whether the
//                read is guarded by a nil test on the same variable

var specFiles = []string{"spec.go", "default_validator.go", "example_validator.go", "helpers.go"}

// range expressions known to be slices (fields of go-openapi/spec types, results of listed calls)
var sliceFields = map[string]bool{"AllOf": true, "AnyOf": true, "OneOf": true, "Required": true, "Parameters": true,
	"Schemas": true, "Enum": true, "Errors": true, "Warnings": true,
	// slices and fixed-size arrays of child validators (struct fields of the package's own validator types)
	"validators": true, "anyOfValidators": true, "oneOfValidators": true, "allOfValidators": true}
var sliceCalls = map[string]bool{"strings.Split": true, "FindAllStringSubmatch": true, "OperationIDs": true, "AllRefs": true,
	"safeExpandedParamsFor": true, "extractPathParams": true, "AllParameterReferences": true, "AllResponseReferences": true, "AllDefinitionReferences": true}

type exitRange struct{ Site, Func, Expr, Exit, Class string }

func (p *pkgInfo) classifyRange(fd *ast.FuncDecl, x ast.Expr) string {
	switch e := x.(type) {
	case *ast.Ident:
		// parameter of slice / variadic type
		if fd.Type.Params != nil {
			for _, f := range fd.Type.Params.List {
				for _, n := range f.Names {
					if n.Name == e.Name {
						switch f.Type.(type) {
						case *ast.ArrayType, *ast.Ellipsis:
							return "slice"
						}
						return "param:" + p.src(f.Type)
					}
				}
			}
		}
		// local declared as a slice, built by make([]…)/append, or sorted in this function
		class := ""
		ast.Inspect(fd.Body, func(n ast.Node) bool {
			switch s := n.(type) {
			case *ast.AssignStmt:
				for i, l := range s.Lhs {
					if id, ok := l.(*ast.Ident); ok && id.Name == e.Name && i < len(s.Rhs) {
						r := p.src(s.Rhs[i])
						if strings.HasPrefix(r, "make([]") || strings.HasPrefix(r, "append(") || strings.HasPrefix(r, "[]") {
							class = "slice"
						} else if c, ok := s.Rhs[i].(*ast.CallExpr); ok && (sliceCalls[callName(c.Fun)] || sliceCalls[lastName(c.Fun)]) {
							class = "slice"
						}
					}
				}
			case *ast.DeclStmt:
				if gd, ok := s.Decl.(*ast.GenDecl); ok {
					for _, sp := range gd.Specs {
						if vs, ok := sp.(*ast.ValueSpec); ok {
							for _, n := range vs.Names {
								if n.Name == e.Name {
									if _, ok := vs.Type.(*ast.ArrayType); ok {
										class = "slice"
									}
								}
							}
						}
					}
				}
			case *ast.CallExpr:
				if callName(s.Fun) == "sort.Strings" && len(s.Args) == 1 && p.src(s.Args[0]) == e.Name {
					class = "slice"
				}
			}
			return true
		})
		if class != "" {
			return class
		}
		return "unknown:" + e.Name
	case *ast.SelectorExpr:
		if sliceFields[e.Sel.Name] {
			return "slice"
		}
		return "map-or-unknown:" + p.src(x)
	case *ast.CallExpr:
		if sliceCalls[callName(e.Fun)] || sliceCalls[lastName(e.Fun)] {
			return "slice"
		}
		return "map-or-unknown:" + p.src(x)
	}
	return "map-or-unknown:" + p.src(x)
}

func lastName(e ast.Expr) string {
	if s, ok := e.(*ast.SelectorExpr); ok {
		return s.Sel.Name
	}
	if id, ok := e.(*ast.Ident); ok {
		return id.Name
	}
	return ""
}

// exits of a range body: return anywhere (outside function literals), labelled break/continue to an
// enclosing statement, unlabelled break that belongs to this loop
func rangeExits(rs *ast.RangeStmt, ownLabel string) []string {
	seen := map[string]bool{}
	var walk func(n ast.Node, breakBelongs bool)
	walk = func(n ast.Node, breakBelongs bool) {
		if n == nil {
			return
		}
		switch s := n.(type) {
		case *ast.FuncLit:
			return
		case *ast.ReturnStmt:
			seen["return"] = true
			return
		case *ast.BranchStmt:
			if s.Tok == token.BREAK {
				if s.Label != nil {
					seen["break "+s.Label.Name] = true
				} else if breakBelongs {
					seen["break"] = true
				}
			}
			if s.Tok == token.CONTINUE && s.Label != nil && s.Label.Name != ownLabel {
				seen["continue "+s.Label.Name] = true
			}
			if s.Tok == token.GOTO {
				seen["goto"] = true
			}
			return
		case *ast.ForStmt:
			walk(s.Body, false)
			return
		case *ast.RangeStmt:
			walk(s.Body, false)
			return
		case *ast.SwitchStmt:
			walk(s.Body, false)
			return
		case *ast.TypeSwitchStmt:
			walk(s.Body, false)
			return
		case *ast.SelectStmt:
			walk(s.Body, false)
			return
		}
		ast.Inspect(n, func(c ast.Node) bool {
			if c == n || c == nil {
				return true
			}
			walk(c, breakBelongs)
			return false
		})
	}
	walk(rs.Body, true)
	var out []string
	for k := range seen {
		out = append(out, k)
	}
	sort.Strings(out)
	return out
}

func exitRangeFacts(p *pkgInfo) []exitRange { return exitRangeFactsIn(p, specFiles) }

// every other file of the package: validators, results, helpers (C08: a long-lived validator's answer must not
// depend on the order Go ranges over the instance's or the schema's maps)
func validatorExitRangeFacts(p *pkgInfo) []exitRange {
	spec := map[string]bool{}
	for _, f := range specFiles {
		spec[f] = true
	}
	var files []string
	for _, f := range p.sortedFiles() {
		if !spec[f] {
			files = append(files, f)
		}
	}
	return exitRangeFactsIn(p, files)
}

func exitRangeFactsIn(p *pkgInfo, names []string) []exitRange {
	var out []exitRange
	for _, fn := range names {
		f := p.files[fn]
		if f == nil {
			continue
		}
		for _, d := range f.Decls {
			fd, ok := d.(*ast.FuncDecl)
			if !ok || fd.Body == nil {
				continue
			}
			labels := map[*ast.RangeStmt]string{}
			ast.Inspect(fd.Body, func(n ast.Node) bool {
				if ls, ok := n.(*ast.LabeledStmt); ok {
					if rs, ok := ls.Stmt.(*ast.RangeStmt); ok {
						labels[rs] = ls.Label.Name
					}
				}
				return true
			})
			ast.Inspect(fd.Body, func(n ast.Node) bool {
				rs, ok := n.(*ast.RangeStmt)
				if !ok {
					return true
				}
				exits := rangeExits(rs, labels[rs])
				if len(exits) == 0 {
					return true
				}
				class := p.classifyRange(fd, rs.X)
				if class != "slice" && isExistenceSearch(rs) {
					class = "exists" // `if cond { flag = true; break }`: whether some key satisfies cond does not depend on the order
				}
				out = append(out, exitRange{Site: p.pos(rs), Func: funcKey(fd), Expr: p.src(rs.X),
					Exit: strings.Join(exits, ","), Class: class})
				return true
			})
		}
	}
	return out
}

// isExistenceSearch: the loop body only defines locals, skips keys with `if … { continue }`, and ends with
// `if <cond> { <ident> = true; break }` — whether some key satisfies the condition does not depend on the order
func isExistenceSearch(rs *ast.RangeStmt) bool {
	n := len(rs.Body.List)
	if n == 0 {
		return false
	}
	for _, st := range rs.Body.List[:n-1] {
		switch x := st.(type) {
		case *ast.AssignStmt:
			if x.Tok != token.DEFINE {
				return false
			}
		case *ast.IfStmt:
			if x.Else != nil || len(x.Body.List) != 1 {
				return false
			}
			br, ok := x.Body.List[0].(*ast.BranchStmt)
			if !ok || br.Tok != token.CONTINUE || br.Label != nil {
				return false
			}
		default:
			return false
		}
	}
	is, ok := rs.Body.List[n-1].(*ast.IfStmt)
	if !ok || is.Else != nil || len(is.Body.List) != 2 {
		return false
	}
	if is.Init != nil {
		if as, ok := is.Init.(*ast.AssignStmt); !ok || as.Tok != token.DEFINE {
			return false
		}
	}
	as, ok := is.Body.List[0].(*ast.AssignStmt)
	if !ok || len(as.Lhs) != 1 || len(as.Rhs) != 1 || as.Tok != token.ASSIGN {
		return false
	}
	if _, ok := as.Lhs[0].(*ast.Ident); !ok {
		return false
	}
	if id, ok := as.Rhs[0].(*ast.Ident); !ok || id.Name != "true" {
		return false
	}
	br, ok := is.Body.List[1].(*ast.BranchStmt)
	return ok && br.Tok == token.BREAK && br.Label == nil
}

// pipelineFacts: the body of (*SpecValidator).Validate from the first errs.Merge on
func pipelineFacts(p *pkgInfo) (steps []string, deferred []string) {
	fd := p.funcs()["SpecValidator.Validate"]
	if fd == nil {
		return []string{"<missing SpecValidator.Validate>"}, nil
	}
	started := false
	for _, st := range fd.Body.List {
		switch s := st.(type) {
		case *ast.DeferStmt:
			if fl, ok := s.Call.Fun.(*ast.FuncLit); ok {
				for _, ds := range fl.Body.List {
					deferred = append(deferred, p.src(ds))
				}
			} else {
				deferred = append(deferred, p.src(s.Call))
			}
		case *ast.ExprStmt:
			if c, ok := s.X.(*ast.CallExpr); ok && strings.HasPrefix(p.src(c.Fun), "errs.Merge") {
				started = true
				arg := ""
				if len(c.Args) == 1 {
					arg = p.src(c.Args[0])
				}
				steps = append(steps, p.src(c.Fun)+":"+arg)
			}
		case *ast.IfStmt:
			if started && containsReturn(s.Body) {
				steps = append(steps, "return-if:"+p.src(s.Cond))
			}
		case *ast.ReturnStmt:
			if started {
				steps = append(steps, "return")
			}
		}
	}
	return steps, deferred
}

type nilRead struct {
	Site, Func, Var, Producer, PathArg string
	Guarded                            bool
}

// producers that return nil for a visited path
var nilProducers = map[string]bool{"validateDefaultValueSchemaAgainstSchema": true, "validateExampleValueSchemaAgainstSchema": true}

func nilableReadFacts(p *pkgInfo) []nilRead {
	var out []nilRead
	for _, fn := range []string{"default_validator.go", "example_validator.go"} {
		f := p.files[fn]
		if f == nil {
			continue
		}
		for _, d := range f.Decls {
			fd, ok := d.(*ast.FuncDecl)
			if !ok || fd.Body == nil {
				continue
			}
			// blocks in which `v := recv.producer(...)` is followed by statements reading v.field
			ast.Inspect(fd.Body, func(n ast.Node) bool {
				blk, ok := n.(*ast.BlockStmt)
				if !ok {
					return true
				}
				for i, st := range blk.List {
					as, ok := st.(*ast.AssignStmt)
					if !ok || len(as.Lhs) != 1 || len(as.Rhs) != 1 {
						continue
					}
					id, ok := as.Lhs[0].(*ast.Ident)
					c, ok2 := as.Rhs[0].(*ast.CallExpr)
					if !ok || !ok2 || !nilProducers[lastName(c.Fun)] {
						continue
					}
					for _, later := range blk.List[i+1:] {
						ast.Inspect(later, func(m ast.Node) bool {
							// a field read `v.f` that is not a method call on v
							if ce, ok := m.(*ast.CallExpr); ok {
								if se, ok := ce.Fun.(*ast.SelectorExpr); ok {
									if x, ok := se.X.(*ast.Ident); ok && x.Name == id.Name {
										for _, a := range ce.Args {
											ast.Inspect(a, func(ast.Node) bool { return true })
										}
										return false // nil-tolerant method (result.go:421-457) or merge argument
									}
								}
							}
							if be, ok := m.(*ast.BinaryExpr); ok && be.Op == token.LAND {
								// `v != nil && v.field`
								if isNilTest(be.X, id.Name) {
									recordReads(p, fd, be.Y, id.Name, lastName(c.Fun), firstArg(p, c), true, &out)
									return false
								}
							}
							if se, ok := m.(*ast.SelectorExpr); ok {
								if x, ok := se.X.(*ast.Ident); ok && x.Name == id.Name {
									out = append(out, nilRead{Site: p.pos(se), Func: funcKey(fd), Var: id.Name, Producer: lastName(c.Fun), PathArg: firstArg(p, c), Guarded: false})
									return false
								}
							}
							return true
						})
					}
				}
				return true
			})
		}
	}
	return out
}

func isNilTest(e ast.Expr, name string) bool {
	be, ok := e.(*ast.BinaryExpr)
	if !ok || be.Op != token.NEQ {
		return false
	}
	x, ok1 := be.X.(*ast.Ident)
	y, ok2 := be.Y.(*ast.Ident)
	return ok1 && ok2 && x.Name == name && y.Name == "nil"
}

func firstArg(p *pkgInfo, c *ast.CallExpr) string {
	if len(c.Args) == 0 {
		return ""
	}
	return p.src(c.Args[0])
}

func recordReads(p *pkgInfo, fd *ast.FuncDecl, e ast.Expr, name, producer, pathArg string, guarded bool, out *[]nilRead) {
	ast.Inspect(e, func(m ast.Node) bool {
		if se, ok := m.(*ast.SelectorExpr); ok {
			if x, ok := se.X.(*ast.Ident); ok && x.Name == name {
				*out = append(*out, nilRead{Site: p.pos(se), Func: funcKey(fd), Var: name, Producer: producer, PathArg: pathArg, Guarded: guarded})
				return false
			}
		}
		return true
	})
}

// optionWriteFacts: every assignment to a field of SchemaValidatorOptions, anywhere in the package. The options
// object is shared by pointer through a whole validator tree (and, in spec validation, through every validator
// built for one document): a write outside the option setters changes the behaviour of validators that are
// already built (C08, C18, C19).
func optionWriteFacts(p *pkgInfo) [][2]string {
	fields := map[string]bool{}
	for _, f := range p.structFields("SchemaValidatorOptions") {
		fields[f] = true
	}
	var out [][2]string
	for _, fn := range p.sortedFiles() {
		for _, d := range p.files[fn].Decls {
			fd, ok := d.(*ast.FuncDecl)
			if !ok || fd.Body == nil {
				continue
			}
			ast.Inspect(fd.Body, func(n ast.Node) bool {
				as, ok := n.(*ast.AssignStmt)
				if !ok {
					return true
				}
				for _, l := range as.Lhs {
					if se, ok := l.(*ast.SelectorExpr); ok && fields[se.Sel.Name] {
						// the struct types of the validators have an `Options` field of their own: `x.Options = opts` is not a field write
						out = append(out, [2]string{p.pos(as), funcKey(fd) + ": " + p.src(l)})
					}
				}
				return true
			})
		}
	}
	return out
}

func genSpecFacts(p *pkgInfo) string {
	var b strings.Builder
	b.WriteString("/-\n  GENERATED by /verif/extract from /repo's spec.go, default_validator.go, example_validator.go, helpers.go.\n  Do not edit: regenerated on every run.\n-/\nnamespace VM.Generated\n\n")
	steps, deferred := pipelineFacts(p)
	b.WriteString("/-- (*SpecValidator).Validate: merges into errs, guards of the early returns, in source order -/\n")
	fmt.Fprintf(&b, "def pipeline : List String := %s\n\n", leanStrList(steps))
	b.WriteString("/-- the deferred bookkeeping of (*SpecValidator).Validate -/\n")
	fmt.Fprintf(&b, "def pipelineDeferred : List String := %s\n\n", leanStrList(deferred))
	b.WriteString("structure ExitRange where\n  site : String\n  func : String\n  expr : String\n  exit : String\n  cls : String\n  deriving Repr, DecidableEq\n\n")
	b.WriteString("/-- range loops that can be left early, with what they range over -/\ndef exitRanges : List ExitRange := [\n")
	er := exitRangeFacts(p)
	for i, e := range er {
		fmt.Fprintf(&b, "  { site := %s, func := %s, expr := %s, exit := %s, cls := %s }", leanStr(e.Site), leanStr(e.Func), leanStr(e.Expr), leanStr(e.Exit), leanStr(e.Class))
		if i+1 < len(er) {
			b.WriteString(",")
		}
		b.WriteString("\n")
	}
	b.WriteString("]\n\n")
	b.WriteString("/-- the same for every other file of the package (validators, results, values) -/\ndef validatorExitRanges : List ExitRange := [\n")
	ver := validatorExitRangeFacts(p)
	for i, e := range ver {
		fmt.Fprintf(&b, "  { site := %s, func := %s, expr := %s, exit := %s, cls := %s }", leanStr(e.Site), leanStr(e.Func), leanStr(e.Expr), leanStr(e.Exit), leanStr(e.Class))
		if i+1 < len(ver) {
			b.WriteString(",")
		}
		b.WriteString("\n")
	}
	b.WriteString("]\n\n")
	b.WriteString("/-- assignments to a field of SchemaValidatorOptions (site, function: target) -/\ndef optionWrites : List (String × String) := [\n")
	ow := optionWriteFacts(p)
	for i, e := range ow {
		fmt.Fprintf(&b, "  (%s, %s)", leanStr(e[0]), leanStr(e[1]))
		if i+1 < len(ow) {
			b.WriteString(",")
		}
		b.WriteString("\n")
	}
	b.WriteString("]\n\n")
	b.WriteString("structure NilRead where\n  site : String\n  func : String\n  var : String\n  producer : String\n  pathArg : String\n  guarded : Bool\n  deriving Repr, DecidableEq\n\n")
	b.WriteString("/-- field reads on a result that may be nil (visited path) -/\ndef nilableReads : List NilRead := [\n")
	nr := nilableReadFacts(p)
	for i, e := range nr {
		fmt.Fprintf(&b, "  { site := %s, func := %s, var := %s, producer := %s, pathArg := %s, guarded := %s }", leanStr(e.Site), leanStr(e.Func), leanStr(e.Var), leanStr(e.Producer), leanStr(e.PathArg), leanBool(e.Guarded))
		if i+1 < len(nr) {
			b.WriteString(",")
		}
		b.WriteString("\n")
	}
	b.WriteString("]\n\nend VM.Generated\n")
	return b.String()
}
