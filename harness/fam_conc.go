package main

import (
	"encoding/json"
	"fmt"
	"math/rand"
	"os"
	"sync"

	"github.com/go-openapi/spec"
	"github.com/go-openapi/validate"
)

// family "conc" (C05, C15): goroutine programs over the recycling entry points, a shared long-lived
// validator, the value helpers and the option setter. Every call's outcome is compared with the
// outcome of the same call alone. Built with -race: reports go to stderr, after the CASE marker.

func init() {
	families["conc"] = &family{gen: genConc, run: runConc}
}

func genConc(rng *rand.Rand, idx int, tier string) Case {
	g := &sgen{rng: rng, maxDepth: 2}
	n := []int{2, 3, 4, 8, 16}[rng.Intn(5)]
	if tier == "thorough" {
		n = []int{2, 4, 8, 16, 32, 64}[rng.Intn(6)]
	}
	// a shared, reference-free schema for the long-lived validator
	g.defs = nil
	shared := g.schema(2)
	delete(shared, "$ref")
	// shared long-lived parameter and header validators (no recycling), arrays with items more often than not
	sharedSimple := func() map[string]interface{} {
		s := g.simpleSchema(2)
		if g.p(60) {
			s = map[string]interface{}{"type": "array", "items": g.simpleSchema(1)}
			if g.p(30) {
				s["uniqueItems"] = true
			}
		}
		return s
	}
	sharedParam := sharedSimple()
	sharedParam["name"] = "ids"
	sharedParam["in"] = "query"
	sharedHeader := sharedSimple()
	progs := []interface{}{}
	for t := 0; t < n; t++ {
		k := 2 + rng.Intn(5)
		calls := []interface{}{}
		for i := 0; i < k; i++ {
			r := rng.Intn(100)
			switch {
			case r < 15:
				calls = append(calls, map[string]interface{}{"kind": "shared", "data": g.instance(shared)})
			case r < 21:
				calls = append(calls, map[string]interface{}{"kind": "sharedparam", "value": g.simpleValue(sharedParam, 2)})
			case r < 25:
				calls = append(calls, map[string]interface{}{"kind": "sharedheader", "value": g.simpleValue(sharedHeader, 2)})
			case r < 40:
				calls = append(calls, map[string]interface{}{"kind": "pattern", "pattern": g.pick(append(append([]string{}, patPool...), badPatPool...)), "str": g.pick(strPool)})
			case r < 48:
				calls = append(calls, map[string]interface{}{"kind": "setcontinue"})
			case r < 56:
				calls = append(calls, map[string]interface{}{"kind": "newspec"})
			case r < 64:
				// whole-specification validation of a small document, each call with a validator and a document of its own
				calls = append(calls, map[string]interface{}{"kind": "spec", "doc": rng.Intn(len(miniSpecs))})
			default:
				c := g.historyCall(tier)
				if asStr(c["kind"]) == "spec" && rng.Intn(3) > 0 {
					c = g.historyCall(tier)
				}
				calls = append(calls, c)
			}
		}
		progs = append(progs, calls)
	}
	return Case{"shared": shared, "sharedParam": sharedParam, "sharedHeader": sharedHeader, "programs": progs}
}

type sharedValidators struct {
	schema *validate.SchemaValidator
	param  *validate.ParamValidator
	header *validate.HeaderValidator
}

func runConcCall(call map[string]interface{}, sh sharedValidators) map[string]interface{} {
	switch asStr(call["kind"]) {
	case "shared":
		db, _ := json.Marshal(call["data"])
		return outcome(sh.schema.Validate(parsePlain(db)))
	case "sharedparam":
		if sh.param == nil {
			return map[string]interface{}{"valid": true, "skipped": true}
		}
		return outcome(sh.param.Validate(typedValue(call["value"])))
	case "sharedheader":
		if sh.header == nil {
			return map[string]interface{}{"valid": true, "skipped": true}
		}
		return outcome(sh.header.Validate(typedValue(call["value"])))
	case "pattern":
		err := validate.Pattern("p", "query", asStr(call["str"]), asStr(call["pattern"]))
		if err == nil {
			return map[string]interface{}{"valid": true}
		}
		return map[string]interface{}{"valid": false, "errors": []interface{}{err.Error()}}
	case "newspec":
		// constructing a spec validator copies the package-level default options
		sv := validate.NewSpecValidator(nil, newRegistry(nil))
		return map[string]interface{}{"valid": true, "continueOnErrors": sv.Options.ContinueOnErrors}
	case "setcontinue":
		validate.SetContinueOnErrors(false) // the default value: outcomes stay deterministic
		return map[string]interface{}{"valid": true}
	}
	return runCall(call, newRegistry(nil), true)
}

func runConc(c Case) interface{} {
	sb, _ := json.Marshal(c["shared"])
	progs := asList(c["programs"])
	mkShared := func() sharedValidators {
		sh := sharedValidators{schema: validate.NewSchemaValidator(parseSchemaJSON(sb), nil, "shared", newRegistry(nil))}
		if c["sharedParam"] != nil {
			pb, _ := json.Marshal(c["sharedParam"])
			p := new(spec.Parameter)
			if json.Unmarshal(pb, p) == nil {
				sh.param = validate.NewParamValidator(p, newRegistry(nil))
			}
		}
		if c["sharedHeader"] != nil {
			hb, _ := json.Marshal(c["sharedHeader"])
			h := new(spec.Header)
			if json.Unmarshal(hb, h) == nil {
				sh.header = validate.NewHeaderValidator("X-Shared", h, newRegistry(nil))
			}
		}
		return sh
	}
	// reference: every call alone, sequentially, fresh pools
	uninstallHooks()
	ref := make([][]interface{}, len(progs))
	for t, p := range progs {
		for _, cl := range asList(p) {
			validate.VerifResetPools()
			ref[t] = append(ref[t], safeCall(func() map[string]interface{} { return runConcCall(asMap(cl), mkShared()) }))
		}
	}
	// subject: all goroutines at once on shared pools and one shared long-lived validator
	validate.VerifResetPools()
	installHooks()
	tracer.reset(true)
	shared := mkShared()
	subj := make([][]interface{}, len(progs))
	var wg sync.WaitGroup
	start := make(chan struct{})
	for t, p := range progs {
		t, p := t, p
		wg.Add(1)
		go func() {
			defer wg.Done()
			<-start
			for _, cl := range asList(p) {
				subj[t] = append(subj[t], safeCall(func() map[string]interface{} { return runConcCall(asMap(cl), shared) }))
			}
		}()
	}
	fmt.Fprintf(os.Stderr, "GO %v goroutines=%d\n", c["id"], len(progs))
	close(start)
	wg.Wait()
	events := tracer.take()
	uninstallHooks()
	validate.VerifResetPools()
	toIface := func(x [][]interface{}) []interface{} {
		out := make([]interface{}, len(x))
		for i := range x {
			out[i] = x[i]
		}
		return out
	}
	return map[string]interface{}{"ref": toIface(ref), "subj": toIface(subj), "events": len(events)}
}

func safeCall(f func() map[string]interface{}) (res map[string]interface{}) {
	defer func() {
		if r := recover(); r != nil {
			res = map[string]interface{}{"panic": fmt.Sprint(r)}
		}
	}()
	return f()
}
