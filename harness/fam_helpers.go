package main

import (
	"context"
	"encoding/hex"
	"encoding/json"
	"math/rand"
	"reflect"
	"regexp"

	"github.com/go-openapi/strfmt"
	"github.com/go-openapi/validate"
)

// family "helpers" (C14): the exported value helpers on typed Go values. Values travel as tagged
// JSON ({"t": type, "v": value}); strings may be given as hex to carry invalid UTF-8.

func init() {
	families["helpers"] = &family{gen: genHelpers, run: runHelpers, prep: func(c Case) { c["oracles"] = helperOracles(c) }}
}

var hexStrings = []string{"", "61", "c3a9", "e697a5e69cac", "ff", "c3", "61ff62", "e697", "f09f9880", "eda080", "c0af", "41", "6162", "4142"}

func gv(t string, v interface{}) map[string]interface{} {
	return map[string]interface{}{"t": t, "v": v}
}

func (g *sgen) goScalar() map[string]interface{} {
	switch g.rng.Intn(12) {
	case 0:
		return gv("nil", nil)
	case 1:
		return gv("bool", g.p(50))
	case 2:
		return gv(g.pick([]string{"int", "int8", "int16", "int32", "int64"}), []interface{}{0, 1, -1, 2, 65, 127, -128, 3}[g.rng.Intn(8)])
	case 3:
		return gv(g.pick([]string{"uint", "uint8", "uint16", "uint32", "uint64"}), []interface{}{0, 1, 2, 65, 255, 3}[g.rng.Intn(6)])
	case 4:
		return gv("int64", []interface{}{256, 65536, 4294967297, 1000, 8364}[g.rng.Intn(5)])
	case 5, 6:
		return gv(g.pick([]string{"float32", "float64"}), []interface{}{0, 1, -1, 2, 2.5, 65, 0.5, 3, 256, 1.5}[g.rng.Intn(10)])
	case 7, 8, 9:
		return map[string]interface{}{"t": "string", "hex": g.pick(hexStrings)}
	case 10:
		return map[string]interface{}{"t": "named", "hex": g.pick([]string{"72657175657374", "726573706f6e7365", "6e6f6e65", "78", ""})}
	default:
		return gv(g.pick([]string{"nilslice", "nilmap", "nilptr"}), nil)
	}
}

func (g *sgen) goValue(depth int) map[string]interface{} {
	if depth <= 0 || g.p(60) {
		return g.goScalar()
	}
	if g.p(70) {
		n := g.rng.Intn(4)
		l := []interface{}{}
		for i := 0; i < n; i++ {
			l = append(l, g.goValue(depth-1))
		}
		return gv("[]interface", l)
	}
	n := g.rng.Intn(3)
	m := map[string]interface{}{}
	for i := 0; i < n; i++ {
		m[g.pick([]string{"a", "b", "c"})] = g.goValue(depth - 1)
	}
	return gv("map", m)
}

func (g *sgen) goSlice(depth int) map[string]interface{} {
	switch g.rng.Intn(7) {
	case 0:
		n := g.rng.Intn(4)
		l := []interface{}{}
		for i := 0; i < n; i++ {
			l = append(l, map[string]interface{}{"t": "string", "hex": g.pick(hexStrings)})
		}
		return gv("[]string", l)
	case 1:
		n := g.rng.Intn(4)
		l := []interface{}{}
		for i := 0; i < n; i++ {
			l = append(l, gv("int64", []interface{}{0, 1, 2, 65, 3}[g.rng.Intn(5)]))
		}
		return gv("[]int64", l)
	case 2:
		n := g.rng.Intn(4)
		l := []interface{}{}
		for i := 0; i < n; i++ {
			l = append(l, gv("uint8", []interface{}{0, 1, 2, 65}[g.rng.Intn(4)]))
		}
		return gv("[]uint8", l)
	case 3:
		return g.goScalar() // not a slice at all
	case 4:
		// numerically equal numbers of different Go types
		x := []interface{}{0, 1, 2, 65, 3}[g.rng.Intn(5)]
		l := []interface{}{gv(g.pick([]string{"int", "int8", "uint16", "int64"}), x), g.goScalar(), gv(g.pick([]string{"float64", "float32", "uint8"}), x)}
		return gv("[]interface", l)
	default:
		n := g.rng.Intn(5)
		l := []interface{}{}
		for i := 0; i < n; i++ {
			if i > 0 && g.p(30) {
				l = append(l, l[g.rng.Intn(len(l))]) // a duplicate
			} else {
				l = append(l, g.goValue(depth))
			}
		}
		return gv("[]interface", l)
	}
}

func genHelpers(rng *rand.Rand, idx int, tier string) Case {
	g := &sgen{rng: rng}
	ops := []string{"MinLength", "MaxLength", "Pattern", "UniqueItems", "Enum", "EnumCase", "MinItems", "MaxItems",
		"Required", "RequiredString", "RequiredNumber", "ReadOnly", "FormatOf", "Enum", "UniqueItems"}
	op := ops[rng.Intn(len(ops))]
	c := Case{"op": op}
	switch op {
	case "MinLength", "MaxLength":
		c["hex"] = g.pick(hexStrings)
		c["n"] = rng.Intn(5) - 1
	case "Pattern":
		c["str"] = g.pick(strPool)
		c["pattern"] = g.pick(append(append([]string{}, patPool...), badPatPool...))
	case "UniqueItems":
		c["data"] = g.goSlice(1)
		if g.p(10) {
			// pointers at different addresses to equal (or different) values: uniqueness is deep equality, not identity
			a := g.goValue(0)
			b := a
			if g.p(40) {
				b = g.goValue(0)
			}
			switch asStr(a["t"]) {
			case "bool", "string", "int", "int8", "int16", "int32", "int64", "uint", "uint8", "uint16", "uint32", "uint64", "float32", "float64":
				if asStr(b["t"]) == asStr(a["t"]) {
					c["data"] = gv("[]interface", []interface{}{gv("ptr", a), gv("ptr", b)})
				}
			}
		}
	case "Enum", "EnumCase":
		data := g.goValue(1)
		enum := g.goSlice(1)
		if l, ok := enum["v"].([]interface{}); ok && len(l) > 0 && g.p(40) {
			data = l[rng.Intn(len(l))].(map[string]interface{}) // a member
		}
		c["data"] = data
		c["enum"] = enum
		c["caseSensitive"] = op == "Enum" || g.p(50)
	case "MinItems", "MaxItems":
		c["size"] = rng.Intn(6) - 1
		c["n"] = rng.Intn(6) - 1
	case "Required":
		c["data"] = g.maybePtr(g.goValue(1))
	case "RequiredString":
		c["hex"] = g.pick(hexStrings)
	case "RequiredNumber":
		c["x"] = []interface{}{0, 1, -1, 0.5, 1e-300}[rng.Intn(5)]
	case "ReadOnly":
		c["ctx"] = g.pick([]string{"request", "response", "none", "absent", "bogus"})
		c["data"] = g.maybePtr(g.goValue(1))
	case "FormatOf":
		c["format"] = g.pick([]string{"date", "email", "uuid", "unknownfmt", ""})
		c["str"] = g.pick(strPool)
		c["nilRegistry"] = g.p(30)
	}
	return c
}

type opTypeLike string

// maybePtr wraps a scalar into a non-nil pointer now and then: a pointer is zero only when it is nil,
// whatever it points to
func (g *sgen) maybePtr(v map[string]interface{}) map[string]interface{} {
	if !g.p(20) {
		return v
	}
	switch asStr(v["t"]) {
	case "bool", "string", "int", "int8", "int16", "int32", "int64", "uint", "uint8", "uint16", "uint32", "uint64", "float32", "float64":
		return gv("ptr", v)
	}
	return v
}

// decodeGoVal builds the Go value a tagged JSON value stands for
func decodeGoVal(m map[string]interface{}) interface{} {
	t := asStr(m["t"])
	n := func() float64 { return num(m["v"]) }
	switch t {
	case "nil":
		return nil
	case "bool":
		b, _ := m["v"].(bool)
		return b
	case "int", "int8", "int16", "int32", "int64", "uint", "uint8", "uint16", "uint32", "uint64", "float32", "float64":
		return typedNumber(t, n())
	case "string":
		b, _ := hex.DecodeString(asStr(m["hex"]))
		return string(b)
	case "named":
		b, _ := hex.DecodeString(asStr(m["hex"]))
		return opTypeLike(b)
	case "nilslice":
		return []string(nil)
	case "nilmap":
		return map[string]interface{}(nil)
	case "nilptr":
		return (*int)(nil)
	case "ptr":
		inner := decodeGoVal(asMap(m["v"]))
		p := reflect.New(reflect.TypeOf(inner))
		p.Elem().Set(reflect.ValueOf(inner))
		return p.Interface()
	case "[]interface":
		out := []interface{}{}
		for _, e := range asList(m["v"]) {
			out = append(out, decodeGoVal(asMap(e)))
		}
		return out
	case "[]string":
		out := []string{}
		for _, e := range asList(m["v"]) {
			out = append(out, decodeGoVal(asMap(e)).(string))
		}
		return out
	case "[]int64":
		out := []int64{}
		for _, e := range asList(m["v"]) {
			out = append(out, decodeGoVal(asMap(e)).(int64))
		}
		return out
	case "[]uint8":
		out := []uint8{}
		for _, e := range asList(m["v"]) {
			out = append(out, decodeGoVal(asMap(e)).(uint8))
		}
		return out
	case "map":
		out := map[string]interface{}{}
		for k, e := range asMap(m["v"]) {
			out[k] = decodeGoVal(asMap(e))
		}
		return out
	}
	panic("harness: unknown go value tag " + t)
}

func snapshot(v interface{}) string {
	b, _ := json.Marshal(v)
	return string(b) + "|" + reflect.TypeOf(v).String()
}

func runHelpers(c Case) interface{} {
	hexStr := func(k string) string {
		b, _ := hex.DecodeString(asStr(c[k]))
		return string(b)
	}
	once := func() (bool, string) {
		switch asStr(c["op"]) {
		case "MinLength":
			return validate.MinLength("p", "query", hexStr("hex"), int64(asInt(c["n"]))) != nil, ""
		case "MaxLength":
			return validate.MaxLength("p", "query", hexStr("hex"), int64(asInt(c["n"]))) != nil, ""
		case "Pattern":
			return validate.Pattern("p", "query", asStr(c["str"]), asStr(c["pattern"])) != nil, ""
		case "UniqueItems":
			d := decodeGoVal(asMap(c["data"]))
			before := ""
			if d != nil {
				before = snapshot(d)
			}
			err := validate.UniqueItems("p", "query", d)
			if d != nil && snapshot(d) != before {
				return err != nil, "argument changed"
			}
			return err != nil, ""
		case "Enum", "EnumCase":
			d := decodeGoVal(asMap(c["data"]))
			e := decodeGoVal(asMap(c["enum"]))
			cs, _ := c["caseSensitive"].(bool)
			var before string
			if e != nil {
				before = snapshot(e)
			}
			var err error
			if asStr(c["op"]) == "Enum" {
				if v := validate.Enum("p", "query", d, e); v != nil {
					err = v
				}
			} else if v := validate.EnumCase("p", "query", d, e, cs); v != nil {
				err = v
			}
			if e != nil && snapshot(e) != before {
				return err != nil, "argument changed"
			}
			return err != nil, ""
		case "MinItems":
			return validate.MinItems("p", "query", int64(asInt(c["size"])), int64(asInt(c["n"]))) != nil, ""
		case "MaxItems":
			return validate.MaxItems("p", "query", int64(asInt(c["size"])), int64(asInt(c["n"]))) != nil, ""
		case "Required":
			return validate.Required("p", "query", decodeGoVal(asMap(c["data"]))) != nil, ""
		case "RequiredString":
			return validate.RequiredString("p", "query", hexStr("hex")) != nil, ""
		case "RequiredNumber":
			return validate.RequiredNumber("p", "query", num(c["x"])) != nil, ""
		case "ReadOnly":
			ctx := context.Background()
			switch asStr(c["ctx"]) {
			case "request":
				ctx = validate.WithOperationRequest(ctx)
			case "response":
				ctx = validate.WithOperationResponse(ctx)
			case "none", "absent":
			case "bogus":
				ctx = context.WithValue(ctx, "operationType", "request") //nolint: a foreign key must not count
			}
			return validate.ReadOnly(ctx, "p", "query", decodeGoVal(asMap(c["data"]))) != nil, ""
		case "FormatOf":
			var reg strfmt.Registry = strfmt.Default
			if b, _ := c["nilRegistry"].(bool); b {
				reg = nil
			}
			return validate.FormatOf("p", "query", asStr(c["format"]), asStr(c["str"]), reg) != nil, ""
		}
		panic("harness: unknown helper op")
	}
	e1, note := once()
	e2, _ := once()
	return map[string]interface{}{"err": e1, "again": e2, "note": note}
}

func helperOracles(c Case) map[string]interface{} {
	re := []interface{}{}
	if p, ok := c["pattern"].(string); ok {
		rx, err := regexp.Compile(p)
		if err != nil {
			re = append(re, []interface{}{p, "", -1})
		} else {
			v := 0
			if rx.MatchString(asStr(c["str"])) {
				v = 1
			}
			re = append(re, []interface{}{p, asStr(c["str"]), v})
		}
	}
	fk, fm := []interface{}{}, []interface{}{}
	if f, ok := c["format"].(string); ok {
		known := strfmt.Default.ContainsName(f)
		fk = append(fk, []interface{}{f, known})
		if known {
			fm = append(fm, []interface{}{f, asStr(c["str"]), strfmt.Default.Validates(f, asStr(c["str"]))})
		}
	}
	return map[string]interface{}{"re": re, "fmtKnown": fk, "fmt": fm, "isInt": []interface{}{}, "mulOf": []interface{}{}}
}
