package main

import (
	"encoding/json"
	"fmt"
	"math/rand"
	"os"
	"sort"

	"github.com/go-openapi/errors"
	"github.com/go-openapi/spec"
	"github.com/go-openapi/strfmt"
	"github.com/go-openapi/validate"
)

// family "history" (C04, C11): finite sequences of calls through the recycling entry points.
// Subject: one process-wide set of pools for the whole history, scribble-on-redeem on.
// Reference: every call alone, fresh pools, recycling off wherever the API allows.

func init() {
	families["history"] = &family{gen: genHistory, run: runHistory}
	families["historypanic"] = &family{gen: genHistoryPanic, run: runHistory}
}

var simpleTypes = []string{"string", "integer", "number", "boolean", "array"}

func (g *sgen) simpleSchema(depth int) map[string]interface{} {
	t := g.pick(simpleTypes)
	if depth <= 0 && t == "array" {
		t = "string"
	}
	s := map[string]interface{}{"type": t}
	switch t {
	case "string":
		if g.p(40) {
			s["minLength"] = g.smallInt()
		}
		if g.p(40) {
			s["maxLength"] = 1 + g.smallInt()
		}
		if g.p(30) {
			s["pattern"] = g.pick(patPool)
		}
		if g.p(20) {
			s["format"] = g.pick([]string{"date", "email", "uuid"})
		}
		if g.p(20) {
			s["enum"] = []interface{}{g.pick(strPool), g.pick(strPool)}
		}
	case "integer", "number":
		if g.p(40) {
			s["minimum"] = []interface{}{0, 1, -1, 2, 3}[g.rng.Intn(5)]
		}
		if g.p(40) {
			s["maximum"] = []interface{}{3, 7, 10, 100}[g.rng.Intn(4)]
		}
		if g.p(25) {
			s["multipleOf"] = []interface{}{1, 2, 3}[g.rng.Intn(3)]
		}
		if g.p(15) {
			s["enum"] = []interface{}{1, 2, 3}
		}
	case "array":
		s["items"] = g.simpleSchema(depth - 1)
		if g.p(30) {
			s["minItems"] = g.smallInt()
		}
		if g.p(30) {
			s["maxItems"] = 1 + g.smallInt()
		}
		if g.p(25) {
			s["uniqueItems"] = true
		}
	}
	return s
}

func (g *sgen) simpleValue(s map[string]interface{}, depth int) interface{} {
	t, _ := s["type"].(string)
	if g.p(15) {
		t = g.pick(simpleTypes) // wrong kind on purpose
	}
	switch t {
	case "string":
		return g.pick(strPool)
	case "integer":
		return map[string]interface{}{"int64": []interface{}{0, 1, -1, 2, 3, 4, 7, 10, 101}[g.rng.Intn(9)]}
	case "number":
		return []interface{}{0, 1.5, -1, 2, 3, 4.25, 7, 10, 101}[g.rng.Intn(9)]
	case "boolean":
		return g.p(50)
	case "array":
		n := g.rng.Intn(4)
		items, _ := s["items"].(map[string]interface{})
		l := []interface{}{}
		for i := 0; i < n; i++ {
			if items != nil && depth > 0 {
				l = append(l, g.simpleValue(items, depth-1))
			} else {
				l = append(l, g.pick(strPool))
			}
		}
		return l
	}
	return g.pick(strPool)
}

func (g *sgen) historyCall(tier string) map[string]interface{} {
	r := g.rng.Intn(100)
	switch {
	case r < 45:
		g.maxDepth = 1 + g.rng.Intn(2)
		s := g.rootSchema()
		var v interface{}
		if g.p(8) {
			v = nil
		} else {
			v = g.instance(s)
		}
		kind := "against"
		if g.p(40) {
			kind = "recycle"
		}
		c := map[string]interface{}{"kind": kind, "schema": s, "data": v}
		if g.p(10) {
			c["number"] = true // json.Number carrier: conversion failures end the call early
		}
		if g.p(4) {
			c["schema"] = nil // no schema at all: the nil validator answers with the shared empty result
		}
		return c
	case r < 70:
		s := g.simpleSchema(2)
		s["name"] = g.pick([]string{"p", "q", "limit"})
		s["in"] = "query"
		if g.p(30) {
			s["required"] = true
		}
		return map[string]interface{}{"kind": "param", "param": s, "value": g.simpleValue(s, 2)}
	case r < 90:
		s := g.simpleSchema(2)
		return map[string]interface{}{"kind": "header", "name": g.pick([]string{"X-Rate", "h"}), "header": s, "value": g.simpleValue(s, 2)}
	default:
		return map[string]interface{}{"kind": "spec", "doc": g.rng.Intn(len(miniSpecs))}
	}
}

func genHistory(rng *rand.Rand, idx int, tier string) Case {
	g := &sgen{rng: rng, maxDepth: 2}
	n := 2 + rng.Intn(6)
	if tier == "thorough" {
		n = 2 + rng.Intn(14)
	}
	calls := []interface{}{}
	for i := 0; i < n; i++ {
		calls = append(calls, g.historyCall(tier))
	}
	return Case{"calls": calls}
}

// histories with a panicking format checker: schemas use the format "panicky" on strings
func genHistoryPanic(rng *rand.Rand, idx int, tier string) Case {
	g := &sgen{rng: rng, maxDepth: 2}
	n := 3 + rng.Intn(5)
	calls := []interface{}{}
	for i := 0; i < n; i++ {
		if g.p(35) {
			// the caller's checker runs under a parameter or header validator (recycled in the subject history)
			leaf := func() map[string]interface{} { return map[string]interface{}{"type": "string", "format": "panicky"} }
			s := leaf()
			var v interface{} = g.pick(strPool)
			if g.p(50) {
				s = map[string]interface{}{"type": "array", "items": leaf()}
				v = []interface{}{g.pick(strPool), g.pick(strPool), g.pick(strPool)}
			}
			if g.p(50) {
				s["name"], s["in"] = "p", "query"
				calls = append(calls, map[string]interface{}{"kind": "param", "param": s, "value": v})
			} else {
				calls = append(calls, map[string]interface{}{"kind": "header", "name": "h", "header": s, "value": v})
			}
			continue
		}
		s := g.rootSchema()
		v := plantFormat(g, s, 3)
		if g.p(15) {
			v = g.instance(s)
		}
		kind := "against"
		if g.p(30) {
			kind = "recycle"
		}
		calls = append(calls, map[string]interface{}{"kind": kind, "schema": s, "data": v})
	}
	return Case{"calls": calls, "panicAt": 1 + rng.Intn(4), "panicCall": rng.Intn(n)}
}

// plantFormat puts {"type":"string","format":"panicky"} at a few places and returns an instance that
// makes the checker run several times
func plantFormat(g *sgen, s map[string]interface{}, budget int) interface{} {
	leaf := func() map[string]interface{} { return map[string]interface{}{"type": "string", "format": "panicky"} }
	delete(s, "type")
	delete(s, "enum")
	delete(s, "$ref")
	delete(s, "minProperties")
	delete(s, "maxProperties")
	delete(s, "minItems")
	delete(s, "maxItems")
	str := func() interface{} { return g.pick([]string{"a", "bb", "ccc", "dddd"}) }
	switch g.rng.Intn(9) {
	case 4:
		// the checker runs below a `not` (its child validator is borrowed and released around the call)
		s["not"] = map[string]interface{}{"items": leaf(), "minItems": 9}
		return []interface{}{str(), str(), str()}
	case 5:
		s["oneOf"] = []interface{}{map[string]interface{}{"type": "integer"}, map[string]interface{}{"items": leaf()},
			map[string]interface{}{"not": map[string]interface{}{"additionalProperties": leaf(), "required": []interface{}{"zz"}}}}
		if g.p(50) {
			return map[string]interface{}{"k": str(), "k2": str()}
		}
		return []interface{}{str(), str(), str()}
	case 6:
		s["dependencies"] = map[string]interface{}{"a": map[string]interface{}{"properties": map[string]interface{}{"b": leaf(), "c": leaf()}}}
		s["patternProperties"] = map[string]interface{}{"^x": leaf()}
		return map[string]interface{}{"a": 1, "b": str(), "c": str(), "x1": str()}
	case 7:
		s["items"] = []interface{}{leaf()}
		s["additionalItems"] = map[string]interface{}{"not": map[string]interface{}{"type": "string", "format": "panicky", "minLength": 9}}
		return []interface{}{str(), str(), str()}
	case 8:
		s["allOf"] = []interface{}{map[string]interface{}{"not": map[string]interface{}{"properties": map[string]interface{}{"k": leaf()}, "required": []interface{}{"zz"}}},
			map[string]interface{}{"anyOf": []interface{}{map[string]interface{}{"additionalProperties": leaf()}, map[string]interface{}{"type": "array"}}}}
		return map[string]interface{}{"k": str(), "k2": str()}
	case 0:
		s["properties"] = map[string]interface{}{"a": leaf(), "b": map[string]interface{}{"items": leaf()}}
		return map[string]interface{}{"a": str(), "b": []interface{}{str(), str(), str()}}
	case 1:
		s["anyOf"] = []interface{}{map[string]interface{}{"type": "integer"}, leaf(), map[string]interface{}{"items": leaf()}}
		if g.p(50) {
			return str()
		}
		return []interface{}{str(), str(), str()}
	case 2:
		s["items"] = leaf()
		return []interface{}{str(), str(), str(), str()}
	default:
		s["allOf"] = []interface{}{map[string]interface{}{"additionalProperties": leaf()}, map[string]interface{}{"items": []interface{}{leaf(), leaf()}}}
		if g.p(50) {
			return map[string]interface{}{"k": str(), "k2": str(), "k3": str()}
		}
		return []interface{}{str(), str(), str()}
	}
}

type panickyFormat string

func (p panickyFormat) MarshalText() ([]byte, error) { return []byte(p), nil }
func (p *panickyFormat) UnmarshalText(b []byte) error {
	*p = panickyFormat(b)
	return nil
}
func (p panickyFormat) String() string { return string(p) }

type panicky struct {
	count, at int
	armed     bool
}

func newRegistry(pk *panicky) strfmt.Registry {
	reg := strfmt.NewSeededFormats(nil, nil)
	for _, n := range []string{"date", "email", "uuid", "date-time"} {
		n := n
		var tt panickyFormat
		reg.Add(n, &tt, func(s string) bool { return strfmt.Default.Validates(n, s) })
	}
	var t panickyFormat
	reg.Add("panicky", &t, func(s string) bool {
		if pk != nil && pk.armed {
			pk.count++
			if pk.count == pk.at {
				panic("injected panic in a caller-supplied format checker")
			}
		}
		return len(s)%2 == 0
	})
	return reg
}

func typedValue(v interface{}) interface{} {
	switch x := v.(type) {
	case map[string]interface{}:
		if n, ok := x["int64"]; ok {
			f, _ := n.(json.Number).Int64()
			return f
		}
	case json.Number:
		f, _ := x.Float64()
		return f
	case []interface{}:
		// homogeneous slices as generated servers pass them
		allStr, allNum := true, true
		for _, e := range x {
			if _, ok := e.(string); !ok {
				allStr = false
			}
			if _, ok := e.(json.Number); !ok {
				allNum = false
			}
		}
		if allStr {
			out := make([]string, len(x))
			for i, e := range x {
				out[i] = e.(string)
			}
			return out
		}
		if allNum {
			out := make([]float64, len(x))
			for i, e := range x {
				out[i], _ = e.(json.Number).Float64()
			}
			return out
		}
		out := make([]interface{}, len(x))
		for i, e := range x {
			out[i] = typedValue(e)
			if out[i] == nil {
				out[i] = ""
			}
		}
		return out
	}
	return v
}

func outcome(res *validate.Result) map[string]interface{} {
	if res == nil {
		return map[string]interface{}{"nil": true, "valid": true, "errors": []interface{}{}, "warnings": []interface{}{}}
	}
	return map[string]interface{}{"valid": res.IsValid(), "errors": msgSet(res.Errors), "warnings": msgSet(res.Warnings)}
}

func msgSet(es []error) []interface{} {
	seen := map[string]bool{}
	for _, e := range es {
		seen[e.Error()] = true
	}
	keys := make([]string, 0, len(seen))
	for k := range seen {
		keys = append(keys, k)
	}
	sort.Strings(keys)
	out := make([]interface{}, len(keys))
	for i, k := range keys {
		out[i] = k
	}
	return out
}

// runCall performs one call; recycle=false is the reference variant (no recycling where the API allows)
func runCall(call map[string]interface{}, reg strfmt.Registry, recycle bool) (res map[string]interface{}) {
	defer func() {
		if r := recover(); r != nil {
			res = map[string]interface{}{"panic": fmt.Sprint(r)}
		}
	}()
	switch asStr(call["kind"]) {
	case "against", "recycle":
		sb, _ := json.Marshal(call["schema"])
		db, _ := json.Marshal(call["data"])
		sch := parseSchemaJSON(sb)
		if call["schema"] == nil {
			sch = nil
		}
		var data interface{}
		if b, _ := call["number"].(bool); b {
			data = parseNumberData(db)
		} else {
			data = parsePlain(db)
		}
		if !recycle {
			return outcome(validate.NewSchemaValidator(sch, nil, "", reg).Validate(data))
		}
		if asStr(call["kind"]) == "against" {
			err := validate.AgainstSchema(sch, data, reg)
			if err == nil {
				return map[string]interface{}{"valid": true, "errors": []interface{}{}, "warnings": []interface{}{}}
			}
			ce, _ := err.(*errors.CompositeError)
			return map[string]interface{}{"valid": false, "errors": msgSet(ce.Errors), "warnings": []interface{}{}}
		}
		return outcome(validate.NewSchemaValidator(sch, nil, "", reg, validate.WithRecycleValidators(true)).Validate(data))
	case "param":
		pb, _ := json.Marshal(call["param"])
		p := new(spec.Parameter)
		if err := json.Unmarshal(pb, p); err != nil {
			panic("harness: parameter does not decode: " + err.Error())
		}
		v := typedValue(call["value"])
		if !recycle {
			return outcome(validate.NewParamValidator(p, reg).Validate(v))
		}
		return outcome(validate.NewParamValidator(p, reg, validate.WithRecycleValidators(true)).Validate(v))
	case "header":
		hb, _ := json.Marshal(call["header"])
		h := new(spec.Header)
		if err := json.Unmarshal(hb, h); err != nil {
			panic("harness: header does not decode: " + err.Error())
		}
		v := typedValue(call["value"])
		if !recycle {
			return outcome(validate.NewHeaderValidator(asStr(call["name"]), h, reg).Validate(v))
		}
		return outcome(validate.NewHeaderValidator(asStr(call["name"]), h, reg, validate.WithRecycleValidators(true)).Validate(v))
	case "spec":
		doc := loadMiniSpec(asInt(call["doc"]))
		errs, warns := validate.NewSpecValidator(doc.Schema(), reg).Validate(doc)
		return map[string]interface{}{"valid": errs.IsValid(), "errors": msgSet(errs.Errors), "warnings": msgSet(warns.Errors)}
	}
	panic("harness: unknown call kind")
}

func runHistory(c Case) interface{} {
	calls := asList(c["calls"])
	panicAt := asInt(c["panicAt"])
	panicCall := asInt(c["panicCall"])
	// reference: each call alone
	uninstallHooks()
	ref := []interface{}{}
	for _, cl := range calls {
		validate.VerifResetPools()
		ref = append(ref, runCall(asMap(cl), newRegistry(nil), false))
	}
	// subject: one history through persistent pools, scribbling on
	validate.VerifResetPools()
	installHooks()
	tracer.reset(true)
	pk := &panicky{at: panicAt}
	reg := newRegistry(pk)
	subj := []interface{}{}
	traces := []interface{}{}
	for i, cl := range calls {
		pk.armed = panicAt > 0 && i == panicCall
		pk.count = 0
		fmt.Fprintf(os.Stderr, "CALL %v %d\n", c["id"], i)
		subj = append(subj, runCall(asMap(cl), reg, true))
		traces = append(traces, eventsJSON(tracer.take()))
	}
	uninstallHooks()
	validate.VerifResetPools()
	return map[string]interface{}{"ref": ref, "subj": subj, "traces": traces}
}
