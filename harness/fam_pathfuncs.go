package main

import (
	"math/rand"

	"github.com/go-openapi/validate"
)

// family "pathfuncs" (C03, C09): the three string functions the spec rules and the default/example
// traversals rest on, exported through the verif hooks, on random strings over a small alphabet:
//   extract : pathHelper.extractPathParams      (helpers.go:148-158)
//   strip   : pathHelper.stripParametersInPath  (helpers.go:130-146)
//   visited : isVisited                          (default_validator.go:46-73)

func init() {
	families["pathfuncs"] = &family{gen: genPathFuncs, run: runPathFuncs}
}

var pfAlphabet = []string{"{", "}", "/", "a", "b", "id", " ", "-", "{id}", "{a}", "{}", "é", "."}
var dottedParts = []string{"a", "b", "definitions", "items", "default", "a.a", "s", "x", "allOf[0]", "", "é", "properties"}

func genPathFuncs(rng *rand.Rand, idx int, tier string) Case {
	switch rng.Intn(3) {
	case 0, 1:
		n := rng.Intn(9)
		s := ""
		for i := 0; i < n; i++ {
			s += pfAlphabet[rng.Intn(len(pfAlphabet))]
		}
		op := "extract"
		if rng.Intn(2) == 0 {
			op = "strip"
		}
		return Case{"op": op, "path": s}
	default:
		n := 1 + rng.Intn(5)
		s := ""
		for i := 0; i < n; i++ {
			if i > 0 {
				s += "."
			}
			s += dottedParts[rng.Intn(len(dottedParts))]
		}
		vis := []interface{}{}
		for i := rng.Intn(3); i > 0; i-- {
			if rng.Intn(3) == 0 {
				vis = append(vis, s)
			} else {
				vis = append(vis, dottedParts[rng.Intn(len(dottedParts))]+"."+dottedParts[rng.Intn(len(dottedParts))])
			}
		}
		return Case{"op": "visited", "path": s, "visited": vis}
	}
}

func runPathFuncs(c Case) interface{} {
	path := asStr(c["path"])
	switch asStr(c["op"]) {
	case "extract":
		out := []interface{}{}
		for _, p := range validate.VerifExtractPathParams(path) {
			out = append(out, p)
		}
		return map[string]interface{}{"list": out}
	case "strip":
		return map[string]interface{}{"str": validate.VerifStripParametersInPath(path)}
	default:
		set := map[string]struct{}{}
		for _, v := range asList(c["visited"]) {
			set[asStr(v)] = struct{}{}
		}
		return map[string]interface{}{"bool": validate.VerifIsVisited(path, set)}
	}
}
