package main

import (
	"encoding/json"
	"math/rand"

	"github.com/go-openapi/strfmt"
	"github.com/go-openapi/validate"
	"github.com/go-openapi/validate/post"
)

// family "post" (C18, C19): validate valid data, then post.ApplyDefaults / post.Prune.

func init() {
	prep := func(c Case) { c["oracles"] = buildOracles(c["schema"], c["data"]) }
	families["post"] = &family{gen: genPost, run: runPost, prep: prep}
}

// object-heavy schemas with defaults at every depth and composition
func (g *sgen) postSchema(depth int) map[string]interface{} {
	s := map[string]interface{}{}
	r := g.rng.Intn(100)
	switch {
	case depth <= 0 || r < 25:
		t := g.pick([]string{"string", "integer", "boolean", "number"})
		s["type"] = t
		if g.p(20) {
			s["type"] = []interface{}{t, "null"} // a present member holding null is still present (and described)
		} else if g.p(8) {
			delete(s, "type")
		}
		if g.p(40) {
			switch t {
			case "string":
				s["default"] = g.pick([]string{"d", "dd", ""})
			case "integer":
				s["default"] = g.rng.Intn(5)
			case "number":
				s["default"] = []interface{}{0.5, 1.5, 2}[g.rng.Intn(3)]
			case "boolean":
				s["default"] = g.p(50)
			}
		}
	case r < 75:
		s["type"] = "object"
		props := map[string]interface{}{}
		n := 1 + g.rng.Intn(3)
		for i := 0; i < n; i++ {
			props[g.pick([]string{"a", "b", "c", "d", "a.a", "é"})] = g.postSchema(depth - 1)
		}
		s["properties"] = props
		if g.p(25) {
			s["patternProperties"] = map[string]interface{}{g.pick([]string{"^x", "^a", "z$"}): g.postSchema(depth - 1)}
		}
		switch g.rng.Intn(5) {
		case 0:
			s["additionalProperties"] = g.postSchema(depth - 1)
		case 1:
			s["additionalProperties"] = true
		case 2:
			s["additionalProperties"] = false // closed object: pattern-matched members are still described
		}
		if g.p(20) {
			s["default"] = map[string]interface{}{"a": 1}
		}
		if g.p(12) {
			s["not"] = map[string]interface{}{"type": g.pick([]string{"string", "array"})} // satisfied by every object
		}
	case r < 88:
		s["type"] = "array"
		if g.p(70) {
			s["items"] = g.postSchema(depth - 1)
		} else {
			s["items"] = []interface{}{g.postSchema(depth - 1), g.postSchema(depth - 1)}
			if g.p(50) {
				s["additionalItems"] = g.postSchema(depth - 1)
			}
		}
	default:
		key := g.pick([]string{"allOf", "anyOf", "oneOf"})
		n := 1 + g.rng.Intn(3)
		l := []interface{}{}
		for i := 0; i < n; i++ {
			sub := g.postSchema(depth - 1)
			if key != "allOf" && g.p(50) {
				sub["required"] = []interface{}{g.pick([]string{"a", "b", "zz"})}
			}
			l = append(l, sub)
		}
		s[key] = l
		if g.p(50) {
			s["properties"] = map[string]interface{}{g.pick([]string{"a", "b", "e"}): g.postSchema(depth - 1)}
		}
	}
	return s
}

func genPost(rng *rand.Rand, idx int, tier string) Case {
	g := &sgen{rng: rng, maxDepth: 3}
	s := g.postSchema(2 + rng.Intn(2))
	var v interface{}
	// look for a valid instance: schema-directed construction, a few attempts
	for try := 0; try < 6; try++ {
		v = round15(g.instanceFor(s, s, 4))
		g.addPatternMembers(s, v, 3)
		if m, ok := v.(map[string]interface{}); ok && g.p(60) {
			m[g.pick([]string{"x1", "zz", "extra", "a", "az"})] = g.anyValue(1) // undescribed members for pruning
			if inner, ok := m["a"].(map[string]interface{}); ok && g.p(50) {
				inner["extra2"] = 1
			}
		}
		sb, _ := json.Marshal(s)
		db, _ := json.Marshal(v)
		if validate.NewSchemaValidator(parseSchemaJSON(sb), nil, "", strfmt.Default).Validate(parsePlain(db)).IsValid() {
			break
		}
	}
	return Case{"schema": s, "data": v}
}

func runPost(c Case) interface{} {
	sb, _ := json.Marshal(c["schema"])
	db, _ := json.Marshal(c["data"])
	out := map[string]interface{}{}
	validate.VerifResetPools()
	res := validate.NewSchemaValidator(parseSchemaJSON(sb), nil, "", strfmt.Default).Validate(parsePlain(db))
	out["valid"] = res.IsValid()
	if !res.IsValid() {
		return out
	}
	post.ApplyDefaults(res)
	out["defaulted"] = res.Data()
	res2 := validate.NewSchemaValidator(parseSchemaJSON(sb), nil, "", strfmt.Default).Validate(parsePlain(db))
	post.Prune(res2)
	out["pruned"] = res2.Data()
	// prune again: validate the pruned data and prune once more
	pb, _ := json.Marshal(res2.Data())
	res3 := validate.NewSchemaValidator(parseSchemaJSON(sb), nil, "", strfmt.Default).Validate(parsePlain(pb))
	out["prunedValid"] = res3.IsValid()
	if res3.IsValid() {
		post.Prune(res3)
		out["prunedTwice"] = res3.Data()
	}
	// recycling variant of the validator must record the same schemata
	res4 := validate.NewSchemaValidator(parseSchemaJSON(sb), nil, "", strfmt.Default, validate.WithRecycleValidators(true)).Validate(parsePlain(db))
	post.ApplyDefaults(res4)
	out["defaultedRecycled"] = res4.Data()
	return out
}

var patternWitness = map[string]string{"^x": "x1", "^a": "az", "z$": "zz"}

// addPatternMembers adds, at every object of the instance, members whose names match the schema's pattern properties
func (g *sgen) addPatternMembers(s map[string]interface{}, v interface{}, depth int) {
	m, ok := v.(map[string]interface{})
	if !ok || depth <= 0 {
		if l, ok := v.([]interface{}); ok {
			if it, ok := s["items"].(map[string]interface{}); ok {
				for _, e := range l {
					g.addPatternMembers(it, e, depth-1)
				}
			}
		}
		return
	}
	if pp, ok := s["patternProperties"].(map[string]interface{}); ok {
		for _, pat := range sortedKeys(pp) {
			name := patternWitness[pat]
			if ps, ok := pp[pat].(map[string]interface{}); ok && name != "" && g.p(70) {
				if _, has := m[name]; !has {
					m[name] = round15(g.instanceFor(ps, s, 2))
				}
			}
		}
	}
	if props, ok := s["properties"].(map[string]interface{}); ok {
		for _, k := range sortedKeys(props) {
			if ps, ok := props[k].(map[string]interface{}); ok {
				if sub, has := m[k]; has {
					g.addPatternMembers(ps, sub, depth-1)
				}
			}
		}
	}
}
