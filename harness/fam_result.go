package main

import (
	"errors"
	"math/rand"

	"github.com/go-openapi/validate"
)

// family "result" (C20): operation sequences over validate.Result values.

var msgPool = []string{"a", "b", "c", "d", "path.x in body is required", "e", ""}

func init() {
	families["result"] = &family{gen: genResult, run: runResult}
}

func genResult(rng *rand.Rand, idx int, tier string) Case {
	slots := 2 + rng.Intn(3)
	maxOps := 10
	if tier == "thorough" {
		maxOps = 40
	}
	nops := 1 + rng.Intn(maxOps)
	// track nil-ness and error counts well enough to avoid nil receivers / out-of-range writes
	isNil := make([]bool, slots)
	ops := []interface{}{}
	pickMsgs := func() []interface{} {
		k := rng.Intn(5)
		es := []interface{}{}
		for j := 0; j < k; j++ {
			if rng.Intn(6) == 0 {
				es = append(es, nil)
			} else {
				es = append(es, msgPool[rng.Intn(len(msgPool))])
			}
		}
		return es
	}
	nonNil := func() int {
		for t := 0; t < 20; t++ {
			i := rng.Intn(slots)
			if !isNil[i] {
				return i
			}
		}
		return -1
	}
	for len(ops) < nops {
		i := nonNil()
		r := rng.Intn(100)
		switch {
		case i < 0 || r < 4:
			j := rng.Intn(slots)
			isNil[j] = false
			ops = append(ops, map[string]interface{}{"op": "fresh", "i": j})
		case r < 8:
			j := rng.Intn(slots)
			isNil[j] = true
			ops = append(ops, map[string]interface{}{"op": "setNil", "i": j})
		case r < 30:
			ops = append(ops, map[string]interface{}{"op": "addErrors", "i": i, "es": pickMsgs()})
		case r < 45:
			ops = append(ops, map[string]interface{}{"op": "addWarnings", "i": i, "es": pickMsgs()})
		case r < 70:
			k := 1 + rng.Intn(3)
			js := []interface{}{}
			if rng.Intn(4) == 0 {
				// a nil operand in front of the others: nils are skipped, what follows them is still merged
				if j := rng.Intn(slots); j != i {
					isNil[j] = true
					ops = append(ops, map[string]interface{}{"op": "setNil", "i": j})
					js = append(js, j)
				}
			}
			for t := 0; t < k; t++ {
				js = append(js, rng.Intn(slots))
			}
			name := "merge"
			switch rng.Intn(4) {
			case 0:
				name = "mergeAsErrors"
			case 1:
				name = "mergeAsWarnings"
			}
			ops = append(ops, map[string]interface{}{"op": name, "i": i, "js": js})
		case r < 80:
			ops = append(ops, map[string]interface{}{"op": "inc", "i": i})
		default:
			// raw write into an existing element of the exported Errors slice: index is taken
			// modulo the current length at run time on both sides ("k" is resolved by the runner
			// and recorded), so generate a candidate index only
			ops = append(ops, map[string]interface{}{"op": "setErr", "i": i, "k": rng.Intn(4), "m": "z" + msgPool[rng.Intn(4)]})
		}
	}
	return Case{"slots": slots, "ops": ops}
}

func dumpResults(rs []*validate.Result) []interface{} {
	out := make([]interface{}, len(rs))
	for i, r := range rs {
		if r == nil {
			out[i] = nil
			continue
		}
		es := []interface{}{}
		for _, e := range r.Errors {
			es = append(es, e.Error())
		}
		ws := []interface{}{}
		for _, e := range r.Warnings {
			ws = append(ws, e.Error())
		}
		out[i] = map[string]interface{}{"e": es, "w": ws, "mc": r.MatchCount,
			"q": []interface{}{r.IsValid(), r.HasErrors(), r.HasWarnings(), r.HasErrorsOrWarnings()}}
	}
	return out
}

func toErrs(l []interface{}) []error {
	es := make([]error, 0, len(l))
	for _, x := range l {
		if x == nil {
			es = append(es, nil)
		} else {
			es = append(es, errors.New(asStr(x)))
		}
	}
	return es
}

func runResult(c Case) interface{} {
	slots := asInt(c["slots"])
	rs := make([]*validate.Result, slots)
	for i := range rs {
		rs[i] = new(validate.Result)
	}
	states := []interface{}{}
	for _, o := range asList(c["ops"]) {
		op := asMap(o)
		i := asInt(op["i"])
		r := rs[i]
		others := func() []*validate.Result {
			var os []*validate.Result
			for _, j := range asList(op["js"]) {
				os = append(os, rs[asInt(j)])
			}
			return os
		}
		switch asStr(op["op"]) {
		case "fresh":
			rs[i] = new(validate.Result)
		case "setNil":
			rs[i] = nil
		case "addErrors":
			if r != nil {
				r.AddErrors(toErrs(asList(op["es"]))...)
			}
		case "addWarnings":
			if r != nil {
				r.AddWarnings(toErrs(asList(op["es"]))...)
			}
		case "merge":
			if r != nil {
				r.Merge(others()...)
			}
		case "mergeAsErrors":
			if r != nil {
				r.MergeAsErrors(others()...)
			}
		case "mergeAsWarnings":
			if r != nil {
				r.MergeAsWarnings(others()...)
			}
		case "inc":
			if r != nil {
				r.Inc()
			}
		case "setErr":
			k := asInt(op["k"])
			if r != nil && k < len(r.Errors) {
				r.Errors[k] = errors.New(asStr(op["m"]))
			}
		}
		states = append(states, dumpResults(rs))
	}
	var nilr *validate.Result
	return map[string]interface{}{"states": states,
		"nilq": []interface{}{nilr.IsValid(), nilr.HasErrors(), nilr.HasWarnings(), nilr.HasErrorsOrWarnings()}}
}
