package main

import (
	"encoding/json"
	"fmt"
	"math/rand"

	"github.com/go-openapi/spec"
	"github.com/go-openapi/strfmt"
	"github.com/go-openapi/validate"
)

// family "reuse" (C08): a few long-lived validators built WITHOUT recycling (schema, parameter, header) and a
// sequence of calls that uses them in any order, with repeats. Every call is compared with a freshly built
// validator on the same value, and two calls with the same validator and value must answer alike.

func init() {
	families["reuse"] = &family{gen: genReuse, run: runReuse}
}

func genReuse(rng *rand.Rand, idx int, tier string) Case {
	g := &sgen{rng: rng, maxDepth: 2}
	nv := 1 + rng.Intn(3)
	vals := []interface{}{}
	type mk func() interface{}
	makers := []mk{}
	for i := 0; i < nv; i++ {
		switch r := rng.Intn(10); {
		case r < 4:
			g.maxDepth = 1 + rng.Intn(2)
			s := g.rootSchema()
			vals = append(vals, map[string]interface{}{"kind": "schema", "def": s})
			makers = append(makers, func() interface{} {
				if g.p(6) {
					return nil
				}
				return g.instance(s)
			})
		case r < 7:
			s := g.simpleSchema(2)
			s["name"] = g.pick([]string{"p", "q", "limit"})
			s["in"] = g.pick([]string{"query", "header", "formData"})
			if g.p(30) {
				s["required"] = true
			}
			vals = append(vals, map[string]interface{}{"kind": "param", "def": s})
			makers = append(makers, func() interface{} {
				if g.p(6) {
					return nil
				}
				return g.simpleValue(s, 2)
			})
		default:
			s := g.simpleSchema(2)
			vals = append(vals, map[string]interface{}{"kind": "header", "def": s, "name": g.pick([]string{"X-Rate", "h"})})
			makers = append(makers, func() interface{} {
				if g.p(6) {
					return nil
				}
				return g.simpleValue(s, 2)
			})
		}
	}
	n := 4 + rng.Intn(8)
	if tier == "thorough" {
		n = 4 + rng.Intn(20)
	}
	calls := []interface{}{}
	for i := 0; i < n; i++ {
		if len(calls) > 0 && rng.Intn(3) == 0 {
			// the very same call again, later
			calls = append(calls, calls[rng.Intn(len(calls))])
			continue
		}
		v := rng.Intn(nv)
		calls = append(calls, map[string]interface{}{"v": v, "value": makers[v]()})
	}
	return Case{"validators": vals, "calls": calls}
}

type reusable struct {
	validate func(interface{}) *validate.Result
}

func buildReusable(def map[string]interface{}, reg strfmt.Registry) reusable {
	db, _ := json.Marshal(def["def"])
	switch asStr(def["kind"]) {
	case "schema":
		v := validate.NewSchemaValidator(parseSchemaJSON(db), nil, "", reg)
		return reusable{func(x interface{}) *validate.Result { return v.Validate(x) }}
	case "param":
		p := new(spec.Parameter)
		if err := json.Unmarshal(db, p); err != nil {
			panic("harness: parameter does not decode: " + err.Error())
		}
		v := validate.NewParamValidator(p, reg)
		return reusable{func(x interface{}) *validate.Result { return v.Validate(x) }}
	default:
		h := new(spec.Header)
		if err := json.Unmarshal(db, h); err != nil {
			panic("harness: header does not decode: " + err.Error())
		}
		v := validate.NewHeaderValidator(asStr(def["name"]), h, reg)
		return reusable{func(x interface{}) *validate.Result { return v.Validate(x) }}
	}
}

func reuseValue(def map[string]interface{}, raw interface{}) interface{} {
	b, _ := json.Marshal(raw)
	if asStr(def["kind"]) == "schema" {
		return parsePlain(b)
	}
	return typedValue(parseNumberData(b))
}

func runReuse(c Case) interface{} {
	defs := asList(c["validators"])
	reg := strfmt.Default
	guarded := func(f func() *validate.Result) (out map[string]interface{}) {
		defer func() {
			if r := recover(); r != nil {
				out = map[string]interface{}{"panic": fmt.Sprint(r)}
			}
		}()
		res := f()
		out = outcome(res)
		if res != nil {
			out["mc"] = res.MatchCount
		}
		return out
	}
	long := make([]reusable, len(defs))
	for i, d := range defs {
		func() {
			// a definition the constructor rejects (documented panic on an unresolvable $ref) has no long-lived validator
			defer func() { _ = recover() }()
			long[i] = buildReusable(asMap(d), reg)
		}()
	}
	longOut, freshOut := []interface{}{}, []interface{}{}
	for _, cl := range asList(c["calls"]) {
		call := asMap(cl)
		vi := asInt(call["v"])
		def := asMap(defs[vi])
		if long[vi].validate == nil {
			longOut = append(longOut, map[string]interface{}{"panic": "not built"})
			freshOut = append(freshOut, map[string]interface{}{"panic": "not built"})
			continue
		}
		longOut = append(longOut, guarded(func() *validate.Result { return long[vi].validate(reuseValue(def, call["value"])) }))
		freshOut = append(freshOut, guarded(func() *validate.Result {
			return buildReusable(def, reg).validate(reuseValue(def, call["value"]))
		}))
	}
	return map[string]interface{}{"long": longOut, "fresh": freshOut}
}
