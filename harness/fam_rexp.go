package main

import (
	"encoding/json"
	"fmt"
	"math/rand"
	"regexp"
	"sort"
	"strings"
	"sync"

	"github.com/go-openapi/strfmt"
	"github.com/go-openapi/validate"
)

// family "rexp" (C15): histories and goroutine programs over validate.Pattern and the schema
// keywords that compile patterns, compared with Go's regexp compiled from the very same pattern;
// afterwards the cache snapshot is audited (every entry belongs to its key, nothing used is lost).

func init() {
	families["rexp"] = &family{gen: genRexp, run: runRexp}
}

func genRexp(rng *rand.Rand, idx int, tier string) Case {
	n := []int{1, 1, 2, 4, 8, 16}[rng.Intn(6)]
	if tier == "thorough" {
		n = []int{1, 2, 4, 8, 16, 32, 64}[rng.Intn(7)]
	}
	// a per-case pool of patterns: some shared classics, some never seen before, some invalid
	pats := []string{}
	for i := 0; i < 3; i++ {
		pats = append(pats, patPool[rng.Intn(len(patPool))])
	}
	for i := 0; i < 4; i++ {
		pats = append(pats, fmt.Sprintf("^k%d_%d[a-c]{%d}$", idx, rng.Intn(1000), rng.Intn(3)))
	}
	pats = append(pats, badPatPool[rng.Intn(len(badPatPool))], fmt.Sprintf("(bad%d", idx))
	progs := []interface{}{}
	burst := rng.Intn(2) == 0 // every goroutine starts with a pattern of its own that nobody has compiled yet
	for t := 0; t < n; t++ {
		k := 3 + rng.Intn(8)
		calls := []interface{}{}
		if burst {
			own := fmt.Sprintf("^k%d_own%d[a-c]{%d}$", idx, t, t%3)
			pats = append(pats, own)
			calls = append(calls, map[string]interface{}{"kind": "pattern", "pattern": own, "str": fmt.Sprintf("k%d_own%d%s", idx, t, "abc"[:t%3])})
		}
		for i := 0; i < k; i++ {
			p := pats[rng.Intn(len(pats))]
			s := strPool[rng.Intn(len(strPool))]
			if rng.Intn(3) == 0 {
				s = fmt.Sprintf("k%d_%daab", idx, rng.Intn(1000))
			}
			kind := "pattern"
			switch rng.Intn(6) {
			case 0:
				kind = "schema-pattern"
			case 1:
				kind = "pattern-properties"
			}
			call := map[string]interface{}{"kind": kind, "pattern": p, "str": s}
			if kind == "pattern-properties" && rng.Intn(2) == 0 {
				// the same schema also names patterns that do not compile: they are skipped, the valid one still decides
				others := []interface{}{}
				for j := 0; j < 1+rng.Intn(5); j++ {
					others = append(others, fmt.Sprintf("(bad%d_%d", idx, j))
				}
				call["others"] = others
			}
			calls = append(calls, call)
		}
		progs = append(progs, calls)
	}
	return Case{"programs": progs, "patterns": pats}
}

func rexpCall(call map[string]interface{}) map[string]interface{} {
	p, s := asStr(call["pattern"]), asStr(call["str"])
	switch asStr(call["kind"]) {
	case "pattern":
		err := validate.Pattern("x", "query", s, p)
		if err == nil {
			return map[string]interface{}{"match": true, "invalid": false}
		}
		return map[string]interface{}{"match": false, "invalid": strings.Contains(err.Error(), "but pattern is invalid")}
	case "schema-pattern":
		sb, _ := json.Marshal(map[string]interface{}{"type": "string", "pattern": p})
		err := validate.AgainstSchema(parseSchemaJSON(sb), s, strfmt.Default)
		if err == nil {
			return map[string]interface{}{"match": true, "invalid": false}
		}
		return map[string]interface{}{"match": false, "invalid": strings.Contains(err.Error(), "but pattern is invalid")}
	default: // pattern-properties: the member named s must be an integer iff the pattern matches its name
		pp := map[string]interface{}{p: map[string]interface{}{"type": "integer"}}
		for _, o := range asList(call["others"]) {
			pp[asStr(o)] = map[string]interface{}{"type": "integer"}
		}
		sb, _ := json.Marshal(map[string]interface{}{"patternProperties": pp})
		err := validate.AgainstSchema(parseSchemaJSON(sb), map[string]interface{}{s: "not an integer"}, strfmt.Default)
		// an invalid pattern in patternProperties is skipped by the library (outside C01's vocabulary): "no match"
		return map[string]interface{}{"match": err != nil, "invalid": false}
	}
}

func rexpOracle(call map[string]interface{}) map[string]interface{} {
	p, s := asStr(call["pattern"]), asStr(call["str"])
	rx, err := regexp.Compile(p)
	if err != nil {
		if asStr(call["kind"]) == "pattern-properties" {
			return map[string]interface{}{"match": false, "invalid": false}
		}
		return map[string]interface{}{"match": false, "invalid": true}
	}
	m := rx.MatchString(s)
	if asStr(call["kind"]) == "pattern-properties" {
		return map[string]interface{}{"match": m, "invalid": false}
	}
	return map[string]interface{}{"match": m, "invalid": false}
}

func runRexp(c Case) interface{} {
	progs := asList(c["programs"])
	subj := make([][]interface{}, len(progs))
	want := make([][]interface{}, len(progs))
	var wg sync.WaitGroup
	start := make(chan struct{})
	for t, p := range progs {
		t, p := t, p
		for _, cl := range asList(p) {
			want[t] = append(want[t], rexpOracle(asMap(cl)))
		}
		wg.Add(1)
		go func() {
			defer wg.Done()
			<-start
			for _, cl := range asList(p) {
				subj[t] = append(subj[t], safeCall(func() map[string]interface{} { return rexpCall(asMap(cl)) }))
			}
		}()
	}
	close(start)
	wg.Wait()
	// afterwards, alone: every pattern of the case is asked for again (they are all cached by now) and must still be itself
	after := []interface{}{}
	for _, pv := range asList(c["patterns"]) {
		p := asStr(pv)
		rx, err := regexp.Compile(p)
		if err != nil {
			continue
		}
		for _, probe := range []string{strings.NewReplacer("^", "", "$", "", "[a-c]{0}", "", "[a-c]{1}", "a", "[a-c]{2}", "ab").Replace(p), "zzz", ""} {
			got := safeCall(func() map[string]interface{} {
				return rexpCall(map[string]interface{}{"kind": "pattern", "pattern": p, "str": probe})
			})
			if m, _ := got["match"].(bool); m != rx.MatchString(probe) || got["panic"] != nil {
				after = append(after, []interface{}{p, probe, got, rx.MatchString(probe)})
			}
		}
	}
	// audit the cache
	snap := validate.VerifRegexpCacheSnapshot()
	wrong := []interface{}{}
	for k, v := range snap {
		if k != v {
			wrong = append(wrong, []interface{}{k, v})
		}
		if _, err := regexp.Compile(k); err != nil {
			wrong = append(wrong, []interface{}{k, "invalid pattern cached"})
		}
	}
	lost := []interface{}{}
	used := map[string]bool{}
	for _, p := range progs {
		for _, cl := range asList(p) {
			used[asStr(asMap(cl)["pattern"])] = true
		}
	}
	keys := make([]string, 0, len(used))
	for k := range used {
		keys = append(keys, k)
	}
	sort.Strings(keys)
	for _, k := range keys {
		if _, err := regexp.Compile(k); err == nil {
			if _, ok := snap[k]; !ok {
				lost = append(lost, k)
			}
		}
	}
	toIface := func(x [][]interface{}) []interface{} {
		out := make([]interface{}, len(x))
		for i := range x {
			out[i] = x[i]
		}
		return out
	}
	return map[string]interface{}{"subj": toIface(subj), "want": toIface(want), "wrongEntries": wrong, "lostEntries": lost, "afterwards": after, "cacheSize": len(snap)}
}
