package main

import (
	"bytes"
	"encoding/json"
	"fmt"
	"math"
	"math/rand"
	"regexp"
	"strings"

	"github.com/go-openapi/errors"
	"github.com/go-openapi/spec"
	"github.com/go-openapi/strfmt"
	"github.com/go-openapi/swag"
	"github.com/go-openapi/validate"
)

// family "schema" (C01 C06 C08 C12 C17): (schema, instance, root path, options).

func init() {
	prep := func(c Case) { c["oracles"] = buildOracles(c["schema"], c["data"]) }
	families["schema"] = &family{gen: genSchemaCase, run: runSchemaCase, prep: prep}
	families["schemamal"] = &family{gen: genSchemaMalCase, run: runSchemaCase, prep: prep}
}

var pathPool = []string{"", "root", "a.b", "x", ".r", "..", "p.", "body", "query"}

func genSchemaCase(rng *rand.Rand, idx int, tier string) Case {
	g := &sgen{rng: rng, maxDepth: 2}
	if tier == "thorough" && rng.Intn(3) == 0 {
		g.maxDepth = 3
	}
	if rng.Intn(4) == 0 {
		g.maxDepth = 1
	}
	s := g.rootSchema()
	v := g.instance(s)
	c := Case{"schema": s, "data": v, "path": pathPool[rng.Intn(len(pathPool))], "opts": map[string]interface{}{"swagger": false}}
	return c
}

// precheckShape: the Swagger-specific pre-checks of the object validator (object_validator.go:86-158) look at the
// last two segments of the validator's path and at "type"/"items" members of the *instance*; short paths and
// segment names example(s)/default/properties are where their index arithmetic can go wrong
func precheckShape(rng *rand.Rand) Case {
	names := []string{"example", "examples", "default", "properties", "x"}
	inner := map[string]interface{}{"type": "object"}
	if rng.Intn(3) == 0 {
		inner = map[string]interface{}{}
	}
	obj := map[string]interface{}{"items": map[string]interface{}{"type": "string"}}
	switch rng.Intn(3) {
	case 0:
		obj["type"] = "array"
	case 1:
		obj["type"] = "string"
	}
	n1 := names[rng.Intn(len(names))]
	schema := map[string]interface{}{"properties": map[string]interface{}{n1: inner}}
	var data interface{} = map[string]interface{}{n1: obj}
	if rng.Intn(2) == 0 { // one level deeper
		n2 := names[rng.Intn(len(names))]
		schema = map[string]interface{}{"properties": map[string]interface{}{n2: map[string]interface{}{"type": "object", "properties": map[string]interface{}{n1: inner}}}}
		data = map[string]interface{}{n2: map[string]interface{}{n1: obj}}
	}
	path := []string{"", "", "example", "a"}[rng.Intn(4)]
	return Case{"schema": schema, "data": data, "path": path, "opts": map[string]interface{}{"swagger": rng.Intn(4) != 0, "number": false}}
}

func genSchemaMalCase(rng *rand.Rand, idx int, tier string) Case {
	if rng.Intn(25) == 0 {
		return precheckShape(rng)
	}
	g := &sgen{rng: rng, maxDepth: 2, mal: true}
	s := g.rootSchema()
	v := g.instance(s)
	return Case{"schema": s, "data": v, "path": pathPool[rng.Intn(len(pathPool))],
		"opts": map[string]interface{}{"swagger": rng.Intn(3) == 0, "number": rng.Intn(4) == 0}}
}

func canonErr(e error) map[string]interface{} {
	m := map[string]interface{}{"m": e.Error()}
	switch v := e.(type) {
	case *errors.Validation:
		m["c"] = int(v.Code())
		m["n"] = v.Name
		m["in"] = v.In
	case errors.Error:
		m["c"] = int(v.Code())
		k, n := classify422(e.Error())
		m["k"] = k
		m["n"] = n
	default:
		// a plain error: the IMPORTANT!-stripped copies made by keepRelevantErrors
		m["c"] = 0
		k, n := classify422(e.Error())
		m["k"] = k
		m["n"] = n
	}
	return m
}

func canonErrs(es []error) []interface{} {
	out := []interface{}{}
	for _, e := range es {
		out = append(out, canonErr(e))
	}
	return out
}

func observe(f func() map[string]interface{}) (res map[string]interface{}) {
	defer func() {
		if r := recover(); r != nil {
			msg := fmt.Sprint(r)
			res = map[string]interface{}{"panic": msg,
				"documented": strings.HasPrefix(msg, "Invalid schema provided to SchemaValidator")}
		}
	}()
	return f()
}

func collectStrings(v interface{}, acc map[string]bool) {
	switch x := v.(type) {
	case string:
		acc[x] = true
	case []interface{}:
		for _, e := range x {
			collectStrings(e, acc)
		}
	case map[string]interface{}:
		for k, e := range x {
			acc[k] = true
			collectStrings(e, acc)
		}
	}
}

func collectNumbers(v interface{}, acc map[string]json.Number) {
	switch x := v.(type) {
	case json.Number:
		acc[x.String()] = x
	case []interface{}:
		for _, e := range x {
			collectNumbers(e, acc)
		}
	case map[string]interface{}:
		for _, e := range x {
			collectNumbers(e, acc)
		}
	}
}

// walk schema JSON collecting patterns, formats and multipleOf factors
func collectSchemaBits(s interface{}, pats, fmts map[string]bool, muls map[string]json.Number) {
	m, ok := s.(map[string]interface{})
	if !ok {
		if l, ok := s.([]interface{}); ok {
			for _, e := range l {
				collectSchemaBits(e, pats, fmts, muls)
			}
		}
		return
	}
	if p, ok := m["pattern"].(string); ok {
		pats[p] = true
	}
	if f, ok := m["format"].(string); ok {
		fmts[f] = true
	}
	if n, ok := m["multipleOf"].(json.Number); ok {
		muls[n.String()] = n
	}
	if pp, ok := m["patternProperties"].(map[string]interface{}); ok {
		for k := range pp {
			pats[k] = true
		}
	}
	for k, v := range m {
		switch k {
		case "enum", "default", "example", "required":
			continue
		case "properties", "patternProperties", "definitions", "dependencies", "responses", "headers", "parameters", "paths":
			// maps from names to schema-like objects: a member called "default" or "example" here is a name (the default
			// response, a header called example), not a keyword
			if sub, ok := v.(map[string]interface{}); ok {
				for _, e := range sub {
					collectSchemaBits(e, pats, fmts, muls)
				}
			} else {
				collectSchemaBits(v, pats, fmts, muls)
			}
		default:
			collectSchemaBits(v, pats, fmts, muls)
		}
	}
}

// float path of values.go MultipleOf, re-implemented for the oracle table (not a call to it)
func mulOfOracle(data, factor float64) bool {
	var mult float64
	if factor < 1 {
		mult = 1 / factor * data
	} else {
		mult = data / factor
	}
	return swag.IsFloat64AJSONInteger(mult)
}

func buildOracles(schema, data interface{}) map[string]interface{} {
	pats, fmts := map[string]bool{}, map[string]bool{}
	muls := map[string]json.Number{}
	collectSchemaBits(schema, pats, fmts, muls)
	strs := map[string]bool{}
	collectStrings(data, strs)
	nums := map[string]json.Number{}
	collectNumbers(data, nums)
	re := []interface{}{}
	for _, p := range sortedBoolKeys(pats) {
		rx, err := regexp.Compile(p)
		if err != nil {
			re = append(re, []interface{}{p, "", -1})
			continue
		}
		for _, s := range sortedBoolKeys(strs) {
			v := 0
			if rx.MatchString(s) {
				v = 1
			}
			re = append(re, []interface{}{p, s, v})
		}
	}
	fk := []interface{}{}
	fm := []interface{}{}
	for _, f := range sortedBoolKeys(fmts) {
		known := strfmt.Default.ContainsName(f)
		fk = append(fk, []interface{}{f, known})
		if known {
			for _, s := range sortedBoolKeys(strs) {
				fm = append(fm, []interface{}{f, s, strfmt.Default.Validates(f, s)})
			}
		}
	}
	isInt := []interface{}{}
	mulOf := []interface{}{}
	for _, k := range sortedNumKeys(nums) {
		f, _ := nums[k].Float64()
		isInt = append(isInt, []interface{}{nums[k], swag.IsFloat64AJSONInteger(f)})
		for _, mk := range sortedNumKeys(muls) {
			mf, _ := muls[mk].Float64()
			if mf > 0 {
				mulOf = append(mulOf, []interface{}{nums[k], muls[mk], mulOfOracle(f, mf)})
			}
		}
	}
	return map[string]interface{}{"re": re, "fmtKnown": fk, "fmt": fm, "isInt": isInt, "mulOf": mulOf}
}

func sortedBoolKeys(m map[string]bool) []string {
	keys := make([]string, 0, len(m))
	for k := range m {
		keys = append(keys, k)
	}
	sortStrings(keys)
	return keys
}

func sortedNumKeys(m map[string]json.Number) []string {
	keys := make([]string, 0, len(m))
	for k := range m {
		keys = append(keys, k)
	}
	sortStrings(keys)
	return keys
}

func parseSchemaJSON(b []byte) *spec.Schema {
	s := new(spec.Schema)
	if err := json.Unmarshal(b, s); err != nil {
		panic("harness: schema does not decode: " + err.Error())
	}
	return s
}

func parsePlain(b []byte) interface{} {
	var v interface{}
	if err := json.Unmarshal(b, &v); err != nil {
		panic("harness: data does not decode: " + err.Error())
	}
	return v
}

func parseNumberData(b []byte) interface{} {
	var v interface{}
	dec := json.NewDecoder(bytes.NewReader(b))
	dec.UseNumber()
	if err := dec.Decode(&v); err != nil {
		panic("harness: data does not decode: " + err.Error())
	}
	return v
}

func hasRefOrID(s interface{}) bool {
	switch x := s.(type) {
	case map[string]interface{}:
		if _, ok := x["$ref"]; ok {
			return true
		}
		if _, ok := x["id"].(string); ok {
			return true
		}
		for _, v := range x {
			if hasRefOrID(v) {
				return true
			}
		}
	case []interface{}:
		for _, v := range x {
			if hasRefOrID(v) {
				return true
			}
		}
	}
	return false
}

func runSchemaCase(c Case) interface{} {
	sb, _ := json.Marshal(c["schema"])
	db, _ := json.Marshal(c["data"])
	path := asStr(c["path"])
	o := asMap(c["opts"])
	var opts []validate.Option
	if b, _ := o["swagger"].(bool); b {
		opts = append(opts, validate.SwaggerSchema(true))
	}
	useNumber, _ := o["number"].(bool)
	getData := func() interface{} {
		if useNumber {
			return parseNumberData(db)
		}
		return parsePlain(db)
	}
	out := map[string]interface{}{}
	// the schema must decode, otherwise the case is outside every property
	func() {
		defer func() {
			if r := recover(); r != nil {
				out["undecodable"] = fmt.Sprint(r)
			}
		}()
		parseSchemaJSON(sb)
	}()
	if out["undecodable"] != nil {
		return out
	}
	// every observation starts from fresh pools: cases of this family are meant to be independent
	// (histories through the pools are the business of the "history" family)
	validate.VerifResetPools()
	// A: one-shot entry point
	out["oneshot"] = observe(func() map[string]interface{} {
		sch := parseSchemaJSON(sb)
		data := getData()
		before, _ := json.Marshal(sch)
		err := validate.AgainstSchema(sch, data, strfmt.Default, opts...)
		after, _ := json.Marshal(sch)
		dafter, _ := json.Marshal(data)
		dbefore, _ := json.Marshal(getData())
		r := map[string]interface{}{"valid": err == nil, "schemaSame": bytes.Equal(before, after), "dataSame": bytes.Equal(dbefore, dafter)}
		if err != nil {
			if ce, ok := err.(*errors.CompositeError); ok {
				r["code"] = int(ce.Code())
				r["errors"] = canonErrs(ce.Errors)
			} else {
				r["code"] = -1
				r["errors"] = canonErrs([]error{err})
			}
		}
		return r
	})
	validate.VerifResetPools()
	// B: validator object, no recycling, caller's root path; used twice (C08)
	out["object"] = observe(func() map[string]interface{} {
		sch := parseSchemaJSON(sb)
		data := getData()
		v := validate.NewSchemaValidator(sch, nil, path, strfmt.Default, opts...)
		before, _ := json.Marshal(sch) // after construction: expansion of $ref happens in the constructor
		res := v.Validate(data)
		after, _ := json.Marshal(sch)
		dafter, _ := json.Marshal(data)
		dbefore, _ := json.Marshal(getData())
		r := map[string]interface{}{"valid": res.IsValid(), "errors": canonErrs(res.Errors), "warnings": canonErrs(res.Warnings),
			"mc": res.MatchCount, "schemaSame": bytes.Equal(before, after), "dataSame": bytes.Equal(dbefore, dafter)}
		res2 := v.Validate(getData())
		r["again"] = map[string]interface{}{"valid": res2.IsValid(), "errors": canonErrs(res2.Errors), "mc": res2.MatchCount}
		return r
	})
	validate.VerifResetPools()
	// C: validator object at the default root path: the result underlying the one-shot entry point
	out["object0"] = observe(func() map[string]interface{} {
		sch := parseSchemaJSON(sb)
		res := validate.NewSchemaValidator(sch, nil, "", strfmt.Default, opts...).Validate(getData())
		return map[string]interface{}{"valid": res.IsValid(), "errors": canonErrs(res.Errors)}
	})
	// D (C12): a caller-assembled object that holds Go values which are not JSON data (a struct, a pointer to one): whatever the
	// verdict, the caller's map still holds those very values afterwards
	if m, isMap := getData().(map[string]interface{}); isMap {
		validate.VerifResetPools()
		out["carried"] = observe(func() map[string]interface{} {
			type carried struct {
				N int    `json:"n"`
				S string `json:"s"`
			}
			ptr := &carried{N: 2, S: "p"}
			m["carriedStruct"] = carried{N: 1, S: "v"}
			m["carriedPtr"] = ptr
			for k, v := range m { // and inside a nested object, when there is one
				if inner, ok := v.(map[string]interface{}); ok {
					inner["carriedStruct"] = carried{N: 3, S: k}
					break
				}
			}
			snapshot := map[string]interface{}{}
			for k, v := range m {
				snapshot[k] = v
			}
			_ = validate.AgainstSchema(parseSchemaJSON(sb), m, strfmt.Default, opts...)
			same := len(snapshot) == len(m)
			for k, v := range snapshot {
				switch x := v.(type) {
				case carried:
					y, ok := m[k].(carried)
					same = same && ok && x == y
				case *carried:
					y, ok := m[k].(*carried)
					same = same && ok && x == y && *y == carried{N: 2, S: "p"}
				case map[string]interface{}:
					if cs, had := x["carriedStruct"]; had {
						y, ok := m[k].(map[string]interface{})
						same = same && ok
						if ok {
							z, ok2 := y["carriedStruct"].(carried)
							same = same && ok2 && z == cs.(carried)
						}
					}
				}
			}
			return map[string]interface{}{"carriedSame": same}
		})
	}
	out["hasRef"] = hasRefOrID(c["schema"])
	return out
}

var _ = math.Abs

// classify422 recovers (kind, quoted path) from the composite messages of schema_messages.go
func classify422(msg string) (kind, name string) {
	rest := msg
	important := strings.HasPrefix(rest, "IMPORTANT!")
	if important {
		rest = strings.TrimPrefix(rest, "IMPORTANT!")
	}
	unq := func(s string) (string, string) { // leading Go-quoted string and the remainder
		if len(s) == 0 || s[0] != '"' {
			return "", s
		}
		for i := 1; i < len(s); i++ {
			if s[i] == '\\' {
				i++
				continue
			}
			if s[i] == '"' {
				if u, err := strconvUnquote(s[:i+1]); err == nil {
					return u, s[i+1:]
				}
				return s[1:i], s[i+1:]
			}
		}
		return "", s
	}
	switch {
	case strings.HasPrefix(rest, "in ") && strings.Contains(rest, "$ref are not allowed in headers"):
		n, _ := unq(rest[3:])
		return "refInHeader", n
	case rest == "array doesn't allow for additional items":
		return "noAdditionalItems", ""
	case strings.HasPrefix(rest, "invalid type conversion in "):
		return "invalidTypeConversion", ""
	}
	n, tail := unq(rest)
	switch {
	case strings.HasPrefix(tail, " must validate at least one schema (anyOf)"):
		return "anyOf", n
	case strings.HasPrefix(tail, " must validate one and only one schema (oneOf)"):
		return "oneOf", n
	case strings.HasPrefix(tail, " must validate all the schemas (allOf)"):
		return "allOf", n
	case strings.HasPrefix(tail, " must not validate the schema (not)"):
		return "not", n
	case strings.HasPrefix(tail, " has a dependency on "):
		return "dependency", n
	}
	return "other", ""
}
