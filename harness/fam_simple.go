package main

import (
	"encoding/json"
	"math/rand"
	"regexp"

	"github.com/go-openapi/spec"
	"github.com/go-openapi/strfmt"
	"github.com/go-openapi/validate"
)

// family "simple" (C16): parameter and header validators on typed Go values, items to depth 4.

func init() {
	families["simple"] = &family{gen: genSimple, run: runSimple, prep: func(c Case) { c["oracles"] = simpleOracles(c) }}
}

var sPats = []string{"^a", "b$", "^[a-c]+$", "[0-9]"}
var sStrs = []string{"", "a", "b", "abc", "ab1", "é", "2020-01-01", "not-a-date", "foo@example.com", "aaaa"}

func strHex(s string) map[string]interface{} {
	const hexd = "0123456789abcdef"
	b := []byte(s)
	out := make([]byte, 0, 2*len(b))
	for _, c := range b {
		out = append(out, hexd[c>>4], hexd[c&15])
	}
	return map[string]interface{}{"t": "string", "hex": string(out)}
}

func (g *sgen) sSchema(depth int, top bool) map[string]interface{} {
	t := g.pick([]string{"string", "integer", "number", "boolean", "array", "array"})
	if depth <= 0 && t == "array" {
		t = "string"
	}
	s := map[string]interface{}{"type": t}
	switch t {
	case "string":
		if g.p(35) {
			s["minLength"] = g.smallInt()
		}
		if g.p(35) {
			s["maxLength"] = 1 + g.smallInt()
		}
		if g.p(30) {
			s["pattern"] = g.pick(sPats)
		}
		if g.p(25) {
			s["format"] = g.pick([]string{"date", "email"})
		}
		if g.p(20) {
			s["enum"] = []interface{}{g.pick(sStrs), g.pick(sStrs)}
		}
	case "integer", "number":
		if g.p(40) {
			s["minimum"] = []interface{}{0, 1, -1, 2, 3}[g.rng.Intn(5)]
			if g.p(30) {
				s["exclusiveMinimum"] = true
			}
		}
		if g.p(40) {
			s["maximum"] = []interface{}{3, 7, 10, 100}[g.rng.Intn(4)]
			if g.p(30) {
				s["exclusiveMaximum"] = true
			}
		}
		if g.p(25) {
			s["multipleOf"] = []interface{}{1, 2, 3}[g.rng.Intn(3)]
		}
		if g.p(25) {
			// members equal to the values in play, members that only wrap or truncate onto them in a narrower Go type
			s["enum"] = [][]interface{}{{1, 2, 7}, {1, 2, 7}, {257, 65538, 263}, {1.5, 2.5, 7.9}, {4294967297, 100.5}}[g.rng.Intn(5)]
		}
		if g.p(25) {
			if t == "integer" {
				s["format"] = g.pick([]string{"int32", "int64"})
			} else {
				s["format"] = g.pick([]string{"float", "double"})
			}
		}
	case "boolean":
		if g.p(20) {
			s["enum"] = []interface{}{true}
		}
	case "array":
		s["items"] = g.sSchema(depth-1, false)
		if g.p(30) {
			s["minItems"] = g.smallInt()
		}
		if g.p(30) {
			s["maxItems"] = 1 + g.smallInt()
		}
		if g.p(25) {
			s["uniqueItems"] = true
		}
	}
	return s
}

func (g *sgen) sValue(s map[string]interface{}, depth int) map[string]interface{} {
	t, _ := s["type"].(string)
	if g.p(12) {
		t = g.pick([]string{"string", "integer", "number", "boolean", "array"})
	}
	switch t {
	case "string":
		return strHex(g.pick(sStrs))
	case "integer":
		k := g.pick([]string{"int", "int8", "int16", "int32", "int64", "uint", "uint8", "uint16", "uint32", "uint64"})
		if g.p(15) {
			k = g.pick([]string{"float32", "float64"})
		}
		if g.p(8) {
			// kind limits: the range pre-check of the number validator is the only thing that looks at them
			switch k {
			case "uint64", "uint":
				return gv(k, []interface{}{uint64(9223372036854775808), uint64(18446744073709549568), uint64(9223372036854774784)}[g.rng.Intn(3)])
			case "int64", "int":
				return gv(k, []interface{}{int64(9223372036854774784), int64(-9223372036854775808)}[g.rng.Intn(2)])
			case "uint32":
				return gv(k, []interface{}{int64(4294967295), int64(2147483648)}[g.rng.Intn(2)])
			case "int32":
				return gv(k, []interface{}{int64(2147483647), int64(-2147483648)}[g.rng.Intn(2)])
			}
		}
		return gv(k, []interface{}{0, 1, 2, 3, 4, 6, 7, 10, 100, 101}[g.rng.Intn(10)])
	case "number":
		k := g.pick([]string{"float32", "float64", "float64", "int64", "uint8"})
		v := []interface{}{0, 1, 2, 3, 4, 6, 7, 10, 100, 101}[g.rng.Intn(10)]
		if (k == "float32" || k == "float64") && g.p(30) {
			v = []interface{}{0.5, 1.5, 2.5, -1.5}[g.rng.Intn(4)]
		}
		return gv(k, v)
	case "boolean":
		return gv("bool", g.p(50))
	case "array":
		n := g.rng.Intn(4)
		items, _ := s["items"].(map[string]interface{})
		l := []interface{}{}
		for i := 0; i < n; i++ {
			if items != nil && depth > 0 {
				l = append(l, g.sValue(items, depth-1))
			} else {
				l = append(l, strHex(g.pick(sStrs)))
			}
			if i > 0 && g.p(20) {
				l[i] = l[g.rng.Intn(i)]
			}
		}
		if g.p(4) && len(l) > 0 {
			l[g.rng.Intn(len(l))] = gv("nil", nil)
		}
		return gv("[]interface", l)
	}
	return strHex("x")
}

func genSimple(rng *rand.Rand, idx int, tier string) Case {
	g := &sgen{rng: rng}
	depth := 1 + rng.Intn(3)
	if tier == "thorough" {
		depth = 1 + rng.Intn(4)
	}
	s := g.sSchema(depth, true)
	c := Case{"schema": s, "value": g.sValue(s, depth+1)}
	if rng.Intn(2) == 0 {
		c["root"] = "param"
		c["required"] = rng.Intn(3) == 0
		c["allowEmpty"] = rng.Intn(4) == 0
	} else {
		c["root"] = "header"
	}
	if rng.Intn(25) == 0 {
		c["value"] = gv("nil", nil)
	}
	return c
}

func runSimple(c Case) interface{} {
	sb, _ := json.Marshal(c["schema"])
	v := decodeGoVal(asMap(c["value"]))
	out := map[string]interface{}{}
	run := func(recycle bool) map[string]interface{} {
		var res *validate.Result
		var opts []validate.Option
		if recycle {
			opts = append(opts, validate.WithRecycleValidators(true))
		}
		if asStr(c["root"]) == "param" {
			p := new(spec.Parameter)
			if err := json.Unmarshal(sb, p); err != nil {
				panic("harness: parameter does not decode: " + err.Error())
			}
			p.Name, p.In = "p", "query"
			p.Required, _ = c["required"].(bool)
			p.AllowEmptyValue, _ = c["allowEmpty"].(bool)
			res = validate.NewParamValidator(p, strfmt.Default, opts...).Validate(v)
		} else {
			h := new(spec.Header)
			if err := json.Unmarshal(sb, h); err != nil {
				panic("harness: header does not decode: " + err.Error())
			}
			res = validate.NewHeaderValidator("X-H", h, strfmt.Default, opts...).Validate(v)
		}
		if res == nil {
			return map[string]interface{}{"valid": true, "nil": true}
		}
		return map[string]interface{}{"valid": res.IsValid(), "errors": canonErrs(res.Errors)}
	}
	validate.VerifResetPools()
	out["plain"] = safeCall(func() map[string]interface{} { return run(false) })
	validate.VerifResetPools()
	out["recycled"] = safeCall(func() map[string]interface{} { return run(true) })
	return out
}

func simpleOracles(c Case) map[string]interface{} {
	pats, fmts, strs := map[string]bool{}, map[string]bool{}, map[string]bool{}
	var walkS func(s map[string]interface{})
	walkS = func(s map[string]interface{}) {
		if p, ok := s["pattern"].(string); ok {
			pats[p] = true
		}
		if f, ok := s["format"].(string); ok {
			fmts[f] = true
		}
		if it, ok := s["items"].(map[string]interface{}); ok {
			walkS(it)
		}
	}
	walkS(asMap(c["schema"]))
	fmts[""] = true
	var walkV func(v map[string]interface{})
	walkV = func(v map[string]interface{}) {
		if asStr(v["t"]) == "string" {
			if s, ok := decodeGoVal(v).(string); ok {
				strs[s] = true
			}
		}
		for _, e := range asList(v["v"]) {
			if m := asMap(e); m != nil {
				walkV(m)
			}
		}
	}
	walkV(asMap(c["value"]))
	re := []interface{}{}
	for _, p := range sortedBoolKeys(pats) {
		rx := regexp.MustCompile(p)
		for _, s := range sortedBoolKeys(strs) {
			m := 0
			if rx.MatchString(s) {
				m = 1
			}
			re = append(re, []interface{}{p, s, m})
		}
	}
	fk, fm := []interface{}{}, []interface{}{}
	for _, f := range sortedBoolKeys(fmts) {
		known := strfmt.Default.ContainsName(f)
		fk = append(fk, []interface{}{f, known})
		if known {
			for _, s := range sortedBoolKeys(strs) {
				fm = append(fm, []interface{}{f, s, strfmt.Default.Validates(f, s)})
			}
		}
	}
	// isInt / mulOf for every number in the value against every factor in the schema
	nums, muls := []float64{}, []float64{}
	var walkN func(v map[string]interface{})
	walkN = func(v map[string]interface{}) {
		switch asStr(v["t"]) {
		case "float32":
			nums = append(nums, float64(float32(num(v["v"]))))
		case "float64", "int", "int8", "int16", "int32", "int64", "uint", "uint8", "uint16", "uint32", "uint64":
			nums = append(nums, num(v["v"]))
		}
		for _, e := range asList(v["v"]) {
			if m := asMap(e); m != nil {
				walkN(m)
			}
		}
	}
	walkN(asMap(c["value"]))
	var walkM func(s map[string]interface{})
	walkM = func(s map[string]interface{}) {
		if f, ok := s["multipleOf"]; ok {
			muls = append(muls, num(f))
		}
		if it, ok := s["items"].(map[string]interface{}); ok {
			walkM(it)
		}
	}
	walkM(asMap(c["schema"]))
	isInt, mulOf := []interface{}{}, []interface{}{}
	seen := map[float64]bool{}
	for _, x := range nums {
		if seen[x] {
			continue
		}
		seen[x] = true
		isInt = append(isInt, []interface{}{x, swagIsInt(x)})
		for _, f := range muls {
			if f > 0 {
				mulOf = append(mulOf, []interface{}{x, f, mulOfOracle(x, f)})
			}
		}
	}
	return map[string]interface{}{"re": re, "fmtKnown": fk, "fmt": fm, "isInt": isInt, "mulOf": mulOf}
}
