package main

import (
	"encoding/json"
	"fmt"
	"math/rand"
	"os"
	"path/filepath"
	"regexp"
	"runtime/debug"
	"sort"
	"strings"

	"github.com/go-openapi/errors"
	"github.com/go-openapi/loads"
	"github.com/go-openapi/spec"
	"github.com/go-openapi/strfmt"
	"github.com/go-openapi/validate"
	yaml "gopkg.in/yaml.v3"
)

// family "spec"    : grammar documents + rule-breaking edits (C02 C03 C07 C09 C10)
// family "specmut" : grammar documents and fixture documents with arbitrary structural edits (C02 C07 C10)
//
// Every document is validated in both continue-on-errors modes, several times (same document
// object, freshly loaded document, JSON file, YAML file, shuffled member order), with recover.

func init() {
	families["spec"] = &family{gen: genSpecCase, run: runSpecCase, prep: prepSpecCase, isolate: true}
	families["specmut"] = &family{gen: genSpecMutCase, run: runSpecCase, prep: prepSpecCase, isolate: true}
	families["speccat"] = &family{gen: genSpecCatCase, run: runSpecCase, prep: prepSpecCase, isolate: true}
	families["specfix"] = &family{gen: genSpecFixCase, run: runSpecCase, prep: prepSpecCase, isolate: true}
}

func genSpecCase(rng *rand.Rand, idx int, tier string) Case {
	bad := 0
	maxEdits := 2
	switch idx % 4 {
	case 0: // clean documents: every rule holds, every default/example is good
		maxEdits = 0
	case 1: // only rule-breaking edits
	case 2: // only bad defaults / examples
		bad = 35
		maxEdits = 0
	default:
		bad = 25
	}
	exotic := idx%8 == 7
	doc, edits := genSpecDoc(rng, tier, bad, maxEdits, exotic)
	c := Case{"doc": doc, "edits": edits, "strict": rng.Intn(4) == 0, "exotic": exotic, "flavour": idx % 4}
	switch rng.Intn(6) {
	case 0:
		c["via"] = "jsonfile"
	case 1:
		c["via"] = "yamlfile"
	default:
		c["via"] = "raw"
	}
	return c
}

// family "speccat": the rule-breaking catalogue, one entry per index (C03; also C02 C07 C09 C10 C12)
func genSpecCatCase(rng *rand.Rand, idx int, tier string) Case {
	doc, edits := genSpecCatalogueDoc(rng, idx, tier)
	return Case{"doc": doc, "edits": edits, "strict": idx%3 == 0, "exotic": false, "flavour": 1, "via": "raw"}
}

var fixtureDocs []string

func loadFixtureList() {
	if fixtureDocs != nil {
		return
	}
	repo := os.Getenv("VERIF_REPO")
	if repo == "" {
		repo = "/repo"
	}
	for _, pat := range []string{"fixtures/validation/*.json", "fixtures/validation/*.yaml", "fixtures/validation/*.yml",
		"fixtures/petstore/*.json", "fixtures/bugs/*/*.json", "fixtures/bugs/*/*.yaml", "fixtures/bugs/*/*.yml",
		"fixtures/validation/default/*.json", "fixtures/validation/example/*.json"} {
		m, _ := filepath.Glob(filepath.Join(repo, pat))
		fixtureDocs = append(fixtureDocs, m...)
	}
	sort.Strings(fixtureDocs)
	if len(fixtureDocs) == 0 {
		fixtureDocs = []string{}
	}
}

// fixtureAsJSON loads a fixture file as plain JSON data (no library involvement beyond YAML->JSON)
func fixtureAsJSON(path string) (M, bool) {
	b, err := os.ReadFile(path)
	if err != nil || len(b) > 120000 {
		return nil, false
	}
	var v interface{}
	if strings.HasSuffix(path, ".json") {
		if json.Unmarshal(b, &v) != nil {
			return nil, false
		}
	} else {
		var y interface{}
		if yaml.Unmarshal(b, &y) != nil {
			return nil, false
		}
		v = yamlToJSON(y)
	}
	m, ok := v.(map[string]interface{})
	return m, ok
}

func yamlToJSON(v interface{}) interface{} {
	switch x := v.(type) {
	case map[string]interface{}:
		o := M{}
		for k, e := range x {
			o[k] = yamlToJSON(e)
		}
		return o
	case map[interface{}]interface{}:
		o := M{}
		for k, e := range x {
			o[fmt.Sprint(k)] = yamlToJSON(e)
		}
		return o
	case []interface{}:
		o := make(L, len(x))
		for i, e := range x {
			o[i] = yamlToJSON(e)
		}
		return o
	case int:
		return float64(x)
	case int64:
		return float64(x)
	case uint64:
		return float64(x)
	}
	return v
}

var mutNames = []string{"a.a", "x.x", "", "a", "s", "$ref", "x-ext", "default", "é", "definitions", "200"}

type jnode struct {
	parent interface{}
	key    interface{} // string or int
}

func collectNodes(v interface{}, out *[]jnode) {
	switch x := v.(type) {
	case M:
		for _, k := range sortedKeys(x) {
			*out = append(*out, jnode{x, k})
			collectNodes(x[k], out)
		}
	case L:
		for i := range x {
			*out = append(*out, jnode{x, i})
			collectNodes(x[i], out)
		}
	}
}

func nodeGet(n jnode) interface{} {
	if m, ok := n.parent.(M); ok {
		return m[n.key.(string)]
	}
	return n.parent.(L)[n.key.(int)]
}

func nodeSet(n jnode, v interface{}) {
	if m, ok := n.parent.(M); ok {
		m[n.key.(string)] = v
	} else {
		n.parent.(L)[n.key.(int)] = v
	}
}

// mutateDoc applies one arbitrary structural edit: delete, retype, rename, transplant, null, dangling $ref, sibling $ref
func mutateDoc(rng *rand.Rand, doc M) string {
	var nodes []jnode
	collectNodes(doc, &nodes)
	if len(nodes) == 0 {
		return "none"
	}
	n := nodes[rng.Intn(len(nodes))]
	switch rng.Intn(10) {
	case 9:
		// change the letter case of a keyword value the Swagger schema pins with an enum ("in": "Query", "type": "String",
		// "collectionFormat": "CSV", a scheme "HTTPS"): enums are compared exactly
		var cands []jnode
		for _, c := range nodes {
			v, isStr := nodeGet(c).(string)
			if !isStr || v == "" {
				continue
			}
			if k, ok := c.key.(string); ok && (k == "in" || k == "type" || k == "collectionFormat") {
				cands = append(cands, c)
			} else if _, inList := c.parent.(L); inList && (v == "http" || v == "https" || v == "ws" || v == "wss") {
				cands = append(cands, c)
			}
		}
		if len(cands) == 0 {
			return "none"
		}
		c := cands[rng.Intn(len(cands))]
		v := nodeGet(c).(string)
		if rng.Intn(2) == 0 {
			nodeSet(c, strings.ToUpper(v))
		} else {
			nodeSet(c, strings.ToUpper(v[:1])+v[1:])
		}
		return "caseFlip"
	case 0:
		if m, ok := n.parent.(M); ok {
			delete(m, n.key.(string))
			return "delete"
		}
		return "none"
	case 1:
		alts := []interface{}{nil, "str", 7.0, true, L{}, M{}, L{M{}}, M{"k": "v"}, -1.5}
		nodeSet(n, alts[rng.Intn(len(alts))])
		return "retype"
	case 2:
		if m, ok := n.parent.(M); ok {
			k := n.key.(string)
			nk := mutNames[rng.Intn(len(mutNames))]
			if _, exists := m[nk]; !exists {
				m[nk] = m[k]
				delete(m, k)
				return "rename"
			}
		}
		return "none"
	case 3:
		src := nodes[rng.Intn(len(nodes))]
		nodeSet(n, deepCopyJSON(nodeGet(src)))
		return "transplant"
	case 4:
		nodeSet(n, nil)
		return "null"
	case 5:
		if _, ok := nodeGet(n).(M); ok {
			refs := []string{"#/definitions/nowhere", "#/parameters/nowhere", "#/responses/nowhere", "#/definitions/a.a", "#/paths", "other.json#/x", "#/definitions/A"}
			nodeSet(n, M{"$ref": refs[rng.Intn(len(refs))]})
			return "danglingRef"
		}
		return "none"
	case 6:
		if m, ok := nodeGet(n).(M); ok {
			m["$ref"] = []string{"#/definitions/A", "#/definitions/nowhere", "#/parameters/P1", "#/responses/R1"}[rng.Intn(4)]
			return "siblingRef"
		}
		return "none"
	case 7:
		// rename a parameter / definition / property to an awkward name
		if m, ok := nodeGet(n).(M); ok {
			if _, has := m["name"]; has {
				m["name"] = mutNames[rng.Intn(len(mutNames))]
				return "awkwardName"
			}
		}
		return "none"
	default:
		if l, ok := n.parent.(L); ok && len(l) > 0 {
			// duplicate a list element in place of another
			l[rng.Intn(len(l))] = deepCopyJSON(l[rng.Intn(len(l))])
			return "dupElement"
		}
		return "none"
	}
}

func genSpecMutCase(rng *rand.Rand, idx int, tier string) Case {
	loadFixtureList()
	var doc M
	src := "grammar"
	if len(fixtureDocs) > 0 && rng.Intn(3) == 0 {
		f := fixtureDocs[rng.Intn(len(fixtureDocs))]
		if d, ok := fixtureAsJSON(f); ok {
			doc = d
			src = strings.TrimPrefix(f, "/repo/")
		}
	}
	if doc == nil {
		doc, _ = genSpecDoc(rng, tier, 20, 1, rng.Intn(4) == 0)
	}
	n := 1 + rng.Intn(3)
	var muts []string
	for i := 0; i < n; i++ {
		muts = append(muts, mutateDoc(rng, doc))
	}
	via := "raw"
	if rng.Intn(8) == 0 {
		via = "yamlfile"
	}
	return Case{"doc": doc, "edits": muts, "source": src, "strict": rng.Intn(5) == 0, "via": via}
}

// family "specfix": every fixture document of the repository (up to 120 kB), as it is, one per index: what the project's
// own tests load, seen through this harness's eyes (repeated, reloaded, reordered, used validator, snapshots before/after)
func genSpecFixCase(rng *rand.Rand, idx int, tier string) Case {
	loadFixtureList()
	if len(fixtureDocs) > 0 {
		f := fixtureDocs[idx%len(fixtureDocs)]
		if d, ok := fixtureAsJSON(f); ok {
			return Case{"doc": d, "edits": []string{"fixture"}, "source": strings.TrimPrefix(f, "/repo/"), "strict": false, "via": "raw"}
		}
	}
	doc, _ := genSpecDoc(rng, tier, 20, 1, false)
	return Case{"doc": doc, "edits": []string{}, "source": "grammar", "strict": false, "via": "raw"}
}

// oracle tables: every pattern of the document (pattern keywords, patternProperties keys) against
// every string of the document (required names among them)
func prepSpecCase(c Case) {
	c["oracles"] = buildOracles([]interface{}{c["doc"], swaggerSchemaJSON()}, c["doc"])
}

var swaggerJSONCache interface{}

// the Swagger 2.0 schema and the draft-04 meta schema as the library hands them out, as plain JSON
func swaggerSchemaJSON() interface{} {
	if swaggerJSONCache == nil {
		var a, b interface{}
		ab, _ := json.Marshal(spec.MustLoadSwagger20Schema())
		bb, _ := json.Marshal(spec.MustLoadJSONSchemaDraft04())
		dec := json.NewDecoder(bytesReader(ab))
		dec.UseNumber()
		_ = dec.Decode(&a)
		dec = json.NewDecoder(bytesReader(bb))
		dec.UseNumber()
		_ = dec.Decode(&b)
		swaggerJSONCache = []interface{}{a, b}
	}
	return swaggerJSONCache
}

// family "swaggerschema": one case carrying the schema the library validates documents with, so
// that the check can compare it with the source the Lean term was generated from
func init() {
	families["swaggerschema"] = &family{
		gen: func(rng *rand.Rand, idx int, tier string) Case { return Case{} },
		run: func(c Case) interface{} { return map[string]interface{}{"schemas": swaggerSchemaJSON()} },
	}
}

// ---------------------------------------------------------------- running

func loadDoc(raw []byte, via string, dir string, tag string) (*loads.Document, error) {
	switch via {
	case "jsonfile":
		p := filepath.Join(dir, tag+".json")
		if err := os.WriteFile(p, raw, 0o600); err != nil {
			return nil, err
		}
		return loads.Spec(p)
	case "yamlfile":
		var v interface{}
		if err := json.Unmarshal(raw, &v); err != nil {
			return nil, err
		}
		yb, err := yaml.Marshal(v)
		if err != nil {
			return nil, err
		}
		p := filepath.Join(dir, tag+".yaml")
		if err := os.WriteFile(p, yb, 0o600); err != nil {
			return nil, err
		}
		return loads.Spec(p)
	default:
		return loads.Analyzed(json.RawMessage(raw), "")
	}
}

// reorder re-serialises a document with its object members in reverse order
func reorderJSON(v interface{}) []byte {
	var w func(v interface{}) string
	w = func(v interface{}) string {
		switch x := v.(type) {
		case map[string]interface{}:
			ks := sortedKeys(x)
			parts := []string{}
			for i := len(ks) - 1; i >= 0; i-- {
				kb, _ := json.Marshal(ks[i])
				parts = append(parts, string(kb)+":"+w(x[ks[i]]))
			}
			return "{" + strings.Join(parts, ",") + "}"
		case []interface{}:
			parts := []string{}
			for _, e := range x {
				parts = append(parts, w(e))
			}
			return "[" + strings.Join(parts, ",") + "]"
		}
		b, _ := json.Marshal(v)
		return string(b)
	}
	return []byte(w(v))
}

func msgStrings(es []error) []interface{} {
	out := make([]string, 0, len(es))
	for _, e := range es {
		out = append(out, e.Error())
	}
	sort.Strings(out)
	l := make([]interface{}, len(out))
	for i, s := range out {
		l[i] = s
	}
	return l
}

func hasDup(es []error) bool {
	seen := map[string]bool{}
	for _, e := range es {
		if seen[e.Error()] {
			return true
		}
		seen[e.Error()] = true
	}
	return false
}

func oneSpecRun(doc *loads.Document, cont, strict bool) (out map[string]interface{}) {
	out = map[string]interface{}{"cont": cont}
	defer func() {
		if r := recover(); r != nil {
			out["panic"] = fmt.Sprint(r)
			out["where"] = panicSite(string(debug.Stack()))
		}
	}()
	v := validate.NewSpecValidator(doc.Schema(), strfmt.Default)
	v.SetContinueOnErrors(cont)
	v.Options.StrictPathParamUniqueness = strict
	res, warn := v.Validate(doc)
	if res == nil || warn == nil {
		out["nilResult"] = true
		return out
	}
	out["valid"] = res.IsValid()
	out["errors"] = msgStrings(res.Errors)
	out["warnings"] = msgStrings(res.Warnings)
	out["errorsC"] = canonNamed(res.Errors)
	out["warningsC"] = canonNamed(res.Warnings)
	out["wErrors"] = msgStrings(warn.Errors)
	out["wWarnings"] = msgStrings(warn.Warnings)
	out["dup"] = hasDup(res.Errors) || hasDup(res.Warnings)
	return out
}

func runSpecCase(c Case) interface{} {
	raw, _ := json.Marshal(c["doc"])
	via := asStr(c["via"])
	strict, _ := c["strict"].(bool)
	dir, err := os.MkdirTemp("", "verifspec")
	if err != nil {
		panic(err)
	}
	defer os.RemoveAll(dir)
	out := map[string]interface{}{}
	var doc *loads.Document
	func() {
		defer func() {
			if r := recover(); r != nil {
				out["loadPanic"] = fmt.Sprint(r)
			}
		}()
		doc, err = loadDoc(raw, via, dir, "d0")
	}()
	if doc == nil {
		out["loaded"] = false
		if err != nil {
			out["loadErr"] = err.Error()
		}
		return out
	}
	out["loaded"] = true
	// the schema pass alone, through the public entry point, on the raw JSON the validator sees
	out["schemaPass"] = observe(func() map[string]interface{} {
		var obj interface{}
		if err := json.Unmarshal(doc.Raw(), &obj); err != nil {
			return map[string]interface{}{"undecodable": true}
		}
		res := validate.NewSchemaValidator(doc.Schema(), nil, "", strfmt.Default, validate.SwaggerSchema(true)).Validate(obj)
		return map[string]interface{}{"valid": res.IsValid(), "errors": canonErrs(res.Errors)}
	})
	var rawDoc interface{}
	_ = json.Unmarshal(doc.Raw(), &rawDoc)
	out["raw"] = rawDoc
	before, _ := json.Marshal(doc.Spec())
	rawBefore := append([]byte{}, doc.Raw()...)
	runs := []interface{}{}
	for _, cont := range []bool{false, true} {
		runs = append(runs, tagRun(oneSpecRun(doc, cont, strict), "same"))
		runs = append(runs, tagRun(oneSpecRun(doc, cont, strict), "again"))
		if d2, err := loadDoc(raw, via, dir, "d1"); err == nil && d2 != nil {
			runs = append(runs, tagRun(oneSpecRun(d2, cont, strict), "reloaded"))
		}
	}
	// a validator object that has already validated another document (with findings of its own, all references resolving)
	// must say the same about this one as a new validator does
	if d4, err := loadDoc(raw, via, dir, "d4"); err == nil && d4 != nil {
		runs = append(runs, tagRun(usedValidatorRun(d4, strict), "usedvalidator"))
	}
	// more repetitions on demand (Go re-randomises every map range): corpus cases that need many orders
	for i := 0; i < asInt(c["repeat"]); i++ {
		runs = append(runs, tagRun(oneSpecRun(doc, false, strict), fmt.Sprintf("rep%d", i)))
		runs = append(runs, tagRun(oneSpecRun(doc, true, strict), fmt.Sprintf("rep%d", i)))
	}
	// serialisation variants: reversed member order, and the other carrier
	var plain interface{}
	if json.Unmarshal(raw, &plain) == nil {
		if d3, err := loadDoc(reorderJSON(plain), "raw", dir, "d2"); err == nil && d3 != nil {
			runs = append(runs, tagRun(oneSpecRun(d3, true, strict), "reordered"))
		}
	}
	after, _ := json.Marshal(doc.Spec())
	out["specSame"] = string(before) == string(after)
	out["rawSame"] = string(rawBefore) == string(doc.Raw())
	out["runs"] = runs
	return out
}

const primerDoc = `{"swagger":"2.0","info":{"title":"primer","version":"1"},"paths":{
 "/alpha":{"get":{"operationId":"alphaOp","parameters":[{"name":"q","in":"query","type":"integer","default":"not-a-number"}],"responses":{"200":{"description":"d"}}},
           "put":{"operationId":"alphaOp","responses":{"200":{"description":"d"}}}},
 "/beta/{id}":{"get":{"operationId":"betaOp","parameters":[{"name":"id","in":"path","type":"string","required":true}],"responses":{"default":{"description":"d","schema":{"type":"string","example":7}}}}}}}`

// usedValidatorRun validates doc (continue-on-errors) with a SpecValidator that has validated the primer document before
func usedValidatorRun(doc *loads.Document, strict bool) (out map[string]interface{}) {
	out = map[string]interface{}{"cont": true}
	defer func() {
		if r := recover(); r != nil {
			out["panic"] = fmt.Sprint(r)
			out["where"] = panicSite(string(debug.Stack()))
		}
	}()
	primer, err := loads.Analyzed(json.RawMessage(primerDoc), "")
	if err != nil {
		panic("harness: primer document does not load: " + err.Error())
	}
	v := validate.NewSpecValidator(doc.Schema(), strfmt.Default)
	v.SetContinueOnErrors(true)
	v.Options.StrictPathParamUniqueness = strict
	_, _ = v.Validate(primer)
	res, warn := v.Validate(doc)
	if res == nil || warn == nil {
		out["nilResult"] = true
		return out
	}
	out["valid"] = res.IsValid()
	out["errors"] = msgStrings(res.Errors)
	out["warnings"] = msgStrings(res.Warnings)
	out["errorsC"] = canonNamed(res.Errors)
	out["warningsC"] = canonNamed(res.Warnings)
	out["wErrors"] = msgStrings(warn.Errors)
	out["wWarnings"] = msgStrings(warn.Warnings)
	out["dup"] = hasDup(res.Errors) || hasDup(res.Warnings)
	return out
}

func tagRun(m map[string]interface{}, tag string) map[string]interface{} {
	m["tag"] = tag
	return m
}

var _ = spec.Schema{}
var _ = regexp.MustCompile

// panicSite extracts the first frames of a stack trace that lie in the validate package
func panicSite(stack string) string {
	var out []string
	lines := strings.Split(stack, "\n")
	for i := 0; i+1 < len(lines); i++ {
		if strings.Contains(lines[i], "go-openapi/validate.") && !strings.Contains(lines[i], "Verif") {
			loc := strings.TrimSpace(lines[i+1])
			if j := strings.LastIndex(loc, "/"); j >= 0 {
				loc = loc[j+1:]
			}
			if j := strings.Index(loc, " "); j >= 0 {
				loc = loc[:j]
			}
			out = append(out, loc+"@"+frameFunc(lines[i]))
			if len(out) == 3 {
				break
			}
		}
	}
	return strings.Join(out, " < ")
}

// frameFunc: the function name of a stack-trace line "github.com/go-openapi/validate.(*T).method(0x…)" (line numbers move
// with every change to the file; the known findings are matched by function)
func frameFunc(line string) string {
	line = strings.TrimSpace(line)
	if j := strings.Index(line, "go-openapi/validate."); j >= 0 {
		line = line[j+len("go-openapi/validate."):]
	}
	if j := strings.LastIndex(line, "("); j > 0 {
		line = line[:j]
	}
	return line
}

// panicSiteOuter: for a fatal stack trace (possibly truncated in the middle), the outermost frames
// that lie in the validate package (where the runaway computation was entered)
func panicSiteOuter(stack string) string {
	var out []string
	lines := strings.Split(stack, "\n")
	for i := 0; i+1 < len(lines); i++ {
		if strings.Contains(lines[i], "go-openapi/validate.") && !strings.Contains(lines[i], "Verif") {
			loc := strings.TrimSpace(lines[i+1])
			if j := strings.LastIndex(loc, "/"); j >= 0 {
				loc = loc[j+1:]
			}
			if j := strings.Index(loc, " "); j >= 0 {
				loc = loc[:j]
			}
			out = append(out, loc+"@"+frameFunc(lines[i]))
		}
	}
	if len(out) > 4 {
		out = out[len(out)-4:]
	}
	return strings.Join(out, " < ")
}

// canonNamed: (code, Name) of the field-level validation errors among the messages
func canonNamed(es []error) []interface{} {
	out := []interface{}{}
	for _, e := range es {
		if v, ok := e.(*errors.Validation); ok {
			out = append(out, []interface{}{int(v.Code()), v.Name})
		}
	}
	return out
}
