package main

import (
	"encoding/json"
	"fmt"
	"math"
	"math/rand"
	"strconv"

	"github.com/go-openapi/errors"
	"github.com/go-openapi/spec"
	"github.com/go-openapi/strfmt"
	"github.com/go-openapi/swag"
	"github.com/go-openapi/validate"
)

// family "values" (C13): every Go numeric kind x values at and around the kind's limits x bounds
// (integral, fractional, negative, zero, huge) through the exported native-type helpers, schema
// validation with typed data, and parameter validators.

func init() {
	families["values"] = &family{gen: genValues, run: runValues, prep: func(c Case) { c["oracles"] = valuesOracles(c) }}
}

var numKinds = []string{"int", "int8", "int16", "int32", "int64", "uint", "uint8", "uint16", "uint32", "uint64", "float32", "float64"}

type kindInfo struct {
	signed, float bool
	bits          int
}

func kindOf(k string) kindInfo {
	switch k {
	case "int", "int64":
		return kindInfo{true, false, 64}
	case "int8":
		return kindInfo{true, false, 8}
	case "int16":
		return kindInfo{true, false, 16}
	case "int32":
		return kindInfo{true, false, 32}
	case "uint", "uint64":
		return kindInfo{false, false, 64}
	case "uint8":
		return kindInfo{false, false, 8}
	case "uint16":
		return kindInfo{false, false, 16}
	case "uint32":
		return kindInfo{false, false, 32}
	case "float32":
		return kindInfo{true, true, 32}
	}
	return kindInfo{true, true, 64}
}

// values exactly representable in the kind and within ±2^53 (the C13 quantifier)
func valueFor(rng *rand.Rand, k string) float64 {
	ki := kindOf(k)
	if ki.float {
		pool := []float64{0, 1, -1, 2, 2.5, -2.5, 0.5, 3, 7, 10, 100, 0.25, -0.75, 1024.5, 1 << 24, -(1 << 24), 123456.5}
		if ki.bits == 64 {
			pool = append(pool, 0.1, 0.07, 1000000000.5, 9007199254740992, -9007199254740992, 0.000001, 1e10, 0.3)
		}
		return pool[rng.Intn(len(pool))]
	}
	var lo, hi float64
	if ki.signed {
		lo, hi = -math.Pow(2, float64(ki.bits-1)), math.Pow(2, float64(ki.bits-1))-1
	} else {
		lo, hi = 0, math.Pow(2, float64(ki.bits))-1
	}
	if hi > 9007199254740992 {
		hi = 9007199254740992
	}
	if lo < -9007199254740992 {
		lo = -9007199254740992
	}
	pool := []float64{0, 1, 2, 3, 4, 6, 7, 10, 100, hi, hi - 1, lo, lo + 1}
	if ki.signed {
		pool = append(pool, -1, -2, -3, -7)
	}
	v := pool[rng.Intn(len(pool))]
	if v < lo {
		v = lo
	}
	if v > hi {
		v = hi
	}
	return v
}

var boundPool = []float64{0, 1, -1, 2, 3, 2.5, -2.5, 0.5, -0.5, 7, 10, 100, 127, 128, 255, 256, -128, -129, 32767, 65536,
	2147483647, 2147483648, -2147483649, 4294967296, 9007199254740992, -9007199254740992, 1e10, 123456.789012, 0.1}
var factorPool = []float64{1, 2, 3, 7, 10, 0.5, 0.1, 0.01, 1.5, 0.000001, 0, -1, -0.5, 2.5}

func genValues(rng *rand.Rand, idx int, tier string) Case {
	k := numKinds[rng.Intn(len(numKinds))]
	v := valueFor(rng, k)
	c := Case{"kind": k, "val": v}
	switch rng.Intn(10) {
	case 0, 1, 2:
		c["op"] = "native"
		c["fn"] = []string{"max", "min"}[rng.Intn(2)]
		c["bound"] = nearOrPool(rng, v, boundPool)
		c["excl"] = rng.Intn(3) == 0
	case 3, 4:
		c["op"] = "native"
		c["fn"] = "mul"
		c["bound"] = factorPool[rng.Intn(len(factorPool))]
	case 5, 6, 7:
		c["op"] = "schema"
		s := map[string]interface{}{}
		if rng.Intn(4) > 0 {
			s["type"] = []string{"integer", "number"}[rng.Intn(2)]
		}
		addNumeric(rng, s, v)
		c["schema"] = s
		if t, typed := s["type"].(string); typed && rng.Intn(4) == 0 && (t == "number" || v == math.Trunc(v)) {
			// the number arrives as a json.Number (decoder with UseNumber): schema.go reads it with Int64() under a declared
			// integer type (a literal that does not parse is a conversion error: not generated) and with Float64() under
			// number — that is the carrier the model is told
			c["carrier"] = "jsonnumber"
			if t == "integer" && v == math.Trunc(v) && math.Abs(v) < 9.3e18 {
				c["kind"] = "int64"
			} else {
				c["kind"] = "float64"
			}
		}
	default:
		c["op"] = "param"
		s := map[string]interface{}{"name": "p", "in": "query"}
		ki := kindOf(k)
		if ki.float {
			s["type"] = "number"
			if rng.Intn(2) == 0 {
				s["format"] = []string{"float", "double"}[rng.Intn(2)]
			}
		} else {
			s["type"] = "integer"
			if rng.Intn(2) == 0 {
				s["format"] = []string{"int32", "int64"}[rng.Intn(2)]
			}
		}
		addNumeric(rng, s, v)
		c["param"] = s
	}
	return c
}

func nearOrPool(rng *rand.Rand, v float64, pool []float64) float64 {
	switch rng.Intn(5) {
	case 0:
		return v
	case 1:
		return v + 1
	case 2:
		return v - 1
	case 3:
		return v + 0.5
	}
	return pool[rng.Intn(len(pool))]
}

func addNumeric(rng *rand.Rand, s map[string]interface{}, v float64) {
	n := 0
	if rng.Intn(2) == 0 {
		s["minimum"] = nearOrPool(rng, v, boundPool)
		if rng.Intn(3) == 0 {
			s["exclusiveMinimum"] = true
		}
		n++
	}
	if rng.Intn(2) == 0 {
		s["maximum"] = nearOrPool(rng, v, boundPool)
		if rng.Intn(3) == 0 {
			s["exclusiveMaximum"] = true
		}
		n++
	}
	if rng.Intn(3) == 0 || n == 0 {
		s["multipleOf"] = factorPool[rng.Intn(len(factorPool))]
	}
}

func typedNumber(k string, v float64) interface{} {
	switch k {
	case "int":
		return int(v)
	case "int8":
		return int8(v)
	case "int16":
		return int16(v)
	case "int32":
		return int32(v)
	case "int64":
		return int64(v)
	case "uint":
		return uint(v)
	case "uint8":
		return uint8(v)
	case "uint16":
		return uint16(v)
	case "uint32":
		return uint32(v)
	case "uint64":
		return uint64(v)
	case "float32":
		return float32(v)
	}
	return v
}

func num(v interface{}) float64 {
	switch x := v.(type) {
	case json.Number:
		f, _ := x.Float64()
		return f
	case float64:
		return x
	case int:
		return float64(x)
	}
	return 0
}

func errKind(err *errors.Validation) string {
	if err == nil {
		return "ok"
	}
	switch err.Code() {
	case errors.MultipleOfMustBePositiveCode:
		return "notPositive"
	case errors.MultipleOfFailCode:
		return "notMultiple"
	case errors.MaxFailCode:
		return "max"
	case errors.MinFailCode:
		return "min"
	}
	return fmt.Sprintf("code%d", err.Code())
}

func runValues(c Case) interface{} {
	k := asStr(c["kind"])
	v := typedNumber(k, num(c["val"]))
	out := map[string]interface{}{}
	switch asStr(c["op"]) {
	case "native":
		b := num(c["bound"])
		excl, _ := c["excl"].(bool)
		switch asStr(c["fn"]) {
		case "max":
			out["res"] = errKind(validate.MaximumNativeType("p", "query", v, b, excl))
		case "min":
			out["res"] = errKind(validate.MinimumNativeType("p", "query", v, b, excl))
		default:
			out["res"] = errKind(validate.MultipleOfNativeType("p", "query", v, b))
		}
	case "schema":
		sb, _ := json.Marshal(c["schema"])
		if asStr(c["carrier"]) == "jsonnumber" {
			v = json.Number(strconv.FormatFloat(num(c["val"]), 'f', -1, 64))
		}
		err := validate.AgainstSchema(parseSchemaJSON(sb), v, strfmt.Default)
		out["valid"] = err == nil
		if err != nil {
			if ce, ok := err.(*errors.CompositeError); ok {
				out["errors"] = canonErrs(ce.Errors)
			}
		}
	case "param":
		pb, _ := json.Marshal(c["param"])
		p := new(spec.Parameter)
		if err := json.Unmarshal(pb, p); err != nil {
			panic("harness: parameter does not decode: " + err.Error())
		}
		res := validate.NewParamValidator(p, strfmt.Default).Validate(v)
		out["valid"] = res.IsValid()
		out["errors"] = canonErrs(res.Errors)
	}
	return out
}

// oracle tables for the float paths: the value as float64 against every factor in the case
func valuesOracles(c Case) map[string]interface{} {
	v := num(c["val"])
	if asStr(c["kind"]) == "float32" {
		v = float64(float32(v))
	}
	muls := []float64{}
	if asStr(c["op"]) == "native" && asStr(c["fn"]) == "mul" {
		muls = append(muls, num(c["bound"]))
	}
	for _, key := range []string{"schema", "param"} {
		if m := asMap(c[key]); m != nil {
			if f, ok := m["multipleOf"]; ok {
				muls = append(muls, num(f))
			}
		}
	}
	mulOf := []interface{}{}
	for _, f := range muls {
		if f > 0 {
			mulOf = append(mulOf, []interface{}{json.Number(strconv.FormatFloat(v, 'g', -1, 64)), json.Number(strconv.FormatFloat(f, 'g', -1, 64)), mulOfOracle(v, f)})
		}
	}
	return map[string]interface{}{"re": []interface{}{}, "fmtKnown": []interface{}{}, "fmt": []interface{}{},
		"isInt": []interface{}{[]interface{}{json.Number(strconv.FormatFloat(v, 'g', -1, 64)), swag.IsFloat64AJSONInteger(v)}}, "mulOf": mulOf}
}
