package main

import (
	"math/rand"
	"strconv"
	"strings"
)

// Type-directed generator of draft-4 schemas and instances (family "schema").
// All randomness comes from the *rand.Rand handed in; sizes depend on the tier only.

type sgen struct {
	rng       *rand.Rand
	maxDepth  int
	defs      []string // names of definitions usable as $ref targets
	mal       bool     // malformed stream (C06): degenerate keywords allowed
	nodefault bool
}

var namePool = []string{"a", "b", "c", "a.a", "", "é", "$schema", "id", "headers", "default", "properties", "items", "x-1", "0", "example", "examples", "type", "body"}
var patPool = []string{"^a", "b$", "^[a-c]+$", "^x-", "é", "^$", "a.a", "^(id|items)$", "[0-9]"}
var badPatPool = []string{"(", "[a-", "a{2,1}", "\\"}
var strPool = []string{"", "a", "b", "abc", "a.a", "é", "éé", "x-1", "2020-01-01", "not-a-date", "foo@example.com", "日本語", "id", "0", "aaaa", "7f3a2b10-4c1d-4e8a-9b0e-1234567890ab"}
var fmtPool = []string{"date", "email", "uuid", "unknownfmt", "date-time"}
var numPool = []interface{}{0, 1, -1, 2, 3, 7, 10, 0.5, 1.5, -2.5, 0.1, 0.07, 100, 2147483647, 2147483648, -2147483649, 9007199254740992, -9007199254740992, 123456.789012, 1e10, 0.000001, 1000000000.5, 3.0, 1.0000000001}
var mulPool = []interface{}{1, 2, 3, 7, 0.5, 0.1, 0.01, 1.5, 0.000001, 10}

func (g *sgen) p(pct int) bool         { return g.rng.Intn(100) < pct }
func (g *sgen) pick(l []string) string { return l[g.rng.Intn(len(l))] }
func (g *sgen) num() interface{}       { return numPool[g.rng.Intn(len(numPool))] }
func (g *sgen) smallInt() int          { return g.rng.Intn(4) }

func (g *sgen) enumValue(depth int) interface{} {
	switch g.rng.Intn(8) {
	case 0:
		return nil
	case 1:
		return g.p(50)
	case 2, 3:
		return g.num()
	case 4, 5:
		return g.pick(strPool)
	case 6:
		if depth > 0 {
			return []interface{}{g.enumValue(depth - 1), g.enumValue(depth - 1)}
		}
		return []interface{}{}
	default:
		if depth > 0 {
			return map[string]interface{}{g.pick(namePool): g.enumValue(depth - 1), "k": g.num()}
		}
		return map[string]interface{}{}
	}
}

var typeNames = []string{"string", "integer", "number", "boolean", "null", "array", "object"}

func (g *sgen) schema(depth int) map[string]interface{} {
	s := map[string]interface{}{}
	if g.mal && g.p(2) {
		s["$ref"] = "#/definitions/missing"
		return s
	}
	if len(g.defs) > 0 && g.p(8) {
		s["$ref"] = "#/definitions/" + g.pick(g.defs)
		return s
	}
	// type
	main := ""
	switch r := g.rng.Intn(100); {
	case r < 18:
		// untyped
	case r < 82:
		main = g.pick(typeNames)
		s["type"] = main
	default:
		k := 2 + g.rng.Intn(2)
		ts := []interface{}{}
		seen := map[string]bool{}
		for len(ts) < k {
			t := g.pick(typeNames)
			if !seen[t] {
				seen[t] = true
				ts = append(ts, t)
			}
		}
		s["type"] = ts
		main = ts[0].(string)
	}
	if g.mal && g.p(5) {
		s["type"] = "weird"
	}
	want := func(t string, base int) bool {
		if main == t {
			return g.p(base)
		}
		return g.p(base / 6)
	}
	// string keywords
	if want("string", 45) {
		s["minLength"] = g.smallInt()
	}
	if want("string", 45) {
		s["maxLength"] = 1 + g.smallInt()
	}
	if want("string", 40) {
		s["pattern"] = g.pick(patPool)
		if g.mal && g.p(30) {
			s["pattern"] = g.pick(badPatPool)
		}
	}
	if main == "string" && s["type"] == "string" && g.p(25) {
		s["format"] = g.pick(fmtPool)
	}
	if g.mal && g.p(6) {
		s["format"] = g.pick(append(fmtPool, "int32", "double", "float"))
	}
	// numeric keywords
	isNum := main == "integer" || main == "number"
	wn := func(base int) bool {
		if isNum {
			return g.p(base)
		}
		return g.p(base / 6)
	}
	if wn(45) {
		s["minimum"] = g.num()
		if g.p(30) {
			s["exclusiveMinimum"] = true
		}
	}
	if wn(45) {
		s["maximum"] = g.num()
		if g.p(30) {
			s["exclusiveMaximum"] = true
		}
	}
	if wn(35) {
		s["multipleOf"] = mulPool[g.rng.Intn(len(mulPool))]
		if g.mal && g.p(30) {
			s["multipleOf"] = []interface{}{0, -1, -0.5}[g.rng.Intn(3)]
		}
	}
	// enum
	if g.p(10) {
		n := 1 + g.rng.Intn(4)
		if g.mal && g.p(20) {
			n = 0
		}
		e := []interface{}{}
		for i := 0; i < n; i++ {
			e = append(e, g.enumValue(1))
		}
		s["enum"] = e
	}
	// array keywords
	if want("array", 70) && depth > 0 {
		switch g.rng.Intn(10) {
		case 0, 1, 2, 3:
			s["items"] = g.schema(depth - 1)
			if g.mal && g.p(25) {
				if g.p(50) {
					s["additionalItems"] = g.schema(depth - 1)
				} else {
					s["additionalItems"] = g.p(50)
				}
			}
		case 4, 5, 6, 7:
			k := 1 + g.rng.Intn(3)
			t := []interface{}{}
			for i := 0; i < k; i++ {
				t = append(t, g.schema(depth-1))
			}
			s["items"] = t
			switch g.rng.Intn(4) {
			case 0:
				s["additionalItems"] = false
			case 1:
				s["additionalItems"] = true
			case 2:
				s["additionalItems"] = g.schema(depth - 1)
			}
		default:
			if g.mal && g.p(50) {
				s["additionalItems"] = g.schema(depth - 1)
			}
		}
	}
	if want("array", 30) {
		s["minItems"] = g.smallInt()
	}
	if want("array", 30) {
		s["maxItems"] = 1 + g.smallInt()
	}
	if want("array", 25) {
		s["uniqueItems"] = true
	}
	// object keywords
	if want("object", 75) && depth > 0 {
		k := g.rng.Intn(4)
		props := map[string]interface{}{}
		for i := 0; i < k; i++ {
			ps := g.schema(depth - 1)
			if !g.nodefault && g.p(12) {
				if _, isRef := ps["$ref"]; !isRef {
					ps["default"] = g.enumValue(1)
				}
			}
			props[g.pick(namePool)] = ps
		}
		if len(props) > 0 {
			s["properties"] = props
		}
	}
	if want("object", 40) {
		k := 1 + g.rng.Intn(2)
		if g.mal && g.p(20) {
			k = 0
		}
		req := []interface{}{}
		seen := map[string]bool{}
		var propNames []string
		if pm, ok := s["properties"].(map[string]interface{}); ok {
			propNames = sortedKeys(pm)
		}
		for i := 0; i < k; i++ {
			n := g.pick(namePool)
			if len(propNames) > 0 && g.p(60) {
				n = g.pick(propNames)
			}
			if !seen[n] {
				seen[n] = true
				req = append(req, n)
			}
		}
		if len(req) >= 2 && g.p(12) {
			// a name listed twice, with another name after the repetition (the decoder accepts it; the verdict is that of the set)
			// [a, b, a, c, …]: a name that has not been seen yet must follow the repetition
			tail := append([]interface{}{}, req[2:]...)
			if len(tail) == 0 {
				tail = []interface{}{"zz"}
			}
			req = append(append(append([]interface{}{}, req[:2]...), req[0]), tail...)
		}
		s["required"] = req
	}
	if want("object", 30) && depth > 0 {
		k := 1 + g.rng.Intn(2)
		pp := map[string]interface{}{}
		for i := 0; i < k; i++ {
			pat := g.pick(patPool)
			if g.mal && g.p(25) {
				pat = g.pick(badPatPool)
			}
			pp[pat] = g.schema(depth - 1)
		}
		s["patternProperties"] = pp
	}
	if want("object", 45) {
		switch g.rng.Intn(3) {
		case 0:
			s["additionalProperties"] = false
		case 1:
			s["additionalProperties"] = true
		default:
			if depth > 0 {
				s["additionalProperties"] = g.schema(depth - 1)
			}
		}
	}
	if want("object", 20) {
		s["minProperties"] = g.smallInt()
	}
	if want("object", 20) {
		s["maxProperties"] = 1 + g.smallInt()
	}
	if want("object", 20) && depth > 0 {
		d := map[string]interface{}{}
		n := 1 + g.rng.Intn(3) // several entries, of both kinds: each present key is judged by its own entry
		for i := 0; i < n; i++ {
			if g.p(20) {
				// a schema-valued entry that asserts a format on a member of the same object: the entry's validators need
				// everything the parent was built with (the format registry among it)
				d[g.pick(namePool)] = map[string]interface{}{"properties": map[string]interface{}{
					g.pick(namePool): map[string]interface{}{"type": "string", "format": g.pick([]string{"date", "email", "uuid", "date-time"})}}}
			} else if g.p(50) {
				d[g.pick(namePool)] = g.schema(depth - 1)
			} else {
				d[g.pick(namePool)] = []interface{}{g.pick(namePool)}
			}
		}
		s["dependencies"] = d
	}
	// composition
	if depth > 0 {
		subs := func() []interface{} {
			k := 1 + g.rng.Intn(3)
			l := []interface{}{}
			for i := 0; i < k; i++ {
				l = append(l, g.schema(depth-1))
			}
			return l
		}
		if g.p(14) {
			s["allOf"] = subs()
		}
		if g.p(14) {
			s["anyOf"] = subs()
		}
		if g.p(14) {
			s["oneOf"] = subs()
		}
		if g.p(10) {
			s["not"] = g.schema(depth - 1)
		}
	}
	return s
}

// rootSchema adds definitions (non-looping: definitions never contain $ref).
func (g *sgen) rootSchema() map[string]interface{} {
	var defs map[string]interface{}
	if g.p(30) {
		defs = map[string]interface{}{}
		names := []string{"d1", "d2"}
		k := 1 + g.rng.Intn(2)
		g.defs = nil
		for i := 0; i < k; i++ {
			d := g.maxDepth - 1
			if d < 0 {
				d = 0
			}
			defs[names[i]] = g.schema(d)
		}
		g.defs = names[:k]
	}
	s := g.schema(g.maxDepth)
	if defs != nil {
		if _, isRef := s["$ref"]; isRef {
			// keep the root a plain schema so that it can carry definitions
			s = map[string]interface{}{"allOf": []interface{}{s}}
		}
		s["definitions"] = defs
	}
	return s
}

// ---------------------------------------------------------------- instances

func (g *sgen) anyValue(depth int) interface{} {
	switch g.rng.Intn(9) {
	case 0:
		return nil
	case 1:
		return g.p(50)
	case 2, 3:
		return g.num()
	case 4, 5:
		return g.pick(strPool)
	case 6:
		if depth <= 0 {
			return []interface{}{}
		}
		k := g.rng.Intn(4)
		l := []interface{}{}
		for i := 0; i < k; i++ {
			l = append(l, g.anyValue(depth-1))
		}
		return l
	default:
		if depth <= 0 {
			return map[string]interface{}{}
		}
		k := g.rng.Intn(4)
		m := map[string]interface{}{}
		for i := 0; i < k; i++ {
			m[g.pick(namePool)] = g.anyValue(depth - 1)
		}
		return m
	}
}

func typesOf(s map[string]interface{}) []string {
	switch t := s["type"].(type) {
	case string:
		return []string{t}
	case []interface{}:
		out := []string{}
		for _, x := range t {
			if str, ok := x.(string); ok {
				out = append(out, str)
			}
		}
		return out
	}
	return nil
}

func toF(x interface{}) (float64, bool) {
	switch v := x.(type) {
	case int:
		return float64(v), true
	case float64:
		return v, true
	}
	return 0, false
}

// instanceFor tries to build an instance that satisfies s (best effort, not guaranteed).
func (g *sgen) instanceFor(s map[string]interface{}, root map[string]interface{}, depth int) interface{} {
	if ref, ok := s["$ref"].(string); ok && root != nil {
		if defs, ok := root["definitions"].(map[string]interface{}); ok {
			name := ref[len("#/definitions/"):]
			if t, ok := defs[name].(map[string]interface{}); ok && depth > -3 {
				return g.instanceFor(t, root, depth-1)
			}
		}
	}
	if e, ok := s["enum"].([]interface{}); ok && len(e) > 0 && g.p(85) {
		m := e[g.rng.Intn(len(e))]
		if str, isStr := m.(string); isStr && str != "" && g.p(12) {
			// the same letters in another case: enum membership is exact
			if up := strings.ToUpper(str); up != str {
				return up
			}
			return strings.ToLower(str)
		}
		return m
	}
	for _, key := range []string{"allOf", "anyOf", "oneOf"} {
		if l, ok := s[key].([]interface{}); ok && len(l) > 0 && g.p(50) {
			if sub, ok := l[g.rng.Intn(len(l))].(map[string]interface{}); ok && len(typesOf(s)) == 0 {
				return g.instanceFor(sub, root, depth-1)
			}
		}
	}
	ts := typesOf(s)
	t := ""
	if len(ts) > 0 {
		t = ts[g.rng.Intn(len(ts))]
	} else {
		// guess from keywords
		switch {
		case s["properties"] != nil || s["required"] != nil || s["patternProperties"] != nil || s["additionalProperties"] != nil:
			t = "object"
		case s["items"] != nil || s["minItems"] != nil:
			t = "array"
		case s["minLength"] != nil || s["pattern"] != nil || s["maxLength"] != nil:
			t = "string"
		case s["minimum"] != nil || s["maximum"] != nil || s["multipleOf"] != nil:
			t = "number"
		default:
			return g.anyValue(1)
		}
	}
	switch t {
	case "null":
		return nil
	case "boolean":
		return g.p(50)
	case "string":
		cands := []string{}
		for _, c := range strPool {
			cands = append(cands, c)
		}
		return cands[g.rng.Intn(len(cands))]
	case "integer", "number":
		// try to respect bounds / multipleOf
		lo, hasLo := toF(s["minimum"])
		hi, hasHi := toF(s["maximum"])
		m, hasM := toF(s["multipleOf"])
		if hasM && m > 0 {
			k := float64(g.rng.Intn(7) - 2)
			if hasLo {
				k = float64(int64(lo/m)) + float64(g.rng.Intn(3))
			} else if hasHi {
				k = float64(int64(hi/m)) - float64(g.rng.Intn(3))
			}
			v := k * m
			if t == "integer" {
				return float64(int64(v))
			}
			return v
		}
		if hasLo && hasHi && lo <= hi {
			if t == "integer" {
				return float64(int64(lo)) + float64(g.rng.Intn(2))
			}
			return lo + (hi-lo)*float64(g.rng.Intn(3))/2
		}
		if hasLo {
			return float64(int64(lo)) + float64(g.rng.Intn(3))
		}
		if hasHi {
			return float64(int64(hi)) - float64(g.rng.Intn(3))
		}
		if t == "integer" {
			return []interface{}{0, 1, -1, 2, 3, 7, 10, 100, 2147483648}[g.rng.Intn(9)]
		}
		return g.num()
	case "array":
		n := g.rng.Intn(4)
		if mi, ok := toF(s["minItems"]); ok && float64(n) < mi {
			n = int(mi)
		}
		if ma, ok := toF(s["maxItems"]); ok && float64(n) > ma {
			n = int(ma)
		}
		l := []interface{}{}
		tuple, _ := s["items"].([]interface{})
		single, _ := s["items"].(map[string]interface{})
		addl, _ := s["additionalItems"].(map[string]interface{})
		if u, _ := s["uniqueItems"].(bool); u && tuple == nil && single == nil && g.p(20) {
			// distinct values that look alike when printed or keyed carelessly: uniqueness is JSON equality, nothing weaker
			return [][]interface{}{
				{1, "1"}, {true, "true"}, {nil, "<nil>"}, {nil, "null"}, {0, false}, {"", nil},
				{[]interface{}{"a", "b"}, []interface{}{"a b"}},
				{map[string]interface{}{"a": "b c:d"}, map[string]interface{}{"a": "b", "c": "d"}},
				{1, 1.0}, {"a", "a"}, {[]interface{}{1, 2}, []interface{}{1, 2}},
			}[g.rng.Intn(11)]
		}
		if tuple != nil && g.p(60) {
			n = len(tuple) + g.rng.Intn(4)
		}
		for i := 0; i < n; i++ {
			switch {
			case single != nil && depth > 0:
				l = append(l, g.instanceFor(single, root, depth-1))
			case i < len(tuple) && depth > 0:
				if ts, ok := tuple[i].(map[string]interface{}); ok {
					l = append(l, g.instanceFor(ts, root, depth-1))
				} else {
					l = append(l, g.anyValue(1))
				}
			case tuple != nil && addl != nil && depth > 0:
				l = append(l, g.instanceFor(addl, root, depth-1))
			default:
				l = append(l, g.anyValue(1))
			}
		}
		// the first element beyond the tuple is where off-by-one errors of the additional-items loop show
		if tuple != nil && addl != nil && len(l) > len(tuple) && g.p(30) {
			l[len(tuple)] = g.otherTyped(addl)
		}
		return l
	case "object":
		m := map[string]interface{}{}
		props, _ := s["properties"].(map[string]interface{})
		for k, ps := range sortedMap(props) {
			_ = k
			_ = ps
		}
		for _, k := range sortedKeys(props) {
			if g.p(60) {
				if ps, ok := props[k].(map[string]interface{}); ok && depth > 0 {
					m[k] = g.instanceFor(ps, root, depth-1)
				} else {
					m[k] = g.anyValue(1)
				}
			}
		}
		if req, ok := s["required"].([]interface{}); ok {
			for _, r := range req {
				k, _ := r.(string)
				if _, has := m[k]; !has && g.p(85) {
					if ps, ok := props[k].(map[string]interface{}); ok && depth > 0 {
						m[k] = g.instanceFor(ps, root, depth-1)
					} else if ap, ok := s["additionalProperties"].(map[string]interface{}); ok && depth > 0 {
						m[k] = g.instanceFor(ap, root, depth-1)
					} else {
						m[k] = g.anyValue(1)
					}
				}
			}
		}
		if deps, ok := s["dependencies"].(map[string]interface{}); ok {
			for _, dk := range sortedKeys(deps) {
				if _, has := m[dk]; !has && g.p(70) {
					m[dk] = g.anyValue(1)
				}
				if _, has := m[dk]; !has {
					continue
				}
				if ds, ok := deps[dk].(map[string]interface{}); ok {
					if dps, ok := ds["properties"].(map[string]interface{}); ok {
						for _, name := range sortedKeys(dps) {
							if _, has := m[name]; !has && g.p(80) {
								m[name] = g.pick(strPool)
							}
						}
					}
				}
				if lst, ok := deps[dk].([]interface{}); ok {
					for _, d := range lst {
						name, _ := d.(string)
						if !g.p(85) {
							continue
						}
						if g.p(35) {
							m[name] = nil // present with value null: presence, not non-nil-ness, is what counts
						} else if _, has := m[name]; !has {
							m[name] = g.anyValue(1)
						}
					}
				}
			}
		}
		// objects that look like schemas (Swagger pre-checks look at "type"/"items" members of the *instance*)
		if g.p(6) {
			m["items"] = g.anyValue(1)
			if g.p(50) {
				m["type"] = g.pick([]string{"array", "string", "object"})
			}
		}
		// an undeclared member called "headers" holding objects with a "$ref": where additionalProperties is false the code adds
		// its IMPORTANT!-tagged message (the one that travels up through failed anyOf/oneOf branches)
		if ap, isBool := s["additionalProperties"].(bool); isBool && !ap && g.p(25) {
			if _, has := m["headers"]; !has {
				m["headers"] = map[string]interface{}{"X-A": map[string]interface{}{"$ref": "#/x"}, "X-B": map[string]interface{}{"type": "string"}}
			}
		}
		if g.p(35) {
			k := g.pick(namePool)
			if _, has := m[k]; !has {
				if ap, ok := s["additionalProperties"].(map[string]interface{}); ok && depth > 0 {
					m[k] = g.instanceFor(ap, root, depth-1)
				} else {
					m[k] = g.anyValue(1)
				}
			}
		}
		return m
	}
	return g.anyValue(1)
}

func sortedMap(m map[string]interface{}) map[string]interface{} { return nil }

// mutate applies one random structural mutation somewhere in v.
func (g *sgen) mutate(v interface{}, depth int) interface{} {
	switch x := v.(type) {
	case []interface{}:
		if len(x) > 0 && g.p(60) && depth > 0 {
			i := g.rng.Intn(len(x))
			c := append([]interface{}{}, x...)
			c[i] = g.mutate(x[i], depth-1)
			return c
		}
		switch g.rng.Intn(4) {
		case 0:
			return append(append([]interface{}{}, x...), g.anyValue(1))
		case 1:
			if len(x) > 0 {
				return append(append([]interface{}{}, x...), x[g.rng.Intn(len(x))]) // duplicate
			}
		case 2:
			if len(x) > 0 {
				return append([]interface{}{}, x[:len(x)-1]...)
			}
		}
		return g.anyValue(1)
	case map[string]interface{}:
		keys := sortedKeys(x)
		c := map[string]interface{}{}
		for k, val := range x {
			c[k] = val
		}
		if len(keys) > 0 && g.p(55) && depth > 0 {
			k := keys[g.rng.Intn(len(keys))]
			c[k] = g.mutate(x[k], depth-1)
			return c
		}
		switch g.rng.Intn(4) {
		case 3:
			if len(keys) > 0 {
				c[keys[g.rng.Intn(len(keys))]] = nil
				return c
			}
		case 0:
			if len(keys) > 0 {
				delete(c, keys[g.rng.Intn(len(keys))])
				return c
			}
		case 1:
			c[g.pick(namePool)] = g.anyValue(1)
			return c
		}
		return g.anyValue(1)
	case float64:
		switch g.rng.Intn(4) {
		case 0:
			return x + 1
		case 1:
			return x - 1
		case 2:
			return x + 0.5
		}
		return g.anyValue(0)
	case int:
		return g.mutate(float64(x), depth)
	case string:
		if g.p(50) {
			return x + "a"
		}
		return g.anyValue(0)
	case nil:
		return g.anyValue(1)
	default:
		if g.p(50) {
			return nil
		}
		return g.anyValue(0)
	}
}

// round15 keeps numbers inside the C01 quantifier: at most 15 significant digits, |x| <= 2^53
func round15(v interface{}) interface{} {
	switch x := v.(type) {
	case float64:
		if x > 9007199254740992 {
			x = 9007199254740992
		}
		if x < -9007199254740992 {
			x = -9007199254740992
		}
		f, _ := strconv.ParseFloat(strconv.FormatFloat(x, 'g', 15, 64), 64)
		return f
	case []interface{}:
		for i := range x {
			x[i] = round15(x[i])
		}
		return x
	case map[string]interface{}:
		for k := range x {
			x[k] = round15(x[k])
		}
		return x
	}
	return v
}

func (g *sgen) instance(s map[string]interface{}) interface{} {
	return round15(g.instance0(s))
}

func (g *sgen) instance0(s map[string]interface{}) interface{} {
	r := g.rng.Intn(100)
	switch {
	case r < 15:
		return g.anyValue(2)
	default:
		v := g.instanceFor(s, s, g.maxDepth+1)
		if r < 55 {
			k := 1 + g.rng.Intn(2)
			for i := 0; i < k; i++ {
				v = g.mutate(v, 3)
			}
		}
		return v
	}
}

// otherTyped returns a value whose JSON type differs from the type the schema declares (any value when it declares none)
func (g *sgen) otherTyped(s map[string]interface{}) interface{} {
	ts := typesOf(s)
	cands := []interface{}{"x", 1.5, true, nil, []interface{}{}, map[string]interface{}{}}
	names := []string{"string", "number", "boolean", "null", "array", "object"}
	for tries := 0; tries < 8; tries++ {
		i := g.rng.Intn(len(cands))
		ok := true
		for _, t := range ts {
			if t == names[i] || (t == "integer" && names[i] == "number") {
				ok = false
			}
		}
		if ok {
			return cands[i]
		}
	}
	return g.anyValue(0)
}
