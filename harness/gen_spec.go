package main

import (
	"fmt"
	"math/rand"
	"strings"
)

// Grammar of Swagger 2.0 documents (family "spec": C02 C03 C07 C09 C10).
//
// A document is assembled from well-formed parts: paths with 0-2 placeholders per segment,
// operations, parameters of every location (inline, path-level, through #/parameters),
// responses with schemas, headers and examples (inline and through #/responses), definitions
// with allOf inheritance and $ref. Defaults and examples are placed at every location kind of
// C09 and are *good* (accepted by their own schema) or *bad* (a value of another type).
// Then 0-2 rule-breaking edits of the catalogue are applied (one per documented rule).
// All randomness comes from the *rand.Rand handed in.

type spgen struct {
	rng      *rand.Rand
	defNames []string
	parNames []string
	resNames []string
	opSeq    int
	badPct   int // probability (percent) that a default/example is bad
	edits    []string
	tier     string
	exotic   bool // keywords the Swagger schema forbids (patternProperties, additionalItems, example on simple schemas)
}

var spNamePool = []string{"a", "b", "c", "id", "s", "Pet", "tag", "a.a", "x.x", "n1", "default", "items", "additionalProperties", "allOf[0]", "é"}
var spDefPool = []string{"A", "B", "C", "s", "a", "Pet", "a.a", "items", "D"}
var spSegPool = []string{"pets", "a", "b", "v1", "items", "x"}
var spGoodPats = []string{"^a", "^[a-z]+$", "b$"}
var spMethods = []string{"get", "put", "post", "delete", "patch", "head", "options"}

func (g *spgen) p(pct int) bool         { return g.rng.Intn(100) < pct }
func (g *spgen) pick(l []string) string { return l[g.rng.Intn(len(l))] }

type M = map[string]interface{}
type L = []interface{}

// value of the given simple type: good or bad
func (g *spgen) valueOf(typ string, good bool) interface{} {
	if !good {
		switch typ {
		case "string":
			return 7
		case "array":
			return "not-an-array"
		case "object":
			return "not-an-object"
		default:
			return "bad"
		}
	}
	switch typ {
	case "string":
		return g.pick([]string{"abc", "a", "zz"})
	case "integer":
		return g.rng.Intn(5)
	case "number":
		return []interface{}{1.5, 2, 0.25}[g.rng.Intn(3)]
	case "boolean":
		return g.p(50)
	case "array":
		return L{}
	case "object":
		return M{}
	}
	return nil
}

// attach default and/or example to a (simple or full) schema node of the given type
func (g *spgen) decorate(s M, typ string, allowExample bool) {
	if typ == "" || typ == "file" {
		return
	}
	if g.p(35) {
		s["default"] = g.valueOf(typ, !g.p(g.badPct))
	}
	if allowExample && g.p(25) {
		s["example"] = g.valueOf(typ, !g.p(g.badPct))
	}
}

var spScalar = []string{"string", "integer", "number", "boolean"}

// JSON schema for bodies, responses, definitions
func (g *spgen) schema(depth int) M {
	if len(g.defNames) > 0 && g.p(15) {
		return M{"$ref": "#/definitions/" + jsonPtrEscape(g.pick(g.defNames))}
	}
	r := g.rng.Intn(100)
	switch {
	case depth > 0 && r < 40:
		s := M{"type": "object"}
		props := M{}
		n := g.rng.Intn(4)
		for i := 0; i < n; i++ {
			props[g.pick(spNamePool)] = g.schema(depth - 1)
		}
		if len(props) > 0 {
			s["properties"] = props
			req := L{}
			for _, k := range sortedKeys(props) {
				if g.p(30) {
					req = append(req, k)
				}
			}
			if len(req) > 0 {
				s["required"] = req
			}
		}
		switch g.rng.Intn(8) {
		case 0:
			s["additionalProperties"] = true
		case 1:
			s["additionalProperties"] = false
		case 2:
			s["additionalProperties"] = g.schema(depth - 1)
		}
		if g.exotic && g.p(20) {
			s["patternProperties"] = M{g.pick(spGoodPats): g.schema(depth - 1)}
		}
		if g.p(10) {
			g.decorate(s, "object", true)
		}
		return s
	case depth > 0 && r < 55:
		s := M{"type": "array"}
		if g.p(12) {
			s["items"] = L{g.schema(depth - 1), g.schema(depth - 1)}
			if g.exotic && g.p(50) {
				s["additionalItems"] = g.schema(depth - 1)
			}
		} else {
			s["items"] = g.schema(depth - 1)
		}
		if g.p(15) {
			g.decorate(s, "array", true)
		}
		return s
	case depth > 0 && r < 63 && len(g.defNames) > 0:
		s := M{"allOf": L{M{"$ref": "#/definitions/" + jsonPtrEscape(g.pick(g.defNames))}, g.schema(depth - 1)}}
		return s
	case depth > 0 && r < 68:
		return M{"allOf": L{g.schema(depth - 1), g.schema(depth - 1)}}
	default:
		t := g.pick(spScalar)
		s := M{"type": t}
		if g.p(8) {
			s["readOnly"] = true
		}
		if t == "string" && g.p(15) {
			s["pattern"] = g.pick(spGoodPats) // no default/example next to a pattern: good values stay good
		} else {
			g.decorate(s, t, true)
		}
		return s
	}
}

// items chain of a simple parameter / header
func (g *spgen) items(depth int) M {
	t := g.pick(spScalar)
	if depth > 0 && g.p(25) {
		t = "array"
	}
	it := M{"type": t}
	if t == "array" {
		it["items"] = g.items(depth - 1)
	}
	g.decorate(it, t, g.exotic)
	return it
}

func (g *spgen) simpleParam(name, in string) M {
	p := M{"name": name, "in": in}
	t := g.pick(spScalar)
	if in != "path" && g.p(25) {
		t = "array"
	}
	if in == "formData" && g.p(15) {
		t = "file"
	}
	p["type"] = t
	if t == "array" {
		p["items"] = g.items(1)
	}
	if in == "path" {
		p["required"] = true
	} else if g.p(30) {
		p["required"] = true
	}
	if t == "string" && g.p(10) {
		p["pattern"] = g.pick(spGoodPats)
	} else {
		g.decorate(p, t, g.exotic)
	}
	return p
}

func (g *spgen) bodyParam(name string) M {
	return M{"name": name, "in": "body", "schema": g.schema(2)}
}

func (g *spgen) header() M {
	t := g.pick(spScalar)
	if g.p(25) {
		t = "array"
	}
	h := M{"type": t}
	if t == "array" {
		h["items"] = g.items(1)
	}
	g.decorate(h, t, g.exotic)
	return h
}

func (g *spgen) response() M {
	r := M{"description": "d"}
	if g.p(60) {
		r["schema"] = g.schema(2)
	}
	if g.p(30) {
		hs := M{}
		n := 1 + g.rng.Intn(2)
		for i := 0; i < n; i++ {
			hs[g.pick([]string{"X-A", "X-B", "a.a", "s"})] = g.header()
		}
		r["headers"] = hs
	}
	if g.p(25) {
		ex := M{}
		if g.p(70) {
			// judged against the response schema when there is one
			t := ""
			if s, ok := r["schema"].(M); ok {
				t, _ = s["type"].(string)
			}
			if t != "" {
				ex["application/json"] = g.valueOf(t, !g.p(g.badPct))
			} else {
				ex["application/json"] = M{"k": 1}
			}
		}
		if g.p(40) {
			ex["text/plain"] = "x"
		}
		if len(ex) > 0 {
			r["examples"] = ex
		}
	}
	return r
}

func jsonPtrEscape(s string) string {
	s = strings.ReplaceAll(s, "~", "~0")
	return strings.ReplaceAll(s, "/", "~1")
}

// pathTemplate returns a template and the names of its placeholders
func (g *spgen) pathTemplate() (string, []string) {
	nseg := 1 + g.rng.Intn(3)
	var segs []string
	var names []string
	used := map[string]bool{}
	fresh := func() string {
		for i := 0; i < 10; i++ {
			n := g.pick([]string{"id", "a", "b", "petId", "x", "n1"})
			if !used[n] {
				used[n] = true
				return n
			}
		}
		return fmt.Sprintf("p%d", len(used))
	}
	for i := 0; i < nseg; i++ {
		switch r := g.rng.Intn(100); {
		case r < 50:
			segs = append(segs, g.pick(spSegPool))
		case r < 88:
			n := fresh()
			names = append(names, n)
			segs = append(segs, "{"+n+"}")
		default: // two placeholders in one segment
			n1, n2 := fresh(), fresh()
			names = append(names, n1, n2)
			segs = append(segs, "{"+n1+"}-{"+n2+"}")
		}
	}
	return "/" + strings.Join(segs, "/"), names
}

func (g *spgen) document() M {
	doc := M{"swagger": "2.0", "info": M{"title": "t", "version": "1"}}
	// definitions (names first so that schemas can refer to them)
	nd := g.rng.Intn(4)
	seen := map[string]bool{}
	for i := 0; i < nd; i++ {
		n := g.pick(spDefPool)
		if !seen[n] {
			seen[n] = true
			g.defNames = append(g.defNames, n)
		}
	}
	if len(g.defNames) > 0 {
		defs := M{}
		for _, n := range g.defNames {
			defs[n] = g.schema(2)
			// a definition must not be a bare self reference
			if r, ok := defs[n].(M)["$ref"]; ok && r == "#/definitions/"+jsonPtrEscape(n) {
				defs[n] = M{"type": "object"}
			}
		}
		doc["definitions"] = defs
	}
	// shared parameters and responses
	if g.p(40) {
		ps := M{}
		n := 1 + g.rng.Intn(2)
		for i := 0; i < n; i++ {
			key := g.pick([]string{"P1", "P2", "limit"})
			if _, ok := ps[key]; ok {
				continue
			}
			switch g.rng.Intn(4) {
			case 0:
				ps[key] = g.bodyParam(g.pick(spNamePool))
			default:
				ps[key] = g.simpleParam(g.pick(spNamePool), g.pick([]string{"query", "header", "formData"}))
			}
			g.parNames = append(g.parNames, key)
		}
		doc["parameters"] = ps
	}
	if g.p(30) {
		rs := M{}
		key := g.pick([]string{"R1", "NotFound"})
		rs[key] = g.response()
		g.resNames = append(g.resNames, key)
		doc["responses"] = rs
	}
	// paths
	paths := M{}
	np := 1 + g.rng.Intn(3)
	for i := 0; i < np; i++ {
		tpl, names := g.pathTemplate()
		if _, ok := paths[tpl]; ok {
			continue
		}
		pi := M{}
		// where each path parameter is declared
		var pathLevel L
		perOp := []string{}
		for _, n := range names {
			if g.p(35) {
				pathLevel = append(pathLevel, g.simpleParam(n, "path"))
			} else {
				perOp = append(perOp, n)
			}
		}
		if g.p(15) {
			pathLevel = append(pathLevel, g.simpleParam(g.pick(spNamePool), "query"))
		}
		if len(pathLevel) > 0 {
			pi["parameters"] = pathLevel
		}
		nops := 1 + g.rng.Intn(2)
		for j := 0; j < nops; j++ {
			m := g.pick(spMethods[:4])
			if g.p(10) {
				m = g.pick(spMethods)
			}
			if _, ok := pi[m]; ok {
				continue
			}
			pi[m] = g.operation(perOp)
		}
		paths[tpl] = pi
	}
	doc["paths"] = paths
	return doc
}

func (g *spgen) operation(pathParams []string) M {
	op := M{}
	g.opSeq++
	if g.p(85) {
		op["operationId"] = fmt.Sprintf("op%d", g.opSeq)
	}
	var params L
	for _, n := range pathParams {
		params = append(params, g.simpleParam(n, "path"))
	}
	used := map[string]bool{}
	extra := g.rng.Intn(3)
	hasBody, hasForm := false, false
	for i := 0; i < extra; i++ {
		switch r := g.rng.Intn(100); {
		case r < 20 && len(g.parNames) > 0:
			key := g.pick(g.parNames)
			if used["ref:"+key] {
				continue
			}
			used["ref:"+key] = true
			params = append(params, M{"$ref": "#/parameters/" + key})
		case r < 45 && !hasBody && !hasForm:
			hasBody = true
			params = append(params, g.bodyParam(g.pick(spNamePool)))
		default:
			in := g.pick([]string{"query", "header", "formData"})
			if in == "formData" && hasBody {
				in = "query"
			}
			name := g.pick(spNamePool)
			if used[in+"#"+name] {
				continue
			}
			used[in+"#"+name] = true
			if in == "formData" {
				hasForm = true
			}
			params = append(params, g.simpleParam(name, in))
		}
	}
	if len(params) > 0 {
		op["parameters"] = params
	}
	resps := M{}
	if g.p(60) {
		resps["default"] = g.respOrRef()
	}
	if g.p(70) || len(resps) == 0 {
		resps[g.pick([]string{"200", "201", "404"})] = g.respOrRef()
	}
	op["responses"] = resps
	return op
}

func (g *spgen) respOrRef() M {
	if len(g.resNames) > 0 && g.p(25) {
		return M{"$ref": "#/responses/" + g.pick(g.resNames)}
	}
	return g.response()
}

// ---------------------------------------------------------------- rule-breaking edits

type opRef struct {
	path, method string
	op           M
	pi           M
}

func docOps(doc M) []opRef {
	var out []opRef
	paths, _ := doc["paths"].(M)
	for _, p := range sortedKeys(paths) {
		pi, _ := paths[p].(M)
		for _, m := range spMethods {
			if op, ok := pi[m].(M); ok {
				out = append(out, opRef{p, m, op, pi})
			}
		}
	}
	return out
}

var spEdits = []string{"dupOperationID", "dropPathParam", "renamePathParam", "extraPathParam", "pathParamNotRequired",
	"repeatPlaceholder", "emptyPlaceholder", "dupParam", "secondBody", "bodyAndForm", "arrayNoItemsParam", "arrayNoItemsHeader",
	"arrayNoItemsSchema", "nestedItemsNoItems", "requiredUndefined", "requiredViaAdditional", "dupInheritedProperty",
	"circularAncestry", "overlapPaths", "badPatternParam", "badPatternHeader", "badPatternSchema", "badPatternItems",
	"unresolvedSchemaRef", "unresolvedParamRef", "noPaths", "emptyPaths", "bodyViaSharedParam", "noResponses", "refWithSiblingDefault",
	"refWithExtension", "pathParamNoPlaceholder", "requiredViaAdditionalSchema", "sameBodyNameTwice", "tupleDefaults", "diamondAncestry", "diamondSharedProperty", "cycleBelowStart", "oddPropertyNames", "aliasCycle", "sameResponseCodeTwice", "valuesBesideRefs", "badDefaultAndExample", "trailingSlashTwin", "requiredPatternNextToBadPattern", "zeroDefaults", "tupleItemsInOperation"}

func (g *spgen) applyEdit(doc M, kind string) bool {
	ops := docOps(doc)
	paths, _ := doc["paths"].(M)
	pickOp := func() (opRef, bool) {
		if len(ops) == 0 {
			return opRef{}, false
		}
		return ops[g.rng.Intn(len(ops))], true
	}
	params := func(o opRef) L { l, _ := o.op["parameters"].(L); return l }
	switch kind {
	case "dupOperationID":
		if len(ops) < 2 {
			return false
		}
		a := ops[g.rng.Intn(len(ops))]
		b := ops[g.rng.Intn(len(ops))]
		if a.op["operationId"] == nil || &a.op == &b.op || (a.path == b.path && a.method == b.method) {
			return false
		}
		b.op["operationId"] = a.op["operationId"]
		return true
	case "dropPathParam", "renamePathParam", "pathParamNotRequired":
		o, ok := pickOp()
		if !ok {
			return false
		}
		ps := params(o)
		for i, p := range ps {
			pm, _ := p.(M)
			if pm["in"] == "path" {
				switch kind {
				case "dropPathParam":
					o.op["parameters"] = append(append(L{}, ps[:i]...), ps[i+1:]...)
				case "renamePathParam":
					pm["name"] = fmt.Sprint(pm["name"]) + "Z"
				default:
					if g.p(50) {
						pm["required"] = false
					} else {
						delete(pm, "required")
					}
				}
				return true
			}
		}
		return false
	case "extraPathParam":
		o, ok := pickOp()
		if !ok {
			return false
		}
		o.op["parameters"] = append(params(o), g.simpleParam("ghost", "path"))
		return true
	case "repeatPlaceholder", "emptyPlaceholder":
		for _, p := range sortedKeys(paths) {
			if g.p(60) {
				np := p
				if kind == "emptyPlaceholder" {
					// a whole segment, or inside a segment next to literal text or another placeholder
					np = p + g.pick([]string{"/{}", "/rev-{}", "/{}.json", "{}", "/photos{}/up"})
				} else {
					i := strings.Index(p, "{")
					j := strings.Index(p, "}")
					if i < 0 || j < i {
						continue
					}
					np = p + "/z/" + p[i:j+1]
				}
				if _, exists := paths[np]; exists {
					return false
				}
				paths[np] = paths[p]
				delete(paths, p)
				return true
			}
		}
		return false
	case "dupParam":
		o, ok := pickOp()
		if !ok {
			return false
		}
		ps := params(o)
		for _, p := range ps {
			pm, _ := p.(M)
			if pm["name"] != nil && pm["in"] != "body" {
				cp := M{}
				for k, v := range pm {
					cp[k] = v
				}
				o.op["parameters"] = append(ps, cp)
				return true
			}
		}
		return false
	case "secondBody", "bodyAndForm":
		o, ok := pickOp()
		if !ok {
			return false
		}
		ps := params(o)
		if kind == "secondBody" {
			ps = append(ps, g.bodyParam("body1"), g.bodyParam("body2"))
		} else {
			ps = append(ps, g.bodyParam("body1"), g.simpleParam("f1", "formData"))
		}
		o.op["parameters"] = ps
		return true
	case "bodyViaSharedParam":
		o, ok := pickOp()
		if !ok {
			return false
		}
		sp, _ := doc["parameters"].(M)
		if sp == nil {
			sp = M{}
			doc["parameters"] = sp
		}
		sp["SharedBody"] = g.bodyParam("sb")
		o.op["parameters"] = append(params(o), M{"$ref": "#/parameters/SharedBody"}, g.bodyParam("inlineBody"))
		return true
	case "arrayNoItemsParam":
		o, ok := pickOp()
		if !ok {
			return false
		}
		o.op["parameters"] = append(params(o), M{"name": "arr", "in": "query", "type": "array"})
		return true
	case "nestedItemsNoItems":
		o, ok := pickOp()
		if !ok {
			return false
		}
		o.op["parameters"] = append(params(o), M{"name": "arr2", "in": "query", "type": "array", "items": M{"type": "array"}})
		return true
	case "arrayNoItemsHeader", "badPatternHeader":
		o, ok := pickOp()
		if !ok {
			return false
		}
		rs, _ := o.op["responses"].(M)
		for _, code := range sortedKeys(rs) {
			r, _ := rs[code].(M)
			if _, isRef := r["$ref"]; isRef {
				continue
			}
			hs, _ := r["headers"].(M)
			if hs == nil {
				hs = M{}
				r["headers"] = hs
			}
			if kind == "arrayNoItemsHeader" {
				hs["X-Arr"] = M{"type": "array"}
			} else {
				hs["X-Pat"] = M{"type": "string", "pattern": "("}
			}
			return true
		}
		return false
	case "arrayNoItemsSchema", "badPatternSchema", "badPatternItems":
		o, ok := pickOp()
		if !ok {
			return false
		}
		var s M
		switch kind {
		case "arrayNoItemsSchema":
			s = M{"type": "array"}
			if g.p(40) {
				s = M{"type": "array", "items": M{"type": "array"}}
			}
		case "badPatternSchema":
			s = M{"type": "string", "pattern": "("}
			if g.p(40) {
				s = M{"type": "object", "properties": M{"q": M{"type": "string", "pattern": "[a-"}}}
			}
		default:
			s = M{"type": "array", "items": M{"type": "string", "pattern": "("}}
		}
		if g.p(50) {
			o.op["parameters"] = append(params(o), M{"name": "bodyE", "in": "body", "schema": s})
			// keep at most one body
			cnt := 0
			var keep L
			for _, p := range o.op["parameters"].(L) {
				pm, _ := p.(M)
				if pm["in"] == "body" {
					cnt++
					if pm["name"] != "bodyE" {
						continue
					}
				}
				if pm["in"] == "formData" {
					continue
				}
				keep = append(keep, p)
			}
			o.op["parameters"] = keep
		} else {
			rs, _ := o.op["responses"].(M)
			rs["200"] = M{"description": "d", "schema": s}
		}
		return true
	case "badPatternParam":
		o, ok := pickOp()
		if !ok {
			return false
		}
		// the rule is about every parameter that carries a pattern, whatever its type, location and way of declaration
		bad := M{"name": "pat", "in": g.pick([]string{"query", "header", "formData"}),
			"type": g.pick([]string{"string", "string", "integer", "boolean", "number"}), "pattern": g.pick([]string{"(", "([", "a{2,1}"})}
		if g.p(15) {
			bad["type"], bad["items"] = "array", M{"type": "string"}
		}
		if g.p(25) {
			shared, _ := doc["parameters"].(M)
			if shared == nil {
				shared = M{}
				doc["parameters"] = shared
			}
			shared["BadPat"] = bad
			o.op["parameters"] = append(params(o), M{"$ref": "#/parameters/BadPat"})
		} else {
			o.op["parameters"] = append(params(o), bad)
		}
		return true
	case "requiredUndefined", "requiredViaAdditional":
		defs, _ := doc["definitions"].(M)
		if defs == nil {
			defs = M{}
			doc["definitions"] = defs
		}
		d := M{"type": "object", "properties": M{"known": M{"type": "string"}}, "required": L{"known", "missing"}}
		if kind == "requiredViaAdditional" {
			switch g.rng.Intn(4) {
			case 0:
				d["additionalProperties"] = true // satisfied
			case 1:
				d["additionalProperties"] = M{"type": "object", "properties": M{"missing": M{"type": "string"}}} // satisfied through the nested schema
			case 2:
				d["additionalProperties"] = M{"type": "object", "properties": M{"other": M{"type": "string"}}} // not satisfied
			default:
				d["patternProperties"] = M{"^miss": M{"type": "string"}} // satisfied by a pattern
			}
		}
		defs[g.pick([]string{"Req", "s", "R.q"})] = d
		return true
	case "dupInheritedProperty":
		defs, _ := doc["definitions"].(M)
		if defs == nil {
			defs = M{}
			doc["definitions"] = defs
		}
		defs["Base"] = M{"type": "object", "properties": M{"name": M{"type": "string"}, "k": M{"type": "integer"}}}
		child := M{"allOf": L{M{"$ref": "#/definitions/Base"}, M{"type": "object", "properties": M{"name": M{"type": "string"}}}}}
		if g.p(40) { // no duplicate: a different property
			child = M{"allOf": L{M{"$ref": "#/definitions/Base"}, M{"type": "object", "properties": M{"other": M{"type": "string"}}}}}
		}
		defs["Child"] = child
		if g.p(35) { // the ancestor is reached through a definition that is a bare reference to it
			defs["BaseAlias"] = M{"$ref": "#/definitions/Base"}
			child["allOf"].(L)[0] = M{"$ref": "#/definitions/BaseAlias"}
		}
		return true
	case "sameResponseCodeTwice":
		// breaks no rule: parameterless operations whose responses share a code, each with a schema and no headers, later ones
		// with a bad example: the visited-path bookkeeping must start afresh for each response (C09)
		if paths == nil {
			return false
		}
		for i := 0; i < 3; i++ {
			ex := interface{}("fine")
			if i > 0 {
				ex = 7
			}
			paths[fmt.Sprintf("/resp%d", i)] = M{"get": M{"operationId": fmt.Sprintf("resp%d", i),
				"responses": M{"200": M{"description": "d", "schema": M{"type": "object", "properties": M{"k": M{"type": "string", "example": ex}}}}}}}
		}
		return true
	case "circularAncestry":
		defs, _ := doc["definitions"].(M)
		if defs == nil {
			defs = M{}
			doc["definitions"] = defs
		}
		defs["CycA"] = M{"allOf": L{M{"$ref": "#/definitions/CycB"}, M{"type": "object"}}}
		defs["CycB"] = M{"allOf": L{M{"$ref": "#/definitions/CycA"}, M{"type": "object"}}}
		return true
	case "diamondAncestry", "diamondSharedProperty", "cycleBelowStart":
		defs, _ := doc["definitions"].(M)
		if defs == nil {
			defs = M{}
			doc["definitions"] = defs
		}
		switch kind {
		case "diamondAncestry":
			// breaks no rule: an ancestor shared by two branches is neither a cycle nor (having no property) a duplicate
			defs["DiaC"] = M{"type": "object"}
			defs["DiaA"] = M{"allOf": L{M{"$ref": "#/definitions/DiaC"}, M{"type": "object", "properties": M{"a": M{"type": "string"}}}}}
			defs["DiaB"] = M{"allOf": L{M{"$ref": "#/definitions/DiaC"}, M{"type": "object", "properties": M{"b": M{"type": "string"}}}}}
			defs["DiaD"] = M{"allOf": L{M{"$ref": "#/definitions/DiaA"}, M{"$ref": "#/definitions/DiaB"}}}
		case "diamondSharedProperty":
			// the shared ancestor declares a property: it reaches DiaD twice (duplicate inherited property, not a cycle)
			defs["DiaC"] = M{"type": "object", "properties": M{"c": M{"type": "string"}}}
			defs["DiaA"] = M{"allOf": L{M{"$ref": "#/definitions/DiaC"}, M{"type": "object", "properties": M{"a": M{"type": "string"}}}}}
			defs["DiaB"] = M{"allOf": L{M{"$ref": "#/definitions/DiaC"}, M{"type": "object", "properties": M{"b": M{"type": "string"}}}}}
			defs["DiaD"] = M{"allOf": L{M{"$ref": "#/definitions/DiaA"}, M{"$ref": "#/definitions/DiaB"}}}
		default:
			// a cycle that does not go through the definition the walk starts from, behind an anonymous allOf
			defs["CybA"] = M{"allOf": L{M{"allOf": L{M{"$ref": "#/definitions/CybB"}}}, M{"type": "object"}}}
			defs["CybB"] = M{"allOf": L{M{"$ref": "#/definitions/CybC"}}}
			defs["CybC"] = M{"allOf": L{M{"$ref": "#/definitions/CybB"}, M{"type": "object"}}}
		}
		return true
	case "overlapPaths":
		for _, p := range sortedKeys(paths) {
			i := strings.Index(p, "{")
			j := strings.Index(p, "}")
			if i < 0 || j < i {
				continue
			}
			old := p[i+1 : j]
			np := p[:i+1] + old + "Q" + p[j:]
			if _, exists := paths[np]; exists {
				continue
			}
			// deep copy with the parameter renamed
			cp := deepCopyJSON(paths[p]).(M)
			renamePathParamIn(cp, old, old+"Q")
			for _, m := range spMethods {
				if op, ok := cp[m].(M); ok {
					if op["operationId"] != nil {
						op["operationId"] = fmt.Sprint(op["operationId"]) + "o"
					}
				}
			}
			paths[np] = cp
			return true
		}
		return false
	case "unresolvedSchemaRef":
		o, ok := pickOp()
		if !ok {
			return false
		}
		rs, _ := o.op["responses"].(M)
		rs["200"] = M{"description": "d", "schema": M{"$ref": "#/definitions/nowhere"}}
		return true
	case "unresolvedParamRef":
		o, ok := pickOp()
		if !ok {
			return false
		}
		o.op["parameters"] = append(params(o), M{"$ref": "#/parameters/nowhere"})
		return true
	case "refWithSiblingDefault":
		// breaks no rule: an allOf member that is a $ref with a sibling default, the target having its own (valid) default;
		// validators must not expand that reference inside the caller's document (C12)
		defs, _ := doc["definitions"].(M)
		if defs == nil {
			defs = M{}
			doc["definitions"] = defs
		}
		defs["SibBase"] = M{"type": "object", "properties": M{"k": M{"type": "integer", "default": 3}}, "default": M{"k": 1}}
		defs["SibChild"] = M{"allOf": L{M{"$ref": "#/definitions/SibBase", "default": M{"k": 2}}, M{"type": "object", "properties": M{"n": M{"type": "string"}}}}}
		if o, ok := pickOp(); ok {
			rs, _ := o.op["responses"].(M)
			if rs != nil {
				rs["200"] = M{"description": "d", "schema": M{"$ref": "#/definitions/SibChild"}}
			}
		}
		return true
	case "refWithExtension":
		// a reference object with an extension member: `jsonReference` of the Swagger schema is closed and has no ^x- pattern
		o, ok := pickOp()
		if !ok {
			return false
		}
		sp, _ := doc["parameters"].(M)
		if sp == nil {
			sp = M{}
			doc["parameters"] = sp
		}
		sp["ExtP"] = g.simpleParam("extq", "query")
		if g.p(50) {
			o.op["parameters"] = append(params(o), M{"$ref": "#/parameters/ExtP", "x-note": 1})
		} else {
			rs, _ := doc["responses"].(M)
			if rs == nil {
				rs = M{}
				doc["responses"] = rs
			}
			rs["ExtR"] = M{"description": "d"}
			ors, _ := o.op["responses"].(M)
			if ors == nil {
				return false
			}
			ors["200"] = M{"$ref": "#/responses/ExtR", "x-note": 1}
			o.op["parameters"] = append(params(o), M{"$ref": "#/parameters/ExtP"})
		}
		return true
	case "pathParamNoPlaceholder":
		// a path parameter declared for a path that has no placeholder at all
		for _, o := range ops {
			if !strings.Contains(o.path, "{") {
				if g.p(50) {
					o.op["parameters"] = append(params(o), g.simpleParam("ghost", "path"))
				} else {
					l, _ := o.pi["parameters"].(L)
					o.pi["parameters"] = append(l, g.simpleParam("ghost", "path"))
				}
				return true
			}
		}
		if paths == nil {
			return false
		}
		paths["/plain"] = M{"get": M{"operationId": "plainOp", "parameters": L{g.simpleParam("ghost", "path")}, "responses": M{"200": M{"description": "d"}}}}
		return true
	case "requiredViaAdditionalSchema":
		// required name defined by nothing but a schema-valued additionalProperties that does not define it either
		defs, _ := doc["definitions"].(M)
		if defs == nil {
			defs = M{}
			doc["definitions"] = defs
		}
		defs["Bag"] = M{"type": "object", "required": L{"id"}, "additionalProperties": M{"type": g.pick([]string{"string", "integer"})}}
		return true
	case "aliasCycle":
		// two definitions that are bare references to each other, inherited from by a third: following the references never
		// reaches a schema (circular ancestry; before the `fix:` commit the walk never returned)
		defs, _ := doc["definitions"].(M)
		if defs == nil {
			defs = M{}
			doc["definitions"] = defs
		}
		defs["AlA"] = M{"$ref": "#/definitions/AlB"}
		defs["AlB"] = M{"$ref": "#/definitions/AlA"}
		defs["AlC"] = M{"allOf": L{M{"$ref": "#/definitions/AlA"}, M{"type": "object"}}}
		return true
	case "oddPropertyNames":
		// breaks no rule: properties named "" and "t." (their paths end in, or contain, a dot next to nothing) with bad defaults
		// and examples: each must be judged (C09)
		defs, _ := doc["definitions"].(M)
		if defs == nil {
			defs = M{}
			doc["definitions"] = defs
		}
		defs["Odd"] = M{"type": "object", "properties": M{
			"":   M{"type": "integer", "default": "bad", "example": "bad"},
			"t.": M{"type": "object", "properties": M{"": M{"type": "boolean", "default": 3}}},
			"ok": M{"type": "string", "default": "fine"}}}
		return true
	case "sameBodyNameTwice":
		// breaks no rule: several operations with a body parameter of the same name (and responses without schema),
		// one of them with a default its schema rejects: the visited-path bookkeeping must start afresh for each parameter (C09)
		if paths == nil {
			return false
		}
		for i := 0; i < 4; i++ {
			bad := i == g.rng.Intn(4) || i == 3
			sch := M{"type": "object", "properties": M{"k": M{"type": "integer", "default": 1}}}
			if bad {
				sch = M{"type": "object", "properties": M{"k": M{"type": "integer", "default": "bad"}}}
			}
			paths[fmt.Sprintf("/same%d", i)] = M{"post": M{"operationId": fmt.Sprintf("same%d", i),
				"parameters": L{M{"name": "body", "in": "body", "schema": sch}}, "responses": M{"204": M{"description": "d"}}}}
		}
		return true
	case "tupleDefaults":
		// breaks no rule: defaults in the members of a tuple `items`, the later ones bad (C09: every member has its own path)
		defs, _ := doc["definitions"].(M)
		if defs == nil {
			defs = M{}
			doc["definitions"] = defs
		}
		defs["Tup"] = M{"type": "array", "items": L{M{"type": "integer", "default": 1}, M{"type": "string", "default": 7},
			M{"type": "object", "properties": M{"q": M{"type": "boolean", "default": "bad"}}}}}
		return true
	case "valuesBesideRefs":
		// breaks no rule: a definition that carries a default or an example next to members that are references
		// (C12: building the validator for the value must not expand those references in the caller's document)
		defs, _ := doc["definitions"].(M)
		if defs == nil {
			defs = M{}
			doc["definitions"] = defs
		}
		defs["RefTarget"] = M{"type": "object", "properties": M{"n": M{"type": "integer"}}}
		ref := func() M { return M{"$ref": "#/definitions/RefTarget"} }
		key := []string{"default", "example"}[g.rng.Intn(2)]
		switch g.rng.Intn(4) {
		case 0:
			defs["WithValues"] = M{"allOf": L{ref(), M{"type": "object"}}, key: M{"n": 1}}
		case 1:
			defs["WithValues"] = M{"type": "object", "properties": M{"p": ref()}, key: M{"p": M{"n": 1}}}
		case 2:
			defs["WithValues"] = M{"type": "array", "items": ref(), key: L{M{"n": 2}}}
		default:
			defs["WithValues"] = M{"type": "object", "additionalProperties": ref(), key: M{"k": M{"n": 3}}}
		}
		return true
	case "badDefaultAndExample":
		// a default its schema rejects (an error) and an example its schema rejects (a warning) in one otherwise clean
		// document: both are reported, in both modes — the examples are judged whatever the defaults stage found
		defs, _ := doc["definitions"].(M)
		if defs == nil {
			defs = M{}
			doc["definitions"] = defs
		}
		switch g.rng.Intn(3) {
		case 0:
			defs["BadValues"] = M{"type": "object", "properties": M{
				"d": M{"type": "integer", "default": "not a number"}, "e": M{"type": "string", "example": 7}}}
		case 1:
			defs["BadDefault"] = M{"type": "string", "maxLength": 1, "default": "too long"}
			defs["BadExample"] = M{"type": "integer", "minimum": 3, "example": 1}
		default:
			defs["BadValues"] = M{"type": "array", "items": M{"type": "boolean", "default": "x", "example": "y"}}
		}
		return true
	case "zeroDefaults":
		// defaults that are the zero value of their type and rejected by their own schema: still defaults, still judged
		defs, _ := doc["definitions"].(M)
		if defs == nil {
			defs = M{}
			doc["definitions"] = defs
		}
		switch g.rng.Intn(4) {
		case 0:
			defs["Zero"] = M{"type": "integer", "minimum": 1, "default": 0}
		case 1:
			defs["Zero"] = M{"type": "string", "minLength": 1, "default": ""}
		case 2:
			defs["Zero"] = M{"type": "object", "properties": M{"flag": M{"type": "string", "default": false}, "n": M{"type": "number", "enum": L{1, 2}, "default": 0}}}
		default:
			defs["Zero"] = M{"type": "boolean", "enum": L{true}, "default": false}
		}
		return true
	case "trailingSlashTwin":
		// breaks no rule: two templates of one method that differ by a trailing slash (after placeholder stripping too)
		if paths == nil {
			return false
		}
		op := func(id string) M {
			return M{"operationId": id, "responses": M{"200": M{"description": "d"}}}
		}
		idp := func(n string) M { return M{"name": n, "in": "path", "required": true, "type": "string"} }
		if g.p(50) {
			paths["/twin"] = M{"get": op("twinA")}
			paths["/twin/"] = M{"get": op("twinB")}
		} else {
			a, b := op("twinA"), op("twinB")
			a["parameters"], b["parameters"] = L{idp("id")}, L{idp("itemId")}
			paths["/twin/{id}/"] = M{"get": a}
			paths["/twin/{itemId}"] = M{"get": b}
		}
		return true
	case "requiredPatternNextToBadPattern":
		// a required name that only a pattern provides, next to patterns that do not compile: the undefined-required rule is
		// satisfied by the matching pattern and every bad pattern is reported, in whatever order the map hands them out
		defs, _ := doc["definitions"].(M)
		if defs == nil {
			defs = M{}
			doc["definitions"] = defs
		}
		pp := M{"^na": M{"type": "string"}}
		for i := 0; i < 1+g.rng.Intn(4); i++ {
			pp[fmt.Sprintf("(nb%d", i)] = M{"type": "string"}
		}
		defs["Thing"] = M{"type": "object", "required": L{"name"}, "patternProperties": pp}
		return true
	case "tupleItemsInOperation":
		// breaks no rule: `items` given as a list of schemas in a response body or a body parameter
		o, ok := pickOp()
		if !ok {
			return false
		}
		tuple := M{"type": "array", "items": L{M{"type": "string"}, M{"type": "integer"}}}
		if g.p(50) {
			resp, _ := o.op["responses"].(M)
			if resp == nil {
				return false
			}
			resp["200"] = M{"description": "d", "schema": tuple}
		} else {
			var keep L
			for _, p := range params(o) {
				if pm, _ := p.(M); pm != nil && (pm["in"] == "body" || pm["in"] == "formData") {
					continue
				}
				keep = append(keep, p)
			}
			o.op["parameters"] = append(keep, M{"name": "tup", "in": "body", "schema": tuple})
		}
		return true
	case "noPaths":
		delete(doc, "paths")
		return true
	case "emptyPaths":
		doc["paths"] = M{}
		return true
	case "noResponses":
		o, ok := pickOp()
		if !ok {
			return false
		}
		delete(o.op, "responses")
		return true
	}
	return false
}

func renamePathParamIn(pi M, old, nw string) {
	fix := func(l L) {
		for _, p := range l {
			pm, _ := p.(M)
			if pm["in"] == "path" && pm["name"] == old {
				pm["name"] = nw
			}
		}
	}
	if l, ok := pi["parameters"].(L); ok {
		fix(l)
	}
	for _, m := range spMethods {
		if op, ok := pi[m].(M); ok {
			if l, ok := op["parameters"].(L); ok {
				fix(l)
			}
		}
	}
}

func deepCopyJSON(v interface{}) interface{} {
	switch x := v.(type) {
	case M:
		o := M{}
		for k, e := range x {
			o[k] = deepCopyJSON(e)
		}
		return o
	case L:
		o := make(L, len(x))
		for i, e := range x {
			o[i] = deepCopyJSON(e)
		}
		return o
	}
	return v
}

func genSpecDoc(rng *rand.Rand, tier string, badPct int, maxEdits int, exotic bool) (M, []string) {
	g := &spgen{rng: rng, badPct: badPct, tier: tier, exotic: exotic}
	doc := g.document()
	n := 0
	if maxEdits > 0 {
		n = rng.Intn(maxEdits + 1)
	}
	var applied []string
	for i := 0; i < n; i++ {
		k := spEdits[rng.Intn(len(spEdits))]
		if g.applyEdit(doc, k) {
			applied = append(applied, k)
		}
	}
	return doc, applied
}

// genSpecCatalogueDoc: a clean grammar document with exactly one edit of the catalogue, chosen by the index: every
// entry (and, over several indices, every variant of it) is exercised on every run
func genSpecCatalogueDoc(rng *rand.Rand, idx int, tier string) (M, []string) {
	kind := spEdits[idx%len(spEdits)]
	for try := 0; try < 8; try++ {
		g := &spgen{rng: rng, badPct: 0, tier: tier}
		doc := g.document()
		if g.applyEdit(doc, kind) {
			return doc, []string{kind}
		}
	}
	g := &spgen{rng: rng, badPct: 0, tier: tier}
	return g.document(), nil
}
