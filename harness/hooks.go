package main

import (
	"errors"
	"fmt"
	"reflect"
	"sync"
	"unsafe"

	"github.com/go-openapi/validate"
)

// Pool instrumentation through the verif hooks: an event log (B/R with stable object ids) and a
// scribbler that overwrites every field of an object at the instant it is handed back, so that
// any later read of it (use after redeem) or any field a constructor forgets to overwrite changes
// the outcome deterministically instead of depending on the schedule.

type poolEvent struct {
	Kind string // "B" or "R"
	Pool string
	ID   int
}

type poolTracer struct {
	mu       sync.Mutex
	ids      map[uintptr]int
	keep     []interface{} // strong references: an address must not be reused for another object within a case
	events   []poolEvent
	scribble bool
	enabled  bool
}

var tracer = &poolTracer{ids: map[uintptr]int{}}

var errPoison = errors.New("POISON: read of a result after it went back to the pool")

func (t *poolTracer) reset(scribble bool) {
	t.mu.Lock()
	defer t.mu.Unlock()
	t.ids = map[uintptr]int{}
	t.keep = nil
	t.events = nil
	t.scribble = scribble
	t.enabled = true
}

func (t *poolTracer) take() []poolEvent {
	t.mu.Lock()
	defer t.mu.Unlock()
	ev := t.events
	t.events = nil
	return ev
}

func (t *poolTracer) id(obj interface{}) int {
	p := reflect.ValueOf(obj).Pointer()
	if id, ok := t.ids[p]; ok {
		return id
	}
	id := len(t.ids) + 1
	t.ids[p] = id
	t.keep = append(t.keep, obj)
	return id
}

func installHooks() {
	validate.VerifHooks.OnBorrow = func(pool string, obj interface{}) {
		if !tracer.enabled || reflect.ValueOf(obj).IsNil() {
			return
		}
		tracer.mu.Lock()
		tracer.events = append(tracer.events, poolEvent{"B", pool, tracer.id(obj)})
		tracer.mu.Unlock()
	}
	validate.VerifHooks.OnRedeem = func(pool string, obj interface{}) {
		if !tracer.enabled {
			return
		}
		v := reflect.ValueOf(obj)
		if v.Kind() != reflect.Ptr || v.IsNil() {
			return
		}
		tracer.mu.Lock()
		tracer.events = append(tracer.events, poolEvent{"R", pool, tracer.id(obj)})
		scribble := tracer.scribble
		tracer.mu.Unlock()
		if scribble {
			scribbleObject(v)
		}
	}
}

func uninstallHooks() {
	tracer.enabled = false
	validate.VerifHooks.OnBorrow = nil
	validate.VerifHooks.OnRedeem = nil
}

// scribbleObject overwrites every field of *obj (exported or not) with a poison value of its kind.
func scribbleObject(ptr reflect.Value) {
	st := ptr.Elem()
	if st.Kind() != reflect.Struct {
		return
	}
	if r, ok := ptr.Interface().(*validate.Result); ok {
		// a redeemed result that is read again looks invalid, warns, and has an absurd count
		r.Errors = []error{errPoison}
		r.Warnings = []error{errPoison}
		r.MatchCount = 1 << 30
	}
	for i := 0; i < st.NumField(); i++ {
		f := st.Field(i)
		if !f.CanSet() {
			f = reflect.NewAt(f.Type(), unsafe.Pointer(f.UnsafeAddr())).Elem()
		}
		name := st.Type().Field(i).Name
		if _, isResult := ptr.Interface().(*validate.Result); isResult {
			switch name {
			case "Errors", "Warnings", "MatchCount":
				continue
			case "wantsRedeemOnMerge":
				// keep: a stale `true` here is what a double redeem through Merge would need
				continue
			}
		}
		switch f.Kind() {
		case reflect.String:
			f.SetString("\x00POISON")
		case reflect.Bool:
			f.SetBool(!f.Bool())
		case reflect.Int, reflect.Int64, reflect.Int32:
			f.SetInt(1 << 30)
		case reflect.Ptr, reflect.Interface, reflect.Slice, reflect.Map:
			f.Set(reflect.Zero(f.Type()))
		case reflect.Array:
			f.Set(reflect.Zero(f.Type()))
		case reflect.Struct:
			f.Set(reflect.Zero(f.Type()))
		}
	}
}

func eventsJSON(ev []poolEvent) []interface{} {
	out := make([]interface{}, 0, len(ev))
	for _, e := range ev {
		out = append(out, []interface{}{e.Kind, e.Pool, e.ID})
	}
	return out
}

var _ = fmt.Sprint
