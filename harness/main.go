// Command harness runs the real go-openapi/validate code in-process on generated (or
// replayed) cases and prints one JSON line per case: the case itself plus the canonical
// outcome observed on the Go side (column "go"). The same lines are piped to the Lean
// driver, which adds the model's columns; /verif/check compares them.
package main

import (
	"bufio"
	"bytes"
	"context"
	"encoding/json"
	"flag"
	"fmt"
	"math/rand"
	"os"
	"os/exec"
	"runtime/debug"
	"time"
)

type Case map[string]interface{}

type family struct {
	gen  func(rng *rand.Rand, idx int, tier string) Case // build a case (without "go")
	run  func(c Case) interface{}                        // run the real code, canonical outcome
	prep func(c Case)                                    // add oracle tables etc. to the case
	// run every case in a child process: a fatal runtime error (stack overflow, concurrent map
	// access) or a hang is then an observation about that case, not the end of the run
	isolate bool
}

var families = map[string]*family{}

func subSeed(seed int64, idx int) int64 { return seed*1000003 + int64(idx)*7919 + 17 }

func main() {
	fam := flag.String("fam", "", "family")
	seed := flag.Int64("seed", 1, "seed")
	n := flag.Int("n", 100, "number of generated cases")
	tier := flag.String("tier", "quick", "tier")
	replay := flag.String("replay", "", "file with cases (JSON lines) to re-run instead of generating")
	corpus := flag.String("corpus", "", "file with corpus cases (JSON lines) to run first")
	genOnly := flag.Bool("gen-only", false, "print the generated cases without running them")
	shard := flag.Int("shard", 0, "index of this shard")
	child := flag.Bool("child", false, "internal: run the replayed case in this process (used by the isolating parent)")
	shards := flag.Int("shards", 1, "number of shards: this process runs the generated cases with idx % shards == shard (corpus: shard 0 only)")
	flag.Parse()
	if *child {
		// a runaway recursion then ends in seconds instead of filling a 1 GB stack
		debug.SetMaxStack(96 << 20)
	}
	f, ok := families[*fam]
	if !ok {
		fmt.Fprintf(os.Stderr, "unknown family %q\n", *fam)
		os.Exit(2)
	}
	out := bufio.NewWriterSize(os.Stdout, 1<<20)
	defer out.Flush()
	emit := func(c Case) {
		delete(c, "go")
		// round-trip the case through JSON so that the Go side sees exactly what the model sees
		b, _ := json.Marshal(c)
		var c2 Case
		dec := json.NewDecoder(bytesReader(b))
		dec.UseNumber()
		if err := dec.Decode(&c2); err != nil {
			panic(err)
		}
		if f.prep != nil {
			f.prep(c2)
		}
		if !*genOnly {
			fmt.Fprintf(os.Stderr, "CASE %v\n", c2["id"])
			if f.isolate && !*child {
				c2["go"] = runIsolated(*fam, c2)
			} else {
				c2["go"] = safeRun(f, c2)
			}
		}
		b, err := json.Marshal(c2)
		if err != nil {
			panic(err)
		}
		out.Write(b)
		out.WriteByte('\n')
		out.Flush()
	}
	readFile := func(path string) {
		fh, err := os.Open(path)
		if err != nil {
			return
		}
		defer fh.Close()
		sc := bufio.NewScanner(fh)
		sc.Buffer(make([]byte, 1<<20), 1<<28)
		for sc.Scan() {
			line := sc.Bytes()
			if len(line) == 0 {
				continue
			}
			var c Case
			dec := json.NewDecoder(bytesReader(append([]byte{}, line...)))
			dec.UseNumber()
			if err := dec.Decode(&c); err != nil {
				fmt.Fprintf(os.Stderr, "bad case line in %s: %v\n", path, err)
				os.Exit(2)
			}
			if c["fam"] != *fam {
				continue
			}
			emit(c)
		}
	}
	if *replay != "" {
		readFile(*replay)
		return
	}
	if *corpus != "" && *shard == 0 {
		readFile(*corpus)
	}
	for i := 0; i < *n; i++ {
		if *shards > 1 && i%*shards != *shard {
			continue
		}
		rng := rand.New(rand.NewSource(subSeed(*seed, i)))
		c := f.gen(rng, i, *tier)
		c["fam"] = *fam
		c["id"] = fmt.Sprintf("%s-%d-%d", *fam, *seed, i)
		emit(c)
	}
}

func safeRun(f *family, c Case) (res interface{}) {
	defer func() {
		if r := recover(); r != nil {
			res = map[string]interface{}{"panic": fmt.Sprint(r)}
		}
	}()
	return f.run(c)
}

// runIsolated re-executes this binary on the single case and returns its "go" column, or a
// crash/timeout observation when the child does not survive it.
func runIsolated(fam string, c Case) interface{} {
	tmp, err := os.CreateTemp("", "verifcase*.jsonl")
	if err != nil {
		panic(err)
	}
	defer os.Remove(tmp.Name())
	cc := Case{}
	for k, v := range c {
		if k != "go" {
			cc[k] = v
		}
	}
	b, _ := json.Marshal(cc)
	tmp.Write(append(b, '\n'))
	tmp.Close()
	ctx, cancel := context.WithTimeout(context.Background(), 900*time.Second)
	defer cancel()
	cmd := exec.CommandContext(ctx, os.Args[0], "-fam", fam, "-replay", tmp.Name(), "-child")
	var stdout, stderr bytes.Buffer
	cmd.Stdout = &stdout
	cmd.Stderr = &stderr
	cmd.Env = append(os.Environ(), "GOMAXPROCS=2", "GOMEMLIMIT=3GiB")
	runErr := cmd.Run()
	if runErr == nil {
		var out Case
		dec := json.NewDecoder(bytes.NewReader(stdout.Bytes()))
		if err := dec.Decode(&out); err == nil && out["go"] != nil {
			return out["go"]
		}
	}
	tail := stderr.String()
	kind := "crash"
	if ctx.Err() != nil {
		kind = "timeout"
	}
	first := ""
	for _, line := range bytes.Split(stderr.Bytes(), []byte("\n")) {
		if bytes.HasPrefix(line, []byte("fatal error:")) || bytes.HasPrefix(line, []byte("panic:")) {
			first = string(line)
			break
		}
	}
	where := panicSiteOuter(tail)
	if len(tail) > 1500 {
		tail = tail[:1500]
	}
	return map[string]interface{}{"loaded": true, "crash": kind, "fatal": first, "where": where, "stderr": tail}
}
