package main

import (
	"encoding/json"

	"github.com/go-openapi/loads"
)

// a few small specifications used inside call histories (valid and invalid, with warnings)
var miniSpecs = []string{
	`{"swagger":"2.0","info":{"title":"t","version":"1"},"paths":{"/a/{id}":{"get":{"operationId":"getA","parameters":[{"name":"id","in":"path","required":true,"type":"string"}],"responses":{"200":{"description":"ok","schema":{"$ref":"#/definitions/A"}}}}}},"definitions":{"A":{"type":"object","required":["x"],"properties":{"x":{"type":"integer","default":3}}}}}`,
	`{"swagger":"2.0","info":{"title":"t","version":"1"},"paths":{"/a":{"get":{"responses":{"200":{"description":"ok","schema":{"type":"array"}}}}}}}`,
	`{"swagger":"2.0","info":{"title":"t","version":"1"},"paths":{"/a/{id}":{"get":{"responses":{"default":{"description":"d"}}}}},"definitions":{"Unused":{"type":"string","default":3}}}`,
	`{"swagger":"2.0","info":{"title":"t","version":"1"},"paths":{"/a":{"get":{"responses":{"200":{"description":"ok","schema":{"$ref":"#/definitions/A"}},"201":{"description":"ok","schema":{"$ref":"#/definitions/B"}},"202":{"description":"ok","schema":{"$ref":"#/definitions/C"}}}}}},"definitions":{"A":{"type":"object","required":["x"],"properties":{"x":{"type":"integer"}}},"B":{"type":"object","required":["y"],"properties":{"x":{"type":"integer"}}},"C":{"type":"object","required":["x"],"properties":{"x":{"type":"string"}}}}}`,
	`{"swagger":"2.0","info":{"title":"t","version":"1"},"paths":{"/p":{"post":{"parameters":[{"name":"b","in":"body","schema":{"type":"object","properties":{"n":{"type":"integer","maximum":3,"default":5}}}}],"responses":{"200":{"description":"ok","headers":{"X":{"type":"integer","default":"x"}}}}}}}}`,
}

func loadMiniSpec(i int) *loads.Document {
	doc, err := loads.Analyzed(json.RawMessage(miniSpecs[i%len(miniSpecs)]), "2.0")
	if err != nil {
		panic("harness: mini spec does not load: " + err.Error())
	}
	return doc
}
