package main

import (
	"bytes"
	"encoding/json"
	"io"
)

func bytesReader(b []byte) io.Reader { return bytes.NewReader(b) }

func asInt(v interface{}) int {
	switch x := v.(type) {
	case json.Number:
		i, _ := x.Int64()
		return int(i)
	case float64:
		return int(x)
	case int:
		return x
	}
	return 0
}

func asList(v interface{}) []interface{} {
	l, _ := v.([]interface{})
	return l
}

func asMap(v interface{}) map[string]interface{} {
	m, _ := v.(map[string]interface{})
	return m
}

func asStr(v interface{}) string {
	s, _ := v.(string)
	return s
}
