package main

import (
	"bytes"
	"encoding/json"
	"github.com/go-openapi/swag"
	"io"
	"strconv"
)

func bytesReader(b []byte) io.Reader { return bytes.NewReader(b) }

func asInt(v interface{}) int {
	switch x := v.(type) {
	case json.Number:
		i, _ := x.Int64()
		return int(i)
	case float64:
		return int(x)
	case int:
		return x
	}
	return 0
}

func asList(v interface{}) []interface{} {
	l, _ := v.([]interface{})
	return l
}

func asMap(v interface{}) map[string]interface{} {
	m, _ := v.(map[string]interface{})
	return m
}

func asStr(v interface{}) string {
	s, _ := v.(string)
	return s
}

func sortedKeys(m map[string]interface{}) []string {
	keys := make([]string, 0, len(m))
	for k := range m {
		keys = append(keys, k)
	}
	sortStrings(keys)
	return keys
}

func sortStrings(a []string) {
	for i := 1; i < len(a); i++ {
		for j := i; j > 0 && a[j] < a[j-1]; j-- {
			a[j], a[j-1] = a[j-1], a[j]
		}
	}
}

func strconvUnquote(s string) (string, error) { return strconv.Unquote(s) }

func swagIsInt(x float64) bool { return swag.IsFloat64AJSONInteger(x) }
