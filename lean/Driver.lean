import VM.Driver.Result
import VM.Driver.SchemaFam
import VM.Driver.HistoryFam
import VM.Driver.ValuesFam
import VM.Driver.HelpersFam
import VM.Driver.SimpleFam
import VM.Driver.PostFam
import VM.Driver.SpecFam
open Lean VM.Driver

def dispatch (j : Json) : Json :=
  match getStr j "fam" with
  | "result" => runResultCase j
  | "schema" | "schemamal" => runSchemaCase j
  | "history" | "historypanic" => runHistoryCase j
  | "values" => runValuesCase j
  | "helpers" => runHelpersCase j
  | "simple" => runSimpleCase j
  | "post" => runPostCase j
  | "spec" | "specmut" | "speccat" | "specfix" => runSpecCase j
  | "pathfuncs" => runPathFuncsCase j
  | "swaggerschema" => Json.mkObj []
  | "conc" | "rexp" => Json.mkObj [("model", Json.str "theorems only: outcomes are compared with solo runs / Go regexp by the harness")]
  | f => Json.mkObj [("bad", Json.str s!"unknown family {f}")]

partial def loop (hin : IO.FS.Stream) (hout : IO.FS.Stream) : IO Unit := do
  let line ← hin.getLine
  if line.isEmpty then return ()
  if line.trimAscii.isEmpty then loop hin hout else
  match Json.parse line with
  | .error e => hout.putStrLn (Json.mkObj [("bad", Json.str e)]).compress
  | .ok j =>
    let out := dispatch j
    hout.putStrLn (Json.mkObj [("id", getD j "id" Json.null), ("m", out)]).compress
  loop hin hout

def main : IO Unit := do
  let hin ← IO.getStdin
  let hout ← IO.getStdout
  loop hin hout
