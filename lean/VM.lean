import VM.Json
