import VM.Driver.SchemaParse
import VM.Impl.Helpers
open Lean
namespace VM.Driver
open VM.Helpers VM.GoVal

def hexVal (c : Char) : Nat :=
  if c.isDigit then c.toNat - 48 else if c.toNat ≥ 97 then c.toNat - 87 else c.toNat - 55

def hexBytes (s : String) : List UInt8 :=
  let rec go : List Char → List UInt8
    | a :: b :: rest => (hexVal a * 16 + hexVal b).toUInt8 :: go rest
    | _ => []
  go s.toList

def bitsOf (t : String) : Nat :=
  if t == "int" || t == "uint" then 0   -- the platform types are types of their own (reflect.DeepEqual tells them from int64/uint64)
  else if t.endsWith "8" then 8 else if t.endsWith "16" then 16 else if t.endsWith "32" then 32 else 64

partial def parseGoVal (j : Json) : GoVal :=
  let t := getStr j "t"
  let v := getD j "v" Json.null
  let n : Rat := match v with | .num x => ratOfJsonNumber x | _ => 0
  match t with
  | "nil" => .nil
  | "bool" => .bool (match v with | .bool b => b | _ => false)
  | "string" => .str (hexBytes (getStr j "hex"))
  | "named" => .named "main.opTypeLike" (hexBytes (getStr j "hex"))
  | "nilslice" => .slice "string" true []
  | "nilmap" => .map true []
  | "nilptr" => .nilPtr "int"
  | "ptr" => let x := parseGoVal v; .ptr x.typeTag x
  | "[]interface" => .slice "interface" false ((match v with | .arr a => a.toList | _ => []).map parseGoVal)
  | "[]string" => .slice "string" false ((match v with | .arr a => a.toList | _ => []).map parseGoVal)
  | "[]int64" => .slice "int64" false ((match v with | .arr a => a.toList | _ => []).map parseGoVal)
  | "[]uint8" => .slice "uint8" false ((match v with | .arr a => a.toList | _ => []).map parseGoVal)
  | "map" => .map false ((match v with | .obj kvs => kvs.toList | _ => []).map fun (k, x) => (k, parseGoVal x))
  | t =>
    if t.startsWith "int" then .int (bitsOf t) n.floor
    else if t.startsWith "uint" then .uint (bitsOf t) n.floor.toNat
    else .float (bitsOf t) n

partial def hasInvalidUtf8 : GoVal → Bool
  | .str b | .named _ b => (String.fromUTF8? (ByteArray.mk b.toArray)).isNone
  | .slice _ _ xs => xs.any hasInvalidUtf8
  | .map _ kvs => kvs.any fun (_, x) => hasInvalidUtf8 x
  | .ptr _ x => hasInvalidUtf8 x
  | _ => false

def strOfBytes (b : List UInt8) : String := (String.fromUTF8? (ByteArray.mk b.toArray)).getD ""

def runHelpersCase (j : Json) : Json :=
  let O := mkOracles (parseOracles j)
  let out (impl spec : Bool) := Json.mkObj [("impl", Json.bool impl), ("spec", Json.bool spec)]
  let n : Int := (getInt? j "n").getD 0
  match getStr j "op" with
  | "MinLength" =>
    let b := hexBytes (getStr j "hex")
    -- the specification speaks about code points of valid UTF-8 text; for invalid UTF-8 there is no
    -- textbook answer and the model's count is reported for both columns
    match String.fromUTF8? (ByteArray.mk b.toArray) with
    | some s => out (minLengthErr b n) (specMinLength s n)
    | none => out (minLengthErr b n) (minLengthErr b n)
  | "MaxLength" =>
    let b := hexBytes (getStr j "hex")
    match String.fromUTF8? (ByteArray.mk b.toArray) with
    | some s => out (maxLengthErr b n) (specMaxLength s n)
    | none => out (maxLengthErr b n) (maxLengthErr b n)
  | "Pattern" => out (patternErr O (getStr j "str") (getStr j "pattern")) (patternErr O (getStr j "str") (getStr j "pattern"))
  | "UniqueItems" =>
    let d := parseGoVal (getD j "data" Json.null)
    out (uniqueItemsErr d) (specUniqueItems d)
  | "Enum" | "EnumCase" =>
    let d := parseGoVal (getD j "data" Json.null)
    let e := parseGoVal (getD j "enum" Json.null)
    let cs := getBool j "caseSensitive"
    -- case folding of byte strings that are not valid UTF-8 has no textbook answer (like their length):
    -- the model's answer is reported for both columns
    if !cs && hasInvalidUtf8 d || !cs && hasInvalidUtf8 e then out (enumErr d e cs) (enumErr d e cs)
    else out (enumErr d e cs) (specEnum d e cs)
  | "MinItems" => out (minItemsErr ((getInt? j "size").getD 0) n) (decide (((getInt? j "size").getD 0) < n))
  | "MaxItems" => out (maxItemsErr ((getInt? j "size").getD 0) n) (decide (((getInt? j "size").getD 0) > n))
  | "Required" =>
    let d := parseGoVal (getD j "data" Json.null)
    out (requiredErr d) (specRequired d)
  | "RequiredString" => let b := hexBytes (getStr j "hex"); out (requiredStringErr b) b.isEmpty
  | "RequiredNumber" => let x := (jRat? j "x").getD 0; out (requiredNumberErr x) (x == 0)
  | "ReadOnly" =>
    let d := parseGoVal (getD j "data" Json.null)
    let op := match getStr j "ctx" with | "request" => OpType.request | "response" => OpType.response | _ => OpType.none
    out (readOnlyErr op d) (specReadOnly op d)
  | "FormatOf" => out (formatOfErr O (getStr j "format") (getStr j "str")) (formatOfErr O (getStr j "format") (getStr j "str"))
  | o => Json.mkObj [("bad", Json.str s!"unknown op {o}")]

end VM.Driver
