import VM.Driver.Util
import VM.Impl.PoolTrace
open Lean
namespace VM.Driver
open VM.PoolTrace

def parseEv (j : Json) : Option TEv :=
  match j with
  | .arr a =>
    let k := (optStr a[0]!).getD ""
    let pool := (optStr a[1]!).getD ""
    let id := (a[2]!.getNat?.toOption).getD 0
    if k == "B" then some (.B pool id) else if k == "R" then some (.R pool id) else none
  | _ => none

/-- the harness output of a history case carries one trace per call; they are replayed in
    sequence through one pool state (the pools live across the whole history) -/
def runHistoryCase (j : Json) : Json :=
  let go := getD j "go" (Json.mkObj [])
  let traces := getArr go "traces"
  let (_, breach, n) := traces.foldl (fun (acc : TState × Option String × Nat) t =>
      let (s, b, n) := acc
      match b with
      | some _ => acc
      | none =>
        let evs := (match t with | .arr a => a.toList | _ => []).filterMap parseEv
        let (s', b') := replay evs s 0
        (s', b', n + evs.length)) ({}, none, 0)
  Json.mkObj [("traceOk", Json.bool breach.isNone),
              ("breach", match breach with | some b => Json.str b | none => Json.null),
              ("events", Json.num (JsonNumber.fromNat n))]

end VM.Driver
