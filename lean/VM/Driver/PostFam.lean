import VM.Driver.SchemaParse
import VM.Impl.Post
import VM.Spec.Post
import VM.Driver.SchemaFam
open Lean
namespace VM.Driver
open VM.Post

partial def jvalToJson : JVal → Json
  | .null => Json.null
  | .bool b => Json.bool b
  | .num n =>
    -- exact output: integers as integers, otherwise numerator/denominator as a decimal when finite
    if n.isInt then Json.num (JsonNumber.fromInt n.num)
    else Json.mkObj [("$rat", Json.arr #[Json.num (JsonNumber.fromInt n.num), Json.num (JsonNumber.fromNat n.den)])]
  | .str s => Json.str s
  | .arr xs => Json.arr (xs.map jvalToJson).toArray
  | .obj kvs => Json.mkObj (kvs.map fun (k, v) => (k, jvalToJson v))

def appliesJson (a : Spec.Applies) : Json :=
  Json.mkObj [("pos", Json.arr (a.pos.map Json.str).toArray), ("field", Json.str a.field),
    ("dflt", match a.dflt with | some d => jvalToJson d | none => Json.null), ("hasDflt", Json.bool (Spec.declaresDefault a.dflt))]

def runPostCase (j : Json) : Json :=
  let sj := getD j "schema" (Json.mkObj [])
  let s := parseSchema sj
  let defs := parseDefs sj
  let v := toJVal (getD j "data" Json.null)
  let O := mkOracles (parseOracles j)
  let dl := fun n => alookup n defs
  let es := entriesF Impl.Cfg.asIs O dl 16 s [] v
  -- the same with the "required satisfied by a default" switch off (attribution of that known finding)
  let cfgR : Impl.Cfg := { Impl.Cfg.asIs with requiredByDefault := false }
  let esR := entriesF cfgR O dl 16 s [] v
  let ap := Spec.appliesF O dl 16 s [] v
  Json.mkObj [("valid", Json.bool (Impl.validateF Impl.Cfg.asIs {} O dl 16 s "" v).errors.isEmpty),
    ("specValid", Json.bool (Spec.validF O dl 16 s v)),
    ("defaulted", jvalToJson (applyDefaults es [] v)),
    ("pruned", jvalToJson (prune es [] v)),
    ("defaultedReq", jvalToJson (applyDefaults esR [] v)),
    ("prunedReq", jvalToJson (prune esR [] v)),
    ("applies", Json.arr (ap.map appliesJson).toArray),
    -- attribution of consequences of the open C01 deviations: the model's output with one switch closed
    ("bySwitch", Json.mkObj (switches.filterMap fun (name, f, get) =>
      if get Impl.Cfg.asIs then
        let esS := entriesF (f Impl.Cfg.asIs) O dl 16 s [] v
        some (name, Json.mkObj [("defaulted", jvalToJson (applyDefaults esS [] v)), ("pruned", jvalToJson (prune esS [] v))])
      else none)),
    ("repaired", let esP := entriesF Impl.Cfg.repaired O dl 16 s [] v
      Json.mkObj [("defaulted", jvalToJson (applyDefaults esP [] v)), ("pruned", jvalToJson (prune esP [] v))])]

end VM.Driver
