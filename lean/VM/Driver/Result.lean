import VM.Driver.Util
import VM.Impl.Result
import VM.Spec.Result
open Lean
namespace VM.Driver

def parseROp (j : Json) : Option ROp :=
  let i := getNat j "i"
  let es := (getArr j "es").map fun x => (optStr x).map fun t => ({ tag := t } : Msg)
  let js := (getArr j "js").map fun x => (x.getNat?.toOption).getD 0
  match getStr j "op" with
  | "addErrors" => some (.addErrors i es)
  | "addWarnings" => some (.addWarnings i es)
  | "merge" => some (.merge i js)
  | "mergeAsErrors" => some (.mergeAsErrors i js)
  | "mergeAsWarnings" => some (.mergeAsWarnings i js)
  | "inc" => some (.inc i)
  | "setErr" => some (.setErr i (getNat j "k") { tag := getStr j "m" })
  | "fresh" => some (.fresh i)
  | "setNil" => some (.setNil i)
  | _ => none

def resToJson : Option Res → Json
  | none => Json.null
  | some r => Json.mkObj [("e", Json.arr (r.errors.map (fun m => Json.str m.tag)).toArray),
                          ("w", Json.arr (r.warnings.map (fun m => Json.str m.tag)).toArray),
                          ("mc", Json.num (JsonNumber.fromInt r.mc)),
                          ("q", Json.arr #[Json.bool (isValid (some r)), Json.bool (hasErrors (some r)),
                                 Json.bool (hasWarnings (some r)), Json.bool (hasErrorsOrWarnings (some r))])]

def stateToJson (s : RState) : Json := Json.arr (s.map resToJson).toArray

/-- specification column: same run, but every Add/Merge recomputed with `ordUnion` -/
def specCheck (s : RState) : Bool :=
  s.all fun
    | none => true
    | some r => Spec.dedup r.errors == r.errors && Spec.dedup r.warnings == r.warnings

def runResultCase (j : Json) : Json :=
  let n := getNat j "slots"
  let ops := (getArr j "ops").map parseROp
  if ops.any Option.isNone then Json.mkObj [("bad", Json.str "unknown op")] else
  let ops := ops.filterMap id
  let init : RState := List.replicate n (some {})
  let (_, states) := ops.foldl (fun (acc : RState × List Json) op =>
      let s' := rstep acc.1 op
      (s', stateToJson s' :: acc.2)) (init, [])
  let final := rrun init ops
  Json.mkObj [("states", Json.arr states.reverse.toArray),
              ("nodup", Json.bool (specCheck final)),
              ("nilq", Json.arr #[Json.bool (isValid none), Json.bool (hasErrors none),
                  Json.bool (hasWarnings none), Json.bool (hasErrorsOrWarnings none)])]

end VM.Driver
