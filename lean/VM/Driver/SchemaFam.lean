import VM.Driver.SchemaParse
import VM.Spec.Valid
import VM.Impl.Schema
open Lean
namespace VM.Driver
open VM.Impl

def fuel : Nat := 64

def msgJson (m : Msg) : Json := Json.arr #[Json.num (JsonNumber.fromNat m.code), Json.str m.name, Json.str m.tag]

def resJson (r : Res) : Json :=
  Json.mkObj [("valid", Json.bool r.errors.isEmpty), ("errs", Json.arr (r.errors.map msgJson).toArray),
    ("warns", Json.arr (r.warnings.map msgJson).toArray),
    ("mc", Json.num (JsonNumber.fromInt r.mc)), ("panic", Json.bool r.panicked)]

def switches : List (String × (Cfg → Cfg) × (Cfg → Bool)) :=
  [ ("nullSkipsComposition", (fun c => { c with nullSkipsComposition := false }), (·.nullSkipsComposition)),
    ("enumSkipsNil", (fun c => { c with enumSkipsNil := false }), (·.enumSkipsNil)),
    ("addlItemsBound", (fun c => { c with addlItemsBound := false }), (·.addlItemsBound)),
    ("requiredByDefault", (fun c => { c with requiredByDefault := false }), (·.requiredByDefault)),
    ("floatTolerance", (fun c => { c with floatTolerance := false }), (·.floatTolerance)),
    ("formatBypassesType", (fun c => { c with formatBypassesType := false }), (·.formatBypassesType)),
    ("ignoresSchemaIdKeys", (fun c => { c with ignoresSchemaIdKeys := false }), (·.ignoresSchemaIdKeys)),
    ("leaksImportant", (fun c => { c with leaksImportant := false }), (·.leaksImportant)) ]

/-- switches still open in the code as it is -/
def activeSwitches : List String := switches.filterMap fun (n, _, get) => if get Cfg.asIs then some n else none

def runSchemaCase (j : Json) : Json :=
  let sj := getD j "schema" (Json.mkObj [])
  let s := parseSchema sj
  let defs := parseDefs sj
  let v := toJVal (getD j "data" Json.null)
  let O := mkOracles (parseOracles j)
  let dl := fun n => alookup n defs
  let path := getStr j "path"
  let oj := getD j "opts" (Json.mkObj [])
  let opts : Opts := { arrayMustHaveItems := getBool oj "swagger", objectArrayTypeCheck := getBool oj "swagger" }
  let spec := Spec.validF O dl fuel s v
  let run (c : Cfg) (p : String) : Res := validateF c opts O dl fuel s p v
  let asIs := run Cfg.asIs path
  let asIs0 := run Cfg.asIs ""
  let rep := run Cfg.repaired path
  let verdict (r : Res) : Option Bool := if r.panicked then none else some r.errors.isEmpty
  let explain := switches.filterMap fun (name, f, get) =>
    if get Cfg.asIs && verdict (run (f Cfg.asIs) path) == some spec then some (Json.str name) else none
  Json.mkObj [("spec", Json.bool spec), ("impl", resJson asIs), ("impl0", resJson asIs0),
    ("rep", resJson rep), ("explain", Json.arr explain.toArray),
    ("active", Json.arr (activeSwitches.map Json.str).toArray)]

end VM.Driver
