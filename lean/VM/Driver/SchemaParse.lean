import VM.Driver.Util
import VM.Schema
open Lean
namespace VM.Driver

def jRat? (j : Json) (k : String) : Option Rat :=
  match (j.getObjVal? k).toOption with
  | some (.num n) => some (ratOfJsonNumber n)
  | _ => none

def jInt? (j : Json) (k : String) : Option Int :=
  match (j.getObjVal? k).toOption with
  | some (.num n) => some (ratOfJsonNumber n).floor
  | _ => none

def jStrList (j : Json) (k : String) : List String :=
  (getArr j k).filterMap optStr

def objEntries (j : Json) (k : String) : List (String × Json) :=
  match (j.getObjVal? k).toOption with
  | some (.obj kvs) => kvs.toList
  | _ => []

def parseAddL (j : Json) (k : String) : AddL :=
  match (j.getObjVal? k).toOption with
  | some (.bool b) => .bool b
  | some (.obj _) => .schema
  | _ => .absent

partial def parseSchema (j : Json) : Schema :=
  let types : List String :=
    match (j.getObjVal? "type").toOption with
    | some (.str s) => [s]
    | some (.arr a) => a.toList.filterMap optStr
    | _ => []
  let deps := objEntries j "dependencies"
  let b : SBase := {
    types := types
    nullable := getBool j "x-nullable" || getBool j "nullable"
    format := getStr j "format"
    enum := (getArr j "enum").map toJVal
    default := if has j "default" then some (toJVal (getD j "default" Json.null)) else none
    multipleOf := jRat? j "multipleOf"
    maximum := jRat? j "maximum"
    exclMax := getBool j "exclusiveMaximum"
    minimum := jRat? j "minimum"
    exclMin := getBool j "exclusiveMinimum"
    maxLength := jInt? j "maxLength"
    minLength := jInt? j "minLength"
    pattern := getStr j "pattern"
    maxItems := jInt? j "maxItems"
    minItems := jInt? j "minItems"
    uniqueItems := getBool j "uniqueItems"
    maxProps := jInt? j "maxProperties"
    minProps := jInt? j "minProperties"
    required := jStrList j "required"
    addItems := parseAddL j "additionalItems"
    addProps := parseAddL j "additionalProperties"
    depProps := deps.filterMap fun (k, v) =>
      match v with
      | .arr a => some (k, a.toList.filterMap optStr)
      | _ => none
    ref := getStr j "$ref"
    sid := getStr j "id"
    readOnly := getBool j "readOnly"
    exampleV := if has j "example" then some (toJVal (getD j "example" Json.null)) else none
  }
  let sub (k : String) : Option Schema :=
    match (j.getObjVal? k).toOption with
    | some (.obj o) => some (parseSchema (.obj o))
    | _ => none
  let subList (k : String) : List Schema := (getArr j k).map parseSchema
  let itemsS := sub "items"
  let itemsT := match (j.getObjVal? "items").toOption with
    | some (.arr a) => a.toList.map parseSchema
    | _ => []
  let subMap (k : String) : List (String × Schema) :=
    (objEntries j k).map fun (n, v) => (n, parseSchema v)
  let depSchemas := deps.filterMap fun (k, v) =>
    match v with
    | .obj o => some (k, parseSchema (.obj o))
    | _ => none
  .mk b itemsS itemsT (sub "additionalItems") (subMap "properties") (subMap "patternProperties")
    (sub "additionalProperties") depSchemas (subList "allOf") (subList "anyOf") (subList "oneOf") (sub "not")

/-- definitions table of a root schema: "#/definitions/<name>" ↦ schema -/
def parseDefs (root : Json) : List (String × Schema) :=
  (objEntries root "definitions").map fun (n, v) => ("#/definitions/" ++ n, parseSchema v)

/-! Oracle tables -/

structure OTables where
  re : List (String × String × Int)            -- pattern, subject, 1 | 0 | -1 (invalid)
  fmtKnown : List (String × Bool)
  fmt : List (String × String × Bool)
  isInt : List (Rat × Bool)
  mulOf : List (Rat × Rat × Bool)

def parseOracles (j : Json) : OTables :=
  let o := getD j "oracles" (Json.mkObj [])
  let num (x : Json) : Rat := match x with | .num n => ratOfJsonNumber n | _ => 0
  let int (x : Json) : Int := match x with | .num n => (ratOfJsonNumber n).floor | _ => 0
  let str (x : Json) : String := (optStr x).getD ""
  let boo (x : Json) : Bool := match x with | .bool b => b | _ => false
  let row (x : Json) : List Json := match x with | .arr a => a.toList | _ => []
  { re := (getArr o "re").map fun x => let r := row x; (str r[0]!, str r[1]!, int r[2]!)
    fmtKnown := (getArr o "fmtKnown").map fun x => let r := row x; (str r[0]!, boo r[1]!)
    fmt := (getArr o "fmt").map fun x => let r := row x; (str r[0]!, str r[1]!, boo r[2]!)
    isInt := (getArr o "isInt").map fun x => let r := row x; (num r[0]!, boo r[1]!)
    mulOf := (getArr o "mulOf").map fun x => let r := row x; (num r[0]!, num r[1]!, boo r[2]!) }

/-- Missing table entries fall back to a marker the caller can detect: regex `none`
    is reserved for "does not compile", so misses are counted through an IO-free trick:
    the oracle is total and a separate pass (`oracleMisses`) is not attempted; instead the
    harness guarantees closure of the tables under (patterns × strings) of the case. -/
def mkOracles (t : OTables) : Oracles :=
  { re := fun p s =>
      match t.re.find? (fun (p', s', _) => p' == p && s' == s) with
      | some (_, _, 1) => some true
      | some (_, _, 0) => some false
      | some _ => none
      | none => (match t.re.find? (fun (p', _, c) => p' == p && c == -1) with
                 | some _ => none
                 | none => some false)
    fmtKnown := fun f => match t.fmtKnown.find? (fun (f', _) => f' == f) with
      | some (_, b) => b | none => false
    fmt := fun f s => match t.fmt.find? (fun (f', s', _) => f' == f && s' == s) with
      | some (_, _, b) => b | none => false
    isIntTol := fun x => match t.isInt.find? (fun (x', _) => x' == x) with
      | some (_, b) => b | none => x.isInt
    mulOfTol := fun d f => match t.mulOf.find? (fun (d', f', _) => d' == d && f' == f) with
      | some (_, _, b) => b | none => (d / f).isInt }

end VM.Driver
