import VM.Driver.HelpersFam
import VM.Impl.Simple
open Lean
namespace VM.Driver
open VM.Simple

partial def parseSSchema (j : Json) (required allowEmpty : Bool) : SSchema :=
  let s := parseSchema j
  let items := match (j.getObjVal? "items").toOption with
    | some (.obj o) => some (parseSSchema (.obj o) false false)
    | _ => none
  .mk s.base required allowEmpty items

def runSimpleCase (j : Json) : Json :=
  let O := mkOracles (parseOracles j)
  let isParam := getStr j "root" == "param"
  -- header: required = true, allowEmpty = false (validator.go:450-462)
  let s := parseSSchema (getD j "schema" (Json.mkObj [])) (if isParam then getBool j "required" else true)
    (if isParam then getBool j "allowEmpty" else false)
  let v := parseGoVal (getD j "value" Json.null)
  let r := validate O (if isParam then .param else .header) s v
  Json.mkObj [("impl", Json.bool r.1), ("panic", Json.bool r.2), ("spec", Json.bool (specValid O s v))]

end VM.Driver
