import VM.Driver.SchemaParse
import VM.Impl.SpecRules
import VM.Impl.Defaults
import VM.Impl.Simple
import VM.Impl.SpecModel
import VM.Spec.Locations
import VM.Properties.C07
import VM.Driver.SchemaFam
import VM.Generated.SwaggerSchema
open Lean
namespace VM.Driver
open VM.Sw

def unescapePtr (s : String) : String := (s.replace "~1" "/").replace "~0" "~"

/-- resolve a local `$ref` of the form `#/<section>/<name>` against the document -/
def resolveLocal (doc : Json) (sect : String) (j : Json) : Option Json :=
  let r := getStr j "$ref"
  if r == "" then some j
  else
    let pre := "#/" ++ sect ++ "/"
    if r.startsWith pre then
      match (getD doc sect Json.null).getObjVal? (unescapePtr (r.drop pre.length).toString) with
      | .ok v => (match v with | .obj _ => some v | _ => none)
      | .error _ => none
    else none

partial def parseItemsChain (j : Json) : List ItemLevel :=
  match (j.getObjVal? "items").toOption with
  | some (.obj o) => { base := (parseSchema (.obj o)).base } :: parseItemsChain (.obj o)
  | _ => []

/-- what `spec.ExpandSpec` does to a schema: a `$ref` node is replaced by its (expanded) target,
    except where that would recurse (the reference stays) -/
partial def expandSchema (defs : List (String × Schema)) (stack : List String) (s : Schema) : Schema :=
  match s with
  | .mk b itemsS itemsT addItemsS props patProps addPropsS deps allOf anyOf oneOf nt =>
    if b.ref != "" then
      if stack.contains b.ref then s
      else match alookup b.ref defs with
        | some t => expandSchema defs (b.ref :: stack) t
        | none => s
    else
      let e := expandSchema defs stack
      let em (l : List (String × Schema)) := l.map fun (k, x) => (k, e x)
      .mk b (itemsS.map e) (itemsT.map e) (addItemsS.map e) (em props) (em patProps) (addPropsS.map e) (em deps)
        (allOf.map e) (anyOf.map e) (oneOf.map e) (nt.map e)

def parseParam (j : Json) : Param :=
  { name := getStr j "name", loc := getStr j "in", required := getBool j "required",
    allowEmpty := getBool j "allowEmptyValue",
    base := (parseSchema j).base, items := parseItemsChain j,
    schema := match (j.getObjVal? "schema").toOption with
      | some (.obj o) => some (parseSchema (.obj o))
      | _ => none }

def parseHeader (name : String) (j : Json) : Header :=
  { name := name, base := (parseSchema j).base, items := parseItemsChain j }

def parseResponse (code : String) (j : Json) : Response :=
  { code := code, isDefault := code == "default",
    schema := match (j.getObjVal? "schema").toOption with
      | some (.obj o) => some (parseSchema (.obj o))
      | _ => none
    headers := (objEntries j "headers").map fun (n, h) => parseHeader n h
    examples := match (j.getObjVal? "examples").toOption with
      | some (.obj o) => some (o.toList.map fun (k, v) => (k, toJVal v))
      | _ => none }

def methodsInOrder : List String := ["get", "put", "post", "delete", "options", "head", "patch"]

def isStatusKey (k : String) : Bool := k == "default" || (!k.isEmpty && k.all Char.isDigit)

def parseParams (doc : Json) (j : Json) : List Param × Bool :=
  let raw := getArr j "parameters"
  let res := raw.map (resolveLocal doc "parameters")
  (res.filterMap fun r => r.map parseParam, res.all Option.isSome)

def parseView (doc : Json) (strict : Bool) : View × Bool :=
  let pathsJ := (doc.getObjVal? "paths").toOption
  let pathEntries := (objEntries doc "paths").filter fun (k, _) => k.startsWith "/"
  -- a path item that is a `$ref` to another path item of the document ("#/paths/~1x", JSON-pointer escapes ~1 = "/", ~0 = "~")
  let derefItem (pi : Json) : Json :=
    let r := getStr pi "$ref"
    if r.startsWith "#/paths/" then
      let key := ((r.drop 8).toString.replace "~1" "/").replace "~0" "~"
      match pathEntries.find? (·.1 == key) with
      | some (_, target) => target
      | none => pi
    else pi
  let opsAndOk := pathEntries.flatMap fun (path, pi0) =>
    let pi := derefItem pi0
    let (piParams, ok1) := parseParams doc pi
    methodsInOrder.filterMap fun m =>
      match (pi.getObjVal? m).toOption with
      | some (.obj o) =>
        let opj := Json.obj o
        let (opParams, ok2) := parseParams doc opj
        let respJ := (opj.getObjVal? "responses").toOption
        let entries := (objEntries opj "responses").filter fun (k, _) => isStatusKey k
        let expanded := entries.map fun (k, r) => (k, resolveLocal doc "responses" r)
        let op : Op :=
          { method := m.toUpper, path := path, id := getStr opj "operationId",
            piParams := piParams, opParams := opParams,
            responses := match respJ with
              | some (.obj _) => some (expanded.filterMap fun (k, r) => r.map (parseResponse k))
              | _ => none
            rawResponses := entries.map fun (k, r) =>
              if getStr r "$ref" != "" then { code := k, isDefault := k == "default" } else parseResponse k r }
        some (op, ok1 && ok2 && expanded.all fun (_, r) => r.isSome)
      | _ => none
  let v : View :=
    { hasPaths := match pathsJ with | some (.obj _) => true | _ => false
      hasPathItems := !pathEntries.isEmpty
      pathKeys := pathEntries.map (·.1)
      ops := opsAndOk.map (·.1)
      defs := (objEntries doc "definitions").map fun (n, s) => (n, parseSchema s)
      strict := strict }
  (v, opsAndOk.all (·.2))

/-- the view the default/example validators and the parameter rules see: schemas of parameters and
    responses expanded -/
def expandView (v : View) : View :=
  let defs := v.defs.map fun (n, s) => (defRef n, s)
  let ex (s : Schema) := expandSchema defs [] s
  let ep (p : Param) : Param := { p with schema := p.schema.map ex }
  let er (r : Response) : Response := { r with schema := r.schema.map ex }
  { v with ops := v.ops.map fun o =>
      { o with piParams := o.piParams.map ep, opParams := o.opParams.map ep, responses := o.responses.map (·.map er) } }

def jvalToGoDeep : JVal → GoVal := toGo

def mkJudges (O : Oracles) (defs : String → Option Schema) : Judges := modelJudges O defs

/-- every `$ref` occurring anywhere in a schema -/
partial def refsOf (s : Schema) : List String :=
  match s with
  | .mk b itemsS itemsT addItemsS props patProps addPropsS deps allOf anyOf oneOf nt =>
    let o (x : Option Schema) := match x with | some t => refsOf t | none => []
    let l (xs : List Schema) := xs.flatMap refsOf
    let m (xs : List (String × Schema)) := xs.flatMap fun (_, t) => refsOf t
    (if b.ref != "" then [b.ref] else []) ++ o itemsS ++ l itemsT ++ o addItemsS ++ m props ++ m patProps
      ++ o addPropsS ++ m deps ++ l allOf ++ l anyOf ++ l oneOf ++ o nt

/-- some definition refers to itself, directly or through other definitions -/
partial def hasCircularRefs (defs : List (String × Schema)) : Bool :=
  let table := defs.map fun (n, s) => (defRef n, refsOf s)
  let rec reach (fuel : Nat) (seen : List String) (front : List String) : List String :=
    match fuel, front with
    | 0, _ => seen
    | _, [] => seen
    | f + 1, r :: rest =>
      if seen.contains r then reach f seen rest
      else reach f (r :: seen) (rest ++ ((alookup r table).getD []))
  table.any fun (n, rs) => (reach 10000 [] rs).contains n

/-- judges that reject everything, naming the location: with `DCfg.repaired` the walk then lists
    every place that carries a value -/
def locJudges : Judges :=
  { schema := fun _ path _ => { errors := [{ code := 600, name := path, tag := "loc" }] }
    param := fun p _ => { errors := [{ code := 600, name := "param:" ++ p.name ++ "|" ++ p.loc, tag := "loc" }] }
    header := fun h _ => { errors := [{ code := 600, name := "header:" ++ h.name, tag := "loc" }] }
    items := fun path inn _ _ _ => { errors := [{ code := 600, name := "items:" ++ path ++ "|" ++ inn, tag := "loc" }] } }

def locations (w : Which) (O : Oracles) (v : View) : Json :=
  let r := valueStage DCfg.repaired locJudges w O v
  Json.arr (((r.errors ++ r.warnings).filter (·.tag == "loc")).map fun m => Json.str m.name).toArray

def stageJson (r : Res) : Json :=
  Json.mkObj [("errs", Json.arr (r.errors.map msgJson).toArray), ("warns", Json.arr (r.warnings.map msgJson).toArray),
    ("panic", Json.bool r.panicked)]

def tagsJson (ms : List Msg) : Json := Json.arr (ms.map fun m => Json.str m.tag).toArray

/-- the schema pass (C02): the regenerated Swagger 2.0 schema term over the raw document -/
def swaggerPass (O : Oracles) (raw : JVal) : Json :=
  let opts : Impl.Opts := { arrayMustHaveItems := true, objectArrayTypeCheck := true }
  let run (c : Impl.Cfg) (o : Impl.Opts) : Res := Impl.validateF c o O Generated.swaggerDefs fuel Generated.swaggerRoot "" raw
  let spec := Spec.validF O Generated.swaggerDefs fuel Generated.swaggerRoot raw
  let asIs := run Impl.Cfg.asIs opts
  let verdict (r : Res) : Option Bool := if r.panicked then none else some r.errors.isEmpty
  let explain := switches.filterMap fun (name, f, get) =>
    if get Impl.Cfg.asIs && verdict (run (f Impl.Cfg.asIs) opts) == some spec then some (Json.str name) else none
  Json.mkObj [("spec", Json.bool spec), ("impl", resJson asIs),
    ("implPlainValid", Json.bool (run Impl.Cfg.asIs {}).errors.isEmpty),
    ("repValid", Json.bool (run Impl.Cfg.repaired opts).errors.isEmpty),
    ("explain", Json.arr explain.toArray), ("active", Json.arr (activeSwitches.map Json.str).toArray)]

def hasDupStr : List String → Bool
  | [] => false
  | x :: xs => xs.contains x || hasDupStr xs

/-- two locations walked by the default or example validator below one starting point render to the same dotted path: which of
    them the visited set cuts off then depends on the order Go ranges over the property maps (finding of C09, order-dependent: C10) -/
def pathCollision (v : View) : Bool :=
  [Which.dflt, Which.exmp].any fun w =>
    hasDupStr (v.defs.flatMap fun (n, s) => pathsOf w s ("definitions." ++ n))
    || v.ops.any (fun o =>
        o.params.any (fun p => match p.schema with | some s => hasDupStr (pathsOf w s p.name) | none => false)
        || (match o.responses with
            | some rs => rs.any fun r => match r.schema with | some s => hasDupStr (pathsOf w s r.code) | none => false
            | none => false))

def runSpecCase (j : Json) : Json :=
  let doc := getD (getD j "go" Json.null) "raw" (getD j "doc" Json.null)
  let O := mkOracles (parseOracles j)
  let (v0, localRefsOk) := parseView doc (getBool j "strict")
  let v := expandView v0
  let J := mkJudges O (defsLookup v0)
  Json.mkObj [("rules", tagsJson (extraRuleErrs O v)),
    ("circular", Json.bool (hasCircularRefs v0.defs)),
    ("defaultLocs", if hasCircularRefs v0.defs then Json.null else locations .dflt O v),
    ("exampleLocs", if hasCircularRefs v0.defs then Json.null else locations .exmp O v),
    ("defaults", if hasCircularRefs v0.defs then Json.null else stageJson (valueStage DCfg.asIs J .dflt O v)),
    ("defaultsSpec", if hasCircularRefs v0.defs then Json.null else stageJson (valueStage DCfg.repaired J .dflt O v)),
    ("examples", if hasCircularRefs v0.defs then Json.null else stageJson (valueStage DCfg.asIs J .exmp O v)),
    ("examplesSpec", if hasCircularRefs v0.defs then Json.null else stageJson (valueStage DCfg.repaired J .exmp O v)),
    ("swagger", swaggerPass O (toJVal doc)),
    ("rulesStop", tagsJson (requiredDefinitionErrsStop O v.defs)),
    -- the whole of Validate as one model: verdict and stage of the first error, per mode
    ("whole", if hasCircularRefs v0.defs then Json.null else
      let vr := { v with refsResolve := localRefsOk }
      let st := modelStages O (toJVal doc) v0 vr
      let one (cont : Bool) : Json :=
        let r := (specValidate cont st).1
        Json.mkObj [("valid", Json.bool r.errors.isEmpty), ("panic", Json.bool r.panicked),
          ("nerr", Json.num (JsonNumber.fromNat r.errors.length)),
          ("warnsEq", Json.bool ((specValidate cont st).2.errors.length == r.warnings.length))]
      Json.mkObj [("cont", one true), ("stop", one false)]),
    ("localRefsOk", Json.bool localRefsOk),
    ("pathCollision", Json.bool (pathCollision v)),
    -- the hypotheses of C07_whole_model_no_panic_exec hold for this document
    ("viewClosed", Json.bool (C07.viewClosed v0 v)),
    ("nops", Json.num (JsonNumber.fromNat v.ops.length))]

def runPathFuncsCase (j : Json) : Json :=
  let path := getStr j "path"
  match getStr j "op" with
  | "extract" => Json.mkObj [("list", Json.arr ((extractPathParams path).map Json.str).toArray)]
  | "strip" => Json.mkObj [("str", Json.str (stripParametersInPath path))]
  | _ => Json.mkObj [("bool", Json.bool (isVisited DCfg.asIs path ((getArr j "visited").filterMap optStr)))]

end VM.Driver
