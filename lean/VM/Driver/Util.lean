import Lean.Data.Json
import VM.Json
open Lean
namespace VM.Driver

def ratOfJsonNumber (n : JsonNumber) : Rat :=
  (n.mantissa : Rat) / ((10 ^ n.exponent : Nat) : Rat)

partial def toJVal : Json → JVal
  | .null => .null
  | .bool b => .bool b
  | .num n => .num (ratOfJsonNumber n)
  | .str s => .str s
  | .arr xs => .arr (xs.toList.map toJVal)
  | .obj kvs => .obj (kvs.toList.map fun (k, v) => (k, toJVal v))

def getD (j : Json) (k : String) (d : Json) : Json := (j.getObjVal? k).toOption.getD d
def getStr (j : Json) (k : String) : String := ((j.getObjVal? k).toOption.bind (·.getStr?.toOption)).getD ""
def getNat (j : Json) (k : String) : Nat := ((j.getObjVal? k).toOption.bind (·.getNat?.toOption)).getD 0
def getInt? (j : Json) (k : String) : Option Int := (j.getObjVal? k).toOption.bind (·.getInt?.toOption)
def getBool (j : Json) (k : String) : Bool := ((j.getObjVal? k).toOption.bind (·.getBool?.toOption)).getD false
def getArr (j : Json) (k : String) : List Json :=
  match (j.getObjVal? k).toOption with
  | some (.arr a) => a.toList
  | _ => []
def has (j : Json) (k : String) : Bool := (j.getObjVal? k).toOption.isSome

def optStr : Json → Option String
  | .str s => some s
  | _ => none

end VM.Driver
