import VM.Driver.SchemaParse
import VM.Impl.Values
open Lean
namespace VM.Driver
open VM.Values

def parseKind (k : String) : NumKind :=
  match k with
  | "int" | "int64" => .int 64
  | "int8" => .int 8
  | "int16" => .int 16
  | "int32" => .int 32
  | "uint" | "uint64" => .uint 64
  | "uint8" => .uint 8
  | "uint16" => .uint 16
  | "uint32" => .uint 32
  | "float32" => .float 32
  | _ => .float 64

def mulResStr : MulRes → String
  | .ok => "ok" | .notPositive => "notPositive" | .notMultiple => "notMultiple"

def runValuesCase (j : Json) : Json :=
  let k := parseKind (getStr j "kind")
  let v := (jRat? j "val").getD 0
  let O := mkOracles (parseOracles j)
  match getStr j "op" with
  | "native" =>
    let b := (jRat? j "bound").getD 0
    let excl := getBool j "excl"
    match getStr j "fn" with
    | "max" => Json.mkObj [("impl", Json.str (if nativeMax k v b excl then "max" else "ok")),
                           ("spec", Json.str (if specMax v b excl then "max" else "ok"))]
    | "min" => Json.mkObj [("impl", Json.str (if nativeMin k v b excl then "min" else "ok")),
                           ("spec", Json.str (if specMin v b excl then "min" else "ok"))]
    | _ =>
      let impl := match nativeMulInt k v b with
        | some r => mulResStr r
        | none => if b ≤ 0 then "notPositive" else if O.mulOfTol v b then "ok" else "notMultiple"
      Json.mkObj [("impl", Json.str impl), ("spec", Json.str (mulResStr (specMul v b)))]
  | "schema" =>
    let s := parseSchema (getD j "schema" (Json.mkObj []))
    let b := s.base
    Json.mkObj [("impl", Json.bool (schemaTypedValid O b k v)), ("spec", Json.bool (specTypedValid b.types b v))]
  | "param" =>
    let pj := getD j "param" (Json.mkObj [])
    let s := parseSchema pj
    let b := s.base
    let typ := getStr pj "type"
    Json.mkObj [("impl", Json.bool (paramTypedValid O b typ k v)), ("spec", Json.bool (specTypedValid [typ] b v))]
  | o => Json.mkObj [("bad", Json.str s!"unknown op {o}")]

end VM.Driver
