/-
  Hand-written expectations about the regenerated fact tables (tie T1). Each obligation in
  VM/Properties/*.lean of the form `… Generated.table … = true := by decide` re-checks the
  current source against these expectations on every run.
-/
import VM.Generated.Facts
namespace VM.Expect
open VM.Generated

/-- write targets the validators own (or private copies), by class of the written root -/
def ownedTarget (w : Write) : Bool :=
  w.target == "receiver"          -- a validator's own slots / visited set / result caches
  || w.target == "local-fresh"    -- make / new / literal in the same function
  || w.target == "local-borrowed" -- scratch schema borrowed from the pool
  || w.target == "local"
  || w.target == "range-copy-of"  -- loop copy of a struct value
  || (w.target == "param" && w.detail == "map[string]struct{}")  -- bookkeeping sets of the ancestry walk
  -- the operation of the *expanded* copy of the document (helpers.go:213-245)
  || (w.target == "local-from-call" && w.detail == "s.expandedAnalyzer().OperationFor")

/-- in-place reference expansion: by design, on schemas that carry `$ref`/`id` (outside C12's
    claim) and on loop copies of parameters / responses -/
def documentedExpansion (w : Write) : Bool :=
  (w.func == "newSchemaValidator" && w.expr == "expand-in-place(spec.ExpandSchema) schema")
  || (w.func == "paramHelper.resolveParam" && w.target == "param-document" && w.detail == "*spec.Parameter")
  || (w.func == "responseHelper.expandResponseRef" && w.target == "param-document" && w.detail == "*spec.Response")

/-- every field of a recyclable object is overwritten by its constructor -/
def ctorComplete (c : Ctor) : Bool := c.fields.all (fun f => c.assigned.contains f)

/-- `cleared()` resets every field of a result (the schemata pair is reset field by field) -/
def clearedComplete (c : Ctor) : Bool :=
  c.fields.all (fun f =>
    c.assigned.contains f ||
    (f == "rootObjectSchemata" && c.assigned.contains "rootObjectSchemata.one"
      && c.assigned.contains "rootObjectSchemata.multiple"))

def recyclableTypes : List String :=
  ["basicCommonValidator", "basicSliceValidator", "formatValidator", "HeaderValidator", "itemsValidator",
   "numberValidator", "objectValidator", "ParamValidator", "schemaPropsValidator", "SchemaValidator",
   "schemaSliceValidator", "stringValidator", "typeValidator"]

def schemaChain : List String :=
  ["typeValidator", "schemaPropsValidator", "stringValidator", "formatValidator", "numberValidator",
   "sliceValidator", "commonValidator", "objectValidator"]

def simpleChain : List String :=
  ["typeValidator", "stringValidator", "formatValidator", "numberValidator", "sliceValidator", "commonValidator"]

/-- a chain literal modulo the `new` prefix used by the param/header constructors -/
def normChain (l : List String) : List String :=
  l.map fun n => if n == "newTypeValidator" then "typeValidator" else n

end VM.Expect

namespace VM.Expect
open VM.Generated

/-- validators that own child slots -/
def slotOwners : List String :=
  ["SchemaValidator.Validate", "itemsValidator.Validate", "HeaderValidator.Validate", "ParamValidator.Validate",
   "schemaPropsValidator.validateAnyOf", "schemaPropsValidator.validateOneOf",
   "schemaPropsValidator.validateAllOf", "schemaPropsValidator.validateNot"]

/-- validators whose `Validate` must carry the deferred redeem of self and children -/
def deferOwners : List String :=
  ["SchemaValidator.Validate", "itemsValidator.Validate", "HeaderValidator.Validate", "ParamValidator.Validate",
   "schemaPropsValidator.Validate"]

/-- reads after a merge that are known to be harmless: the operand is not a pooled result -/
def harmlessUseAfterMerge : List (String × String) := [("SpecValidator.Validate", "warnings")]

end VM.Expect
