/-
  Typed Go values as the exported helpers of values.go see them through `reflect` (C14, C16):
  dynamic type + value, with the fragment of `reflect.DeepEqual`, `reflect.Zero` and
  `reflect.Value.Convert` the helpers rely on.
-/
namespace VM

inductive GoVal where
  | nil                                        -- untyped nil interface
  | bool (b : Bool)
  | int (bits : Nat) (v : Int)                 -- int8 … int64; bits = 0 is the platform `int` (64 bits wide, a type of its own)
  | uint (bits : Nat) (v : Nat)                -- uint8 … uint64
  | float (bits : Nat) (v : Rat)               -- float32 / float64 (exactly representable values)
  | str (s : List UInt8)                       -- Go strings are byte sequences (possibly invalid UTF-8)
  | named (typ : String) (s : List UInt8)      -- a defined string type (e.g. operationType)
  | slice (elem : String) (isNil : Bool) (xs : List GoVal)
  | map (isNil : Bool) (kvs : List (String × GoVal))   -- map[string]interface{}
  | nilPtr (typ : String)
  | ptr (typ : String) (v : GoVal)             -- a non-nil pointer and what it points to
  deriving Inhabited, Repr

namespace GoVal

/-- reflect kind classes used by the helpers -/
def isSlice : GoVal → Bool | slice .. => true | _ => false
def isStringKind : GoVal → Bool | str _ | named _ _ => true | _ => false

/-- the dynamic type as a comparable tag -/
def typeTag : GoVal → String
  | nil => "nil" | bool _ => "bool"
  | int b _ => "int" ++ toString b | uint b _ => "uint" ++ toString b | float b _ => "float" ++ toString b
  | str _ => "string" | named t _ => t
  | slice e _ _ => "[]" ++ e | map _ _ => "map" | nilPtr t => "*" ++ t | ptr t _ => "*" ++ t

mutual
/-- `reflect.DeepEqual` on this fragment: identical dynamic types, then values; a nil slice/map
    differs from an empty non-nil one -/
def deepEq : GoVal → GoVal → Bool
  | .nil, .nil => true
  | .bool a, .bool b => a == b
  | .int b1 a, .int b2 b => b1 == b2 && a == b
  | .uint b1 a, .uint b2 b => b1 == b2 && a == b
  | .float b1 a, .float b2 b => b1 == b2 && a == b
  | .str a, .str b => a == b
  | .named t1 a, .named t2 b => t1 == t2 && a == b
  | .slice e1 n1 a, .slice e2 n2 b => e1 == e2 && n1 == n2 && deepEqList a b
  | .map n1 a, .map n2 b => n1 == n2 && a.length == b.length && deepEqSub a b
  | .nilPtr t1, .nilPtr t2 => t1 == t2
  | .ptr t1 a, .ptr t2 b => t1 == t2 && deepEq a b
  | _, _ => false
termination_by structural x => x
def deepEqList : List GoVal → List GoVal → Bool
  | [], [] => true
  | x :: xs, y :: ys => deepEq x y && deepEqList xs ys
  | _, _ => false
termination_by structural l => l
def deepEqSub : List (String × GoVal) → List (String × GoVal) → Bool
  | [], _ => true
  | (k, v) :: rest, b => b.any (fun kv => k == kv.1 && deepEq v kv.2) && deepEqSub rest b
termination_by structural l => l
end

/-- the mathematical value of a numeric GoVal -/
def numVal : GoVal → Option Rat
  | int _ v => some v | uint _ v => some (v : Int) | float _ v => some v | _ => none

mutual
/-- the specification's value equality: numbers by mathematical value whatever their Go type,
    everything else structurally (defined string types compare by their text; like Go, a nil slice
    or map is not an empty one) -/
def valEq : GoVal → GoVal → Bool
  | .nil, b => (match b with | .nil => true | _ => false)
  | .bool a, b => (match b with | .bool c => a == c | _ => false)
  | .int _ a, b => (match b.numVal with | some y => ((a : Int) : Rat) == y | none => false)
  | .uint _ a, b => (match b.numVal with | some y => (((a : Int)) : Rat) == y | none => false)
  | .float _ a, b => (match b.numVal with | some y => a == y | none => false)
  | .str a, b => (match b with | .str c => a == c | .named _ c => a == c | _ => false)
  | .named _ a, b => (match b with | .str c => a == c | .named _ c => a == c | _ => false)
  | .slice _ n a, b => (match b with | .slice _ m c => n == m && valEqList a c | _ => false)
  | .map n a, b => (match b with | .map m c => n == m && a.length == c.length && valEqSub a c | _ => false)
  | .nilPtr t, b => (match b with | .nilPtr u => t == u | _ => false)   -- typed nils are equal only to typed nils of the same type
  | .ptr _ a, b => (match b with | .ptr _ c => valEq a c | _ => false)
termination_by structural x => x
def valEqList : List GoVal → List GoVal → Bool
  | [], [] => true
  | x :: xs, y :: ys => valEq x y && valEqList xs ys
  | _, _ => false
termination_by structural l => l
def valEqSub : List (String × GoVal) → List (String × GoVal) → Bool
  | [], _ => true
  | (k, v) :: rest, b => b.any (fun kv => k == kv.1 && valEq v kv.2) && valEqSub rest b
termination_by structural l => l
end

/-- is the value the zero value of its type (`reflect.DeepEqual(reflect.Zero(t), v)`)? -/
def isZero : GoVal → Bool
  | nil => true            -- invalid reflect.Value: handled by the callers, zero for the specification
  | bool b => !b
  | int _ v => v == 0 | uint _ v => v == 0 | float _ v => v == 0
  | str s => s.isEmpty | named _ s => s.isEmpty
  | slice _ isNil _ => isNil
  | map isNil _ => isNil
  | nilPtr _ => true
  | ptr _ _ => false       -- a non-nil pointer is never the zero value of its type, whatever it points to

/-- width of an integer kind: `int`/`uint` (bits = 0) are 64 bits wide here -/
def widthOf (bits : Nat) : Nat := if bits == 0 then 64 else bits

/-- wrap an integer to `bits` bits, two's complement -/
def wrapInt (bits : Nat) (v : Int) : Int :=
  let m : Int := (2 ^ widthOf bits : Nat)
  let r := v % m
  if r ≥ m / 2 then r - m else r
def wrapUint (bits : Nat) (v : Int) : Nat := (v % ((2 ^ widthOf bits : Nat) : Int)).toNat

/-- UTF-8 encoding of a code point (what `string(rune(i))` produces); invalid code points
    become U+FFFD -/
def utf8Encode (c : Nat) : List UInt8 :=
  let c := if c > 0x10FFFF || (0xD800 ≤ c && c ≤ 0xDFFF) then 0xFFFD else c
  if c < 0x80 then [c.toUInt8]
  else if c < 0x800 then [(0xC0 + c / 64).toUInt8, (0x80 + c % 64).toUInt8]
  else if c < 0x10000 then [(0xE0 + c / 4096).toUInt8, (0x80 + c / 64 % 64).toUInt8, (0x80 + c % 64).toUInt8]
  else [(0xF0 + c / 262144).toUInt8, (0x80 + c / 4096 % 64).toUInt8, (0x80 + c / 64 % 64).toUInt8, (0x80 + c % 64).toUInt8]

/-- `reflect.Value.Convert` of `v` to the type of `target`, where `ConvertibleTo` holds -/
def convertTo (v target : GoVal) : Option GoVal :=
  match target, v with
  | .int b _, .int _ x => some (.int b (wrapInt b x))
  | .int b _, .uint _ x => some (.int b (wrapInt b x))
  | .int b _, .float _ x => some (.int b (wrapInt b (Int.tdiv x.num x.den)))
  | .uint b _, .int _ x => some (.uint b (wrapUint b x))
  | .uint b _, .uint _ x => some (.uint b (wrapUint b x))
  | .uint b _, .float _ x => some (.uint b (wrapUint b (Int.tdiv x.num x.den)))
  | .float b _, .int _ x => some (.float b x)
  | .float b _, .uint _ x => some (.float b ((x : Int) : Rat))
  | .float b _, .float _ x => some (.float b x)
  | .str _, .int _ x => some (.str (utf8Encode (if x < 0 then 0xFFFD else x.toNat)))
  | .str _, .uint _ x => some (.str (utf8Encode x))
  | .str _, .str s => some (.str s)
  | .str _, .named _ s => some (.str s)
  | .named t _, .str s => some (.named t s)
  | .named t _, .named _ s => some (.named t s)
  | .named t _, .int _ x => some (.named t (utf8Encode (if x < 0 then 0xFFFD else x.toNat)))
  | .named t _, .uint _ x => some (.named t (utf8Encode x))
  | .bool _, .bool x => some (.bool x)
  | .slice e1 _ _, .slice e2 n xs => if e1 == e2 then some (.slice e2 n xs) else none
  | .map _ _, .map n kvs => some (.map n kvs)
  | _, _ => none

/-- Go's `utf8.RuneCountInString`: every byte that does not start a valid encoding counts as one rune -/
def runeCountAux : Nat → List UInt8 → Nat
  | 0, _ => 0
  | _, [] => 0
  | fuel + 1, b :: rest =>
    let cont (x : UInt8) : Bool := x ≥ 0x80 && x < 0xC0
    if b < 0x80 then 1 + runeCountAux fuel rest
    else if b ≥ 0xC2 && b < 0xE0 then
      match rest with
      | c1 :: r => if cont c1 then 1 + runeCountAux fuel r else 1 + runeCountAux fuel rest
      | _ => 1 + runeCountAux fuel rest
    else if b ≥ 0xE0 && b < 0xF0 then
      match rest with
      | c1 :: c2 :: r =>
        let lo : UInt8 := if b == 0xE0 then 0xA0 else 0x80
        let hi : UInt8 := if b == 0xED then 0x9F else 0xBF
        if c1 ≥ lo && c1 ≤ hi && cont c2 then 1 + runeCountAux fuel r else 1 + runeCountAux fuel rest
      | _ => 1 + runeCountAux fuel rest
    else if b ≥ 0xF0 && b < 0xF5 then
      match rest with
      | c1 :: c2 :: c3 :: r =>
        let lo : UInt8 := if b == 0xF0 then 0x90 else 0x80
        let hi : UInt8 := if b == 0xF4 then 0x8F else 0xBF
        if c1 ≥ lo && c1 ≤ hi && cont c2 && cont c3 then 1 + runeCountAux fuel r else 1 + runeCountAux fuel rest
      | _ => 1 + runeCountAux fuel rest
    else 1 + runeCountAux fuel rest

def runeCount (s : List UInt8) : Nat := runeCountAux s.length s

/-- Go's rune decoding (`for _, r := range s`, `utf8.DecodeRuneInString`): the code points of the string, a byte that
    does not start a valid encoding giving U+FFFD (width 1) -/
def decodeRunesAux : Nat → List UInt8 → List Nat
  | 0, _ => []
  | _, [] => []
  | fuel + 1, b :: rest =>
    let cont (x : UInt8) : Bool := x ≥ 0x80 && x < 0xC0
    let bad := 0xFFFD :: decodeRunesAux fuel rest
    if b < 0x80 then b.toNat :: decodeRunesAux fuel rest
    else if b ≥ 0xC2 && b < 0xE0 then
      match rest with
      | c1 :: r => if cont c1 then ((b.toNat - 0xC0) * 64 + (c1.toNat - 0x80)) :: decodeRunesAux fuel r else bad
      | _ => bad
    else if b ≥ 0xE0 && b < 0xF0 then
      match rest with
      | c1 :: c2 :: r =>
        let lo : UInt8 := if b == 0xE0 then 0xA0 else 0x80
        let hi : UInt8 := if b == 0xED then 0x9F else 0xBF
        if c1 ≥ lo && c1 ≤ hi && cont c2 then
          ((b.toNat - 0xE0) * 4096 + (c1.toNat - 0x80) * 64 + (c2.toNat - 0x80)) :: decodeRunesAux fuel r
        else bad
      | _ => bad
    else if b ≥ 0xF0 && b < 0xF5 then
      match rest with
      | c1 :: c2 :: c3 :: r =>
        let lo : UInt8 := if b == 0xF0 then 0x90 else 0x80
        let hi : UInt8 := if b == 0xF4 then 0x8F else 0xBF
        if c1 ≥ lo && c1 ≤ hi && cont c2 && cont c3 then
          ((b.toNat - 0xF0) * 262144 + (c1.toNat - 0x80) * 4096 + (c2.toNat - 0x80) * 64 + (c3.toNat - 0x80)) :: decodeRunesAux fuel r
        else bad
      | _ => bad
    else bad

def decodeRunes (s : List UInt8) : List Nat := decodeRunesAux s.length s

end GoVal
end VM
