/-
  C05 — any number of clients of one shared pool, under any schedule.

  Thread `t` names its objects `(t, h)`; a schedule is a list of thread indices; `weave` is the
  interleaved execution written as one client program whose result says, for every thread,
  whether it has finished and with what.
-/
import VM.Impl.Pool
namespace VM.Conc
open VM.Pool

variable {H : Type} {R : Type}

/-- a thread's program with its handles tagged by the thread index -/
def tag (t : Nat) : Prog H R → Prog (Nat × H) R
  | .ret r => .ret r
  | .borrow h k => .borrow (t, h) (tag t k)
  | .write h f v k => .write (t, h) f v (tag t k)
  | .read h f k => .read (t, h) f (fun v => tag t (k v))
  | .redeem h k => .redeem (t, h) (tag t k)

/-- every handle of the program belongs to thread `t` -/
def Tagged (t : Nat) : Prog (Nat × H) R → Prop
  | .ret _ => True
  | .borrow h k => h.1 = t ∧ Tagged t k
  | .write h _ _ k => h.1 = t ∧ Tagged t k
  | .read h _ k => h.1 = t ∧ ∀ v, Tagged t (k v)
  | .redeem h k => h.1 = t ∧ Tagged t k

def finished : Prog (Nat × H) R → Option R
  | .ret r => some r
  | _ => none

/-- the interleaving of the threads `ps` under the schedule, one instruction per schedule entry
    (entries naming a finished or non-existent thread are skipped) -/
def weave : List Nat → List (Prog (Nat × H) R) → Prog (Nat × H) (List (Option R))
  | [], ps => .ret (ps.map finished)
  | t :: rest, ps =>
    match ps[t]? with
    | none => weave rest ps
    | some (.ret _) => weave rest ps
    | some (.borrow h k) => .borrow h (weave rest (ps.set t k))
    | some (.write h f v k) => .write h f v (weave rest (ps.set t k))
    | some (.read h f k) => .read h f (fun v => weave rest (ps.set t (k v)))
    | some (.redeem h k) => .redeem h (weave rest (ps.set t k))

end VM.Conc
