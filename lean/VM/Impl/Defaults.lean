/-
  Implementation model of the default and example validators of spec validation
  (default_validator.go, example_validator.go): the traversal of operations, parameters,
  responses, headers and definitions, the recursive descent through a schema, the visited-path
  bookkeeping with its suffix heuristic, and what is reported as error (defaults) or warning
  (examples). Judging a value against its own schema is delegated to the validators of C01 /
  C16, which enter as parameters (`Judges`).
-/
import VM.SpecView
import VM.Impl.SpecRules
namespace VM.Sw
open VM

/-! ### visited paths (default_validator.go:33-84) -/

/-- every way to write the path as `parent ++ "." ++ suffix` with a non-empty suffix -/
def dotSplits : List Char → List (List Char × List Char)
  | [] => []
  | c :: rest =>
    (if c == '.' && !rest.isEmpty then [([], rest)] else [])
    ++ (dotSplits rest).map fun ps => (c :: ps.1, ps.2)

/-- default_validator.go:52-70: some split has a parent that ends with the suffix -/
def suffixOverlap (path : String) : Bool :=
  (dotSplits path.toList).any fun ps => ps.2.isSuffixOf ps.1

structure DCfg where
  /-- default_validator.go:47-50: exact membership in the visited set -/
  exactVisited : Bool := true
  /-- default_validator.go:52-70: the "overlapping paths" heuristic -/
  suffixHeuristic : Bool := true
  deriving DecidableEq, Repr

def DCfg.asIs : DCfg := {}
/-- every location is judged: the schemas walked are finite trees, no cut-off is needed -/
def DCfg.repaired : DCfg := { exactVisited := false, suffixHeuristic := false }

def isVisited (c : DCfg) (path : String) (vis : List String) : Bool :=
  (c.exactVisited && vis.contains path) || (c.suffixHeuristic && suffixOverlap path)

/-! ### judging and reporting -/

inductive Which where | dflt | exmp deriving DecidableEq, Repr

def Which.suffix : Which → String | .dflt => "default" | .exmp => "example"
/-- Go `!= nil` on a decoded `interface{}`: an explicit `null` is nil -/
def present : Option JVal → Option JVal | some .null => none | x => x
def Which.value (w : Which) (b : SBase) : Option JVal :=
  match w with | .dflt => present b.default | .exmp => present b.exampleV

structure Judges where
  /-- `newSchemaValidator(schema, root, path, …).Validate(v)` -/
  schema : Schema → String → JVal → Res
  /-- `newParamValidator(&param, …).Validate(v)` -/
  param : Param → JVal → Res
  /-- `newHeaderValidator(name, &header, …).Validate(v)` -/
  header : Header → JVal → Res
  /-- `newItemsValidator(path, in, items, root, …).Validate(0, v)`: root format, the chain from this level -/
  items : String → String → String → List ItemLevel → JVal → Res

/-- how a judge's result enters the walker's result: `Merge` for defaults, `MergeAsWarnings` for examples -/
def mergeJ (w : Which) (res r : Res) : Res :=
  match w with | .dflt => res.mergeOne r | .exmp => res.mergeAsWarningsOne r

def mergeOpt (res : Res) : Option Res → Res
  | some r => res.mergeOne r
  | none => res

/-! ### recursive descent through a schema (default_validator.go:237-284, example_validator.go:229-276) -/

/-- walker state: the result so far and the visited set -/
abbrev WSt := Res × List String

/-- `res.Merge(<walk of a sub-schema>)`: the sub-walk sees the current visited set -/
def thenOpt (st : WSt) (f : List String → Option Res × List String) : WSt :=
  ((mergeOpt st.1 (f st.2).1), (f st.2).2)

mutual
/-- returns the result (`none` = the nil returned for a visited path) and the updated visited set -/
def walk (c : DCfg) (J : Judges) (w : Which) (O : Oracles) (inn : String) :
    Schema → String → List String → Option Res × List String
  | .mk b itemsS itemsT addItemsS props patProps addPropsS deps allOf anyOf oneOf nt, path, vis =>
    if isVisited c path vis then (none, vis) else
    let st : WSt := (match w.value b with
      | some v => mergeJ w {} (J.schema (.mk b itemsS itemsT addItemsS props patProps addPropsS deps allOf anyOf oneOf nt)
                                  (path ++ "." ++ w.suffix) v)
      | none => {}, path :: vis)
    let st := match itemsS with
      | some s => thenOpt st (walk c J w O inn s (path ++ ".items." ++ w.suffix))
      | none => st
    let st := walkL c J w O inn itemsT path 0 st
    let st : WSt := (if patOK O b.pattern then st.1
                     else st.1.addErrors [some (mkMsg "invalidPatternIn" [path, inn, b.pattern])], st.2)
    let st := match addItemsS with
      | some s => thenOpt st (walk c J w O inn s (path ++ ".additionalItems"))
      | none => st
    let st := walkM c J w O inn props path st
    let st := walkM c J w O inn patProps path st
    let st := match addPropsS with
      | some s => thenOpt st (walk c J w O inn s (path ++ ".additionalProperties"))
      | none => st
    let st := walkA c J w O inn allOf path 0 st
    (some st.1, st.2)
termination_by structural s => s
/-- tuple items: `path.items[i].default` -/
def walkL (c : DCfg) (J : Judges) (w : Which) (O : Oracles) (inn : String) :
    List Schema → String → Nat → WSt → WSt
  | [], _, _, st => st
  | s :: ss, path, i, st =>
    walkL c J w O inn ss path (i + 1)
      (thenOpt st (walk c J w O inn s (path ++ ".items[" ++ toString i ++ "]." ++ w.suffix)))
termination_by structural l => l
/-- properties and pattern properties: `path.name` -/
def walkM (c : DCfg) (J : Judges) (w : Which) (O : Oracles) (inn : String) :
    List (String × Schema) → String → WSt → WSt
  | [], _, st => st
  | (name, s) :: ps, path, st =>
    walkM c J w O inn ps path (thenOpt st (walk c J w O inn s (path ++ "." ++ name)))
termination_by structural l => l
/-- allOf members: `path.allOf[i]` -/
def walkA (c : DCfg) (J : Judges) (w : Which) (O : Oracles) (inn : String) :
    List Schema → String → Nat → WSt → WSt
  | [], _, _, st => st
  | s :: ss, path, i, st =>
    walkA c J w O inn ss path (i + 1) (thenOpt st (walk c J w O inn s (path ++ ".allOf[" ++ toString i ++ "]")))
termination_by structural l => l
end

/-! ### items of simple parameters and headers (default_validator.go:288-305) -/

def itemValue (w : Which) (l : ItemLevel) : Option JVal := w.value l.base

/-- default_validator.go:292-296: the value of this level, judged by the items validator -/
def itemsHere (J : Judges) (w : Which) (inn rootFmt : String) (l : ItemLevel) (rest : List ItemLevel) (path : String) : Res :=
  match itemValue w l with
  | some v => mergeJ w {} (J.items path inn rootFmt (l :: rest) v)
  | none => {}

def itemsPattern (O : Oracles) (inn : String) (l : ItemLevel) (path : String) (res : Res) : Res :=
  if patOK O l.base.pattern then res else res.addErrors [some (mkMsg "invalidPatternIn" [path, inn, l.base.pattern])]

def walkItems (J : Judges) (w : Which) (O : Oracles) (inn rootFmt : String) : List ItemLevel → String → Res
  | [], _ => {}
  | l :: [], path => itemsPattern O inn l path (itemsHere J w inn rootFmt l [] path)
  | l :: l' :: rest, path =>
    itemsPattern O inn l path
      ((itemsHere J w inn rootFmt l (l' :: rest) path).mergeOne (walkItems J w O inn rootFmt (l' :: rest) (path ++ "[0]." ++ w.suffix)))

/-! ### the two stages (default_validator.go:97-235, example_validator.go:73-227) -/

/-- what the wrapper message is added to, and how the judged result is merged, per validator -/
def report (w : Which) (res : Res) (tag : Msg) (red : Res) (asWarningsToo : Bool) : Res :=
  match w with
  | .dflt => (res.addErrors [some tag]).mergeOne red
  | .exmp => if asWarningsToo then (res.addWarnings [some tag]).mergeAsWarningsOne red
             else (res.addWarnings [some tag]).mergeOne red

/-- `if red.HasErrorsOrWarnings() { report } else { redeem }` -/
def reportIf (w : Which) (res : Res) (tag : Msg) (red : Res) (asWarningsToo : Bool) : Res :=
  if hasErrorsOrWarnings (some red) then report w res tag red asWarningsToo else res

def kindName (w : Which) (k : String) : String := (match w with | .dflt => "default" | .exmp => "example") ++ k

def responseName (r : Response) : String := if r.isDefault then "default response" else "response " ++ r.code

/-- default_validator.go:108-110 -/
def paramWarn (w : Which) (res : Res) (p : Param) : Res :=
  if w == .dflt && (present p.base.default).isSome && p.required
  then res.addWarnings [some (mkMsg "requiredHasDefault" [p.name, p.loc])] else res

/-- default_validator.go:117-126: a simple parameter's own value -/
def paramSimple (J : Judges) (w : Which) (res : Res) (p : Param) : Res :=
  match w.value p.base, p.schema with
  | some v, none => reportIf w res (mkMsg (kindName w "Param") [p.name, p.loc]) (J.param p v) true
  | _, _ => res

/-- default_validator.go:129-137 -/
def paramItems (J : Judges) (w : Which) (O : Oracles) (res : Res) (p : Param) : Res :=
  match p.items with
  | [] => res
  | _ :: _ => reportIf w res (mkMsg (kindName w "Items") [p.name, p.loc]) (walkItems J w O p.loc p.base.format p.items p.name) false

/-- default_validator.go:139-148 (after the `fix:` commit: a nil result is left alone) -/
def paramSchema (c : DCfg) (J : Judges) (w : Which) (O : Oracles) (res : Res) (p : Param) : Res :=
  match p.schema with
  | some s =>
    (match (walk c J w O p.loc s p.name []).1 with
     | some red => reportIf w res (mkMsg (kindName w "Param") [p.name, p.loc]) red false
     | none => res)
  | none => res

def paramStage (c : DCfg) (J : Judges) (w : Which) (O : Oracles) (res : Res) (p : Param) : Res :=
  paramSchema c J w O (paramItems J w O (paramSimple J w (paramWarn w res p) p) p) p

def headerSimple (J : Judges) (w : Which) (opId : String) (r : Response) (res : Res) (h : Header) : Res :=
  match w.value h.base with
  | some v => reportIf w res (mkMsg (kindName w "Header") [opId, h.name, responseName r]) (J.header h v) true
  | none => res

def headerItems (J : Judges) (w : Which) (O : Oracles) (opId : String) (r : Response) (res : Res) (h : Header) : Res :=
  match h.items with
  | [] => res
  | _ :: _ => reportIf w res (mkMsg (kindName w "HeaderItems") [opId, h.name, responseName r])
                (walkItems J w O "header" h.base.format h.items h.name) true

def headerPattern (O : Oracles) (opId : String) (r : Response) (res : Res) (h : Header) : Res :=
  if patOK O h.base.pattern then res
  else res.addErrors [some (mkMsg "invalidPatternInHeader" [opId, h.name, responseName r, h.base.pattern])]

def headerStage (J : Judges) (w : Which) (O : Oracles) (opId : String) (r : Response) (res : Res) (h : Header) : Res :=
  headerPattern O opId r (headerItems J w O opId r (headerSimple J w opId r res h) h) h

/-- default_validator.go:221-233 -/
def respSchema (c : DCfg) (J : Judges) (w : Which) (O : Oracles) (o : Op) (r : Response) (res : Res) : Res :=
  match r.schema with
  | some s =>
    (match (walk c J w O "response" s r.code []).1 with
     | some red => reportIf w res (mkMsg (kindName w "Response") [o.id, responseName r]) red false
     | none => res)
  | none => res

/-- example_validator.go:212-225: per-media-type examples of a response -/
def respExamples (J : Judges) (w : Which) (o : Op) (r : Response) (res : Res) : Res :=
  match w, r.examples with
  | .exmp, some exs =>
    (match r.schema with
     | some s =>
       (match alookup "application/json" exs with
        | some ex => res.mergeAsWarningsOne (J.schema s (o.path ++ ".examples") ex)
        | none => res.addWarnings [some (mkMsg "examplesMimeNotSupported" [o.id, responseName r])])
     | none => res.addWarnings [some (mkMsg "examplesWithoutSchema" [o.id, responseName r])])
  | _, _ => res

def responseStage (c : DCfg) (J : Judges) (w : Which) (O : Oracles) (o : Op) (r : Response) : Res :=
  respExamples J w o r (respSchema c J w O o r (r.headers.foldl (headerStage J w O o.id r) {}))

def opResponses (c : DCfg) (J : Judges) (w : Which) (O : Oracles) (o : Op) (res : Res) : Res :=
  match o.responses with
  | some rs => rs.foldl (fun acc r => acc.mergeOne (responseStage c J w O o r)) res
  | none => if o.id != "" then res.addErrors [some (mkMsg "noValidResponse" [o.id])] else res

def opStage (c : DCfg) (J : Judges) (w : Which) (O : Oracles) (res : Res) (o : Op) : Res :=
  opResponses c J w O o (o.params.foldl (paramStage c J w O) res)

/-- the definitions share one visited set (reset once before the loop) -/
def defsStage (c : DCfg) (J : Judges) (w : Which) (O : Oracles) : List (String × Schema) → Res → List String → Res
  | [], res, _ => res
  | (nm, s) :: rest, res, vis =>
    match walk c J w O "body" s ("definitions." ++ nm) vis with
    | (r, vis') => defsStage c J w O rest (mergeOpt res r) vis'

/-- `(*defaultValidator).Validate` / `(*exampleValidator).Validate` over the view; `v.ops` must
    carry expanded parameters and responses, `v.defs` the definitions as written -/
def valueStage (c : DCfg) (J : Judges) (w : Which) (O : Oracles) (v : View) : Res :=
  defsStage c J w O v.defs (v.ops.foldl (opStage c J w O) {}) []

end VM.Sw
