/-
  C14 — the exported value helpers of values.go / context.go: implementation model and the
  textbook definitions they are measured against. `true` = the helper returns an error.
-/
import VM.GoVal
import VM.Schema
import VM.Generated.Values
namespace VM.Helpers
open VM GoVal

/-- a UTF-8 decoded view for the specification: number of code points of *valid* UTF-8 text -/
def codePoints (s : String) : Nat := s.length

/-! ### implementation model -/

/-- values.go:131-147 -/
def minLengthErr (s : List UInt8) (n : Int) : Bool := decide ((runeCount s : Int) < n)
def maxLengthErr (s : List UInt8) (n : Int) : Bool := decide ((runeCount s : Int) > n)

/-- values.go:198-207: compile-or-report, then search -/
def patternErr (O : Oracles) (s pat : String) : Bool := O.re pat s != some true

/-- values.go:112-128: not a slice → nil; duplicate scan with reflect.DeepEqual -/
def hasDeepDup : List GoVal → Bool
  | [] => false
  | x :: xs => xs.any (deepEq x ·) || hasDeepDup xs
def uniqueItemsErr : GoVal → Bool
  | .slice _ _ xs => hasDeepDup xs
  | _ => false

/-- `strings.EqualFold`: rune by rune (an invalid byte decodes to U+FFFD, so two different invalid bytes fold equal),
    under simple case folding. Modelled: ASCII and Latin-1 letters (what the generators exercise); simple folding of the
    rest of Unicode is an oracle that is not modelled. -/
def foldRune (r : Nat) : Nat :=
  if 65 ≤ r && r ≤ 90 then r + 32
  else if 0xC0 ≤ r && r ≤ 0xDE && r != 0xD7 then r + 32
  else r
def foldEq (a b : List UInt8) : Bool := (decodeRunes a).map foldRune == (decodeRunes b).map foldRune

def strBytes : GoVal → Option (List UInt8)
  | .str s => some s | .named _ s => some s | _ => none

/-- values.go:44-77 EnumCase: one member -/
def enumMember (data : GoVal) (caseSensitive : Bool) (e : GoVal) : Bool :=
  deepEq data e
  || (!caseSensitive && (match strBytes data, strBytes e with
        | some a, some b => foldEq a b
        | _, _ => false))
  || (match e with
      | .nil => false     -- `actualType == nil`: skipped
      | _ => match convertTo data e with
             | some c => deepEq c e
             | none => false)

def enumErr (data : GoVal) (enum : GoVal) (caseSensitive : Bool) : Bool :=
  match enum with
  | .slice _ _ es =>
    match data with
    | .nil => !es.any (fun e => match e with | .nil => true | _ => false)   -- a nil value matches a nil member only
    | _ => !es.any (enumMember data caseSensitive)
  | _ => false                          -- not a slice: nil

/-- values.go:96-109 (regenerated) -/
def minItemsErr (size n : Int) : Bool := Generated.MinItems size n != 0
def maxItemsErr (size n : Int) : Bool := Generated.MaxItems size n != 0

/-- values.go:171-181 -/
def requiredErr (v : GoVal) : Bool :=
  match v with
  | .nil => true
  | _ => isZero v
def requiredStringErr (s : List UInt8) : Bool := s.isEmpty
def requiredNumberErr (x : Rat) : Bool := x == 0

/-- context.go:44-56 + values.go:150-168: the operation type stored in the context, if it is one of
    the three known values -/
inductive OpType where | request | response | none deriving DecidableEq, Repr
def readOnlyErr (op : OpType) (v : GoVal) : Bool :=
  if op != .request then false
  else match v with
    | .nil => false
    | _ => !isZero v

/-- values.go:302-314 -/
def formatOfErr (O : Oracles) (format data : String) : Bool :=
  !O.fmtKnown format || !O.fmt format data

/-! ### textbook definitions (specification) -/

def specMinLength (s : String) (n : Int) : Bool := decide ((s.length : Int) < n)
def specMaxLength (s : String) (n : Int) : Bool := decide ((s.length : Int) > n)
def specHasDup : List GoVal → Bool
  | [] => false
  | x :: xs => xs.any (valEq x ·) || specHasDup xs
def specUniqueItems : GoVal → Bool
  | .slice _ _ xs => specHasDup xs
  | _ => false
def specEnumMember (data : GoVal) (caseSensitive : Bool) (e : GoVal) : Bool :=
  valEq data e
  || (!caseSensitive && (match strBytes data, strBytes e with
        | some a, some b => foldEq a b
        | _, _ => false))
def specEnum (data enum : GoVal) (caseSensitive : Bool) : Bool :=
  match enum with
  | .slice _ _ es => !es.any (specEnumMember data caseSensitive)
  | _ => false
def specRequired (v : GoVal) : Bool := isZero v
def specReadOnly (op : OpType) (v : GoVal) : Bool := op == .request && !isZero v

end VM.Helpers
