/-
  Implementation model of `(*SpecValidator).Validate` (spec.go:92-166): the order in which the
  stage results are merged, the three early returns guarded by continue-on-errors, and the
  deferred bookkeeping that fills the separately returned warnings.

  A stage is its result. The only stage whose own result depends on the continue flag is
  `validateRequiredDefinitions` (`break DEFINITIONS`), hence `Bool → Res` there.
-/
import VM.Impl.Result
namespace VM.Sw
open VM

structure Stages where
  schemaPass : Res := {}          -- spec.go:123-124  Swagger schema over the raw document
  refsValid : Res := {}           -- spec.go:130
  dupIds : Res := {}              -- spec.go:136
  dupProps : Res := {}            -- spec.go:137
  params : Res := {}              -- spec.go:138
  items : Res := {}               -- spec.go:139
  requiredDefs : Bool → Res := fun _ => {}   -- spec.go:143
  defaults : Res := {}            -- spec.go:151-152
  examples : Res := {}            -- spec.go:157-158
  pathNames : Res := {}           -- spec.go:160
  referenced : Res := {}          -- spec.go:163 (warnings only)

/-- the stages merged between the second and the third early return -/
def Stages.middle (s : Stages) (cont : Bool) : List Res := [s.dupIds, s.dupProps, s.params, s.items, s.requiredDefs cont]
/-- the stages merged after the third early return -/
def Stages.late (s : Stages) : List Res := [s.defaults, s.examples, s.pathNames, s.referenced]

def mergeAll (r : Res) (os : List Res) : Res := os.foldl Res.mergeOne r

/-- `errs` at the end of `Validate`, before the deferred bookkeeping -/
def runStages (cont : Bool) (s : Stages) : Res :=
  let e1 := Res.mergeOne {} s.schemaPass
  if !cont && !e1.errors.isEmpty then e1 else
  let e2 := e1.mergeOne s.refsValid
  if !cont && !e2.errors.isEmpty then e2 else
  let e3 := mergeAll e2 (s.middle cont)
  if !cont && !e3.errors.isEmpty then e3 else
  mergeAll e3 s.late

/-- spec.go:115-120 (deferred): `errs.MergeAsWarnings(warnings); warnings.AddErrors(errs.Warnings...)`
    with `warnings` still empty: the pair returned by `Validate` -/
def specValidate (cont : Bool) (s : Stages) : Res × Res :=
  let errs := (runStages cont s).mergeAsWarningsOne {}
  (errs, ({} : Res).addErrors (errs.warnings.map some))

end VM.Sw
