/-
  C04 / C05 — object pools and their clients.

  * `Prog`: client programs as a free monad over borrow / write / read / redeem, with
    program-chosen handles (no physical identity leaks to the client).
  * `runFresh`: the specification — every borrow is a brand-new zeroed object.
  * `runPool`: the implementation — `sync.Pool`: a borrow takes *any* pooled object (stale
    contents and all) or allocates; which one is a parameter (`chooser`), because `sync.Pool`
    promises nothing more.
  * `Disciplined`: (d1) redeem only what you hold, once; (d2) write every field after borrow
    before reading it; (d3) touch nothing after its redeem.
-/
namespace VM.Pool

abbrev Field := Nat
abbrev Val := Nat
abbrev Obj := Field → Val

/-- client programs over handles of type `H` (program-chosen names for borrowed objects) -/
inductive Prog (H : Type) (R : Type) where
  | ret (r : R)
  | borrow (h : H) (k : Prog H R)
  | write (h : H) (f : Field) (v : Val) (k : Prog H R)
  | read (h : H) (f : Field) (k : Val → Prog H R)
  | redeem (h : H) (k : Prog H R)

def upd {α β} [DecidableEq α] (m : α → β) (a : α) (b : β) : α → β := fun x => if x = a then b else m x

@[simp] theorem upd_same {α β} [DecidableEq α] (m : α → β) a b : upd m a b a = b := by simp [upd]
@[simp] theorem upd_other {α β} [DecidableEq α] (m : α → β) a b x (h : x ≠ a) : upd m a b x = m x := by simp [upd, h]

variable {H : Type} [DecidableEq H]

-- fresh semantics: every borrow is a brand-new zeroed object, named by its handle
def runFresh {R} : Prog H R → (H → Obj) → R
  | .ret r, _ => r
  | .borrow h k, τ => runFresh k (upd τ h (fun _ => 0))
  | .write h f v k, τ => runFresh k (upd τ h (upd (τ h) f v))
  | .read h f k, τ => runFresh (k (τ h f)) τ
  | .redeem _ k, τ => runFresh k τ

structure PState (H : Type) where
  phys : H → Nat          -- physical object currently behind a handle
  mem  : Nat → Obj             -- physical memory (stale contents survive redeem)
  free : List Nat              -- the pool
  next : Nat                   -- allocation counter

-- chooser: at each borrow, `some i` = take the i-th pooled object if there is one, else allocate
def takeAt : List Nat → Nat → Option (Nat × List Nat)
  | [], _ => none
  | x :: xs, 0 => some (x, xs)
  | x :: xs, i+1 => (takeAt xs i).map fun (y, ys) => (y, x :: ys)

def runPool {R} : Prog H R → List (Option Nat) → PState H → R
  | .ret r, _, _ => r
  | .borrow h k, ch, σ =>
    let (c, ch') := match ch with | [] => (none, []) | c :: cs => (c, cs)
    match c.bind (takeAt σ.free) with
    | some (p, rest) => runPool k ch' { σ with phys := upd σ.phys h p, free := rest }
    | none => runPool k ch' { σ with phys := upd σ.phys h σ.next, next := σ.next + 1 }
  | .write h f v k, ch, σ => runPool k ch { σ with mem := upd σ.mem (σ.phys h) (upd (σ.mem (σ.phys h)) f v) }
  | .read h f k, ch, σ => runPool (k (σ.mem (σ.phys h) f)) ch σ
  | .redeem h k, ch, σ => runPool k ch { σ with free := σ.phys h :: σ.free }

abbrev Live (H : Type) := H → Option (Field → Bool)

def Disciplined {R} : Prog H R → Live H → Prop
  | .ret _, _ => True
  | .borrow h k, L => L h = none ∧ Disciplined k (upd L h (some fun _ => false))
  | .write h f _ k, L => ∃ w, L h = some w ∧ Disciplined k (upd L h (some (upd w f true)))
  | .read h f k, L => ∃ w, L h = some w ∧ w f = true ∧ ∀ v, Disciplined (k v) L
  | .redeem h k, L => (∃ w, L h = some w) ∧ Disciplined k (upd L h none)

structure Sim (L : Live H) (σ : PState H) (τ : H → Obj) : Prop where
  agree : ∀ h w, L h = some w → ∀ f, w f = true → σ.mem (σ.phys h) f = τ h f
  notfree : ∀ h w, L h = some w → σ.phys h ∉ σ.free
  inj : ∀ h h' w w', L h = some w → L h' = some w' → σ.phys h = σ.phys h' → h = h'
  nodup : σ.free.Nodup
  bound : (∀ p ∈ σ.free, p < σ.next) ∧ (∀ h w, L h = some w → σ.phys h < σ.next)


end VM.Pool
