/-
  Replay of recorded pool traffic (hooks: one `B pool id` per borrow, one `R pool id` per redeem)
  against the ownership discipline of `VM.Pool`: an object is either out (borrowed, owned by one
  borrower) or in its pool; it is handed out only when it is not out, redeemed only when it is out.
-/
namespace VM.PoolTrace

inductive TEv where
  | B (pool : String) (id : Nat)
  | R (pool : String) (id : Nat)
  deriving Repr, DecidableEq

structure TState where
  out : List Nat := []
  pooled : List Nat := []
  deriving Repr

/-- first breach of the discipline, if any, and the state after the trace -/
def replay : List TEv → TState → Nat → TState × Option String
  | [], s, _ => (s, none)
  | .B pool id :: rest, s, i =>
    if s.out.contains id then
      (s, some s!"event {i}: object {id} of {pool} handed out while still borrowed (it was in the pool twice)")
    else replay rest { out := id :: s.out, pooled := s.pooled.erase id } (i + 1)
  | .R pool id :: rest, s, i =>
    if s.pooled.contains id then
      (s, some s!"event {i}: object {id} of {pool} redeemed twice")
    else if !s.out.contains id then
      (s, some s!"event {i}: object {id} of {pool} redeemed but never borrowed")
    else replay rest { out := s.out.erase id, pooled := id :: s.pooled } (i + 1)

end VM.PoolTrace
