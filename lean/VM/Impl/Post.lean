/-
  C18 / C19 — the field-schemata bookkeeping of validation results and the two post-processors
  (post/defaulter.go, post/prune.go).

  An object of the instance is identified by its position in the instance tree (JSON-decoded data
  is a tree: positions stand for Go map identity). An `Entry` says that some schema reached
  (object at `pos`, member `field`): with `dflt = some d` when it was recorded for an *absent*
  member whose property schema declares the default `d` (object_validator.go:362-369), with
  `dflt = none` when it was recorded for a present member through mergeForField.
-/
import VM.Impl.Schema
import VM.Spec.Post
namespace VM.Post
open VM Impl

abbrev Pos := List String

/-- the same record the specification uses for "schema `dflt?` describes member `field` of the object at `pos`" -/
abbrev Entry := Spec.Applies

/-- entry builders of a built sub-validator: position → data → entries -/
abbrev E := Pos → JVal → List Entry

structure EKids where
  itemsS : Option E := none
  itemsT : List E := []
  addItemsS : Option E := none
  props : List (String × Option JVal × E) := []      -- name, declared default, entries of the property schema
  patProps : List (String × E) := []
  addPropsS : Option E := none
  depSchemas : List (String × E) := []
  allOf : List E := []
  anyOf : List E := []
  oneOf : List E := []

def idxSeg (i : Nat) : String := toString i

/-- slice_validator.go:98-124: element results are merged with mergeForSlice (their field schemata travel up) -/
def sliceEntries (b : SBase) (k : EKids) (pos : Pos) (xs : List JVal) : List Entry :=
  let single := match k.itemsS with
    | some f => (xs.zipIdx.map fun (x, i) => f (pos ++ [idxSeg i]) x).flatten
    | none => []
  let tuple := ((k.itemsT.zip xs).zipIdx.map fun ((f, x), i) => f (pos ++ [idxSeg i]) x).flatten
  let addl := match b.addItems, k.addItemsS with
    | .schema, some f =>
      if k.itemsT.isEmpty then []
      else (((xs.zipIdx).drop k.itemsT.length).map fun (x, i) => f (pos ++ [idxSeg i]) x).flatten
    | _, _ => []
  single ++ tuple ++ addl

/-- object_validator.go:160-222 for a *valid* object (verdicts of the children are not needed:
    every child result is merged) -/
def objectEntries (O : Oracles) (b : SBase) (k : EKids) (pos : Pos) (kvs : List (String × JVal)) : List Entry :=
  let isRegular (name : String) : Bool := k.props.any (·.1 == name)
  let matching (name : String) : List (String × E) := k.patProps.filter fun (p, _) => O.re p name == some true
  -- validateAdditionalProperties (skipped entirely when additionalProperties is `false`)
  let addl : List Entry :=
    if b.addProps == .bool false then []
    else (kvs.map fun (name, x) =>
      if isRegular name then []
      else
        let ms := matching name
        (ms.map fun (_, f) => f (pos ++ [name]) x).flatten
        ++ (if !ms.isEmpty then []
            else match k.addPropsS with
              | some f => f (pos ++ [name]) x ++ [{ pos := pos, field := name, dflt := none }]
              | none => [])).flatten
  -- validatePropertiesSchema
  let props : List Entry := (k.props.map fun (name, dflt, f) =>
    match alookup name kvs with
    | some x => f (pos ++ [name]) x ++ [{ pos := pos, field := name, dflt := none }]
    | none => if hasDefault dflt then [{ pos := pos, field := name, dflt := dflt }] else []).flatten
  -- second pass over pattern properties
  let pats : List Entry := (kvs.map fun (name, x) =>
    let ms := matching name
    (ms.map fun (_, f) => f (pos ++ [name]) x).flatten
    ++ (if isRegular name then []
        else (ms.map fun (_, f) => f (pos ++ [name]) x ++ [{ pos := pos, field := name, dflt := none }]).flatten)).flatten
  addl ++ props ++ pats

/-- schema_props.go:101-317 for valid data: the selected anyOf alternative (the first valid one), the
    single valid oneOf alternative, every allOf member, schema dependencies of present keys -/
def compEntries (k : EKids) (anyOk oneOk : List Bool) (pos : Pos) (v : JVal) : List Entry :=
  let firstValid (fs : List E) (oks : List Bool) : List Entry :=
    match (fs.zip oks).find? (·.2) with
    | some (f, _) => f pos v
    | none => []
  let anyE := firstValid k.anyOf anyOk
  let oneE := if (oneOk.filter id).length == 1 then firstValid k.oneOf oneOk else []
  let allE := (k.allOf.map fun f => f pos v).flatten
  let depE := match v with
    | .obj kvs => (kvs.map fun (name, _) =>
        match alookup name k.depSchemas with
        | some f => f pos v
        | none => []).flatten
    | _ => []
  anyE ++ oneE ++ allE ++ depE

/-- the entries one schema node contributes for valid data (order: schema.go:103-112 slots) -/
def nodeEntries (O : Oracles) (b : SBase) (k : EKids) (anyOk oneOk : List Bool) (pos : Pos) (v : JVal) : List Entry :=
  compEntries k anyOk oneOk pos v
  ++ (match v with | .arr xs => sliceEntries b k pos xs | _ => [])
  ++ (match v with | .obj kvs => objectEntries O b k pos kvs | _ => [])

mutual
def entries (cfg : Cfg) (O : Oracles) (r : String → V) (re : String → E) : Schema → E
  | .mk b itemsS itemsT addItemsS props patProps addPropsS depSchemas allOf anyOf oneOf _, pos, v =>
    if b.ref != "" then re b.ref pos v else
    nodeEntries O b
      { itemsS := match itemsS with | some s => some (fun p x => entries cfg O r re s p x) | none => none
        itemsT := entriesL cfg O r re itemsT
        addItemsS := match addItemsS with | some s => some (fun p x => entries cfg O r re s p x) | none => none
        props := entriesP cfg O r re props
        patProps := entriesM cfg O r re patProps
        addPropsS := match addPropsS with | some s => some (fun p x => entries cfg O r re s p x) | none => none
        depSchemas := entriesM cfg O r re depSchemas
        allOf := entriesL cfg O r re allOf
        anyOf := entriesL cfg O r re anyOf
        oneOf := entriesL cfg O r re oneOf }
      (okL cfg O r anyOf v) (okL cfg O r oneOf v) pos v
termination_by structural s => s
def entriesL (cfg : Cfg) (O : Oracles) (r : String → V) (re : String → E) : List Schema → List E
  | [] => []
  | s :: ss => (fun p x => entries cfg O r re s p x) :: entriesL cfg O r re ss
termination_by structural l => l
def entriesM (cfg : Cfg) (O : Oracles) (r : String → V) (re : String → E) : List (String × Schema) → List (String × E)
  | [] => []
  | (k, s) :: ps => (k, fun p x => entries cfg O r re s p x) :: entriesM cfg O r re ps
termination_by structural l => l
def entriesP (cfg : Cfg) (O : Oracles) (r : String → V) (re : String → E) :
    List (String × Schema) → List (String × Option JVal × E)
  | [] => []
  | (k, s) :: ps => (k, s.base.default, fun p x => entries cfg O r re s p x) :: entriesP cfg O r re ps
termination_by structural l => l
/-- verdicts of the alternatives (the validator model decides which alternative is selected) -/
def okL (cfg : Cfg) (O : Oracles) (r : String → V) : List Schema → JVal → List Bool
  | [], _ => []
  | s :: ss, v => (validate cfg {} O r s "" v).errors.isEmpty :: okL cfg O r ss v
termination_by structural l => l
end

def entriesF (cfg : Cfg) (O : Oracles) (defs : String → Option Schema) : Nat → Schema → E
  | 0, s, p, v => entries cfg O (fun _ _ _ => sErr eFuel) (fun _ _ _ => []) s p v
  | n + 1, s, p, v =>
    entries cfg O
      (fun name p' x => match defs name with | some t => validateF cfg {} O defs n t p' x | none => Impl.panic)
      (fun name p' x => match defs name with | some t => entriesF cfg O defs n t p' x | none => []) s p v

/-! ### post-processors -/

def hasEntry (es : List Entry) (pos : Pos) (field : String) : Bool :=
  es.any fun e => e.pos == pos && e.field == field

/-- post/defaulter.go:21-36: for every recorded (object, member), the first schema with a default
    wins if the member is absent -/
def firstDefault (es : List Entry) (pos : Pos) (field : String) : Option JVal :=
  (es.find? fun e => e.pos == pos && e.field == field && hasDefault e.dflt).bind (·.dflt)

def entryFields (es : List Entry) (pos : Pos) : List String :=
  (es.filter (·.pos == pos)).map (·.field) |>.eraseDups

mutual
def applyDefaults (es : List Entry) : Pos → JVal → JVal
  | pos, .obj kvs =>
    let kept := applyMembers es pos kvs
    let added := (entryFields es pos).filterMap fun f =>
      if ahas f kvs then none else (firstDefault es pos f).map fun d => (f, d)
    .obj (kept ++ added)
  | pos, .arr xs => .arr (applyElems es pos 0 xs)
  | _, v => v
termination_by structural _ v => v
def applyMembers (es : List Entry) : Pos → List (String × JVal) → List (String × JVal)
  | _, [] => []
  | pos, (k, x) :: rest => (k, applyDefaults es (pos ++ [k]) x) :: applyMembers es pos rest
termination_by structural _ l => l
def applyElems (es : List Entry) : Pos → Nat → List JVal → List JVal
  | _, _, [] => []
  | pos, i, x :: rest => applyDefaults es (pos ++ [idxSeg i]) x :: applyElems es pos (i + 1) rest
termination_by structural _ _ l => l
end

mutual
/-- post/prune.go:21-48: delete the members no schema reached, then recurse -/
def prune (es : List Entry) : Pos → JVal → JVal
  | pos, .obj kvs => .obj (pruneMembers es pos kvs)
  | pos, .arr xs => .arr (pruneElems es pos 0 xs)
  | _, v => v
termination_by structural _ v => v
def pruneMembers (es : List Entry) : Pos → List (String × JVal) → List (String × JVal)
  | _, [] => []
  | pos, (k, x) :: rest =>
    if hasEntry es pos k then (k, prune es (pos ++ [k]) x) :: pruneMembers es pos rest
    else pruneMembers es pos rest
termination_by structural _ l => l
def pruneElems (es : List Entry) : Pos → Nat → List JVal → List JVal
  | _, _, [] => []
  | pos, i, x :: rest => prune es (pos ++ [idxSeg i]) x :: pruneElems es pos (i + 1) rest
termination_by structural _ _ l => l
end

end VM.Post
