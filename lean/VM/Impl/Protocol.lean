/-
  C04 (d1) / C11 — the redeem protocol of the validator tree as an event generator.

  A validator (`VT`) has pre-built children in slots — each marked with what the parent's loop
  will do to it (`unvisited`: an early exit leaves it untouched; `notApplies`: relinquished without
  running; `call`: validated) — and children it builds and runs on the fly (`dyn`, the object and
  slice validators do that). `run nilBefore p v k` emits the borrow (`B`) / redeem (`R`) events
  of validating `v` at tree position `p` with a panic injected at the `k`-th validator entry;
  `nilBefore` says whether the parent nils a slot before or after calling the child
  (schema.go:226-229 etc. do it *after*).
-/
namespace VM.Protocol

abbrev Pos := List Nat

inductive Ev where
  | B (i : Pos) | R (i : Pos)
  deriving DecidableEq, Repr

inductive Act where
  | unvisited | notApplies | call
  deriving DecidableEq, Repr

-- a validator: pre-built children in slots (with what the parent's loop will do to each slot),
-- and children it builds and runs on the fly while validating (object / slice validators)
inductive VT where
  | mk (kids : List (Act × VT)) (dyn : List VT)

def cR (i : Pos) (es : List Ev) : Nat := es.count (Ev.R i)
def cB (i : Pos) (es : List Ev) : Nat := es.count (Ev.B i)
@[simp] theorem cR_app i a b : cR i (a ++ b) = cR i a + cR i b := by simp [cR]
@[simp] theorem cB_app i a b : cB i (a ++ b) = cB i a + cB i b := by simp [cB]
@[simp] theorem cR_nil i : cR i [] = 0 := rfl
@[simp] theorem cB_nil i : cB i [] = 0 := rfl

mutual
def borrowAll : Pos → VT → List Ev
  | p, .mk kids _ => Ev.B p :: borrowKids p 0 kids
def borrowKids : Pos → Nat → List (Act × VT) → List Ev
  | _, _, [] => []
  | p, i, (_, v) :: rest => borrowAll (p ++ [i]) v ++ borrowKids p (i+1) rest
end

mutual
def redeemAll : Pos → VT → List Ev        -- redeemChildren(); redeem()  on a validator that has not run
  | p, .mk kids _ => redeemKids p 0 kids ++ [Ev.R p]
def redeemKids : Pos → Nat → List (Act × VT) → List Ev
  | _, _, [] => []
  | p, i, (_, v) :: rest => redeemAll (p ++ [i]) v ++ redeemKids p (i+1) rest
end

structure Out where
  evs : List Ev
  panicked : Bool
  k : Option Nat          -- remaining validator entries before the injected panic

structure KOut where
  evs : List Ev
  panicked : Bool
  k : Option Nat
  deferred : List Ev      -- what the parent's deferred redeemChildren will emit for slots still set

def tick : Option Nat → Option Nat
  | some (n+1) => some n
  | x => x

mutual
def run (nilBefore : Bool) : Pos → VT → Option Nat → Out
  | p, .mk kids dyn, k =>
    match k with
    | some 0 => ⟨redeemKids p 0 kids ++ [Ev.R p], true, some 0⟩   -- panic on entry; own defer runs
    | _ =>
      let r := runKids nilBefore p 0 kids (tick k)
      if r.panicked then ⟨r.evs ++ r.deferred ++ [Ev.R p], true, r.k⟩
      else
        let d := runDyn nilBefore p 1000 dyn r.k
        ⟨r.evs ++ d.evs ++ r.deferred ++ [Ev.R p], d.panicked, d.k⟩
def runKids (nilBefore : Bool) : Pos → Nat → List (Act × VT) → Option Nat → KOut
  | _, _, [], k => ⟨[], false, k, []⟩
  | p, i, (.unvisited, v) :: rest, k =>
    let r := runKids nilBefore p (i+1) rest k
    ⟨r.evs, r.panicked, r.k, redeemAll (p ++ [i]) v ++ r.deferred⟩
  | p, i, (.notApplies, v) :: rest, k =>
    let r := runKids nilBefore p (i+1) rest k
    ⟨redeemAll (p ++ [i]) v ++ r.evs, r.panicked, r.k, r.deferred⟩
  | p, i, (.call, v) :: rest, k =>
    let c := run nilBefore (p ++ [i]) v k
    if c.panicked then
      -- the slot is still set iff it is nilled only after the call returns:
      -- the parent's deferred redeemChildren then redeems the (already self-redeemed) child again
      ⟨c.evs, true, c.k, (if nilBefore then [] else [Ev.R (p ++ [i])]) ++ redeemKids p (i+1) rest⟩
    else
      let r := runKids nilBefore p (i+1) rest c.k
      ⟨c.evs ++ r.evs, r.panicked, r.k, r.deferred⟩
def runDyn (nilBefore : Bool) : Pos → Nat → List VT → Option Nat → Out
  | _, _, [], k => ⟨[], false, k⟩
  | p, j, v :: rest, k =>
    let c := run nilBefore (p ++ [j]) v k
    if c.panicked then ⟨borrowAll (p ++ [j]) v ++ c.evs, true, c.k⟩
    else
      let r := runDyn nilBefore p (j+1) rest c.k
      ⟨borrowAll (p ++ [j]) v ++ c.evs ++ r.evs, r.panicked, r.k⟩
end


end VM.Protocol
