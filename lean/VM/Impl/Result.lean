/-
  Implementation model of `validate.Result` (result.go), list level.

  A message is identified by its text: `AddErrors` compares `e.Error()` strings
  (result.go:343-347).  `none` stands for a nil `error` / a nil `*Result`.
-/
namespace VM

/-- A reported message. Go de-duplicates on the rendered text; the model keeps what the
    text is made of: the error code, the `Name` of a field-level error (or the quoted path of a
    composite 422 message) and a tag holding the message kind and its remaining arguments. -/
structure Msg where
  code : Nat := 0
  name : String := ""
  tag : String := ""
  /-- the text starts with the `IMPORTANT!` placeholder (result.go:374-380) -/
  important : Bool := false
  deriving DecidableEq, Repr, Inhabited

/-- result.go:339-354 / 357-372: the `for _, e := range errors` loop of `AddErrors` /
    `AddWarnings`: nil skipped, linear scan of what is already reported, append if new. -/
def addMsgs (cur : List Msg) : List (Option Msg) → List Msg
  | [] => cur
  | none :: es => addMsgs cur es
  | some e :: es => if cur.contains e then addMsgs cur es else addMsgs (cur ++ [e]) es

structure Res where
  errors : List Msg := []
  warnings : List Msg := []
  mc : Int := 0
  /-- model bookkeeping, not a Go field: the Go computation this value stands for panicked
      (sticky through every merge; all other fields are meaningless when set) -/
  panicked : Bool := false
  deriving DecidableEq, Repr, Inhabited

namespace Res

def addErrors (r : Res) (es : List (Option Msg)) : Res := { r with errors := addMsgs r.errors es }
def addWarnings (r : Res) (es : List (Option Msg)) : Res := { r with warnings := addMsgs r.warnings es }
def inc (r : Res) : Res := { r with mc := r.mc + 1 }

/-- result.go:271-275 mergeWithoutRootSchemata, message/count part. -/
def mergeOne (r o : Res) : Res :=
  { errors := addMsgs r.errors (o.errors.map some)
    warnings := addMsgs r.warnings (o.warnings.map some)
    mc := r.mc + o.mc
    panicked := r.panicked || o.panicked }

/-- result.go:116-128 Merge(others...): nil operands skipped. -/
def merge (r : Res) : List (Option Res) → Res
  | [] => r
  | none :: os => merge r os
  | some o :: os => merge (mergeOne r o) os

/-- result.go:301-314 -/
def mergeAsErrorsOne (r o : Res) : Res :=
  { errors := addMsgs (addMsgs r.errors (o.errors.map some)) (o.warnings.map some)
    warnings := r.warnings
    mc := r.mc + o.mc
    panicked := r.panicked || o.panicked }

def mergeAsErrors (r : Res) : List (Option Res) → Res
  | [] => r
  | none :: os => mergeAsErrors r os
  | some o :: os => mergeAsErrors (mergeAsErrorsOne r o) os

/-- result.go:319-332 -/
def mergeAsWarningsOne (r o : Res) : Res :=
  { errors := r.errors
    warnings := addMsgs (addMsgs r.warnings (o.errors.map some)) (o.warnings.map some)
    mc := r.mc + o.mc
    panicked := r.panicked || o.panicked }

def mergeAsWarnings (r : Res) : List (Option Res) → Res
  | [] => r
  | none :: os => mergeAsWarnings r os
  | some o :: os => mergeAsWarnings (mergeAsWarningsOne r o) os

end Res

/-! Queries on possibly-nil results (result.go:421-457). -/
def isValid : Option Res → Bool
  | none => true
  | some r => r.errors.isEmpty
def hasErrors : Option Res → Bool
  | none => false
  | some r => !r.errors.isEmpty
def hasWarnings : Option Res → Bool
  | none => false
  | some r => !r.warnings.isEmpty
def hasErrorsOrWarnings : Option Res → Bool
  | none => false
  | some r => !r.errors.isEmpty || !r.warnings.isEmpty

/-! ### Operation sequences over a fixed set of result variables

  `slots[i] = none` is a nil `*Result`.  Mutating operations on a nil receiver dereference
  nil in Go; the property does not quantify over them and the model leaves the state
  unchanged (the harness never generates them). Operands are read *before* the receiver is
  updated, which is what Go does for distinct variables; for `r.Merge(r)` the receiver and
  operand are the same object and Go reads the operand's slices once, at call time (the
  variadic argument `other.Errors...` is a slice header copied before the loop) — the same
  value-semantics. -/

inductive ROp where
  | addErrors (i : Nat) (es : List (Option Msg))
  | addWarnings (i : Nat) (es : List (Option Msg))
  | merge (i : Nat) (js : List Nat)
  | mergeAsErrors (i : Nat) (js : List Nat)
  | mergeAsWarnings (i : Nat) (js : List Nat)
  | inc (i : Nat)
  | setErr (i : Nat) (k : Nat) (m : Msg)   -- r.Errors[k] = m  (direct write to the exported field)
  | fresh (i : Nat)                         -- slot i := new(Result)
  | setNil (i : Nat)                        -- slot i := nil
  deriving Repr

abbrev RState := List (Option Res)

def getSlot (s : RState) (i : Nat) : Option Res := (s[i]?).join

/-- `Merge` reads operand `j` when it reaches it; earlier operands of the same call may have
    changed the receiver, and an operand that *is* the receiver (`j = i`) sees those changes. -/
def mergeSeq (f : Res → Res → Res) (s : RState) (i : Nat) : List Nat → RState
  | [] => s
  | j :: js =>
    match getSlot s i, getSlot s j with
    | some r, some o => mergeSeq f (s.set i (some (f r o))) i js
    | _, _ => mergeSeq f s i js

def rstep (s : RState) : ROp → RState
  | .addErrors i es => match getSlot s i with
      | some r => s.set i (some (r.addErrors es)) | none => s
  | .addWarnings i es => match getSlot s i with
      | some r => s.set i (some (r.addWarnings es)) | none => s
  | .merge i js => mergeSeq Res.mergeOne s i js
  | .mergeAsErrors i js => mergeSeq Res.mergeAsErrorsOne s i js
  | .mergeAsWarnings i js => mergeSeq Res.mergeAsWarningsOne s i js
  | .inc i => match getSlot s i with
      | some r => s.set i (some r.inc) | none => s
  | .setErr i k m => match getSlot s i with
      | some r => s.set i (some { r with errors := r.errors.set k m }) | none => s
  | .fresh i => s.set i (some {})
  | .setNil i => s.set i none

def rrun (s : RState) (ops : List ROp) : RState := ops.foldl rstep s

end VM
