/-
  C15 / C05 — the regexp cache of rexp.go under arbitrary interleavings.

  Threads carry a program counter over the steps of `compileRegexp` / `cacheRegexp`:
  load the published map (lock-free) · look the pattern up · compile · lock · load again ·
  test · build a fresh map and store it · unlock. A compiled expression is represented by its
  source text (Go: `Regexp.String()`), `valid` says which patterns compile, `keyOf` is the key
  the insert uses for a compiled expression (the code: `r.String()`, i.e. `id`).
-/
namespace VM.Rexp

abbrev Pat := String
abbrev Cache := List (Pat × Pat)          -- key ↦ source text of the cached compiled expression

def lookup (k : Pat) : Cache → Option Pat
  | [] => none
  | (k', r) :: rest => if k = k' then some r else lookup k rest

inductive TS where
  | idle
  | loaded (p : Pat) (c : Cache)          -- compileRegexp: after reDict.Load()
  | miss (p : Pat)                        -- not in snapshot: about to re.Compile(p)
  | wantLock (r : Pat)                    -- compiled r (source text r), about to cacheMutex.Lock()
  | locked (r : Pat)                      -- holds the lock, about to Load()
  | lockedLoaded (r : Pat) (c : Cache)    -- holds the lock, has the snapshot
  | unlocking (r : Pat)                   -- stored (or found present), about to Unlock()
  | done (p : Pat) (res : Option Pat)     -- returned: some r, or none for "invalid pattern"

structure G where
  published : Cache
  lock : Option Nat
  th : Nat → TS

def setTh (g : G) (t : Nat) (s : TS) : G := { g with th := fun x => if x = t then s else g.th x }

-- one step of thread t; `req` is the pattern it asks for when it is idle.
-- keyOf is what the insert uses as key for the compiled expression r (the code: r.String()).
def step (valid : Pat → Bool) (keyOf : Pat → Pat) (g : G) (t : Nat) (req : Pat) : G :=
  match g.th t with
  | .idle => setTh g t (.loaded req g.published)
  | .loaded p c =>
    match lookup p c with
    | some r => setTh g t (.done p (some r))
    | none => setTh g t (.miss p)
  | .miss p => if valid p then setTh g t (.wantLock p) else setTh g t (.done p none)
  | .wantLock r =>
    match g.lock with
    | none => setTh { g with lock := some t } t (.locked r)
    | some _ => g                                    -- blocked
  | .locked r => setTh g t (.lockedLoaded r g.published)
  | .lockedLoaded r c =>
    match lookup (keyOf r) c with
    | some _ => setTh g t (.unlocking r)
    | none => setTh { g with published := (keyOf r, r) :: c } t (.unlocking r)
  | .unlocking r => setTh { g with lock := none } t (.done r (some r))
  | .done _ _ => setTh g t .idle


end VM.Rexp
