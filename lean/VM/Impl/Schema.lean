/-
  Implementation model of the schema validator tree (schema.go, type.go, schema_props.go,
  object_validator.go, slice_validator.go, validator.go, formats.go) for JSON-decoded data.

  It mirrors what the Go code does, including what it does wrong: each known deviation from
  draft 4 sits behind a switch of `Cfg` (`Cfg.asIs` = the code as it is, `Cfg.repaired` = all
  switches off). Children of a node are passed as already-built validators (`V`: path → data →
  result), exactly like the Go constructors build child `SchemaValidator`s.
-/
import VM.Impl.Result
import VM.Schema
namespace VM.Impl

/-- Deviation switches. `true` = behave like the unchanged code. -/
structure Cfg where
  /-- schema.go:153-164: a nil instance runs only the type and enum validators -/
  nullSkipsComposition : Bool := true
  /-- validator.go:279-291: enum never matches a nil instance (nil members skipped, invalid reflect.Value) -/
  enumSkipsNil : Bool := true
  /-- slice_validator.go:122: additional items loop `i < size-itemsSize+1` instead of `i < size` -/
  addlItemsBound : Bool := true
  /-- object_validator.go:362-385: a required property with a default counts as present -/
  requiredByDefault : Bool := true
  /-- swag.IsFloat64AJSONInteger / float division: tolerance-based integer and multipleOf tests -/
  floatTolerance : Bool := true
  /-- type.go:200-202: with a format (and no numeric type) strings and slices pass the type check -/
  formatBypassesType : Bool := true
  /-- object_validator.go:226-229: members "$schema" and "id" are never "additional" -/
  ignoresSchemaIdKeys : Bool := true
  /-- schema_props.go:163,209,264: IMPORTANT!-tagged messages of failed anyOf/oneOf branches are kept
      even when the composition as a whole succeeds -/
  leaksImportant : Bool := true
  deriving DecidableEq, Repr

/-- the code as it is now. `enumSkipsNil` and `addlItemsBound` were repaired by `fix:` commits
    (known_findings.json); their switches stay in the model for the witness theorems. -/
def Cfg.asIs : Cfg := { enumSkipsNil := false, addlItemsBound := false }
/-- the pinned snapshot before any `fix:` commit -/
def Cfg.original : Cfg := {}
def Cfg.repaired : Cfg :=
  { nullSkipsComposition := false, enumSkipsNil := false, addlItemsBound := false,
    requiredByDefault := false, floatTolerance := false, formatBypassesType := false,
    ignoresSchemaIdKeys := false, leaksImportant := false }

/-- `SchemaValidatorOptions` that change outcomes (recycling flags do not: C04). -/
structure Opts where
  arrayMustHaveItems : Bool := false
  objectArrayTypeCheck : Bool := false
  deriving DecidableEq, Repr

/-- a built validator: root path → data → result -/
abbrev V := String → JVal → Res

structure IKids where
  itemsS : Option V := none
  itemsT : List V := []
  addItemsS : Option V := none
  props : List (String × V) := []
  patProps : List (String × V) := []
  addPropsS : Option V := none
  depSchemas : List (String × V) := []
  allOf : List V := []
  anyOf : List V := []
  oneOf : List V := []
  not : Option V := none

/-! ### messages (code, Name / quoted path, kind) -/

def joinTypes (ts : List String) : String := ",".intercalate ts

def eInvalidType (path typ : String) : Msg := { code := 601, name := path, tag := "invalidType:" ++ typ }
def eRequired (path : String) : Msg := { code := 602, name := path, tag := "required" }
def eTooLong (path : String) : Msg := { code := 603, name := path, tag := "tooLong" }
def eTooShort (path : String) : Msg := { code := 604, name := path, tag := "tooShort" }
def ePattern (path pat : String) : Msg := { code := 605, name := path, tag := "pattern:" ++ pat }
def eEnum (path : String) : Msg := { code := 606, name := path, tag := "enum" }
def eNotMultipleOf (path : String) : Msg := { code := 607, name := path, tag := "multipleOf" }
def eMax (path : String) : Msg := { code := 608, name := path, tag := "max" }
def eMin (path : String) : Msg := { code := 609, name := path, tag := "min" }
def eUnique (path : String) : Msg := { code := 610, name := path, tag := "unique" }
def eMaxItems (path : String) : Msg := { code := 611, name := path, tag := "maxItems" }
def eMinItems (path : String) : Msg := { code := 612, name := path, tag := "minItems" }
def eTooFewProps (path : String) : Msg := { code := 614, name := path, tag := "minProperties" }
def eTooManyProps (path : String) : Msg := { code := 615, name := path, tag := "maxProperties" }
def eUnallowedProp (path key : String) : Msg := { code := 616, name := path, tag := "unallowed:" ++ key }
def eMulPositive (path : String) : Msg := { code := 618, name := path, tag := "multipleOfMustBePositive" }
def eAnyOf (path : String) : Msg := { code := 422, name := path, tag := "anyOf" }
def eOneOf (path extra : String) : Msg := { code := 422, name := path, tag := "oneOf:" ++ extra }
def eAllOf (path extra : String) : Msg := { code := 422, name := path, tag := "allOf:" ++ extra }
def eNot (path : String) : Msg := { code := 422, name := path, tag := "not" }
def eDependency (path dep : String) : Msg := { code := 422, name := path, tag := "dependency:" ++ dep }
def eNoAddlItems : Msg := { code := 422, name := "", tag := "noAdditionalItems" }
def eRefInHeader (path header ref : String) : Msg :=
  { code := 422, name := path, tag := "refInHeader:" ++ header ++ ":" ++ ref, important := true }
def eInvalidObject (path : String) : Msg := { code := 422, name := path, tag := "invalidObject" }

def isImportant (m : Msg) : Bool := m.important
/-- result.go:378-380: a new plain error (no code) carrying the text without the placeholder -/
def stripImportant (m : Msg) : Msg := { m with code := 0, important := false }

/-- helpers.go:101-113 sErr: a result holding just this error -/
def sErr (e : Msg) : Res := { errors := [e] }
/-- result.go:26 -/
def emptyResult : Res := { mc := 1 }

def absorb (r o : Res) : Res := { r with panicked := r.panicked || o.panicked }
def panic : Res := { panicked := true }

def dot (path key : String) : String := path ++ "." ++ key
def idx (path : String) (i : Nat) : String := path ++ "." ++ toString i

/-! ### leaf validators -/

def intTest (cfg : Cfg) (O : Oracles) (n : Rat) : Bool :=
  if cfg.floatTolerance then O.isIntTol n else n.isInt

def mulTest (cfg : Cfg) (O : Oracles) (n m : Rat) : Bool :=
  if cfg.floatTolerance then O.mulOfTol n m else (n / m).isInt

/-- type.go:58-145 for JSON-decoded data -/
def goSchType : JVal → String
  | .null => "" | .bool _ => "boolean" | .num _ => "number" | .str _ => "string"
  | .arr _ => "array" | .obj _ => "object"
def goFormat : JVal → String
  | .num _ => "float64" | _ => ""
def strOrSlice : JVal → Bool
  | .str _ | .arr _ => true | _ => false

/-- type.go:148-158 Applies -/
def typeApplies (b : SBase) : Bool := !b.types.isEmpty || b.format != ""

/-- type.go:164-209 -/
def typeValidate (cfg : Cfg) (O : Oracles) (b : SBase) (path : String) (v : JVal) : Res :=
  match v with
  | .null =>
    if !b.types.isEmpty && !b.types.contains "null" && !b.nullable then
      sErr (eInvalidType path (joinTypes b.types))
    else emptyResult
  | _ =>
    let schType := goSchType v
    let isFloatInt := match v with
      | .num n => intTest cfg O n && b.types.contains "integer"
      | _ => false
    if !strOrSlice v && b.format != "" &&
        !(b.types.contains schType || goFormat v == b.format || isFloatInt) then
      sErr (eInvalidType path b.format)
    else if cfg.formatBypassesType && !(b.types.contains "number" || b.types.contains "integer")
        && b.format != "" && strOrSlice v then
      emptyResult
    else if !(b.types.contains schType || isFloatInt) then
      sErr (eInvalidType path (joinTypes b.types))
    else emptyResult

/-- `x > *m` for an optional bound -/
def gtOpt (x : Int) : Option Int → Bool
  | some m => decide (x > m) | none => false
def ltOpt (x : Int) : Option Int → Bool
  | some m => decide (x < m) | none => false

/-- validator.go:1011-1047 (schema validators: not required) -/
def stringValidate (O : Oracles) (b : SBase) (path : String) (s : String) : Option Res :=
  if gtOpt s.length b.maxLength then some (sErr (eTooLong path))
  else if ltOpt s.length b.minLength then some (sErr (eTooShort path))
  else if b.pattern != "" && O.re b.pattern s != some true then some (sErr (ePattern path b.pattern))
  else none

/-- formats.go:78-95 (applies only to strings with a format known to the registry) -/
def formatValidate (O : Oracles) (b : SBase) (path : String) (s : String) : Res :=
  if O.fmt b.format s then {} else { errors := [eInvalidType path b.format] }

/-- validator.go:874-952 for a float64 carrier and no declared type/format (schema validators) -/
def numberValidate (cfg : Cfg) (O : Oracles) (b : SBase) (path : String) (n : Rat) : Res :=
  let resMul : Option Res := b.multipleOf.map fun m =>
    if m ≤ 0 then sErr (eMulPositive path)
    else if mulTest cfg O n m then {} else sErr (eNotMultipleOf path)
  let resMax : Option Res := b.maximum.map fun m =>
    if (!b.exclMax && n > m) || (b.exclMax && n ≥ m) then sErr (eMax path) else {}
  let resMin : Option Res := b.minimum.map fun m =>
    if (!b.exclMin && n < m) || (b.exclMin && n ≤ m) then sErr (eMin path) else {}
  (({} : Res).merge [resMul, resMin, resMax]).inc

/-- validator.go:268-294 -/
def commonValidate (cfg : Cfg) (b : SBase) (path : String) (v : JVal) : Option Res :=
  if b.enum.isEmpty then none
  else if (if cfg.enumSkipsNil && v.isNull then false else b.enum.any (jeq · v)) then none
  else some (sErr (eEnum path))

/-- values.go:112-128 UniqueItems: DeepEqual duplicate scan -/
def hasDup : List JVal → Bool
  | [] => false
  | x :: xs => xs.any (jeq x ·) || hasDup xs

/-! ### slice validator (slice_validator.go:77-146) -/

/-- slice_validator.go:98-104. The element validator is *constructed* with the array's own path
    (its eight children are built then); the later `SetPath(path.i)` only renames the
    `SchemaValidator` shell, so every message of a single-`items` element carries the array's
    path, not the element's. -/
def itemsLoop (f : V) (path : String) : List JVal → Nat → Res → Res
  | [], _, acc => acc
  | x :: xs, i, acc => itemsLoop f path xs (i + 1) (acc.mergeOne (f path x))

def tupleLoop (path : String) : List V → List JVal → Nat → Res → Res
  | f :: fs, x :: xs, i, acc => tupleLoop path fs xs (i + 1) (acc.mergeOne (f (idx path i) x))
  | _, _, _, acc => acc

/-- `for i := lo; i < hi; i++ { … val.Index(i) … }`: an index ≥ size panics -/
def addlLoop (f : V) (path : String) (xs : List JVal) : Nat → Nat → Res → Res
  | 0, _, acc => acc
  | fuel + 1, i, acc =>
    match xs[i]? with
    | none => absorb acc panic
    | some x => addlLoop f path xs fuel (i + 1) (acc.mergeOne (f (idx path i) x))

/-- slice_validator.go:116-126: additional items -/
def addlPart (cfg : Cfg) (b : SBase) (k : IKids) (path : String) (xs : List JVal) (r2 : Res) : Res :=
  let size := xs.length
  let itemsSize := k.itemsT.length
  if b.addItems != .absent && itemsSize < size then
    let r := if itemsSize > 0 && b.addItems == .bool false then r2.addErrors [some eNoAddlItems] else r2
    match b.addItems, k.addItemsS with
    | .schema, some f =>
      if cfg.addlItemsBound then
        -- the pinned snapshot: no tuple guard, upper bound size-itemsSize+1
        addlLoop f path xs (size - itemsSize + 1 - itemsSize) itemsSize r
      else if itemsSize > 0 then addlLoop f path xs (size - itemsSize) itemsSize r
      else r
    | _, _ => r
  else r2

/-- slice_validator.go:128-145: minItems, maxItems, uniqueItems, Inc -/
def sizePart (b : SBase) (path : String) (xs : List JVal) (r3 : Res) : Res :=
  let size := xs.length
  let r4 := if ltOpt size b.minItems then r3.addErrors [some (eMinItems path)] else r3
  let r5 := if gtOpt size b.maxItems then r4.addErrors [some (eMaxItems path)] else r4
  let r6 := if b.uniqueItems && hasDup xs then r5.addErrors [some (eUnique path)] else r5
  r6.inc

def sliceValidate (cfg : Cfg) (b : SBase) (k : IKids) (path : String) (xs : List JVal) : Res :=
  let r1 := match k.itemsS with
    | some f => itemsLoop f path xs 0 {}
    | none => {}
  let r2 := tupleLoop path k.itemsT xs 0 r1
  sizePart b path xs (addlPart cfg b k path xs r2)

/-! ### schemaProps validator (schema_props.go:101-317) -/

/-- result.go:382-416 keepRelevantErrors -/
def keepRelevant (cfg : Cfg) (r : Res) : Res :=
  if cfg.leaksImportant then
    { errors := (r.errors.filter isImportant).map stripImportant
      warnings := (r.warnings.filter isImportant).map stripImportant }
  else {}

def mcOf : Option Res → Int
  | some r => r.mc | none => 0

/-- schema_props.go:153-193; returns (mainResult, keepResultAnyOf) -/
def anyOfLoop (cfg : Cfg) (path : String) (v : JVal) : List V → Option Res → Res → Res → Res × Res
  | [], best, main, keep => ((main.addErrors [some (eAnyOf path)]).merge [best], keep)
  | f :: fs, best, main, keep =>
    let result := f path v
    let keep := keep.mergeOne (keepRelevant cfg result)
    let main := absorb main result
    if result.errors.isEmpty then (main.mergeOne result, {})
    else if best.isNone || result.mc > mcOf best then anyOfLoop cfg path v fs (some result) main keep
    else anyOfLoop cfg path v fs best main keep

/-- schema_props.go:195-252 -/
def oneOfLoop (cfg : Cfg) (path : String) (v : JVal) : List V → Option Res → Option Res → Nat → Res → Res → Res × Res
  | [], first, best, n, main, keep =>
    match n with
    | 0 => ((main.addErrors [some (eOneOf path "Found none valid")]).merge [best], keep)
    | 1 => (main.merge [first], keep)
    | _ => ((main.addErrors [some (eOneOf path s!"Found {n} valid alternatives")]).merge [best], keep)
  | f :: fs, first, best, n, main, keep =>
    let result := f path v
    let keep := keep.mergeOne (keepRelevant cfg result)
    let main := absorb main result
    if result.errors.isEmpty then
      oneOfLoop cfg path v fs (if first.isNone then some result else first) best (n + 1) main {}
    else if n == 0 && (best.isNone || result.mc > mcOf best) then
      oneOfLoop cfg path v fs first (some result) n main keep
    else oneOfLoop cfg path v fs first best n main keep

/-- schema_props.go:254-278 -/
def allOfLoop (cfg : Cfg) (path : String) (v : JVal) (total : Nat) : List V → Nat → Res → Res → Res × Res
  | [], n, main, keep =>
    if n == 0 then (main.addErrors [some (eAllOf path ". None validated")], keep)
    else if n == total then (main, keep)
    else (main.addErrors [some (eAllOf path "")], keep)
  | f :: fs, n, main, keep =>
    let result := f path v
    let keep := keep.mergeOne (keepRelevant cfg result)
    allOfLoop cfg path v total fs (if result.errors.isEmpty then n + 1 else n) (main.mergeOne result) keep

/-- schema_props.go:294-317: range over the instance's members -/
def depsLoop (b : SBase) (k : IKids) (path : String) (v : JVal) (kvs : List (String × JVal)) :
    List (String × JVal) → Res → Res
  | [], main => main
  | (key, _) :: rest, main =>
    match alookup key k.depSchemas with
    | some f => depsLoop b k path v kvs rest (main.mergeOne (f (dot path key) v))
    | none =>
      match alookup key b.depProps with
      | some ds =>
        depsLoop b k path v kvs rest
          (main.addErrors (ds.map fun d => if ahas d kvs then none else some (eDependency path d)))
      | none => depsLoop b k path v kvs rest main

def anyOfPart (cfg : Cfg) (k : IKids) (path : String) (v : JVal) (main : Res) : Res × Option Res :=
  if k.anyOf.isEmpty then (main, none)
  else ((anyOfLoop cfg path v k.anyOf none main {}).1, some (anyOfLoop cfg path v k.anyOf none main {}).2)

def oneOfPart (cfg : Cfg) (k : IKids) (path : String) (v : JVal) (main : Res) : Res × Option Res :=
  if k.oneOf.isEmpty then (main, none)
  else ((oneOfLoop cfg path v k.oneOf none none 0 main {}).1,
        some (oneOfLoop cfg path v k.oneOf none none 0 main {}).2)

def allOfPart (cfg : Cfg) (k : IKids) (path : String) (v : JVal) (main : Res) : Res × Option Res :=
  if k.allOf.isEmpty then (main, none)
  else ((allOfLoop cfg path v k.allOf.length k.allOf 0 main {}).1,
        some (allOfLoop cfg path v k.allOf.length k.allOf 0 main {}).2)

/-- schema_props.go:280-292 -/
def notPart (k : IKids) (path : String) (v : JVal) (main : Res) : Res :=
  match k.not with
  | some f =>
    let result := f path v
    let main := absorb main result
    if result.errors.isEmpty then main.addErrors [some (eNot path)] else main
  | none => main

/-- schema_props.go:142-144 -/
def depsPart (b : SBase) (k : IKids) (path : String) (v : JVal) (main : Res) : Res :=
  match v with
  | .obj kvs =>
    if b.depProps.isEmpty && k.depSchemas.isEmpty then main else depsLoop b k path v kvs kvs main
  | _ => main

def schemaPropsValidate (cfg : Cfg) (b : SBase) (k : IKids) (path : String) (v : JVal) : Res :=
  let p1 := anyOfPart cfg k path v {}
  let p2 := oneOfPart cfg k path v p1.1
  let p3 := allOfPart cfg k path v p2.1
  let main := notPart k path v p3.1
  let main := depsPart b k path v main
  main.inc.merge [p3.2, p2.2, p1.2]

/-! ### object validator (object_validator.go:160-427) -/

/-- object_validator.go:392-427 validatePatternProperty: returns (result', matched, patterns) -/
def patApply (O : Oracles) (path key : String) (x : JVal) :
    List (String × V) → Res → Bool → List String → Res × Bool × List String
  | [], res, matched, pats => (res, matched, pats)
  | (p, f) :: rest, res, matched, pats =>
    if O.re p key == some true then
      patApply O path key x rest (res.mergeOne (f (dot path key) x)) true (pats ++ [p])
    else patApply O path key x rest res matched pats

def anyPatMatches (O : Oracles) (pats : List (String × V)) (key : String) : Bool :=
  pats.any fun (p, _) => O.re p key == some true

/-- object_validator.go:253-302: the extra message for `$ref` inside a `headers` member -/
def headerRefErrors (path : String) (x : JVal) : List (Option Msg) :=
  match x with
  | .obj headers =>
    headers.map fun (hk, hb) =>
      match hb with
      | .obj hs =>
        match alookup "$ref" hs with
        | some (.str ref) => some (eRefInHeader path hk (", one may not use $ref=\":" ++ ref ++ "\""))
        | _ => none
      | _ => none
  | _ => []

/-- object_validator.go:224-304 -/
def noAdditionalLoop (cfg : Cfg) (O : Oracles) (k : IKids) (path : String) :
    List (String × JVal) → Res → Res
  | [], res => res
  | (key, x) :: rest, res =>
    if cfg.ignoresSchemaIdKeys && (key == "$schema" || key == "id") then noAdditionalLoop cfg O k path rest res
    else if ahas key k.props then noAdditionalLoop cfg O k path rest res
    else if anyPatMatches O k.patProps key then noAdditionalLoop cfg O k path rest res
    else
      let res := res.addErrors [some (eUnallowedProp path key)]
      let res := if key == "headers" then res.addErrors (headerRefErrors path x) else res
      noAdditionalLoop cfg O k path rest res

/-- object_validator.go:306-332 -/
def additionalLoop (O : Oracles) (k : IKids) (path : String) :
    List (String × JVal) → Res → Res
  | [], res => res
  | (key, x) :: rest, res =>
    if ahas key k.props then additionalLoop O k path rest res
    else
      let (res, matched, _) := patApply O path key x k.patProps res false []
      if matched then additionalLoop O k path rest res
      else match k.addPropsS with
        | some f => additionalLoop O k path rest (res.mergeOne (f (dot path key) x))
        | none => additionalLoop O k path rest res

/-- object_validator.go:344-370: the loop over declared properties -/
def propsLoop (path : String) (kvs : List (String × JVal)) : List (String × V) → Res → Res
  | [], res => res
  | (name, f) :: rest, res =>
    match alookup name kvs with
    | some x => propsLoop path kvs rest (res.mergeOne (f (if path == "" then name else dot path name) x))
    | none => propsLoop path kvs rest res

/-- object_validator.go:206-219: second pass over pattern properties -/
def patSecondLoop (O : Oracles) (k : IKids) (path : String) : List (String × JVal) → Res → Res
  | [], res => res
  | (key, x) :: rest, res =>
    let (res, matched, pats) := patApply O path key x k.patProps res false []
    if ahas key k.props || !matched then patSecondLoop O k path rest res
    else
      let res := pats.foldl (fun acc p => match alookup p k.patProps with
        | some f => acc.mergeOne (f (dot path key) x)
        | none => acc) res
      patSecondLoop O k path rest res

def lastTwo (path : String) : Option (String × String) :=
  match (path.splitOn ".").reverse with
  | a :: b :: _ => some (b, a)
  | _ => none

/-- object_validator.go:86-99 -/
def isPropertiesPath (path : String) : Bool :=
  match lastTwo path with | some (b, a) => a == "properties" && b != "properties" | none => false
def isDefaultPath (path : String) : Bool :=
  match lastTwo path with | some (b, a) => a == "default" && b != "default" | none => false
def isExamplePath (path : String) : Bool :=
  match lastTwo path with | some (b, a) => (a == "example" || a == "examples") && b != "example" | none => false

/-- object_validator.go:101-158 precheck (Swagger-specific options) -/
def precheck (opts : Opts) (path : String) (kvs : List (String × JVal)) (res : Res) : Res :=
  let res :=
    if opts.arrayMustHaveItems then
      match alookup "type" kvs with
      | some (.str "array") => if ahas "items" kvs then res else res.addErrors [some { code := 602, name := "items", tag := "required" }]
      | _ => res
    else res
  if opts.objectArrayTypeCheck then
    if isPropertiesPath path || isDefaultPath path || isExamplePath path then res
    else if !ahas "items" kvs then res
    else
      let res := if ahas "type" kvs then res else res.addErrors [some { code := 602, name := "type", tag := "required" }]
      match alookup "type" kvs with
      | some (.str "array") => res
      | _ => res.addErrors [some (eInvalidType path "array")]
  else res

/-- a declared default that `pSchema.Default != nil` sees (a JSON `null` default is a nil interface) -/
def hasDefault : Option JVal → Bool
  | some .null => false
  | some _ => true
  | none => false

def objectValidate (cfg : Cfg) (opts : Opts) (O : Oracles) (b : SBase) (defaults : List String)
    (k : IKids) (path : String) (kvs : List (String × JVal)) : Res :=
  let numKeys : Int := kvs.length
  if ltOpt numKeys b.minProps then sErr (eTooFewProps path)
  else if gtOpt numKeys b.maxProps then sErr (eTooManyProps path)
  else
    let res := precheck opts path kvs {}
    let res :=
      if b.addProps == .bool false then noAdditionalLoop cfg O k path kvs res
      else additionalLoop O k path kvs res
    let res := propsLoop path kvs k.props res
    let res := res.addErrors (b.required.map fun name =>
      if ahas name kvs then none
      else if cfg.requiredByDefault && defaults.contains name then none
      else some (eRequired (dot path name)))
    patSecondLoop O k path kvs res

/-! ### one schema node (schema.go:129-235) -/

def step (applies : Bool) (res : Option Res) (acc : Res) : Res :=
  if applies then (acc.merge [res]).inc else acc

/-- names of declared properties carrying a (non-nil) default -/
abbrev Defaults := List String

def nodeValidate (cfg : Cfg) (opts : Opts) (O : Oracles) (b : SBase) (defaults : Defaults)
    (k : IKids) (path : String) (v : JVal) : Res :=
  if v.isNull && cfg.nullSkipsComposition then
    (({} : Res).merge [some (typeValidate cfg O b path v)]).merge [commonValidate cfg b path v]
  else
    let r : Res := {}
    let r := step (typeApplies b) (some (typeValidate cfg O b path v)) r
    let r := step true (some (schemaPropsValidate cfg b k path v)) r
    let r := match v with
      | .str s => step true (stringValidate O b path s) r
      | _ => r
    let r := match v with
      | .str s => step (O.fmtKnown b.format) (some (formatValidate O b path s)) r
      | _ => r
    let r := match v with
      | .num n => step true (some (numberValidate cfg O b path n)) r
      | _ => r
    let r := match v with
      | .arr xs => step true (some (sliceValidate cfg b k path xs)) r
      | _ => r
    let r := step true (commonValidate cfg b path v) r
    let r := match v with
      | .obj kvs => step true (some (objectValidate cfg opts O b defaults k path kvs)) r
      | _ => r
    r.inc

/-! ### the validator tree -/

def defaultsOf (props : List (String × Schema)) : Defaults :=
  props.filterMap fun (name, s) => if hasDefault s.base.default then some name else none

mutual
def validate (cfg : Cfg) (opts : Opts) (O : Oracles) (r : String → V) : Schema → V
  | .mk b itemsS itemsT addItemsS props patProps addPropsS depSchemas allOf anyOf oneOf not, path, v =>
    if b.ref != "" then r b.ref path v else
    nodeValidate cfg opts O b (defaultsOf props)
      { itemsS := match itemsS with | some s => some (fun p x => validate cfg opts O r s p x) | none => none
        itemsT := validateL cfg opts O r itemsT
        addItemsS := match addItemsS with | some s => some (fun p x => validate cfg opts O r s p x) | none => none
        props := validateM cfg opts O r props
        patProps := validateM cfg opts O r patProps
        addPropsS := match addPropsS with | some s => some (fun p x => validate cfg opts O r s p x) | none => none
        depSchemas := validateM cfg opts O r depSchemas
        allOf := validateL cfg opts O r allOf
        anyOf := validateL cfg opts O r anyOf
        oneOf := validateL cfg opts O r oneOf
        not := match not with | some s => some (fun p x => validate cfg opts O r s p x) | none => none }
      path v
termination_by structural s => s
def validateL (cfg : Cfg) (opts : Opts) (O : Oracles) (r : String → V) : List Schema → List V
  | [] => []
  | s :: ss => (fun p x => validate cfg opts O r s p x) :: validateL cfg opts O r ss
termination_by structural l => l
def validateM (cfg : Cfg) (opts : Opts) (O : Oracles) (r : String → V) : List (String × Schema) → List (String × V)
  | [] => []
  | (k, s) :: ps => (k, fun p x => validate cfg opts O r s p x) :: validateM cfg opts O r ps
termination_by structural l => l
end

def eFuel : Msg := { code := 0, name := "", tag := "model: reference fuel exhausted" }

/-- `$ref` by fuel (spec.ExpandSchema replaces the node by its target in place; the path of the
    node is kept). An unknown name stands for the documented panic. Exhausted fuel is an artefact
    of the model, reported as a recognisable error (the specification side answers `false`). -/
def validateF (cfg : Cfg) (opts : Opts) (O : Oracles) (defs : String → Option Schema) : Nat → Schema → V
  | 0, s, p, v => validate cfg opts O (fun _ _ _ => sErr eFuel) s p v
  | n + 1, s, p, v =>
    validate cfg opts O (fun name p' x => match defs name with
                                         | some t => validateF cfg opts O defs n t p' x
                                         | none => panic) s p v

end VM.Impl
