/-
  C16 — parameter, header and items validators (validator.go:76-129, 355-407, 546-599, 741-786)
  on typed Go values: the six-slot chain type → string → format → number → slice → enum with
  first-error exit, and per-element items validation with recursive items.
-/
import VM.Impl.Values
import VM.Impl.Helpers
import VM.Impl.Schema
import VM.Spec.Valid
namespace VM.Simple
open VM GoVal Values Helpers
open VM.Impl (gtOpt ltOpt)

/-- Swagger simple schema (parameter / header / items) -/
inductive SSchema where
  | mk (b : SBase) (required allowEmpty : Bool) (items : Option SSchema)
  deriving Inhabited

def SSchema.base : SSchema → SBase | .mk b .. => b
def SSchema.items : SSchema → Option SSchema | .mk _ _ _ i => i
def SSchema.required : SSchema → Bool | .mk _ r _ _ => r
def SSchema.allowEmpty : SSchema → Bool | .mk _ _ a _ => a

/-- which root object the chain belongs to: `Applies` switches on it -/
inductive Root where | param | header | items deriving DecidableEq, Repr

def numKindOf : GoVal → Option (NumKind × Rat)
  | .int b v => some (.int b, v)
  | .uint b v => some (.uint b, (v : Int))
  | .float b v => some (.float b, v)
  | _ => none

/-- enum members arrive JSON-decoded (float64, string, bool, []interface{}, map) -/
def jvalToGo : JVal → GoVal
  | .null => .nil
  | .bool b => .bool b
  | .num n => .float 64 n
  | .str s => .str s.toUTF8.toList
  | .arr _ => .slice "interface" false []     -- nested enum members are outside the simple-schema vocabulary
  | .obj _ => .map false []

/-- validator.go:268-294 on a typed value: `true` = enum failure -/
def commonErr (enum : List JVal) (v : GoVal) : Bool :=
  if enum.isEmpty then false
  else !(enum.any fun e =>
    match jvalToGo e with
    | .nil => (match v with | .nil => true | _ => false)
    | ge => match convertTo v ge with
            | some c => deepEq c ge
            | none => false)

def strOf (b : List UInt8) : String := (String.fromUTF8? (ByteArray.mk b.toArray)).getD ""

/-- type.go:164-209 for strings, booleans and slices against a single declared type -/
def typeErrOther (typ fmt : String) (schType : String) (strOrSlice : Bool) : Bool :=
  if !strOrSlice && fmt != "" && !(typ == schType) then true
  else if !(typ == "number" || typ == "integer") && fmt != "" && strOrSlice then false
  else !(typ == schType)

/-- fuel-indexed: items nest at most as deep as the schema -/
def validateAux (O : Oracles) (nilElemPanics : Bool) : Nat → Root → (rootFmt : String) → SSchema → GoVal → Bool × Bool
  -- returns (valid, panicked)
  | 0, _, _, _, _ => (true, false)
  | fuel + 1, root, rootFmt, .mk b required allowEmpty items, v =>
    let typ := match b.types with | t :: _ => t | [] => ""
    -- `Applies(i.root, kind)`: the root is the parameter/header also for items, so the type validator
    -- applies whenever this level declares a type or a format
    let typeApplies := typ != "" || b.format != ""
    -- slot 0: type
    let typeBad : Bool :=
      typeApplies &&
      (match numKindOf v with
       | some (k, x) => typeErrTyped O [typ] b.format k x
       | none =>
         match v with
         | .bool _ => typeErrOther typ b.format "boolean" false
         | .str _ | .named _ _ => typeErrOther typ b.format "string" true
         | .slice .. => typeErrOther typ b.format "array" true
         | .map .. => typeErrOther typ b.format "object" false
         | _ => false)
    if typeBad then (false, false) else
    -- slot 1: string
    let strBad : Bool := match v with
      | .str s =>
        (required && !allowEmpty && !hasDefault b.default && s.isEmpty)
        || gtOpt (runeCount s) b.maxLength || ltOpt (runeCount s) b.minLength
        || (b.pattern != "" && O.re b.pattern (strOf s) != some true)
      | _ => false
    if strBad then (false, false) else
    -- slot 2: format (Applies looks at the *root's* format)
    let fmtBad : Bool := match v with
      | .str s => O.fmtKnown rootFmt && !(O.fmtKnown b.format && O.fmt b.format (strOf s))
      | _ => false
    if fmtBad then (false, false) else
    -- slot 3: number
    let numBad : Bool := match numKindOf v with
      | some (k, x) => numberErrTyped O b typ b.format k x
      | none => false
    if numBad then (false, false) else
    -- slot 4: slice
    let (sliceBad, panicked) : Bool × Bool := match v with
      | .slice _ _ xs =>
        if ltOpt xs.length b.minItems || gtOpt xs.length b.maxItems then (true, false)
        else if b.uniqueItems && hasDeepDup xs then (true, false)
        else match items with
          | none => (false, false)
          | some it =>
            xs.foldl (fun (acc : Bool × Bool) x =>
              if acc.1 || acc.2 then acc
              else match x with
                | .nil => if nilElemPanics then (false, true) else acc   -- before the `fix:` commit: reflect.TypeOf(nil).Kind()
                | _ => let r := validateAux O nilElemPanics fuel .items rootFmt it x
                       (!r.1, r.2)) (false, false)
      | _ => (false, false)
    if panicked then (false, true) else
    if sliceBad then (false, false) else
    -- slot 5: enum
    (!commonErr b.enum v, false)
  where hasDefault : Option JVal → Bool
    | some .null => false | some (.str "") => false | some _ => true | none => false

/-- `nilElemPanics = true` is the pinned snapshot (a nil element of a slice with items panicked) -/
def validate (O : Oracles) (root : Root) (s : SSchema) (v : GoVal) (nilElemPanics : Bool := false) : Bool × Bool :=
  match v with
  | .nil => (true, false)     -- a nil value is not validated
  | _ => validateAux O nilElemPanics 8 root s.base.format s v

/-! specification: declared type and every declared constraint at every nesting level -/
def specType (typ : String) (v : GoVal) : Bool :=
  typ == "" ||
  (match v with
   | .bool _ => typ == "boolean"
   | .str _ | .named _ _ => typ == "string"
   | .slice .. => typ == "array"
   | .map .. => typ == "object"
   | .nil | .nilPtr _ => true
   | _ => match numVal v with
          | some x => typ == "number" || (typ == "integer" && x.isInt)
          | none => false)

def specEnumOK (enum : List JVal) (v : GoVal) : Bool :=
  enum.isEmpty || enum.any (fun e => valEq v (jvalToGo e))

def specAux (O : Oracles) : Nat → SSchema → GoVal → Bool
  | 0, _, _ => true
  | _ + 1, _, .nil => true       -- a nil value is not validated, at any nesting level
  | fuel + 1, .mk b required allowEmpty items, v =>
    let typ := match b.types with | t :: _ => t | [] => ""
    specType typ v
    && (match v with
        | .str s =>
          !(required && !allowEmpty && s.isEmpty && b.default.isNone)
          && VM.Spec.atMost (runeCount s) b.maxLength && VM.Spec.atLeast (runeCount s) b.minLength
          && (b.pattern == "" || O.re b.pattern (strOf s) == some true)
          && (!O.fmtKnown b.format || O.fmt b.format (strOf s))
        | _ => true)
    && (match numVal v with
        | some x => specTypedValid [] b x
        | none => true)
    && (match v with
        | .slice _ _ xs =>
          VM.Spec.atMost xs.length b.maxItems && VM.Spec.atLeast xs.length b.minItems
          && (!b.uniqueItems || !specHasDup xs)
          && (match items with
              | some it => xs.all (fun x => specAux O fuel it x)
              | none => true)
        | _ => true)
    && specEnumOK b.enum v

def specValid (O : Oracles) (s : SSchema) (v : GoVal) : Bool :=
  match v with
  | .nil => true
  | _ => specAux O 8 s v

end VM.Simple
