/-
  C16 — parameter, header and items validators (validator.go:76-129, 355-407, 546-599, 741-786)
  on typed Go values: the six-slot chain type → string → format → number → slice → enum with
  first-error exit, and per-element items validation with recursive items.
-/
import VM.Impl.Values
import VM.Impl.Helpers
import VM.Impl.Schema
import VM.Spec.Valid
namespace VM.Simple
open VM GoVal Values Helpers
open VM.Impl (gtOpt ltOpt)

/-- Swagger simple schema (parameter / header / items) -/
inductive SSchema where
  | mk (b : SBase) (required allowEmpty : Bool) (items : Option SSchema)
  deriving Inhabited

def SSchema.base : SSchema → SBase | .mk b .. => b
def SSchema.items : SSchema → Option SSchema | .mk _ _ _ i => i
def SSchema.required : SSchema → Bool | .mk _ r _ _ => r
def SSchema.allowEmpty : SSchema → Bool | .mk _ _ a _ => a

/-- which root object the chain belongs to: `Applies` switches on it -/
inductive Root where | param | header | items deriving DecidableEq, Repr

def numKindOf : GoVal → Option (NumKind × Rat)
  | .int b v => some (.int b, v)
  | .uint b v => some (.uint b, (v : Int))
  | .float b v => some (.float b, v)
  | _ => none

/-- enum members arrive JSON-decoded (float64, string, bool, []interface{}, map) -/
def jvalToGo : JVal → GoVal
  | .null => .nil
  | .bool b => .bool b
  | .num n => .float 64 n
  | .str s => .str s.toUTF8.toList
  | .arr _ => .slice "interface" false []     -- nested enum members are outside the simple-schema vocabulary
  | .obj _ => .map false []

/-- validator.go:268-294 on a typed value: `true` = enum failure -/
def commonErr (enum : List JVal) (v : GoVal) : Bool :=
  if enum.isEmpty then false
  else !(enum.any fun e =>
    match jvalToGo e with
    | .nil => (match v with | .nil => true | _ => false)
    | ge => match convertTo v ge with
            | some c => deepEq c ge
            | none => false)

def strOf (b : List UInt8) : String := (String.fromUTF8? (ByteArray.mk b.toArray)).getD ""

/-- type.go:164-209 for strings, booleans and slices against a single declared type -/
def typeErrOther (typ fmt : String) (schType : String) (strOrSlice : Bool) : Bool :=
  if !strOrSlice && fmt != "" && !(typ == schType) then true
  else if !(typ == "number" || typ == "integer") && fmt != "" && strOrSlice then false
  else !(typ == schType)

/-- nesting depth of `items` -/
def SSchema.depth : SSchema → Nat
  | .mk _ _ _ none => 0
  | .mk _ _ _ (some it) => it.depth + 1

def typOf (b : SBase) : String := match b.types with | t :: _ => t | [] => ""

def hasDefault : Option JVal → Bool
  | some .null => false | some (.str "") => false | some _ => true | none => false

/-- slot 0: type. `Applies(i.root, kind)`: the root is the parameter/header also for items, so the type validator
    applies whenever this level declares a type or a format -/
def typeBad (O : Oracles) (b : SBase) (v : GoVal) : Bool :=
  (typOf b != "" || b.format != "") &&
  (match numKindOf v with
   | some (k, x) => typeErrTyped O [typOf b] b.format k x
   | none =>
     match v with
     | .bool _ => typeErrOther (typOf b) b.format "boolean" false
     | .str _ | .named _ _ => typeErrOther (typOf b) b.format "string" true
     | .slice .. => typeErrOther (typOf b) b.format "array" true
     | .map .. => typeErrOther (typOf b) b.format "object" false
     | _ => false)

/-- slot 1: string -/
def strBad (O : Oracles) (b : SBase) (required allowEmpty : Bool) : GoVal → Bool
  | .str s =>
    (required && !allowEmpty && !hasDefault b.default && s.isEmpty)
    || gtOpt (runeCount s) b.maxLength || ltOpt (runeCount s) b.minLength
    || (b.pattern != "" && O.re b.pattern (strOf s) != some true)
  | _ => false

/-- slot 2: format (Applies looks at the *root's* format) -/
def fmtBad (O : Oracles) (rootFmt : String) (b : SBase) : GoVal → Bool
  | .str s => O.fmtKnown rootFmt && !(O.fmtKnown b.format && O.fmt b.format (strOf s))
  | _ => false

/-- slot 3: number -/
def numBad (O : Oracles) (b : SBase) (v : GoVal) : Bool :=
  match numKindOf v with
  | some (k, x) => numberErrTyped O b (typOf b) b.format k x
  | none => false

/-- slot 4, the slice's own constraints -/
def sliceLocalBad (b : SBase) : GoVal → Bool
  | .slice _ _ xs => ltOpt xs.length b.minItems || gtOpt xs.length b.maxItems || (b.uniqueItems && hasDeepDup xs)
  | _ => false

/-- slot 4, one element: (some element invalid so far, panicked); nothing more happens after the first invalid element -/
def itemsStep (f : GoVal → Bool × Bool) (nilElemPanics : Bool) (acc : Bool × Bool) (x : GoVal) : Bool × Bool :=
  if acc.1 || acc.2 then acc
  else match x with
    | .nil => if nilElemPanics then (false, true) else acc   -- before the `fix:` commit: reflect.TypeOf(nil).Kind()
    | _ => ((!(f x).1), (f x).2)

def itemsFold (f : GoVal → Bool × Bool) (nilElemPanics : Bool) (xs : List GoVal) : Bool × Bool :=
  xs.foldl (itemsStep f nilElemPanics) (false, false)

/-- slot 4, the elements of a slice under `items` -/
def itemsRes (f : SSchema → GoVal → Bool × Bool) (nilElemPanics : Bool) (items : Option SSchema) : GoVal → Bool × Bool
  | .slice _ _ xs => (match items with
                      | some it => itemsFold (f it) nilElemPanics xs
                      | none => (false, false))
  | _ => (false, false)

/-- fuel-indexed (`validate` gives it the depth of the schema): returns (valid, panicked) -/
def validateAux (O : Oracles) (nilElemPanics : Bool) : Nat → Root → (rootFmt : String) → SSchema → GoVal → Bool × Bool
  | 0, _, _, _, _ => (true, false)
  | fuel + 1, _, rootFmt, .mk b required allowEmpty items, v =>
    if typeBad O b v then (false, false) else
    if strBad O b required allowEmpty v then (false, false) else
    if fmtBad O rootFmt b v then (false, false) else
    if numBad O b v then (false, false) else
    if sliceLocalBad b v then (false, false) else
    let r : Bool × Bool := itemsRes (validateAux O nilElemPanics fuel .items rootFmt) nilElemPanics items v
    if r.2 then (false, true) else
    if r.1 then (false, false) else
    -- slot 5: enum
    (!commonErr b.enum v, false)

/-- `nilElemPanics = true` is the pinned snapshot (a nil element of a slice with items panicked) -/
def validate (O : Oracles) (root : Root) (s : SSchema) (v : GoVal) (nilElemPanics : Bool := false) : Bool × Bool :=
  match v with
  | .nil => (true, false)     -- a nil value is not validated
  | _ => validateAux O nilElemPanics (s.depth + 1) root s.base.format s v

/-! specification: declared type and every declared constraint at every nesting level -/
def specType (typ : String) (v : GoVal) : Bool :=
  typ == "" ||
  (match v with
   | .bool _ => typ == "boolean"
   | .str _ | .named _ _ => typ == "string"
   | .slice .. => typ == "array"
   | .map .. => typ == "object"
   | .nil | .nilPtr _ => true
   | _ => match numVal v with
          | some x => typ == "number" || (typ == "integer" && x.isInt)
          | none => false)

def specEnumOK (enum : List JVal) (v : GoVal) : Bool :=
  enum.isEmpty || enum.any (fun e => valEq v (jvalToGo e))

def specAux (O : Oracles) : Nat → SSchema → GoVal → Bool
  | 0, _, _ => true
  | _ + 1, _, .nil => true       -- a nil value is not validated, at any nesting level
  | fuel + 1, .mk b required allowEmpty items, v =>
    let typ := match b.types with | t :: _ => t | [] => ""
    specType typ v
    && (match v with
        | .str s =>
          !(required && !allowEmpty && s.isEmpty && b.default.isNone)
          && VM.Spec.atMost (runeCount s) b.maxLength && VM.Spec.atLeast (runeCount s) b.minLength
          && (b.pattern == "" || O.re b.pattern (strOf s) == some true)
          && (!O.fmtKnown b.format || O.fmt b.format (strOf s))
        | _ => true)
    && (match numVal v with
        | some x => specTypedValid [] b x
        | none => true)
    && (match v with
        | .slice _ _ xs =>
          VM.Spec.atMost xs.length b.maxItems && VM.Spec.atLeast xs.length b.minItems
          && (!b.uniqueItems || !specHasDup xs)
          && (match items with
              | some it => xs.all (fun x => specAux O fuel it x)
              | none => true)
        | _ => true)
    && specEnumOK b.enum v

def specValid (O : Oracles) (s : SSchema) (v : GoVal) : Bool :=
  match v with
  | .nil => true
  | _ => specAux O (s.depth + 1) s v

end VM.Simple
