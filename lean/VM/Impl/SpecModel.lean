/-
  The whole of `(*SpecValidator).Validate` as one model: the stage models (Swagger schema pass over the raw
  document, reference check, the rule loops, the default and example stages with the models of the schema /
  parameter / header / items validators as their judges) put through the pipeline of `Impl/Pipeline.lean`.
-/
import VM.Impl.SpecRules
import VM.Impl.Defaults
import VM.Impl.Pipeline
import VM.Impl.Simple
import VM.Generated.SwaggerSchema
namespace VM.Sw
open VM

/-- `$ref` fuel of the validator models used as judges and for the schema pass -/
def modelFuel : Nat := 64

mutual
/-- JSON-decoded data as typed Go values (`float64`, `string`, `bool`, `[]interface{}`, `map[string]interface{}`) -/
def toGo : JVal → GoVal
  | .null => .nil
  | .bool b => .bool b
  | .num n => .float 64 n
  | .str s => .str s.toUTF8.toList
  | .arr xs => .slice "interface" false (toGoL xs)
  | .obj kvs => .map false (toGoM kvs)
def toGoL : List JVal → List GoVal
  | [] => []
  | x :: xs => toGo x :: toGoL xs
def toGoM : List (String × JVal) → List (String × GoVal)
  | [] => []
  | (k, x) :: rest => (k, toGo x) :: toGoM rest
end

def chainToSSchema : List ItemLevel → Option Simple.SSchema
  | [] => none
  | l :: rest => some (.mk l.base false false (chainToSSchema rest))

/-- the verdict of a parameter / header / items validator as a result -/
def simpleRes (name : String) (r : Bool × Bool) : Res :=
  if r.2 then { panicked := true } else if r.1 then {} else { errors := [{ code := 600, name := name, tag := "simple" }] }

/-- the options `NewSchemaValidator` gets from the spec validator -/
def swaggerOpts : Impl.Opts := { arrayMustHaveItems := true, objectArrayTypeCheck := true }

/-- the validators the default and example stages call, as modelled (code as it is) -/
def modelJudges (O : Oracles) (defs : String → Option Schema) : Judges :=
  { schema := fun s path v => Impl.validateF Impl.Cfg.asIs swaggerOpts O defs modelFuel s path v
    param := fun p v => simpleRes p.name
      (Simple.validate O .param (.mk p.base p.required p.allowEmpty (chainToSSchema p.items)) (toGo v))
    header := fun h v => simpleRes h.name
      (Simple.validate O .header (.mk h.base true false (chainToSSchema h.items)) (toGo v))
    items := fun path _ rootFmt chain v =>
      match chainToSSchema chain, toGo v with
      | _, .nil => {}
      | some ss, gv => simpleRes (path ++ ".0") (Simple.validateAux O false (ss.depth + 1) .items rootFmt ss gv)
      | none, _ => {} }

def msgsRes (ms : List Msg) : Res := { errors := ms }

/-- the schema pass: the Swagger 2.0 schema (regenerated term) over the raw document -/
def schemaPassRes (O : Oracles) (raw : JVal) : Res :=
  Impl.validateF Impl.Cfg.asIs swaggerOpts O Generated.swaggerDefs modelFuel Generated.swaggerRoot "" raw

/-- every stage of `Validate`; `v0` is the view as written (its definitions resolve the references the judges meet),
    `v` the view with parameter and response schemas expanded -/
def modelStages (O : Oracles) (raw : JVal) (v0 v : View) : Stages :=
  { schemaPass := schemaPassRes O raw
    refsValid := msgsRes (referenceErrs v)
    dupIds := msgsRes (dupOperationIDs v)
    dupProps := msgsRes (duplicatePropertyErrs (defsLookup v) v.defs)
    params := msgsRes (parameterErrs O v)
    items := msgsRes (itemsErrs O (fun _ => none) v)
    requiredDefs := fun cont => msgsRes (if cont then requiredDefinitionErrs O v else requiredDefinitionErrsStop O v.defs)
    defaults := valueStage DCfg.asIs (modelJudges O (defsLookup v0)) .dflt O v
    examples := valueStage DCfg.asIs (modelJudges O (defsLookup v0)) .exmp O v
    pathNames := msgsRes (pathNameErrs v) }

/-- the model of `Validate(doc)`: (main result, separately returned warnings) -/
def specModel (cont : Bool) (O : Oracles) (raw : JVal) (v0 v : View) : Res × Res :=
  specValidate cont (modelStages O raw v0 v)

end VM.Sw
