/-
  Implementation model of the extra rules of spec validation (spec.go:168-357, 359-472,
  558-829; helpers.go:126-158), over the analysed view. Every function mirrors the loop of
  the Go function named in its comment, including iteration order where the order is fixed
  and taking the order as the order of the view's lists where Go ranges over a map (the
  C10 theorems show the reported *set* does not depend on it, where that is true).

  A message is `Msg` with code 422 and tag "<kind>:<arg>|<arg>…" (the arguments of the message
  template of spec_messages.go, in template order).
-/
import VM.SpecView
import VM.Impl.Result
namespace VM.Sw
open VM

def mkMsg (kind : String) (args : List String) : Msg :=
  { code := 422, tag := kind ++ ":" ++ "|".intercalate args }

/-- Go `%v` of a `[]string` -/
def goList (xs : List String) : String := "[" ++ " ".intercalate xs ++ "]"

/-! ### path templates (helpers.go:130-158): `{[^{}]+?}` per '/'-separated segment -/

/-- after an opening brace: the parameter name and the rest behind the closing brace -/
def scanParam : List Char → List Char → Option (List Char × List Char)
  | [], _ => none
  | c :: rest, acc =>
    if c == '}' then (if acc.isEmpty then none else some (acc.reverse, rest))
    else if c == '{' then none
    else scanParam rest (c :: acc)

/-- leftmost non-overlapping matches in one segment, with their braces -/
def segParams : Nat → List Char → List String
  | 0, _ => []
  | _, [] => []
  | fuel + 1, c :: rest =>
    if c == '{' then
      match scanParam rest [] with
      | some (name, rest') => ("{" ++ String.ofList name ++ "}") :: segParams fuel rest'
      | none => segParams fuel rest
    else segParams fuel rest

/-- the segment with every match replaced by `X` -/
def stripSeg : Nat → List Char → List Char
  | 0, cs => cs
  | _, [] => []
  | fuel + 1, c :: rest =>
    if c == '{' then
      match scanParam rest [] with
      | some (_, rest') => 'X' :: stripSeg fuel rest'
      | none => c :: stripSeg fuel rest
    else c :: stripSeg fuel rest

/-- `strings.Split(path, "/")` -/
def splitSlash : List Char → List (List Char)
  | [] => [[]]
  | c :: rest =>
    match splitSlash rest with
    | seg :: segs => if c == '/' then [] :: seg :: segs else (c :: seg) :: segs
    | [] => [[c]]   -- unreachable: `splitSlash` never returns []

/-- helpers.go:148-158 -/
def extractPathParams (path : String) : List String :=
  (splitSlash path.toList).flatMap fun seg => segParams (seg.length + 1) seg

/-- helpers.go:130-146 -/
def stripParametersInPath (path : String) : String :=
  String.ofList ("/".toList.intercalate ((splitSlash path.toList).map fun seg => stripSeg (seg.length + 1) seg))

/-! ### operation ids (spec.go:193-216) -/

/-- `analysis.Spec.OperationIDs`: the id, or "METHOD path" for an operation without one -/
def effId (o : Op) : String := if o.id != "" then o.id else o.method ++ " " ++ o.path

def countOf (x : String) (l : List String) : Nat := l.count x

def dupOperationIDs (v : View) : List Msg :=
  let ids := (v.ops.map effId).filter (· != "")
  ids.eraseDups.filterMap fun k =>
    if countOf k ids > 1 then some (mkMsg "nonUniqueOperationID" [k, toString (countOf k ids)]) else none

/-! ### parameters (spec.go:636-779, 802-829, 441-472) -/

def pkey (p : Param) : String := p.loc ++ "#" ++ p.name

/-- `SafeParamsFor`: path-item parameters then operation parameters into a map keyed by
    location and name; a later parameter replaces an earlier one with the same key -/
def mergeParams (ps : List Param) : List Param :=
  ps.foldl (fun acc p => (acc.filter fun q => pkey q != pkey p) ++ [p]) []

def Op.params (o : Op) : List Param := mergeParams (o.piParams ++ o.opParams)

/-- spec.go:802-829: repeated location#name among the operation's own parameters (empty names skipped) -/
def uniqueParamErrs (o : Op) : List Msg :=
  let rec go (seen : List String) : List Param → List Msg
    | [] => []
    | p :: rest =>
      if p.name == "" then go seen rest
      else if seen.contains (pkey p) then mkMsg "duplicateParamName" [p.loc, p.name, o.id] :: go seen rest
      else go (pkey p :: seen) rest
  go [] o.opParams

/-- spec.go:441-472 -/
def pathParamPresenceErrs (path : String) (fromPath fromOp : List String) : List Msg :=
  (fromPath.filterMap fun l =>
    if fromOp.any (fun r => l == "{" ++ r ++ "}") then none else some (mkMsg "noParameterInPath" [l]))
  ++ (fromOp.filterMap fun p =>
    if fromPath.any (fun r => "{" ++ p ++ "}" == r) then none else some (mkMsg "pathParamNotInPath" [p, path]))

/-- spec.go:755-764: `p == q && i > j` over the placeholders of the path -/
def pathParamUniqueErrs (path : String) (ps : List String) : List Msg :=
  let rec go (before : List String) : List String → List Msg
    | [] => []
    | p :: rest =>
      if before.contains p then mkMsg "pathParamNotUnique" [path, p, p] :: go (before ++ [p]) rest
      else go (before ++ [p]) rest
  go [] ps

/-- regexp compiles (`compileRegexp(p)` has no error); the empty pattern compiles -/
def patOK (O : Oracles) (p : String) : Bool := p == "" || (O.re p "").isSome

/-- spec.go:696-775 for one operation, after the overlap check; `ps` = the merged parameters in
    the order Go happens to range over the map -/
def operationParamErrsOn (O : Oracles) (o : Op) (ps : List Param) : List Msg :=
  let perParam := ps.flatMap fun pr =>
    (if patOK O pr.base.pattern then [] else [mkMsg "invalidPatternInParam" [o.id, pr.name, pr.base.pattern]])
    ++ (if pr.loc == "path" && !pr.required then [mkMsg "pathParamRequired" [o.id, pr.name]] else [])
  let bodyNames := (ps.filter (·.loc == "body")).map (·.name)
  let hasBody := !bodyNames.isEmpty
  let hasForm := ps.any (·.loc == "formData")
  let inPath := extractPathParams o.path
  let pathNames := (ps.filter (·.loc == "path")).map (·.name)
  uniqueParamErrs o ++ perParam
  ++ (if hasBody && hasForm then [mkMsg "bothFormDataAndBody" [o.id]] else [])
  ++ (if bodyNames.length > 1 then [mkMsg "multipleBodyParam" [o.id]] else [])
  ++ pathParamUniqueErrs o.path inPath
  ++ pathParamPresenceErrs o.path inPath pathNames

def operationParamErrs (O : Oracles) (o : Op) : List Msg := operationParamErrsOn O o o.params

/-- spec.go:649-675 with `StrictPathParamUniqueness`: per method, the first path seen for a
    stripped form is remembered; a later one with the same stripped form overlaps with it.
    `ops` in the order Go happens to range over the paths. -/
def overlapErrs (ops : List Op) : List Msg :=
  let rec go (seen : List (String × String × String)) : List Op → List Msg
    | [] => []
    | o :: rest =>
      let stripped := stripParametersInPath o.path
      match seen.find? (fun (m, s, _) => m == o.method && s == stripped) with
      | some (_, _, first) =>
        (if o.path < first then mkMsg "pathOverlap" [o.path, first] else mkMsg "pathOverlap" [first, o.path]) :: go seen rest
      | none => go ((o.method, stripped, o.path) :: seen) rest
  go [] ops

def parameterErrs (O : Oracles) (v : View) : List Msg :=
  (if v.strict then overlapErrs v.ops else []) ++ v.ops.flatMap (operationParamErrs O)

/-! ### arrays declare items (spec.go:359-439) -/

/-- follow a chain of `$ref`s (spec.go:276-285 / 321-329); `none` = unresolvable -/
def chase (defs : String → Option Schema) : Nat → Schema → Option Schema
  | 0, _ => none
  | fuel + 1, s => if s.base.ref == "" then some s else
    match defs s.base.ref with
    | some t => chase defs fuel t
    | none => none


/-- spec.go:371-381: the items chain of a non-body parameter -/
def itemsChainOK : List ItemLevel → Bool
  | [] => true
  | l :: rest =>
    if l.type == "array" then
      (match rest with
       | [] => false
       | _ :: _ => itemsChainOK rest)
    else true

/-- spec.go:419-439 validateSchemaItems; `defs` resolves the `$ref` leaves of an expanded schema -/
def schemaItemsErrs (O : Oracles) (defs : String → Option Schema) (pre op : String) : Nat → Schema → List Msg
  | 0, _ => []
  | fuel + 1, s =>
    if s.base.ref != "" then
      match defs s.base.ref with
      | some t => schemaItemsErrs O defs pre op fuel t
      | none => []
    else if !s.base.types.contains "array" then []
    else match s.itemsS, s.itemsT with
      | none, [] => [mkMsg "arrayRequiresItems" [pre, op]]
      | none, _ :: _ => []
      | some it, _ =>
        let it' := (chase defs 64 it).getD it
        (if patOK O it'.base.pattern then [] else [mkMsg "invalidItemsPattern" [pre, op, it'.base.pattern]])
        ++ schemaItemsErrs O defs pre op fuel it

def responseItemsErrs (O : Oracles) (op : String) (r : Response) : List Msg :=
  (r.headers.filterMap fun h =>
    if h.type == "array" && h.itemsType == "" then some (mkMsg "arrayInHeaderRequiresItems" [h.name, op]) else none)
  ++ (match r.schema with
      | some s => schemaItemsErrs O (fun _ => none) "response body" op 64 s
      | none => [])

def itemsErrs (O : Oracles) (defs : String → Option Schema) (v : View) : List Msg :=
  v.ops.flatMap fun o =>
    (o.params.flatMap fun p =>
      if p.type == "array" && p.itemsType == "" then [mkMsg "arrayInParamRequiresItems" [p.name, o.id]]
      else if p.loc != "body" then
        (if itemsChainOK p.items then [] else [mkMsg "arrayInParamRequiresItems" [p.name, o.id]])
      else match p.schema with
        | some s => schemaItemsErrs O defs ("body param " ++ "\"" ++ p.name ++ "\"") o.id 64 s
        | none => [])
    ++ o.rawResponses.flatMap (responseItemsErrs O o.id)

/-! ### required properties are defined (spec.go:558-634) -/

/-- spec.go:594-604: a pattern property whose pattern does not compile is reported -/
def patCompileErrs (O : Oracles) (name defn : String) (s : Schema) : List Msg :=
  s.patProps.filterMap fun pp => if (O.re pp.1 name).isNone then some (mkMsg "invalidPattern" [pp.1, defn]) else none

/-- spec.go:587-604: a declared property, or a pattern property whose pattern matches the name -/
def directMatch (O : Oracles) (name : String) (s : Schema) : Bool :=
  ahas name s.props || s.patProps.any fun pp => O.re pp.1 name == some true

/-- spec.go:578-634: the errors of `validateRequiredProperties(path, in, v)`. The nested result is
    merged and, when it is not valid, the name counts as undefined here too (same message text). -/
def requiredPropErrs (O : Oracles) (name defn : String) : Nat → Schema → List Msg
  | 0, _ => []
  | fuel + 1, s =>
    patCompileErrs O name defn s ++
    (if directMatch O name s then [] else
      match s.base.addProps, s.addPropsS with
      | .bool true, _ => []
      | .schema, some a =>
        requiredPropErrs O name defn fuel a
        ++ (if (requiredPropErrs O name defn fuel a).isEmpty then [] else [mkMsg "requiredButNotDefined" [name, defn]])
      | _, _ => [mkMsg "requiredButNotDefined" [name, defn]])

/-- spec.go:558-576 with continue-on-errors: every required name of every definition -/
def requiredDefinitionErrsOf (O : Oracles) (defs : List (String × Schema)) : List Msg :=
  defs.flatMap fun ds => ds.2.base.required.flatMap fun pn => requiredPropErrs O pn ds.1 64 ds.2

def requiredDefinitionErrs (O : Oracles) (v : View) : List Msg := requiredDefinitionErrsOf O v.defs

/-- one definition when stopping early: the errors of the first required name that is not valid -/
def requiredNamesStop (O : Oracles) (d : String) (s : Schema) : List String → List Msg × Bool
  | [] => ([], false)
  | pn :: rest =>
    if (requiredPropErrs O pn d 64 s).isEmpty then requiredNamesStop O d s rest
    else (requiredPropErrs O pn d 64 s, true)

/-- the same loop when stopping early: `break DEFINITIONS` at the first required name that is
    not valid; `defs` in the order Go happens to range over the map -/
def requiredDefinitionErrsStop (O : Oracles) : List (String × Schema) → List Msg
  | [] => []
  | ds :: rest =>
    if (requiredNamesStop O ds.1 ds.2 ds.2.base.required).2 then (requiredNamesStop O ds.1 ds.2 ds.2.base.required).1
    else requiredDefinitionErrsStop O rest

/-! ### missing paths, empty placeholder (spec.go:168-191) -/

def containsEmptyBraces : List Char → Bool
  | '{' :: '}' :: _ => true
  | _ :: rest => containsEmptyBraces rest
  | [] => false

def pathNameErrs (v : View) : List Msg :=
  if !v.hasPaths then [mkMsg "noValidPath" []]
  else if !v.hasPathItems then []
  else v.pathKeys.filterMap fun k =>
    if containsEmptyBraces k.toList then some (mkMsg "emptyPathParameter" [k]) else none

/-! ### inherited duplicate properties, circular ancestry (spec.go:223-357) -/

def defRef (name : String) : String := "#/definitions/" ++ name

/-- spec.go (alias chase of the ancestry walk, after the `fix:` commit): a chain of bare references that leads back to one
    of its own members; returns the reference at which the chain closes -/
def aliasLoop (defs : String → Option Schema) : Nat → Schema → List String → Option String
  | 0, _, _ => none
  | fuel + 1, s, seen =>
    if s.base.ref == "" then none
    else if seen.contains s.base.ref then some s.base.ref
    else match defs s.base.ref with
      | some t => aliasLoop defs fuel t (s.base.ref :: seen)
      | none => none

/-- the first allOf member whose walk meets a followed reference again (spec.go:345-357: the loop returns at the first
    non-empty answer); the second component collects "unresolved reference seen" -/
def firstHit (f : Schema → List String × Bool) : List Schema → List String × Bool
  | [] => ([], false)
  | c :: rest =>
    if !(f c).1.isEmpty then f c
    else ((firstHit f rest).1, (f c).2 || (firstHit f rest).2)

/-- the allOf members the walk descends into: references and anonymous allOf -/
def ancestryKids (s : Schema) : List Schema := s.allOf.filter fun c => c.base.ref != "" || !c.allOf.isEmpty

/-- spec.go:310-357: returns (the reference met again, unresolved reference seen). `path` holds the references followed on
    the way down to this schema (after the `fix:` commit: an ancestor shared by two branches is not a cycle; before it the
    set was shared by all branches). Fuel bounds the nesting depth only. -/
def circAnc (defs : String → Option Schema) : Nat → String → Schema → List String → List String × Bool
  | 0, _, _, _ => ([], false)
  | fuel + 1, nm, sch, path =>
    if sch.base.ref == "" && sch.allOf.isEmpty then ([], false) else
    match aliasLoop defs 64 sch [] with
    | some r => ([r], false)      -- the references followed from this node never reach a schema
    | none =>
    match chase defs 64 sch with
    | none => ([], true)
    | some schc =>
      let schn := if sch.base.ref != "" then sch.base.ref else nm
      -- spec.go:331 (after the `fix:` commit 4167e1d: the test is made for every followed reference)
      if sch.base.ref != "" && path.contains schn then ([schn], false)
      else firstHit (fun chld => circAnc defs fuel schn chld (if sch.base.ref != "" then schn :: path else path)) (ancestryKids schc)

/-- the bookkeeping of property names met so far: (duplicates, names known), spec.go:296-305 -/
def scanNames (label : String) (names : List String) (knowns : List String) : List String × List String :=
  names.foldl (fun (acc : List String × List String) k =>
    if acc.2.contains k then (acc.1 ++ [label ++ "." ++ k], acc.2) else (acc.1, k :: acc.2)) ([], knowns)

/-- spec.go:269-308: returns (duplicates as "definition.name", updated known set); the known names travel from one allOf
    member to the next. Go ranges over the property map; the *set* of duplicates does not depend on the order. -/
def dupProps (defs : String → Option Schema) : Nat → String → Schema → List String → List String × List String
  | 0, _, _, knowns => ([], knowns)
  | fuel + 1, nm, sch, knowns =>
    match chase defs 64 sch with
    | none => ([], knowns)
    | some schc =>
      let schn := if sch.base.ref != "" then sch.base.ref else nm
      if !schc.allOf.isEmpty then
        schc.allOf.foldl (fun (acc : List String × List String) chld =>
          ((acc.1 ++ (dupProps defs fuel schn chld acc.2).1), (dupProps defs fuel schn chld acc.2).2)) ([], knowns)
      else scanNames schn (akeys schc.props) knowns

/-- spec.go:223-259, definitions in the order Go happens to range over them: the loop *returns*
    at the first definition with circular ancestry -/
def duplicatePropertyErrs (defs : String → Option Schema) : List (String × Schema) → List Msg
  | [] => []
  | (k, sch) :: rest =>
    if sch.allOf.isEmpty then duplicatePropertyErrs defs rest else
    match circAnc defs 64 k sch [defRef k] with
    | (ancs, _) =>
      if !ancs.isEmpty then [mkMsg "circularAncestryDefinition" [k, goList ancs]]
      else match dupProps defs 64 k sch [] with
        | (dups, _) =>
          (if dups.isEmpty then [] else [mkMsg "duplicateProperties" [k, goList dups]])
          ++ duplicatePropertyErrs defs rest

/-! ### all extra rules that raise errors (continue-on-errors) -/

def defsLookup (v : View) : String → Option Schema := fun r => alookup r (v.defs.map fun (n, s) => (defRef n, s))

def referenceErrs (v : View) : List Msg := if v.refsResolve then [] else [mkMsg "unresolvedReferences" []]

def extraRuleErrs (O : Oracles) (v : View) : List Msg :=
  referenceErrs v ++ dupOperationIDs v ++ duplicatePropertyErrs (defsLookup v) v.defs
  ++ parameterErrs O v ++ itemsErrs O (fun _ => none) v ++ requiredDefinitionErrs O v ++ pathNameErrs v

end VM.Sw
