/-
  C13 — the numeric helpers of values.go as they are: kind-dispatched facades
  (`MaximumNativeType`, `MinimumNativeType`, `MultipleOfNativeType`) over the translated helpers of
  VM/Generated/Values.lean. A Go numeric value is (kind, mathematical value); the float64 bound is a
  rational (exactly representable values only: the quantifier of C13).
-/
import VM.Generated.Values
import VM.Schema
namespace VM.Values

inductive NumKind where
  | int (bits : Nat)      -- int8 … int64, int
  | uint (bits : Nat)     -- uint8 … uint64, uint
  | float (bits : Nat)    -- float32, float64
  deriving DecidableEq, Repr

/-- Go's `int64(f)` / `uint64(f)` for a float64 inside the integer range: truncation toward zero -/
def truncToInt (x : Rat) : Int := Int.tdiv x.num x.den

/-- values.go:325-345 MaximumNativeType: `true` = an error is returned -/
def nativeMax (k : NumKind) (v : Rat) (bound : Rat) (excl : Bool) : Bool :=
  match k with
  | .int _ => Generated.MaximumInt (truncToInt v) (truncToInt bound) excl != 0
  | .uint _ =>
    if bound < 0 then true
    else Generated.MaximumUint (truncToInt v).toNat (truncToInt bound).toNat excl != 0
  | .float _ => Generated.Maximum v bound excl != 0

/-- values.go:355-375 MinimumNativeType -/
def nativeMin (k : NumKind) (v : Rat) (bound : Rat) (excl : Bool) : Bool :=
  match k with
  | .int _ => Generated.MinimumInt (truncToInt v) (truncToInt bound) excl != 0
  | .uint _ =>
    if bound < 0 then false
    else Generated.MinimumUint (truncToInt v).toNat (truncToInt bound).toNat excl != 0
  | .float _ => Generated.Minimum v bound excl != 0

/-- Go's `uint64(f)` on amd64: truncation toward zero, negative values wrap modulo 2^64
    (the language leaves out-of-range conversions implementation-defined; this is what the
    correspondence check observes) -/
def goUint64 (x : Rat) : Nat :=
  let t := truncToInt x
  if t < 0 then (t + (2 ^ 64 : Nat)).toNat else t.toNat

/-- result of a multipleOf check: ok | the factor must be positive | not a multiple -/
inductive MulRes where
  | ok | notPositive | notMultiple
  deriving DecidableEq, Repr

def mulResOfCode : Nat → MulRes
  | 0 => .ok | 1 => .notPositive | _ => .notMultiple

/-- values.go:385-403 MultipleOfNativeType for the integer kinds (the float path goes through
    float division and the tolerance test: an oracle, see `Oracles.mulOfTol`) -/
def nativeMulInt (k : NumKind) (v : Rat) (factor : Rat) : Option MulRes :=
  match k with
  | .int _ => some (mulResOfCode (Generated.MultipleOfInt (truncToInt v) (truncToInt factor)))
  | .uint _ => some (mulResOfCode (Generated.MultipleOfUint (truncToInt v).toNat (goUint64 factor)))
  | .float _ => none

/-! ### specification: exact arithmetic on the mathematical values -/

def specMax (v bound : Rat) (excl : Bool) : Bool := decide (v > bound) || (excl && decide (v = bound))
def specMin (v bound : Rat) (excl : Bool) : Bool := decide (v < bound) || (excl && decide (v = bound))
/-- draft 4: the factor must be positive; the value must be an integral multiple of it -/
def specMul (v factor : Rat) : MulRes :=
  if factor ≤ 0 then .notPositive else if (v / factor).isInt then .ok else .notMultiple

end VM.Values

namespace VM.Values

/-! ### typed numeric data through the type and number validators (schema, parameter, header, items) -/

/-- type.go:58-145: (JSON type, format) inferred from the Go kind -/
def goTypeInfo : NumKind → String × String
  | .int b => ("integer", if b == 64 || b == 0 then "int64" else "int32")
  | .uint b => ("integer", if b == 64 || b == 0 then "int64" else "int32")
  | .float b => ("number", if b == 64 then "float64" else "float32")

/-- type.go:164-209 for a numeric value of kind `k`: `true` = type error -/
def typeErrTyped (O : Oracles) (types : List String) (fmt : String) (k : NumKind) (v : Rat) : Bool :=
  let (schType, format) := goTypeInfo k
  let isLowerInt := fmt == "int64" && format == "int32"
  let isLowerFloat := fmt == "float64" && format == "float32"
  let isFloatInt := schType == "number" && O.isIntTol v && types.contains "integer"
  let isIntFloat := schType == "integer" && types.contains "number"
  if fmt != "" && !(types.contains schType || format == fmt || isFloatInt || isIntFloat || isLowerInt || isLowerFloat) then true
  else !(types.contains schType || isFloatInt || isIntFloat)

def pow2 (n : Nat) : Int := (2 ^ n : Nat)

/-- values.go:406-459 IsValueValidAgainstRange: can `x` (carried by kind `k`, or a float64 bound)
    be converted to the declared type/format without loss? -/
def inRange (typ fmt : String) (x : Rat) : Bool :=
  if typ == "integer" then
    x.isInt &&
    (if fmt == "int32" then decide (-(pow2 31) ≤ x.num ∧ x.num < pow2 31)
     else if fmt == "uint32" then decide (0 ≤ x.num ∧ x.num < pow2 32)
     else if fmt == "uint64" then decide (0 ≤ x.num ∧ x.num < pow2 64)
     else decide (-(pow2 63) ≤ x.num ∧ x.num < pow2 63))
  else true   -- float32 / float64: every value within ±2^53 parses

/-- the multipleOf verdict for kind `k` (float kinds: the float path, an oracle) -/
def mulErr (O : Oracles) (k : NumKind) (v factor : Rat) : Bool :=
  match nativeMulInt k v factor with
  | some r => r != .ok
  | none => if factor ≤ 0 then true else !O.mulOfTol v factor

/-- one optional numeric keyword: its bound must itself fit the declared type/format, then the check proper -/
def optErr (typ fmt : String) (f : Rat → Bool) : Option Rat → Bool
  | some m => if inRange typ fmt m then f m else true
  | none => false

/-- validator.go:874-952: `true` = at least one error. `typ`/`fmt` are the declared type and format
    ("" for schema validators). -/
def numberErrTyped (O : Oracles) (b : SBase) (typ fmt : String) (k : NumKind) (v : Rat) : Bool :=
  !inRange typ fmt v
  || optErr typ fmt (mulErr O k v) b.multipleOf
  || optErr typ fmt (fun m => nativeMax k v m b.exclMax) b.maximum
  || optErr typ fmt (fun m => nativeMin k v m b.exclMin) b.minimum

/-- AgainstSchema with a typed numeric value (schema with type / numeric keywords only) -/
def schemaTypedValid (O : Oracles) (b : SBase) (k : NumKind) (v : Rat) : Bool :=
  !((!b.types.isEmpty || b.format != "") && typeErrTyped O b.types b.format k v)
  && !numberErrTyped O b "" "" k v

/-- ParamValidator / HeaderValidator with a typed numeric value: type, then number (first error exits) -/
def paramTypedValid (O : Oracles) (b : SBase) (typ : String) (k : NumKind) (v : Rat) : Bool :=
  let typeApplies := typ != "" || b.format != ""
  if typeApplies && typeErrTyped O [typ] b.format k v then false
  else !numberErrTyped O b typ b.format k v

/-! specification for typed numeric data: the declared type and exact arithmetic -/
/-- an optional keyword of the specification -/
def optOK (f : Rat → Bool) : Option Rat → Bool
  | some m => f m
  | none => true

def specTypedValid (types : List String) (b : SBase) (v : Rat) : Bool :=
  (types.isEmpty || types.contains "number" || (types.contains "integer" && v.isInt))
  && optOK (fun m => !specMax v m b.exclMax) b.maximum
  && optOK (fun m => !specMin v m b.exclMin) b.minimum
  && optOK (fun m => specMul v m == .ok) b.multipleOf

end VM.Values
