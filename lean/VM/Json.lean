/-
  JSON values as the validators see them after `encoding/json` decoding:
  null, booleans, numbers (exact rationals: the float64 carrier is outside the model),
  strings, arrays, objects (association lists; the Go side always sends objects with
  distinct keys, sorted, and every traversal order the Go code may take over a map is a
  parameter or is proved irrelevant).
-/
namespace VM

inductive JVal where
  | null
  | bool (b : Bool)
  | num (n : Rat)
  | str (s : String)
  | arr (xs : List JVal)
  | obj (kvs : List (String × JVal))
  deriving Inhabited, Repr

namespace JVal

/-- draft-4 primitive type name; `integer` is decided separately (`isInteger`). -/
def typeName : JVal → String
  | null => "null" | bool _ => "boolean" | num _ => "number"
  | str _ => "string" | arr _ => "array" | obj _ => "object"

def isInteger : JVal → Bool
  | num n => n.isInt
  | _ => false

def isNull : JVal → Bool
  | null => true
  | _ => false

end JVal

/-- Association-list lookup (first binding). -/
def alookup {α : Type} (k : String) : List (String × α) → Option α
  | [] => none
  | (k', v) :: rest => if k = k' then some v else alookup k rest

def akeys {α : Type} (l : List (String × α)) : List String := l.map Prod.fst

def ahas {α : Type} (k : String) (l : List (String × α)) : Bool := (alookup k l).isSome

mutual
/-- JSON equality as draft 4 defines it: numbers by value, arrays position-wise,
    objects as key→value maps regardless of member order. For objects with distinct keys
    `a ⊆ b ∧ |a| = |b|`. (Structural in the first argument, so the kernel can evaluate it.) -/
def jeq : JVal → JVal → Bool
  | .null, .null => true
  | .bool a, .bool b => a == b
  | .num a, .num b => a == b
  | .str a, .str b => a == b
  | .arr a, .arr b => jeqList a b
  | .obj a, .obj b => jeqSub a b && a.length == b.length
  | _, _ => false
termination_by structural x => x
def jeqList : List JVal → List JVal → Bool
  | [], [] => true
  | x :: xs, y :: ys => jeq x y && jeqList xs ys
  | _, _ => false
termination_by structural l => l
/-- every member of `a` has a `jeq` partner under the same key in `b` -/
def jeqSub : List (String × JVal) → List (String × JVal) → Bool
  | [], _ => true
  | (k, v) :: rest, b => b.any (fun kv => k == kv.1 && jeq v kv.2) && jeqSub rest b
termination_by structural l => l
end

end VM
