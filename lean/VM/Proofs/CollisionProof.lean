/-
  C09 — the code's visited-path bookkeeping (exact membership and the suffix heuristic) changes nothing on a schema
  whose walked paths are pairwise distinct, not visited before, and free of suffix overlap.
-/
import VM.Proofs.LocationsProof
namespace VM.Sw
open VM

variable (J : Judges) (O : Oracles) (w : Which) (inn : String)

theorem pathsOf_mk (b : SBase) (itemsS : Option Schema) (itemsT : List Schema)
    (addItemsS : Option Schema) (props patProps : List (String × Schema)) (addPropsS : Option Schema)
    (deps : List (String × Schema)) (allOf anyOf oneOf : List Schema) (nt : Option Schema) (path : String) :
    pathsOf w (.mk b itemsS itemsT addItemsS props patProps addPropsS deps allOf anyOf oneOf nt) path =
    path ::
    ((match itemsS with | some s => pathsOf w s (path ++ ".items." ++ w.suffix) | none => [])
    ++ pathsOfL w itemsT path 0
    ++ (match addItemsS with | some s => pathsOf w s (path ++ ".additionalItems") | none => [])
    ++ pathsOfM w props path ++ pathsOfM w patProps path
    ++ (match addPropsS with | some s => pathsOf w s (path ++ ".additionalProperties") | none => [])
    ++ pathsOfA w allOf path 0) := by
  cases itemsS <;> cases addItemsS <;> cases addPropsS <;> rfl

/-- a step of the walk over walker states, as the code does it (`g`) and with the cut-off removed (`g'`), visiting `P` -/
structure Seg (g g' : WSt → WSt) (P : List String) : Prop where
  eq : ∀ st, P.Nodup → (∀ p ∈ P, p ∉ st.2) → g st = g' st
  vis : ∀ st q, q ∈ (g' st).2 ↔ q ∈ st.2 ∨ q ∈ P

theorem seg_id : Seg id id [] := ⟨fun _ _ _ => rfl, fun _ _ => by simp⟩

theorem seg_same (f : WSt → WSt) (h : ∀ st, (f st).2 = st.2) : Seg f f [] :=
  ⟨fun _ _ _ => rfl, fun st q => by simp [h st]⟩

theorem seg_comp {g1 g1' g2 g2' : WSt → WSt} {P1 P2 : List String} (h1 : Seg g1 g1' P1) (h2 : Seg g2 g2' P2) :
    Seg (fun st => g2 (g1 st)) (fun st => g2' (g1' st)) (P1 ++ P2) := by
  constructor
  · intro st hnd hdis
    have hnd' := List.nodup_append.mp hnd
    have e1 : g1 st = g1' st := h1.eq st hnd'.1 (fun p hp => hdis p (List.mem_append_left _ hp))
    rw [e1]
    apply h2.eq _ hnd'.2.1
    intro p hp hin
    rcases (h1.vis st p).mp hin with h | h
    · exact hdis p (List.mem_append_right _ hp) h
    · exact hnd'.2.2 p h p hp rfl
  · intro st q
    rw [h2.vis, h1.vis, List.mem_append, or_assoc]

/-- what the walk of one sub-schema has to satisfy to be a step -/
def WalkOK (c : DCfg) (s : Schema) (path : String) : Prop :=
  (∀ vis, (pathsOf w s path).Nodup → (∀ p ∈ pathsOf w s path, p ∉ vis) →
      walk c J w O inn s path vis = walk DCfg.repaired J w O inn s path vis)
  ∧ (∀ vis q, q ∈ (walk DCfg.repaired J w O inn s path vis).2 ↔ q ∈ vis ∨ q ∈ pathsOf w s path)

theorem seg_thenOpt (c : DCfg) (s : Schema) (path : String) (h : WalkOK J O w inn c s path) :
    Seg (fun st => thenOpt st (walk c J w O inn s path)) (fun st => thenOpt st (walk DCfg.repaired J w O inn s path))
      (pathsOf w s path) := by
  constructor
  · intro st hnd hdis
    simp only [thenOpt, h.1 st.2 hnd hdis]
  · intro st q
    simp only [thenOpt]
    exact h.2 st.2 q

theorem seg_opt (c : DCfg) (o : Option Schema) (path : String) : (∀ s, o = some s → WalkOK J O w inn c s path) →
    Seg (fun st => match o with | some s => thenOpt st (walk c J w O inn s path) | none => st)
        (fun st => match o with | some s => thenOpt st (walk DCfg.repaired J w O inn s path) | none => st)
        (match o with | some s => pathsOf w s path | none => []) := by
  intro h
  cases o with
  | none => exact seg_id
  | some s => exact seg_thenOpt J O w inn c s path (h s rfl)

variable (c : DCfg)

mutual
theorem walk_ok' (s : Schema) (path : String) (h : noOverlap w s path = true) : WalkOK J O w inn c s path := by
  match s with
  | .mk b itemsS itemsT addItemsS props patProps addPropsS deps allOf anyOf oneOf nt =>
    rw [noOverlap_mk] at h
    simp only [Bool.and_eq_true, Bool.not_eq_true'] at h
    obtain ⟨⟨⟨⟨⟨⟨⟨h0, h1⟩, h2⟩, h3⟩, h4⟩, h5⟩, h6⟩, h7⟩ := h
    -- the steps after the entry, composed
    have sI := seg_opt J O w inn c itemsS (path ++ ".items." ++ w.suffix)
      (fun s' hs' => by subst hs'; exact walk_ok' s' _ h1)
    have sL := walkL_seg itemsT path 0 h2
    have sPat : Seg (fun st : WSt => ((if patOK O b.pattern then st.1
                     else st.1.addErrors [some (mkMsg "invalidPatternIn" [path, inn, b.pattern])], st.2) : WSt)) _ [] :=
      seg_same _ (fun _ => rfl)
    have sAI := seg_opt J O w inn c addItemsS (path ++ ".additionalItems")
      (fun s' hs' => by subst hs'; exact walk_ok' s' _ h3)
    have sM1 := walkM_seg props path h4
    have sM2 := walkM_seg patProps path h5
    have sAP := seg_opt J O w inn c addPropsS (path ++ ".additionalProperties")
      (fun s' hs' => by subst hs'; exact walk_ok' s' _ h6)
    have sA := walkA_seg allOf path 0 h7
    have sAll := seg_comp (seg_comp (seg_comp (seg_comp (seg_comp (seg_comp (seg_comp sI sL) sPat) sAI) sM1) sM2) sAP) sA
    simp only [List.append_nil] at sAll
    constructor
    · intro vis hnd hdis
      rw [pathsOf_mk] at hnd hdis
      have hpath : path ∉ vis := hdis path List.mem_cons_self
      have hv : isVisited c path vis = false := by
        simp only [isVisited, h0, Bool.and_false, Bool.or_false, Bool.and_eq_false_imp]
        intro _; simpa using hpath
      have hnd' := List.nodup_cons.mp hnd
      simp only [walk, hv, isVisited_repaired, Bool.false_eq_true, ↓reduceIte]
      have := sAll.eq
        ((match w.value b with
          | some v => mergeJ w {} (J.schema (.mk b itemsS itemsT addItemsS props patProps addPropsS deps allOf anyOf oneOf nt)
                                    (path ++ "." ++ w.suffix) v)
          | none => {}), path :: vis) hnd'.2
        (by
          intro p hp hin
          rcases List.mem_cons.mp hin with rfl | hin
          · exact hnd'.1 hp
          · exact hdis p (List.mem_cons_of_mem _ hp) hin)
      exact congrArg (fun st : WSt => ((some st.1, st.2) : Option Res × List String)) this
    · intro vis q
      rw [pathsOf_mk]
      simp only [walk, isVisited_repaired, Bool.false_eq_true, ↓reduceIte]
      have := sAll.vis
        ((match w.value b with
          | some v => mergeJ w {} (J.schema (.mk b itemsS itemsT addItemsS props patProps addPropsS deps allOf anyOf oneOf nt)
                                    (path ++ "." ++ w.suffix) v)
          | none => {}), path :: vis) q
      refine Iff.trans this ?_
      simp only [List.mem_cons, or_assoc]
      constructor
      · rintro (h | h | h)
        · exact .inr (.inl h)
        · exact .inl h
        · exact .inr (.inr h)
      · rintro (h | h | h)
        · exact .inr (.inl h)
        · exact .inl h
        · exact .inr (.inr h)
theorem walkL_seg (l : List Schema) (path : String) (i : Nat) (h : noOverlapL w l path i = true) :
    Seg (walkL c J w O inn l path i) (walkL DCfg.repaired J w O inn l path i) (pathsOfL w l path i) := by
  match l with
  | [] => exact ⟨fun _ _ _ => by simp [walkL], fun _ _ => by simp [walkL, pathsOfL]⟩
  | s :: ss =>
    simp only [noOverlapL, Bool.and_eq_true] at h
    have := seg_comp (seg_thenOpt J O w inn c s _ (walk_ok' s _ h.1)) (walkL_seg ss path (i + 1) h.2)
    exact ⟨fun st => by simpa only [walkL, pathsOfL] using this.eq st, fun st q => by simpa only [walkL, pathsOfL] using this.vis st q⟩
theorem walkM_seg (l : List (String × Schema)) (path : String) (h : noOverlapM w l path = true) :
    Seg (walkM c J w O inn l path) (walkM DCfg.repaired J w O inn l path) (pathsOfM w l path) := by
  match l with
  | [] => exact ⟨fun _ _ _ => by simp [walkM], fun _ _ => by simp [walkM, pathsOfM]⟩
  | (name, s) :: ps =>
    simp only [noOverlapM, Bool.and_eq_true] at h
    have := seg_comp (seg_thenOpt J O w inn c s _ (walk_ok' s _ h.1)) (walkM_seg ps path h.2)
    exact ⟨fun st => by simpa only [walkM, pathsOfM] using this.eq st, fun st q => by simpa only [walkM, pathsOfM] using this.vis st q⟩
theorem walkA_seg (l : List Schema) (path : String) (i : Nat) (h : noOverlapA w l path i = true) :
    Seg (walkA c J w O inn l path i) (walkA DCfg.repaired J w O inn l path i) (pathsOfA w l path i) := by
  match l with
  | [] => exact ⟨fun _ _ _ => by simp [walkA], fun _ _ => by simp [walkA, pathsOfA]⟩
  | s :: ss =>
    simp only [noOverlapA, Bool.and_eq_true] at h
    have := seg_comp (seg_thenOpt J O w inn c s _ (walk_ok' s _ h.1)) (walkA_seg ss path (i + 1) h.2)
    exact ⟨fun st => by simpa only [walkA, pathsOfA] using this.eq st, fun st q => by simpa only [walkA, pathsOfA] using this.vis st q⟩
end

/-- the code's traversal is the repaired one wherever its bookkeeping is unambiguous -/
theorem walk_unambiguous (s : Schema) (path : String) (vis : List String) (h : Unambiguous w s path vis) :
    walk c J w O inn s path vis = walk DCfg.repaired J w O inn s path vis :=
  (walk_ok' J O w inn c s path h.1).1 vis h.2.1 h.2.2

end VM.Sw
