/-
  The composition validator of the model (schema_props.go) against allOf / anyOf / oneOf /
  not / dependencies of draft 4.
-/
import VM.Proofs.Object
namespace VM
open Impl Spec

theorem keepRelevant_off (cfg : Cfg) (h : cfg.leaksImportant = false) (r : Res) :
    keepRelevant cfg r = {} := by
  simp [keepRelevant, h]

theorem mergeOne_empty_empty : (({} : Res).mergeOne {}) = {} := by
  simp [Res.mergeOne, addMsgs]

def BestOK (best : Option Res) : Prop :=
  ∀ r, best = some r → r.ok = false ∧ r.panicked = false

theorem ok_merge_opt (main : Res) (o : Option Res) :
    (main.merge [o]).ok = (main.ok && okOpt o) := by simp

/-- schema_props.go:153-193 -/
theorem anyOfLoop_good {P : JVal → Prop} (cfg : Cfg)
    {fs : List V} {gs : List (JVal → Bool)} (h : ListAgree P fs gs) (path : String) (v : JVal)
    (hko : ∀ f ∈ fs, keepRelevant cfg (f path v) = {})
    (hv : P v) (best : Option Res) (hb : BestOK best) (main : Res) (a : Bool) (hm : good main a) :
    good (anyOfLoop cfg path v fs best main {}).1 (a && gs.any (· v))
    ∧ (anyOfLoop cfg path v fs best main {}).2 = {} := by
  induction h generalizing best main a with
  | nil =>
    simp only [anyOfLoop, List.any_nil, Bool.and_false, and_true]
    obtain ⟨h1, h2⟩ := hm
    constructor
    · cases best with
      | none => simp [h1]
      | some r => simp [h1, (hb r rfl).2]
    · simp
  | @cons f g fs gs hfg _ ih =>
    have hr := hfg path v hv
    have hko' : ∀ f' ∈ fs, keepRelevant cfg (f' path v) = {} := fun f' hf' => hko f' (List.mem_cons_of_mem _ hf')
    simp only [anyOfLoop, hko f List.mem_cons_self, mergeOne_empty_empty, List.any_cons]
    have hmain : good (absorb main (f path v)) a := ⟨by simp [hm.1, hr.1], by simpa using hm.2⟩
    by_cases hok : (f path v).errors.isEmpty = true
    · have hg : g v = true := by rw [← hr.2]; exact hok
      simp only [hok, ↓reduceIte, hg, Bool.true_or, Bool.and_true, and_true]
      exact good_congr (good_mergeOne hmain hr) (by simp [hg])
    · have hok' : (f path v).errors.isEmpty = false := by simpa using hok
      have hg : g v = false := by rw [← hr.2]; exact hok'
      simp only [hok', Bool.false_eq_true, ↓reduceIte, hg, Bool.false_or]
      split
      · exact ih hko' (some (f path v)) (fun r hr' => by cases hr'; exact ⟨hok', hr.1⟩) _ _ hmain
      · exact ih hko' best hb _ _ hmain

def FirstOK (first : Option Res) (n : Nat) : Prop :=
  (n = 0 → first = none) ∧ (0 < n → ∃ r, first = some r ∧ r.ok = true ∧ r.panicked = false)

/-- schema_props.go:195-252 -/
theorem oneOfLoop_good {P : JVal → Prop} (cfg : Cfg)
    {fs : List V} {gs : List (JVal → Bool)} (h : ListAgree P fs gs) (path : String) (v : JVal)
    (hko : ∀ f ∈ fs, keepRelevant cfg (f path v) = {})
    (hv : P v) (first best : Option Res) (n : Nat) (hf : FirstOK first n) (hb : BestOK best)
    (main : Res) (a : Bool) (hm : good main a) :
    good (oneOfLoop cfg path v fs first best n main {}).1 (a && (n + countTrue gs v == 1))
    ∧ (oneOfLoop cfg path v fs first best n main {}).2 = {} := by
  induction h generalizing first best n main a with
  | nil =>
    obtain ⟨h1, h2⟩ := hm
    simp only [oneOfLoop, countTrue, List.filter_nil, List.length_nil, Nat.add_zero]
    match n, hf with
    | 0, hf =>
      refine ⟨⟨?_, ?_⟩, rfl⟩
      · cases best with
        | none => simp [h1]
        | some r => simp [h1, (hb r rfl).2]
      · simp
    | 1, hf =>
      obtain ⟨r, hr, hok, hp⟩ := hf.2 (by omega)
      subst hr
      exact ⟨⟨by simp [h1, hp], by simp [h2, hok]⟩, rfl⟩
    | k + 2, hf =>
      refine ⟨⟨?_, ?_⟩, rfl⟩
      · cases best with
        | none => simp [h1]
        | some r => simp [h1, (hb r rfl).2]
      · simp
  | @cons f g fs gs hfg _ ih =>
    have hr := hfg path v hv
    have hko' : ∀ f' ∈ fs, keepRelevant cfg (f' path v) = {} := fun f' hf' => hko f' (List.mem_cons_of_mem _ hf')
    simp only [oneOfLoop, hko f List.mem_cons_self, mergeOne_empty_empty]
    have hmain : good (absorb main (f path v)) a := ⟨by simp [hm.1, hr.1], by simpa using hm.2⟩
    by_cases hok : (f path v).errors.isEmpty = true
    · have hg : g v = true := by rw [← hr.2]; exact hok
      have hcount : countTrue (g :: gs) v = countTrue gs v + 1 := by simp [countTrue, hg]
      simp only [hok, ↓reduceIte, hcount]
      have hf' : FirstOK (if first.isNone = true then some (f path v) else first) (n + 1) := by
        refine ⟨by omega, fun _ => ?_⟩
        cases hfi : first with
        | none => exact ⟨_, by simp, hok, hr.1⟩
        | some r0 =>
          have : 0 < n := by
            rcases Nat.eq_zero_or_pos n with h0 | h0
            · have := hf.1 h0; simp [hfi] at this
            · exact h0
          obtain ⟨r, hr', hok', hp'⟩ := hf.2 this
          exact ⟨r, by simpa [hfi] using hr', hok', hp'⟩
      have := ih hko' _ best (n + 1) hf' hb _ _ hmain
      refine ⟨good_congr this.1 ?_, this.2⟩
      congr 2; omega
    · have hok' : (f path v).errors.isEmpty = false := by simpa using hok
      have hg : g v = false := by rw [← hr.2]; exact hok'
      have hcount : countTrue (g :: gs) v = countTrue gs v := by simp [countTrue, hg]
      simp only [hok', Bool.false_eq_true, ↓reduceIte, hcount]
      split
      · exact ih hko' first (some (f path v)) n hf (fun r hr' => by cases hr'; exact ⟨hok', hr.1⟩) _ _ hmain
      · exact ih hko' first best n hf hb _ _ hmain

/-- schema_props.go:254-278 -/
theorem allOfLoop_good {P : JVal → Prop} (cfg : Cfg)
    {fs : List V} {gs : List (JVal → Bool)} (h : ListAgree P fs gs) (path : String) (v : JVal)
    (hko : ∀ f ∈ fs, keepRelevant cfg (f path v) = {})
    (hv : P v) (total n : Nat) (htot : 0 < total) (main : Res) (a : Bool) (hm : good main a)
    (hinv : a = true → n + fs.length = total) :
    good (allOfLoop cfg path v total fs n main {}).1 (a && gs.all (· v))
    ∧ (allOfLoop cfg path v total fs n main {}).2 = {} := by
  induction h generalizing n main a with
  | nil =>
    simp only [allOfLoop, List.all_nil, Bool.and_true]
    cases ha : a with
    | false =>
      subst ha
      split
      · exact ⟨good_congr (good_addErrors hm _) (by simp), rfl⟩
      · split
        · exact ⟨hm, rfl⟩
        · exact ⟨good_congr (good_addErrors hm _) (by simp), rfl⟩
    | true =>
      subst ha
      have := hinv rfl
      simp only [List.length_nil, Nat.add_zero] at this
      have h0 : (n == 0) = false := by simp; omega
      have h1 : (n == total) = true := by simp [this]
      simp only [h0, Bool.false_eq_true, ↓reduceIte, h1]
      exact ⟨hm, trivial⟩
  | @cons f g fs gs hfg _ ih =>
    have hr := hfg path v hv
    have hko' : ∀ f' ∈ fs, keepRelevant cfg (f' path v) = {} := fun f' hf' => hko f' (List.mem_cons_of_mem _ hf')
    simp only [allOfLoop, hko f List.mem_cons_self, mergeOne_empty_empty, List.all_cons]
    have hmain := good_mergeOne hm hr
    have := ih hko' (if (f path v).errors.isEmpty = true then n + 1 else n) _ _ hmain (by
      intro hag
      simp only [Bool.and_eq_true] at hag
      have hn := hinv hag.1
      have hok : (f path v).errors.isEmpty = true := by
        have := hr.2; unfold Res.ok at this; rw [this]; exact hag.2
      simp only [hok, ↓reduceIte, List.length_cons] at hn ⊢
      omega)
    exact ⟨good_congr this.1 (by simp [Bool.and_assoc]), this.2⟩

/-! ### dependencies -/

/-- what the loop over the instance's members checks for one member name -/
def depKeyOK (b : SBase) (sk : SKids) (kvs : List (String × JVal)) (v : JVal) (key : String) : Bool :=
  match alookup key sk.depSchemas with
  | some g => g v
  | none =>
    match alookup key b.depProps with
    | some ds => ds.all (fun d => ahas d kvs)
    | none => true

theorem depProps_filter (path : String) (kvs : List (String × JVal)) (ds : List String) :
    (List.filterMap id (ds.map fun d => if ahas d kvs then none else some (eDependency path d))).isEmpty
      = ds.all (fun d => ahas d kvs) := by
  induction ds with
  | nil => rfl
  | cons d ds ih =>
    simp only [List.map_cons, List.all_cons]
    cases h : ahas d kvs
    · simp
    · simpa using ih

theorem depsLoop_good {P : JVal → Prop} (b : SBase) (ik : IKids) (sk : SKids)
    (h : MapAgree P ik.depSchemas sk.depSchemas) (path : String) (v : JVal) (hv : P v)
    (kvs rest : List (String × JVal)) (main : Res) (a : Bool) (hm : good main a) :
    good (depsLoop b ik path v kvs rest main) (a && rest.all (fun kv => depKeyOK b sk kvs v kv.1)) := by
  induction rest generalizing main a with
  | nil => simpa [depsLoop] using hm
  | cons kv rest ih =>
    obtain ⟨key, x⟩ := kv
    simp only [depKeyOK] at ih
    simp only [depsLoop, List.all_cons, depKeyOK]
    rcases alookup_agree h key with ⟨h1, h2⟩ | ⟨f, g, h1, h2, hfg, _⟩
    · simp only [h1, h2]
      cases hd : alookup key b.depProps with
      | none =>
        simp only []
        exact good_congr (ih _ _ hm) (by simp)
      | some ds =>
        simp only []
        have := ih _ _ (good_addErrors hm (ds.map fun d => if ahas d kvs then none else some (eDependency path d)))
        refine good_congr this ?_
        rw [depProps_filter, Bool.and_assoc]
    · simp only [h1, h2]
      exact good_congr (ih _ _ (good_mergeOne hm (hfg (dot path key) v hv))) (by simp [Bool.and_assoc])

theorem ahas_iff_mem (key : String) (kvs : List (String × JVal)) :
    ahas key kvs = true ↔ ∃ kv ∈ kvs, kv.1 = key := by
  induction kvs with
  | nil => simp [ahas, alookup]
  | cons kv rest ih =>
    obtain ⟨k', x⟩ := kv
    unfold ahas at ih ⊢
    simp only [alookup]
    by_cases hk : key = k'
    · subst hk; simp
    · simp only [hk, ↓reduceIte, ih, List.mem_cons]
      constructor
      · rintro ⟨kv, hkv, e⟩; exact ⟨kv, .inr hkv, e⟩
      · rintro ⟨kv, (rfl | hkv), e⟩
        · exact absurd e.symm hk
        · exact ⟨kv, hkv, e⟩

theorem alookup_of_mem_nodup {α : Type} (l : List (String × α)) (h : (akeys l).Nodup)
    (k : String) (x : α) (hm : (k, x) ∈ l) : alookup k l = some x := by
  induction l with
  | nil => cases hm
  | cons a rest ih =>
    obtain ⟨k', x'⟩ := a
    simp only [akeys, List.map_cons, List.nodup_cons, List.mem_map] at h
    simp only [alookup]
    rcases List.mem_cons.mp hm with e | hm'
    · cases e; simp
    · have hne : k ≠ k' := by
        intro e; subst e
        exact h.1 ⟨(k, x), hm', rfl⟩
      simp only [hne, ↓reduceIte]
      exact ih h.2 hm'

theorem mem_of_alookup {α : Type} (l : List (String × α)) (k : String) (x : α)
    (h : alookup k l = some x) : (k, x) ∈ l := by
  induction l with
  | nil => simp [alookup] at h
  | cons a rest ih =>
    obtain ⟨k', x'⟩ := a
    simp only [alookup] at h
    split at h
    · rename_i e; cases h; subst e; exact List.mem_cons_self ..
    · exact List.mem_cons_of_mem _ (ih h)

theorem alookup_none_iff {α : Type} (l : List (String × α)) (k : String) :
    alookup k l = none ↔ k ∉ akeys l := by
  induction l with
  | nil => simp [alookup, akeys]
  | cons a rest ih =>
    obtain ⟨k', x'⟩ := a
    simp only [alookup, akeys, List.map_cons, List.mem_cons]
    by_cases hk : k = k'
    · subst hk; simp
    · simp only [hk, ↓reduceIte, false_or]; exact ih

/-- iterating over the instance's members and looking each name up among the dependencies is
    the same as iterating over the dependencies and asking whether their key is present —
    provided a name has one dependency at most -/
theorem deps_equiv (b : SBase) (sk : SKids) (kvs : List (String × JVal)) (v : JVal)
    (hnd : (akeys sk.depSchemas ++ akeys b.depProps).Nodup) :
    kvs.all (fun kv => depKeyOK b sk kvs v kv.1) =
      (b.depProps.all (fun nd => !ahas nd.1 kvs || nd.2.all (fun d => ahas d kvs))
       && sk.depSchemas.all (fun nf => !ahas nf.1 kvs || nf.2 v)) := by
  have hnd1 : (akeys sk.depSchemas).Nodup := (List.nodup_append.mp hnd).1
  have hnd2 : (akeys b.depProps).Nodup := (List.nodup_append.mp hnd).2.1
  have hdisj : ∀ k, k ∈ akeys sk.depSchemas → k ∉ akeys b.depProps := by
    intro k h1 h2
    exact (List.nodup_append.mp hnd).2.2 k h1 k h2 rfl
  rw [Bool.eq_iff_iff]
  simp only [List.all_eq_true, Bool.and_eq_true, Bool.or_eq_true, Bool.not_eq_eq_eq_not, Bool.not_true]
  constructor
  · intro h
    constructor
    · rintro ⟨n, ds⟩ hmem
      by_cases hp : ahas n kvs = true
      · right
        obtain ⟨kv, hkv, e⟩ := (ahas_iff_mem n kvs).mp hp
        have := h kv hkv
        rw [e] at this
        unfold depKeyOK at this
        have hnone : alookup n sk.depSchemas = none := by
          rw [alookup_none_iff]
          intro hin
          exact hdisj n hin (List.mem_map.mpr ⟨(n, ds), hmem, rfl⟩)
        rw [hnone, alookup_of_mem_nodup _ hnd2 n ds hmem] at this
        simpa [List.all_eq_true] using this
      · left; simpa using hp
    · rintro ⟨n, g⟩ hmem
      by_cases hp : ahas n kvs = true
      · right
        obtain ⟨kv, hkv, e⟩ := (ahas_iff_mem n kvs).mp hp
        have := h kv hkv
        rw [e] at this
        unfold depKeyOK at this
        rw [alookup_of_mem_nodup _ hnd1 n g hmem] at this
        exact this
      · left; simpa using hp
  · rintro ⟨hP, hS⟩ kv hkv
    have hpres : ahas kv.1 kvs = true := (ahas_iff_mem kv.1 kvs).mpr ⟨kv, hkv, rfl⟩
    unfold depKeyOK
    cases h1 : alookup kv.1 sk.depSchemas with
    | some g =>
      simp only []
      rcases hS (kv.1, g) (mem_of_alookup _ _ _ h1) with h | h
      · simp [hpres] at h
      · exact h
    | none =>
      simp only []
      cases h2 : alookup kv.1 b.depProps with
      | none => rfl
      | some ds =>
        simp only []
        rcases hP (kv.1, ds) (mem_of_alookup _ _ _ h2) with h | h
        · simp [hpres] at h
        · simpa [List.all_eq_true] using h

theorem depsPart_good {P : JVal → Prop} (b : SBase) (ik : IKids) (sk : SKids)
    (h : MapAgree P ik.depSchemas sk.depSchemas) (path : String) (v : JVal) (hv : P v)
    (hnd : (akeys sk.depSchemas ++ akeys b.depProps).Nodup)
    (main : Res) (a : Bool) (hm : good main a) :
    good (depsPart b ik path v main) (a && depsOK b sk v) := by
  unfold depsPart depsOK
  cases v with
  | obj kvs =>
    simp only []
    split
    · rename_i he
      simp only [Bool.and_eq_true, List.isEmpty_iff] at he
      have hs : sk.depSchemas = [] := by
        have := All2.length_eq h
        rw [he.2] at this
        exact List.eq_nil_of_length_eq_zero this.symm
      simpa [he.1, hs] using hm
    · have := depsLoop_good b ik sk h path (.obj kvs) hv kvs kvs main a hm
      exact good_congr this (by rw [deps_equiv b sk kvs (.obj kvs) hnd])
  | null | bool _ | num _ | str _ | arr _ => simpa using hm

theorem notPart_good {P : JVal → Prop} (ik : IKids) (sk : SKids) (h : OptAgree P ik.not sk.not)
    (path : String) (v : JVal) (hv : P v) (main : Res) (a : Bool) (hm : good main a) :
    good (notPart ik path v main) (a && notOK sk.not v) := by
  unfold notPart notOK
  cases hi : ik.not <;> cases hs : sk.not <;> simp only [hi, hs, OptAgree] at h ⊢
  · simpa using hm
  · rename_i f g
    have hr := h path v hv
    have hmain : good (absorb main (f path v)) a := ⟨by simp [hm.1, hr.1], by simpa using hm.2⟩
    have hg : g v = (f path v).errors.isEmpty := hr.2.symm
    rw [hg]
    cases hok : (f path v).errors.isEmpty
    · simpa using hmain
    · simpa using good_addErrors hmain [some (eNot path)]

theorem final_merge (m : Res) (k3 k2 k1 : Option Res) (a : Bool) (hm : good m a)
    (h3o : okOpt k3 = true) (h3p : panickedOpt k3 = false)
    (h2o : okOpt k2 = true) (h2p : panickedOpt k2 = false)
    (h1o : okOpt k1 = true) (h1p : panickedOpt k1 = false) :
    good (m.inc.merge [k3, k2, k1]) a := by
  obtain ⟨hp, ho⟩ := hm
  exact ⟨by simp [hp, h1p, h2p, h3p], by simp [ho, h1o, h2o, h3o]⟩

theorem anyOfPart_good {P : JVal → Prop} (cfg : Cfg)
    (ik : IKids) (sk : SKids) (hk : ListAgree P ik.anyOf sk.anyOf) (path : String) (v : JVal)
    (hko : ∀ f ∈ ik.anyOf, keepRelevant cfg (f path v) = {}) (hv : P v)
    (main : Res) (a : Bool) (hm : good main a) :
    good (anyOfPart cfg ik path v main).1 (a && (sk.anyOf.isEmpty || sk.anyOf.any (· v)))
    ∧ okOpt (anyOfPart cfg ik path v main).2 = true ∧ panickedOpt (anyOfPart cfg ik path v main).2 = false := by
  unfold anyOfPart
  have hlen := All2.length_eq hk
  cases hi : ik.anyOf with
  | nil =>
    have : sk.anyOf = [] := List.eq_nil_of_length_eq_zero (by rw [← hlen, hi]; rfl)
    simpa [this] using hm
  | cons f fs =>
    have hne : sk.anyOf.isEmpty = false := by
      cases hs : sk.anyOf with
      | nil => rw [hi, hs] at hlen; simp at hlen
      | cons _ _ => rfl
    have := anyOfLoop_good cfg (hi ▸ hk) path v (hi ▸ hko) hv none (fun _ h => by cases h) _ _ hm
    simp only [List.isEmpty_cons, Bool.false_eq_true, ↓reduceIte, hne, Bool.false_or]
    exact ⟨this.1, by rw [this.2]; rfl, by rw [this.2]; rfl⟩

theorem oneOfPart_good {P : JVal → Prop} (cfg : Cfg)
    (ik : IKids) (sk : SKids) (hk : ListAgree P ik.oneOf sk.oneOf) (path : String) (v : JVal)
    (hko : ∀ f ∈ ik.oneOf, keepRelevant cfg (f path v) = {}) (hv : P v)
    (main : Res) (a : Bool) (hm : good main a) :
    good (oneOfPart cfg ik path v main).1 (a && (sk.oneOf.isEmpty || countTrue sk.oneOf v == 1))
    ∧ okOpt (oneOfPart cfg ik path v main).2 = true ∧ panickedOpt (oneOfPart cfg ik path v main).2 = false := by
  unfold oneOfPart
  have hlen := All2.length_eq hk
  cases hi : ik.oneOf with
  | nil =>
    have : sk.oneOf = [] := List.eq_nil_of_length_eq_zero (by rw [← hlen, hi]; rfl)
    simpa [this] using hm
  | cons f fs =>
    have hne : sk.oneOf.isEmpty = false := by
      cases hs : sk.oneOf with
      | nil => rw [hi, hs] at hlen; simp at hlen
      | cons _ _ => rfl
    have := oneOfLoop_good cfg (hi ▸ hk) path v (hi ▸ hko) hv none none 0
      ⟨fun _ => rfl, fun h => by omega⟩ (fun _ h => by cases h) _ _ hm
    simp only [List.isEmpty_cons, Bool.false_eq_true, ↓reduceIte, hne, Bool.false_or]
    exact ⟨good_congr this.1 (by simp), by rw [this.2]; rfl, by rw [this.2]; rfl⟩

theorem allOfPart_good {P : JVal → Prop} (cfg : Cfg)
    (ik : IKids) (sk : SKids) (hk : ListAgree P ik.allOf sk.allOf) (path : String) (v : JVal)
    (hko : ∀ f ∈ ik.allOf, keepRelevant cfg (f path v) = {}) (hv : P v)
    (main : Res) (a : Bool) (hm : good main a) :
    good (allOfPart cfg ik path v main).1 (a && sk.allOf.all (· v))
    ∧ okOpt (allOfPart cfg ik path v main).2 = true ∧ panickedOpt (allOfPart cfg ik path v main).2 = false := by
  unfold allOfPart
  have hlen := All2.length_eq hk
  cases hi : ik.allOf with
  | nil =>
    have : sk.allOf = [] := List.eq_nil_of_length_eq_zero (by rw [← hlen, hi]; rfl)
    simpa [this] using hm
  | cons f fs =>
    have := allOfLoop_good cfg (hi ▸ hk) path v (hi ▸ hko) hv (f :: fs).length 0 (by simp) _ _ hm
      (by intro _; simp)
    simp only [List.isEmpty_cons, Bool.false_eq_true, ↓reduceIte]
    exact ⟨this.1, by rw [this.2]; rfl, by rw [this.2]; rfl⟩

/-- schema_props.go:101-151 vs. allOf/anyOf/oneOf/not/dependencies of draft 4 -/
theorem schemaProps_verdict {P : JVal → Prop} (cfg : Cfg)
    (b : SBase) (ik : IKids) (sk : SKids) (hk : KidsAgree P ik sk) (path : String) (v : JVal)
    (hko : ∀ f, (f ∈ ik.anyOf ∨ f ∈ ik.oneOf ∨ f ∈ ik.allOf) → keepRelevant cfg (f path v) = {})
    (hv : P v) (hnd : (akeys sk.depSchemas ++ akeys b.depProps).Nodup) :
    good (schemaPropsValidate cfg b ik path v) (compOK sk v && depsOK b sk v) := by
  unfold schemaPropsValidate
  obtain ⟨h1, h1o, h1p⟩ := anyOfPart_good cfg ik sk hk.anyOf path v (fun f hf => hko f (.inl hf)) hv _ _ good_default
  obtain ⟨h2, h2o, h2p⟩ := oneOfPart_good cfg ik sk hk.oneOf path v (fun f hf => hko f (.inr (.inl hf))) hv _ _ h1
  obtain ⟨h3, h3o, h3p⟩ := allOfPart_good cfg ik sk hk.allOf path v (fun f hf => hko f (.inr (.inr hf))) hv _ _ h2
  have h4 := notPart_good ik sk hk.not path v hv _ _ h3
  have h5 := depsPart_good b ik sk hk.depSchemas path v hv hnd _ _ h4
  refine good_congr (final_merge _ _ _ _ _ h5 h3o h3p h2o h2p h1o h1p) ?_
  unfold compOK
  generalize sk.allOf.all (· v) = c1
  generalize (sk.anyOf.isEmpty || sk.anyOf.any (· v)) = c2
  generalize (sk.oneOf.isEmpty || countTrue sk.oneOf v == 1) = c3
  generalize notOK sk.not v = c4
  generalize depsOK b sk v = c5
  cases c1 <;> cases c2 <;> cases c3 <;> cases c4 <;> cases c5 <;> rfl

end VM
