import VM.Impl.Concurrent
import VM.Proofs.PoolProof
namespace VM.Conc
open VM.Pool

variable {H : Type} [DecidableEq H] {R : Type}

theorem pair_eta {h : Nat × H} {t : Nat} (h1 : h.1 = t) : h = (t, h.2) := by
  cases h; cases h1; rfl

theorem tag_tagged (t : Nat) : ∀ p : Prog H R, Tagged t (tag t p)
  | .ret _ => trivial
  | .borrow _ k => ⟨rfl, tag_tagged t k⟩
  | .write _ _ _ k => ⟨rfl, tag_tagged t k⟩
  | .read _ _ k => ⟨rfl, fun v => tag_tagged t (k v)⟩
  | .redeem _ k => ⟨rfl, tag_tagged t k⟩

/-- the fresh semantics of a thread only looks at that thread's objects -/
theorem fresh_frame (t : Nat) : ∀ (p : Prog (Nat × H) R) (τ τ' : Nat × H → Obj),
    Tagged t p → (∀ h, τ (t, h) = τ' (t, h)) → runFresh p τ = runFresh p τ'
  | .ret _, _, _, _, _ => rfl
  | .borrow h k, τ, τ', ht, he => by
    simp only [runFresh]
    apply fresh_frame t k _ _ ht.2
    intro h'
    by_cases e : (t, h') = h
    · subst e; simp
    · simp [upd, e, he h']
  | .write h f v k, τ, τ', ht, he => by
    simp only [runFresh]
    apply fresh_frame t k _ _ ht.2
    intro h'
    by_cases e : (t, h') = h
    · subst e; simp [he h']
    · simp [upd, e, he h']
  | .read h f k, τ, τ', ht, he => by
    simp only [runFresh]
    have : h = (t, h.2) := pair_eta ht.1
    have hv : τ h f = τ' h f := by rw [this, he h.2]
    rw [hv]
    exact fresh_frame t (k (τ' h f)) _ _ (ht.2 _) he
  | .redeem h k, τ, τ', ht, he => by
    simp only [runFresh]
    exact fresh_frame t k _ _ ht.2 he

/-- the discipline of a thread only depends on the liveness of that thread's objects -/
theorem disc_frame (t : Nat) : ∀ (p : Prog (Nat × H) R) (L L' : Live (Nat × H)),
    Tagged t p → (∀ h, L (t, h) = L' (t, h)) → Disciplined p L → Disciplined p L'
  | .ret _, _, _, _, _, _ => trivial
  | .borrow h k, L, L', ht, he, hd => by
    have hh : h = (t, h.2) := pair_eta ht.1
    refine ⟨by rw [hh, ← he]; rw [← hh]; exact hd.1, ?_⟩
    apply disc_frame t k _ _ ht.2 _ hd.2
    intro h'
    by_cases e : (t, h') = h
    · subst e; simp
    · simp [upd, e, he h']
  | .write h f v k, L, L', ht, he, hd => by
    have hh : h = (t, h.2) := pair_eta ht.1
    obtain ⟨w, hw, hk⟩ := hd
    refine ⟨w, by rw [hh, ← he]; rw [← hh]; exact hw, ?_⟩
    apply disc_frame t k _ _ ht.2 _ hk
    intro h'
    by_cases e : (t, h') = h
    · subst e; simp
    · simp [upd, e, he h']
  | .read h f k, L, L', ht, he, hd => by
    have hh : h = (t, h.2) := pair_eta ht.1
    obtain ⟨w, hw, hf, hk⟩ := hd
    exact ⟨w, by rw [hh, ← he]; rw [← hh]; exact hw, hf, fun v => disc_frame t (k v) _ _ (ht.2 v) he (hk v)⟩
  | .redeem h k, L, L', ht, he, hd => by
    have hh : h = (t, h.2) := pair_eta ht.1
    obtain ⟨⟨w, hw⟩, hk⟩ := hd
    refine ⟨⟨w, by rw [hh, ← he]; rw [← hh]; exact hw⟩, ?_⟩
    apply disc_frame t k _ _ ht.2 _ hk
    intro h'
    by_cases e : (t, h') = h
    · subst e; simp
    · simp [upd, e, he h']

/-- all threads are tagged with their index and disciplined w.r.t. the shared liveness map -/
def AllDisc (ps : List (Prog (Nat × H) R)) (L : Live (Nat × H)) : Prop :=
  ∀ t p, ps[t]? = some p → Tagged t p ∧ Disciplined p L

theorem allDisc_step {ps : List (Prog (Nat × H) R)} {L L' : Live (Nat × H)} {t : Nat}
    {k : Prog (Nat × H) R} (h : AllDisc ps L) (hk : Tagged t k ∧ Disciplined k L')
    (hL : ∀ t' h', t' ≠ t → L (t', h') = L' (t', h')) : AllDisc (ps.set t k) L' := by
  intro t' p hp
  by_cases e : t' = t
  · subst e
    rw [List.getElem?_set] at hp
    split at hp
    · split at hp
      · cases hp; exact hk
      · cases hp
    · rename_i hne; exact absurd rfl hne
  · rw [List.getElem?_set_ne (Ne.symm e)] at hp
    obtain ⟨h1, h2⟩ := h t' p hp
    exact ⟨h1, disc_frame t' p L L' h1 (fun h' => hL t' h' e) h2⟩

/-- the interleaving of disciplined threads is a disciplined program -/
theorem weave_disciplined : ∀ (sched : List Nat) (ps : List (Prog (Nat × H) R)) (L : Live (Nat × H)),
    AllDisc ps L → Disciplined (weave sched ps) L
  | [], _, _, _ => trivial
  | t :: rest, ps, L, h => by
    unfold weave
    split
    · exact weave_disciplined rest ps L h
    · exact weave_disciplined rest ps L h
    · rename_i hh k hp
      obtain ⟨ht, hd⟩ := h t _ hp
      refine ⟨hd.1, weave_disciplined rest _ _ (allDisc_step h ⟨ht.2, hd.2⟩ ?_)⟩
      intro t' h' e
      have : (t', h') ≠ hh := by intro e'; subst e'; exact e ht.1
      simp [upd, this]
    · rename_i hh f v k hp
      obtain ⟨ht, w, hw, hk⟩ := h t _ hp
      refine ⟨w, hw, weave_disciplined rest _ _ (allDisc_step h ⟨ht.2, hk⟩ ?_)⟩
      intro t' h' e
      have : (t', h') ≠ hh := by intro e'; subst e'; exact e ht.1
      simp [upd, this]
    · rename_i hh f k hp
      obtain ⟨ht, w, hw, hf, hk⟩ := h t _ hp
      refine ⟨w, hw, hf, fun v => weave_disciplined rest _ _ (allDisc_step h ⟨ht.2 v, hk v⟩ (fun _ _ _ => rfl))⟩
    · rename_i hh k hp
      obtain ⟨ht, hw, hk⟩ := h t _ hp
      refine ⟨hw, weave_disciplined rest _ _ (allDisc_step h ⟨ht.2, hk⟩ ?_)⟩
      intro t' h' e
      have : (t', h') ≠ hh := by intro e'; subst e'; exact e ht.1
      simp [upd, this]

theorem finished_fresh (p : Prog (Nat × H) R) (r : R) (τ : Nat × H → Obj) (h : finished p = some r) :
    runFresh p τ = r := by
  cases p <;> simp [finished] at h
  subst h; rfl

/-- under the fresh semantics, a thread the interleaving reports as finished returned what it
    returns when run alone -/
theorem weave_fresh_sound : ∀ (sched : List Nat) (ps : List (Prog (Nat × H) R)) (τ : Nat × H → Obj),
    (∀ t p, ps[t]? = some p → Tagged t p) →
    ∀ (t : Nat) (r : R), (runFresh (weave sched ps) τ)[t]? = some (some r) →
      ∃ p, ps[t]? = some p ∧ runFresh p τ = r
  | [], ps, τ, _, t, r, hr => by
    simp only [weave, runFresh, List.getElem?_map] at hr
    cases hp : ps[t]? with
    | none => simp [hp] at hr
    | some p =>
      simp only [hp, Option.map_some, Option.some.injEq] at hr
      exact ⟨p, rfl, finished_fresh p r τ hr⟩
  | s :: rest, ps, τ, htag, t, r, hr => by
    unfold weave at hr
    have step : ∀ (k : Prog (Nat × H) R) (τ' : Nat × H → Obj) (instr : Prog (Nat × H) R),
        ps[s]? = some instr → Tagged s k →
        (∀ t' h', t' ≠ s → τ (t', h') = τ' (t', h')) →
        runFresh instr τ = runFresh k τ' →
        (runFresh (weave rest (ps.set s k)) τ')[t]? = some (some r) →
        ∃ p, ps[t]? = some p ∧ runFresh p τ = r := by
      intro k τ' instr hi hk hfr hrun hres
      have htag' : ∀ t' p, (ps.set s k)[t']? = some p → Tagged t' p := by
        intro t' p hp
        by_cases e : t' = s
        · subst e
          rw [List.getElem?_set] at hp
          split at hp
          · split at hp
            · cases hp; exact hk
            · cases hp
          · rename_i hne; exact absurd rfl hne
        · rw [List.getElem?_set_ne (Ne.symm e)] at hp; exact htag t' p hp
      obtain ⟨p, hp, hpr⟩ := weave_fresh_sound rest _ τ' htag' t r hres
      by_cases e : t = s
      · subst e
        rw [List.getElem?_set] at hp
        split at hp
        · split at hp
          · cases hp; exact ⟨instr, hi, by rw [hrun]; exact hpr⟩
          · cases hp
        · rename_i hne; exact absurd rfl hne
      · rw [List.getElem?_set_ne (Ne.symm e)] at hp
        refine ⟨p, hp, ?_⟩
        rw [← hpr]
        exact fresh_frame t p τ τ' (htag t p hp) (fun h' => hfr t h' e)
    split at hr
    · exact weave_fresh_sound rest ps τ htag t r hr
    · exact weave_fresh_sound rest ps τ htag t r hr
    · rename_i hh k hp
      have ht := htag s _ hp
      simp only [runFresh] at hr
      refine step k _ _ hp ht.2 ?_ rfl hr
      intro t' h' e
      have : (t', h') ≠ hh := by intro e'; subst e'; exact e ht.1
      simp [upd, this]
    · rename_i hh f v k hp
      have ht := htag s _ hp
      simp only [runFresh] at hr
      refine step k _ _ hp ht.2 ?_ rfl hr
      intro t' h' e
      have : (t', h') ≠ hh := by intro e'; subst e'; exact e ht.1
      simp [upd, this]
    · rename_i hh f k hp
      have ht := htag s _ hp
      simp only [runFresh] at hr
      exact step (k (τ hh f)) τ _ hp (ht.2 _) (fun _ _ _ => rfl) rfl hr
    · rename_i hh k hp
      have ht := htag s _ hp
      simp only [runFresh] at hr
      exact step k τ _ hp ht.2 (fun _ _ _ => rfl) rfl hr

/-- **Interleaving independence.** Any number of disciplined threads over one shared pool, any
    schedule, any choice the pool makes: a thread that has finished returned exactly what it
    returns when run alone on fresh objects. -/
theorem interleaving_independent (sched : List Nat) (ps : List (Prog (Nat × H) R))
    (chooser : List (Option Nat)) (L : Live (Nat × H)) (σ : PState (Nat × H)) (τ : Nat × H → Obj)
    (hd : AllDisc ps L) (hs : Sim L σ τ) (t : Nat) (r : R)
    (hr : (runPool (weave sched ps) chooser σ)[t]? = some (some r)) :
    ∃ p, ps[t]? = some p ∧ runFresh p τ = r := by
  rw [recycling_invisible (weave sched ps) chooser L σ τ (weave_disciplined sched ps L hd) hs] at hr
  exact weave_fresh_sound sched ps τ (fun t p hp => (hd t p hp).1) t r hr

end VM.Conc
