import VM.Impl.Defaults
namespace VM.Sw
open VM

/-- the Go computation this result stands for did not panic -/
def Ok (r : Res) : Prop := r.panicked = false

/-- the judges return normally: the schema judge on the schemas satisfying `Psch` (e.g. "every reference resolves") -/
structure JOkOn (Psch : Schema → Prop) (J : Judges) : Prop where
  schema : ∀ s p v, Psch s → Ok (J.schema s p v)
  param : ∀ p v, Ok (J.param p v)
  header : ∀ h v, Ok (J.header h v)
  items : ∀ a b c d v, Ok (J.items a b c d v)

/-- judges that return normally on every schema -/
abbrev JOk (J : Judges) : Prop := JOkOn (fun _ => True) J

/-- `Psch` passes from a schema to the children the walk descends into -/
def KidsClosed (Psch : Schema → Prop) : Prop :=
  ∀ b itemsS itemsT addItemsS props patProps addPropsS deps allOf anyOf oneOf nt,
    Psch (.mk b itemsS itemsT addItemsS props patProps addPropsS deps allOf anyOf oneOf nt) →
      (∀ s, itemsS = some s → Psch s) ∧ (∀ s ∈ itemsT, Psch s) ∧ (∀ s, addItemsS = some s → Psch s)
      ∧ (∀ p ∈ props, Psch p.2) ∧ (∀ p ∈ patProps, Psch p.2) ∧ (∀ s, addPropsS = some s → Psch s) ∧ (∀ s ∈ allOf, Psch s)

theorem kidsClosed_true : KidsClosed (fun _ => True) := by
  intro _ _ _ _ _ _ _ _ _ _ _ _ _
  exact ⟨fun _ _ => trivial, fun _ _ => trivial, fun _ _ => trivial, fun _ _ => trivial, fun _ _ => trivial,
    fun _ _ => trivial, fun _ _ => trivial⟩

/-- the schemas the stages start their walks from -/
def ViewP (Psch : Schema → Prop) (v : View) : Prop :=
  (∀ o ∈ v.ops, (∀ p ∈ o.params, ∀ s, p.schema = some s → Psch s)
    ∧ (∀ rs, o.responses = some rs → ∀ r ∈ rs, ∀ s, r.schema = some s → Psch s))
  ∧ (∀ d ∈ v.defs, Psch d.2)

theorem ok_empty : Ok ({} : Res) := rfl
theorem mergeOne_ok {r o : Res} (h1 : Ok r) (h2 : Ok o) : Ok (r.mergeOne o) := by
  simp only [Ok, Res.mergeOne] at *; simp [h1, h2]
theorem mergeAsWarningsOne_ok {r o : Res} (h1 : Ok r) (h2 : Ok o) : Ok (r.mergeAsWarningsOne o) := by
  simp only [Ok, Res.mergeAsWarningsOne] at *; simp [h1, h2]
theorem addErrors_ok {r : Res} (h : Ok r) (es : List (Option Msg)) : Ok (r.addErrors es) := h
theorem addWarnings_ok {r : Res} (h : Ok r) (es : List (Option Msg)) : Ok (r.addWarnings es) := h
theorem mergeJ_ok (w : Which) {r o : Res} (h1 : Ok r) (h2 : Ok o) : Ok (mergeJ w r o) := by
  cases w
  · exact mergeOne_ok h1 h2
  · exact mergeAsWarningsOne_ok h1 h2
theorem mergeOpt_ok {r : Res} (o : Option Res) (h1 : Ok r) (h2 : ∀ x, o = some x → Ok x) : Ok (mergeOpt r o) := by
  cases o with
  | none => exact h1
  | some x => exact mergeOne_ok h1 (h2 x rfl)
theorem thenOpt_ok (st : WSt) (f : List String → Option Res × List String) (h1 : Ok st.1)
    (h2 : ∀ r, (f st.2).1 = some r → Ok r) : Ok (thenOpt st f).1 :=
  mergeOpt_ok _ h1 h2
theorem report_ok (w : Which) {res red : Res} (tag : Msg) (b : Bool) (h1 : Ok res) (h2 : Ok red) : Ok (report w res tag red b) := by
  cases w
  · exact mergeOne_ok (addErrors_ok h1 _) h2
  · simp only [report]
    split
    · exact mergeAsWarningsOne_ok (addWarnings_ok h1 _) h2
    · exact mergeOne_ok (addWarnings_ok h1 _) h2

variable (c : DCfg) (J : Judges) (w : Which) (O : Oracles) (inn : String) (Psch : Schema → Prop) (hcl : KidsClosed Psch)
  (hJ : JOkOn Psch J)
include hJ hcl

mutual
theorem walk_ok (s : Schema) (hs : Psch s) (path : String) (vis : List String) (r : Res)
    (h : (walk c J w O inn s path vis).1 = some r) : Ok r := by
  match s, hs with
  | .mk b itemsS itemsT addItemsS props patProps addPropsS deps allOf anyOf oneOf nt, hs =>
    obtain ⟨k1, k2, k3, k4, k5, k6, k7⟩ := hcl _ _ _ _ _ _ _ _ _ _ _ _ hs
    simp only [walk] at h
    split at h
    · cases h
    · simp only [Option.some.injEq] at h
      subst h
      apply walkA_ok _ k7
      have h0 : Ok ((match w.value b with
          | some v => mergeJ w {} (J.schema (.mk b itemsS itemsT addItemsS props patProps addPropsS deps allOf anyOf oneOf nt)
                                  (path ++ "." ++ w.suffix) v)
          | none => ({} : Res))) := by
        split
        · exact mergeJ_ok w ok_empty (hJ.schema _ _ _ hs)
        · exact ok_empty
      have step (o : Option Schema) (p' : String) (st : WSt) (hst : Ok st.1)
          (ho : ∀ s', o = some s' → ∀ vis' r', (walk c J w O inn s' p' vis').1 = some r' → Ok r') :
          Ok (match o with | some s' => thenOpt st (walk c J w O inn s' p') | none => st).1 := by
        cases o with
        | none => exact hst
        | some s' => exact thenOpt_ok _ _ hst (fun r' hr' => ho s' rfl _ r' hr')
      apply step addPropsS
      · apply walkM_ok _ k5
        apply walkM_ok _ k4
        apply step addItemsS
        · show Ok (if patOK O b.pattern then _ else _)
          split
          · apply walkL_ok _ k2
            apply step itemsS
            · exact h0
            · intro s' hs' vis' r' hr'
              exact walk_ok s' (k1 s' hs') _ vis' r' hr'
          · apply addErrors_ok
            apply walkL_ok _ k2
            apply step itemsS
            · exact h0
            · intro s' hs' vis' r' hr'
              exact walk_ok s' (k1 s' hs') _ vis' r' hr'
        · intro s' hs' vis' r' hr'
          exact walk_ok s' (k3 s' hs') _ vis' r' hr'
      · intro s' hs' vis' r' hr'
        exact walk_ok s' (k6 s' hs') _ vis' r' hr'
theorem walkL_ok (l : List Schema) (hl : ∀ s ∈ l, Psch s) (path : String) (i : Nat) (st : WSt) (h : Ok st.1) :
    Ok (walkL c J w O inn l path i st).1 := by
  match l, hl with
  | [], _ => simpa [walkL] using h
  | s :: ss, hl =>
    simp only [walkL]
    exact walkL_ok ss (fun x hx => hl x (List.mem_cons_of_mem _ hx)) path (i + 1) _
      (thenOpt_ok _ _ h (fun r hr => walk_ok s (hl s List.mem_cons_self) _ _ r hr))
theorem walkM_ok (l : List (String × Schema)) (hl : ∀ p ∈ l, Psch p.2) (path : String) (st : WSt) (h : Ok st.1) :
    Ok (walkM c J w O inn l path st).1 := by
  match l, hl with
  | [], _ => simpa [walkM] using h
  | (name, s) :: ps, hl =>
    simp only [walkM]
    exact walkM_ok ps (fun x hx => hl x (List.mem_cons_of_mem _ hx)) path _
      (thenOpt_ok _ _ h (fun r hr => walk_ok s (hl (name, s) List.mem_cons_self) _ _ r hr))
theorem walkA_ok (l : List Schema) (hl : ∀ s ∈ l, Psch s) (path : String) (i : Nat) (st : WSt) (h : Ok st.1) :
    Ok (walkA c J w O inn l path i st).1 := by
  match l, hl with
  | [], _ => simpa [walkA] using h
  | s :: ss, hl =>
    simp only [walkA]
    exact walkA_ok ss (fun x hx => hl x (List.mem_cons_of_mem _ hx)) path (i + 1) _
      (thenOpt_ok _ _ h (fun r hr => walk_ok s (hl s List.mem_cons_self) _ _ r hr))
end

omit hJ hcl in
theorem foldl_ok {α : Type} (f : Res → α → Res) (hf : ∀ r a, Ok r → Ok (f r a)) (l : List α) (r : Res) (h : Ok r) :
    Ok (l.foldl f r) := by
  induction l generalizing r with
  | nil => exact h
  | cons a l ih => exact ih _ (hf r a h)

omit hJ hcl in
theorem reportIf_ok (w : Which) {res red : Res} (tag : Msg) (b : Bool) (h1 : Ok res) (h2 : Ok red) : Ok (reportIf w res tag red b) := by
  unfold reportIf; split
  · exact report_ok w tag b h1 h2
  · exact h1

omit hcl in
theorem itemsHere_ok (rootFmt : String) (l : ItemLevel) (rest : List ItemLevel) (path : String) :
    Ok (itemsHere J w inn rootFmt l rest path) := by
  unfold itemsHere; split
  · exact mergeJ_ok w ok_empty (hJ.items _ _ _ _ _)
  · exact ok_empty

omit hJ hcl in
theorem itemsPattern_ok (l : ItemLevel) (path : String) (res : Res) (h : Ok res) : Ok (itemsPattern O inn l path res) := by
  unfold itemsPattern; split
  · exact h
  · exact addErrors_ok h _

omit hcl in
theorem walkItems_ok (rootFmt : String) (chain : List ItemLevel) (path : String) :
    Ok (walkItems J w O inn rootFmt chain path) := by
  match chain with
  | [] => exact ok_empty
  | [l] => exact itemsPattern_ok O inn l path _ (itemsHere_ok J w inn Psch hJ rootFmt l [] path)
  | l :: l' :: rest =>
    rw [walkItems]
    exact itemsPattern_ok O inn l path _
      (mergeOne_ok (itemsHere_ok J w inn Psch hJ rootFmt l _ path) (walkItems_ok rootFmt (l' :: rest) _))

omit hJ hcl in
theorem paramWarn_ok (res : Res) (p : Param) (h : Ok res) : Ok (paramWarn w res p) := by
  unfold paramWarn; split
  · exact addWarnings_ok h _
  · exact h

omit hcl in
theorem paramSimple_ok (res : Res) (p : Param) (h : Ok res) : Ok (paramSimple J w res p) := by
  unfold paramSimple; split
  · exact reportIf_ok w _ _ h (hJ.param _ _)
  · exact h

omit hcl in
theorem paramItems_ok (res : Res) (p : Param) (h : Ok res) : Ok (paramItems J w O res p) := by
  unfold paramItems; split
  · exact h
  · exact reportIf_ok w _ _ h (walkItems_ok J w O p.loc Psch hJ _ _ _)

theorem paramSchema_ok (res : Res) (p : Param) (hp : ∀ s, p.schema = some s → Psch s) (h : Ok res) :
    Ok (paramSchema c J w O res p) := by
  unfold paramSchema; split
  · rename_i s hs
    split
    · rename_i red hred
      exact reportIf_ok w _ _ h (walk_ok c J w O p.loc Psch hcl hJ s (hp s hs) _ _ red hred)
    · exact h
  · exact h

theorem paramStage_ok (res : Res) (p : Param) (hp : ∀ s, p.schema = some s → Psch s) (h : Ok res) :
    Ok (paramStage c J w O res p) :=
  paramSchema_ok c J w O Psch hcl hJ _ p hp (paramItems_ok J w O Psch hJ _ p (paramSimple_ok J w Psch hJ _ p (paramWarn_ok w res p h)))

omit hcl in
theorem headerStage_ok (opId : String) (r : Response) (res : Res) (hd : Header) (h : Ok res) :
    Ok (headerStage J w O opId r res hd) := by
  unfold headerStage headerPattern
  have h1 : Ok (headerSimple J w opId r res hd) := by
    unfold headerSimple; split
    · exact reportIf_ok w _ _ h (hJ.header _ _)
    · exact h
  have h2 : Ok (headerItems J w O opId r (headerSimple J w opId r res hd) hd) := by
    unfold headerItems; split
    · exact h1
    · exact reportIf_ok w _ _ h1 (walkItems_ok J w O "header" Psch hJ _ _ _)
  split
  · exact h2
  · exact addErrors_ok h2 _

theorem respSchema_ok (o : Op) (r : Response) (hr : ∀ s, r.schema = some s → Psch s) (res : Res) (h : Ok res) :
    Ok (respSchema c J w O o r res) := by
  unfold respSchema; split
  · rename_i s hs
    split
    · rename_i red hred
      exact reportIf_ok w _ _ h (walk_ok c J w O "response" Psch hcl hJ s (hr s hs) _ _ red hred)
    · exact h
  · exact h

omit hcl in
theorem respExamples_ok (o : Op) (r : Response) (hr : ∀ s, r.schema = some s → Psch s) (res : Res) (h : Ok res) :
    Ok (respExamples J w o r res) := by
  unfold respExamples; split
  · split
    · rename_i s hs
      split
      · exact mergeAsWarningsOne_ok h (hJ.schema _ _ _ (hr s hs))
      · exact addWarnings_ok h _
    · exact addWarnings_ok h _
  · exact h

theorem responseStage_ok (o : Op) (r : Response) (hr : ∀ s, r.schema = some s → Psch s) : Ok (responseStage c J w O o r) :=
  respExamples_ok J w Psch hJ o r hr _ (respSchema_ok c J w O Psch hcl hJ o r hr _
    (foldl_ok _ (fun res hd h => headerStage_ok J w O Psch hJ o.id r res hd h) _ _ ok_empty))

omit hJ hcl in
theorem foldl_ok_mem {α : Type} (f : Res → α → Res) (l : List α) (hf : ∀ r, ∀ a ∈ l, Ok r → Ok (f r a)) (r : Res) (h : Ok r) :
    Ok (l.foldl f r) := by
  induction l generalizing r with
  | nil => exact h
  | cons a l ih => exact ih (fun r b hb => hf r b (List.mem_cons_of_mem _ hb)) _ (hf r a List.mem_cons_self h)

theorem opStage_ok (res : Res) (o : Op) (hp : ∀ p ∈ o.params, ∀ s, p.schema = some s → Psch s)
    (hr : ∀ rs, o.responses = some rs → ∀ r ∈ rs, ∀ s, r.schema = some s → Psch s) (h : Ok res) : Ok (opStage c J w O res o) := by
  unfold opStage opResponses
  have h1 : Ok (o.params.foldl (paramStage c J w O) res) :=
    foldl_ok_mem _ _ (fun r p hpm hr' => paramStage_ok c J w O Psch hcl hJ r p (hp p hpm) hr') _ h
  split
  · rename_i rs hrs
    exact foldl_ok_mem _ _ (fun acc r hrm hacc => mergeOne_ok hacc (responseStage_ok c J w O Psch hcl hJ o r (hr rs hrs r hrm))) _ h1
  · split
    · exact addErrors_ok h1 _
    · exact h1

theorem defsStage_ok (defs : List (String × Schema)) (hd : ∀ d ∈ defs, Psch d.2) (res : Res) (vis : List String) (h : Ok res) :
    Ok (defsStage c J w O defs res vis) := by
  induction defs generalizing res vis with
  | nil => exact h
  | cons d rest ih =>
    obtain ⟨nm, s⟩ := d
    simp only [defsStage]
    exact ih (fun x hx => hd x (List.mem_cons_of_mem _ hx)) _ _
      (mergeOpt_ok _ h (fun x hx => walk_ok c J w O "body" Psch hcl hJ s (hd (nm, s) List.mem_cons_self) _ _ x hx))

/-- the default / example stage adds no panic of its own -/
theorem valueStage_ok (v : View) (hv : ViewP Psch v) : Ok (valueStage c J w O v) :=
  defsStage_ok c J w O Psch hcl hJ _ hv.2 _ _
    (foldl_ok_mem _ _ (fun r o ho hr => opStage_ok c J w O Psch hcl hJ r o (hv.1 o ho).1 (hv.1 o ho).2 hr) _ ok_empty)

end VM.Sw
