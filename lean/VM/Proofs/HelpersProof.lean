import VM.Impl.Helpers
namespace VM.Helpers
open VM GoVal

theorem any_mono {α : Type} (l : List α) (p q : α → Bool) (h : ∀ x ∈ l, p x = true → q x = true)
    (hp : l.any p = true) : l.any q = true := by
  rw [List.any_eq_true] at hp ⊢
  obtain ⟨x, hx, hpx⟩ := hp
  exact ⟨x, hx, h x hx hpx⟩

mutual
/-- what `reflect.DeepEqual` identifies, the specification's value equality identifies too -/
theorem deepEq_valEq (a b : GoVal) (h : deepEq a b = true) : valEq a b = true := by
  match a, b with
  | .nil, .nil => rfl
  | .bool x, .bool y => simpa [deepEq, valEq] using h
  | .int b1 x, .int b2 y =>
    simp only [deepEq, Bool.and_eq_true, beq_iff_eq] at h
    simp [valEq, numVal, h.2]
  | .uint b1 x, .uint b2 y =>
    simp only [deepEq, Bool.and_eq_true, beq_iff_eq] at h
    simp [valEq, numVal, h.2]
  | .float b1 x, .float b2 y =>
    simp only [deepEq, Bool.and_eq_true, beq_iff_eq] at h
    simp [valEq, numVal, h.2]
  | .str x, .str y => simpa [deepEq, valEq] using h
  | .named t1 x, .named t2 y =>
    simp only [deepEq, Bool.and_eq_true, beq_iff_eq] at h
    simp [valEq, h.2]
  | .slice e1 n1 x, .slice e2 n2 y =>
    simp only [deepEq, Bool.and_eq_true, beq_iff_eq] at h
    simp only [valEq, Bool.and_eq_true, beq_iff_eq]
    exact ⟨h.1.2, deepEqList_valEqList x y h.2⟩
  | .map n1 x, .map n2 y =>
    simp only [deepEq, Bool.and_eq_true, beq_iff_eq] at h
    simp only [valEq, Bool.and_eq_true, beq_iff_eq]
    exact ⟨⟨h.1.1, h.1.2⟩, deepEqSub_valEqSub x y h.2⟩
  | .nilPtr t1, .nilPtr t2 => simpa [deepEq, valEq] using h
  | .ptr t1 x, .ptr t2 y =>
    simp only [deepEq, Bool.and_eq_true, beq_iff_eq] at h
    simp only [valEq]
    exact deepEq_valEq x y h.2
  | .nil, .bool _ | .nil, .int _ _ | .nil, .uint _ _ | .nil, .float _ _ | .nil, .str _ | .nil, .named _ _
  | .nil, .slice _ _ _ | .nil, .map _ _ | .nil, .nilPtr _ => simp [deepEq] at h
  | .bool _, .nil | .bool _, .int _ _ | .bool _, .uint _ _ | .bool _, .float _ _ | .bool _, .str _
  | .bool _, .named _ _ | .bool _, .slice _ _ _ | .bool _, .map _ _ | .bool _, .nilPtr _ => simp [deepEq] at h
  | .int _ _, .nil | .int _ _, .bool _ | .int _ _, .uint _ _ | .int _ _, .float _ _ | .int _ _, .str _
  | .int _ _, .named _ _ | .int _ _, .slice _ _ _ | .int _ _, .map _ _ | .int _ _, .nilPtr _ => simp [deepEq] at h
  | .uint _ _, .nil | .uint _ _, .bool _ | .uint _ _, .int _ _ | .uint _ _, .float _ _ | .uint _ _, .str _
  | .uint _ _, .named _ _ | .uint _ _, .slice _ _ _ | .uint _ _, .map _ _ | .uint _ _, .nilPtr _ => simp [deepEq] at h
  | .float _ _, .nil | .float _ _, .bool _ | .float _ _, .int _ _ | .float _ _, .uint _ _ | .float _ _, .str _
  | .float _ _, .named _ _ | .float _ _, .slice _ _ _ | .float _ _, .map _ _ | .float _ _, .nilPtr _ => simp [deepEq] at h
  | .str _, .nil | .str _, .bool _ | .str _, .int _ _ | .str _, .uint _ _ | .str _, .float _ _
  | .str _, .named _ _ | .str _, .slice _ _ _ | .str _, .map _ _ | .str _, .nilPtr _ => simp [deepEq] at h
  | .named _ _, .nil | .named _ _, .bool _ | .named _ _, .int _ _ | .named _ _, .uint _ _ | .named _ _, .float _ _
  | .named _ _, .str _ | .named _ _, .slice _ _ _ | .named _ _, .map _ _ | .named _ _, .nilPtr _ => simp [deepEq] at h
  | .slice _ _ _, .nil | .slice _ _ _, .bool _ | .slice _ _ _, .int _ _ | .slice _ _ _, .uint _ _ | .slice _ _ _, .float _ _
  | .slice _ _ _, .str _ | .slice _ _ _, .named _ _ | .slice _ _ _, .map _ _ | .slice _ _ _, .nilPtr _ => simp [deepEq] at h
  | .map _ _, .nil | .map _ _, .bool _ | .map _ _, .int _ _ | .map _ _, .uint _ _ | .map _ _, .float _ _
  | .map _ _, .str _ | .map _ _, .named _ _ | .map _ _, .slice _ _ _ | .map _ _, .nilPtr _ => simp [deepEq] at h
  | .nilPtr _, .nil | .nilPtr _, .bool _ | .nilPtr _, .int _ _ | .nilPtr _, .uint _ _ | .nilPtr _, .float _ _
  | .nilPtr _, .str _ | .nilPtr _, .named _ _ | .nilPtr _, .slice _ _ _ | .nilPtr _, .map _ _ => simp [deepEq] at h
  | .ptr _ _, .nil | .ptr _ _, .bool _ | .ptr _ _, .int _ _ | .ptr _ _, .uint _ _ | .ptr _ _, .float _ _ | .ptr _ _, .str _ | .ptr _ _, .named _ _ | .ptr _ _, .slice _ _ _ | .ptr _ _, .map _ _ | .ptr _ _, .nilPtr _ => simp [deepEq] at h
  | .nil, .ptr _ _ | .bool _, .ptr _ _ | .int _ _, .ptr _ _ | .uint _ _, .ptr _ _ | .float _ _, .ptr _ _ | .str _, .ptr _ _ | .named _ _, .ptr _ _ | .slice _ _ _, .ptr _ _ | .map _ _, .ptr _ _ | .nilPtr _, .ptr _ _ => simp [deepEq] at h
theorem deepEqList_valEqList (a b : List GoVal) (h : deepEqList a b = true) : valEqList a b = true := by
  match a, b with
  | [], [] => rfl
  | x :: xs, y :: ys =>
    simp only [deepEqList, Bool.and_eq_true] at h
    simp only [valEqList, Bool.and_eq_true]
    exact ⟨deepEq_valEq x y h.1, deepEqList_valEqList xs ys h.2⟩
  | [], _ :: _ => simp [deepEqList] at h
  | _ :: _, [] => simp [deepEqList] at h
theorem deepEqSub_valEqSub (a b : List (String × GoVal)) (h : deepEqSub a b = true) : valEqSub a b = true := by
  match a with
  | [] => rfl
  | (k, v) :: rest =>
    simp only [deepEqSub, Bool.and_eq_true] at h
    simp only [valEqSub, Bool.and_eq_true]
    refine ⟨?_, deepEqSub_valEqSub rest b h.2⟩
    rw [List.any_eq_true] at h ⊢
    obtain ⟨⟨kv, hkv, hp⟩, _⟩ := h
    simp only [Bool.and_eq_true] at hp
    exact ⟨kv, hkv, by simp only [Bool.and_eq_true]; exact ⟨hp.1, deepEq_valEq v kv.2 hp.2⟩⟩
end

/-- a duplicate reported by `UniqueItems` is a duplicate -/
theorem hasDeepDup_sound : ∀ xs : List GoVal, hasDeepDup xs = true → specHasDup xs = true
  | [], h => by simp [hasDeepDup] at h
  | x :: xs, h => by
    simp only [hasDeepDup, Bool.or_eq_true] at h
    simp only [specHasDup, Bool.or_eq_true]
    rcases h with h | h
    · exact .inl (any_mono xs _ _ (fun y _ hy => deepEq_valEq x y hy) h)
    · exact .inr (hasDeepDup_sound xs h)

end VM.Helpers
