/-
  C03 — the two inheritance checks of spec.go (circular ancestry, duplicate inherited properties) report
  nothing exactly when the declarative rules of `Spec/SpecRules.lean` hold.
-/
import VM.Spec.SpecRules
import VM.Proofs.RulesProof
namespace VM.Sw
open VM Sw Rules

/-! ### circular ancestry -/

theorem firstHit_ne_nil (f : Schema → List String × Bool) (l : List Schema) :
    (firstHit f l).1 ≠ [] ↔ ∃ c ∈ l, (f c).1 ≠ [] := by
  induction l with
  | nil => simp [firstHit]
  | cons c rest ih =>
    simp only [firstHit]
    by_cases h : (f c).1 = []
    · simp only [h, List.isEmpty_nil, Bool.not_true, Bool.false_eq_true, ↓reduceIte, List.mem_cons, exists_eq_or_imp, ne_eq,
        not_true_eq_false, false_or]
      exact ih
    · have : (!(f c).1.isEmpty) = true := by simpa using h
      simp only [this, ↓reduceIte, List.mem_cons, exists_eq_or_imp]
      exact ⟨fun _ => .inl h, fun _ => h⟩

theorem circAnc_iff (defs : String → Option Schema) :
    ∀ (fuel : Nat) (nm : String) (sch : Schema) (path : List String),
      (circAnc defs fuel nm sch path).1 ≠ [] ↔ Revisits defs fuel sch path := by
  intro fuel
  induction fuel with
  | zero =>
    intro nm sch path
    simp only [circAnc, ne_eq, not_true_eq_false, false_iff]
    intro h; cases h
  | succ fuel ih =>
    intro nm sch path
    simp only [circAnc]
    by_cases h0 : (sch.base.ref == "" && sch.allOf.isEmpty) = true
    · simp only [h0, ↓reduceIte, ne_eq, not_true_eq_false, false_iff]
      simp only [Bool.and_eq_true, beq_iff_eq, List.isEmpty_iff] at h0
      intro h
      cases h with
      | alias h1 _ => exact h1 h0
      | hit h1 _ _ => exact h1 h0.1
      | down h1 _ _ _ _ => exact h1 h0
    · simp only [h0, Bool.false_eq_true, ↓reduceIte]
      have h0' : ¬ (sch.base.ref = "" ∧ sch.allOf = []) := by
        simpa [Bool.and_eq_true, List.isEmpty_iff] using h0
      cases hal : aliasLoop defs 64 sch [] with
      | some r =>
        simp only [ne_eq, List.cons_ne_self, not_false_eq_true, true_iff, reduceCtorEq]
        exact Revisits.alias h0' hal
      | none =>
      simp only
      cases hc : chase defs 64 sch with
      | none =>
        simp only [ne_eq, not_true_eq_false, false_iff]
        intro h
        cases h with
        | alias _ h2 => rw [hal] at h2; cases h2
        | hit _ h2 _ => rw [hc] at h2; cases h2
        | down _ h2 _ _ _ => rw [hc] at h2; cases h2
      | some schc =>
        simp only
        by_cases hr : sch.base.ref = ""
        · -- no reference at this node: only the way down
          have hb : (sch.base.ref != "") = false := by simp [hr]
          simp only [hb, Bool.false_and, Bool.false_eq_true, ↓reduceIte]
          rw [firstHit_ne_nil]
          constructor
          · rintro ⟨c, hcm, hne⟩
            have := (ih nm c path).mp hne
            exact Revisits.down h0' hc (fun h => h.1 hr) hcm (by simpa [hr] using this)
          · intro h
            cases h with
            | alias _ h2 => rw [hal] at h2; cases h2
            | hit h1 _ _ => exact absurd hr h1
            | down _ h2 _ h4 h5 =>
              rw [hc] at h2; cases h2
              exact ⟨_, h4, (ih nm _ path).mpr (by simpa [hr] using h5)⟩
        · have hb : (sch.base.ref != "") = true := by simpa using hr
          simp only [hb, Bool.true_and, ↓reduceIte]
          by_cases hp : path.contains sch.base.ref = true
          · simp only [hp, ↓reduceIte, ne_eq, List.cons_ne_self, not_false_eq_true, true_iff, reduceCtorEq]
            exact Revisits.hit hr hc (by simpa using hp)
          · simp only [hp, Bool.false_eq_true, ↓reduceIte]
            have hp' : sch.base.ref ∉ path := by simpa using hp
            rw [firstHit_ne_nil]
            constructor
            · rintro ⟨c, hcm, hne⟩
              have := (ih sch.base.ref c (sch.base.ref :: path)).mp hne
              exact Revisits.down h0' hc (fun h => hp' h.2) hcm (by simpa [hr] using this)
            · intro h
              cases h with
              | alias _ h2 => rw [hal] at h2; cases h2
              | hit _ _ h3 => exact absurd h3 hp'
              | down _ h2 _ h4 h5 =>
                rw [hc] at h2; cases h2
                exact ⟨_, h4, (ih sch.base.ref _ (sch.base.ref :: path)).mpr (by simpa [hr] using h5)⟩

/-! ### duplicate inherited properties -/

/-- the result of a scan: no duplicate reported iff the names are new and pairwise distinct; the known names grow by them -/
def ScanOK (r : List String × List String) (knowns names : List String) : Prop :=
  (r.1 = [] ↔ (∀ n ∈ names, n ∉ knowns) ∧ names.Nodup) ∧ (∀ x, x ∈ r.2 ↔ x ∈ knowns ∨ x ∈ names)

theorem scan_foldl (label : String) (names : List String) (d knowns : List String) :
    let r := names.foldl (fun (acc : List String × List String) k =>
      if acc.2.contains k then (acc.1 ++ [label ++ "." ++ k], acc.2) else (acc.1, k :: acc.2)) (d, knowns)
    (r.1 = [] ↔ d = [] ∧ (∀ n ∈ names, n ∉ knowns) ∧ names.Nodup) ∧ (∀ x, x ∈ r.2 ↔ x ∈ knowns ∨ x ∈ names) := by
  induction names generalizing d knowns with
  | nil => simp
  | cons n rest ih =>
    simp only [List.foldl_cons]
    by_cases hk : knowns.contains n = true
    · simp only [hk, ↓reduceIte]
      have := ih (d ++ [label ++ "." ++ n]) knowns
      simp only at this
      have hn : n ∈ knowns := by simpa using hk
      refine ⟨?_, ?_⟩
      · rw [this.1]
        constructor
        · rintro ⟨h, _⟩; simp at h
        · rintro ⟨_, h, _⟩; exact absurd hn (h n List.mem_cons_self)
      · intro x; rw [this.2 x]
        constructor
        · rintro (h | h); exact .inl h; exact .inr (List.mem_cons_of_mem _ h)
        · rintro (h | h)
          · exact .inl h
          · rcases List.mem_cons.mp h with rfl | h
            · exact .inl hn
            · exact .inr h
    · simp only [hk, Bool.false_eq_true, ↓reduceIte]
      have := ih d (n :: knowns)
      simp only at this
      have hn : n ∉ knowns := by simpa using hk
      refine ⟨?_, ?_⟩
      · rw [this.1]
        constructor
        · rintro ⟨h1, h2, h3⟩
          refine ⟨h1, ?_, ?_⟩
          · intro m hm
            rcases List.mem_cons.mp hm with rfl | hm
            · exact hn
            · exact fun h => h2 m hm (List.mem_cons_of_mem _ h)
          · exact List.nodup_cons.mpr ⟨fun h => h2 n h List.mem_cons_self, h3⟩
        · rintro ⟨h1, h2, h3⟩
          have h3' := List.nodup_cons.mp h3
          refine ⟨h1, ?_, h3'.2⟩
          intro m hm hmk
          rcases List.mem_cons.mp hmk with rfl | hmk
          · exact h3'.1 hm
          · exact h2 m (List.mem_cons_of_mem _ hm) hmk
      · intro x; rw [this.2 x]
        simp only [List.mem_cons]
        constructor
        · rintro ((rfl | h) | h)
          · exact .inr (.inl rfl)
          · exact .inl h
          · exact .inr (.inr h)
        · rintro (h | rfl | h)
          · exact .inl (.inr h)
          · exact .inl (.inl rfl)
          · exact .inr h

theorem scanNames_ok (label : String) (names knowns : List String) : ScanOK (scanNames label names knowns) knowns names := by
  have := scan_foldl label names [] knowns
  simp only [true_and] at this
  exact this

/-- folding a scan over the allOf members: as one scan over the concatenation of their names -/
theorem scan_children (g : Schema → List String → List String × List String) (L : Schema → List String)
    (cs : List Schema) (hg : ∀ c ∈ cs, ∀ knowns, ScanOK (g c knowns) knowns (L c)) (d knowns : List String) :
    let r := cs.foldl (fun (acc : List String × List String) c => ((acc.1 ++ (g c acc.2).1), (g c acc.2).2)) (d, knowns)
    (r.1 = [] ↔ d = [] ∧ (∀ n ∈ (cs.map L).flatten, n ∉ knowns) ∧ (cs.map L).flatten.Nodup)
      ∧ (∀ x, x ∈ r.2 ↔ x ∈ knowns ∨ x ∈ (cs.map L).flatten) := by
  induction cs generalizing d knowns with
  | nil => simp
  | cons c rest ih =>
    simp only [List.foldl_cons, List.map_cons, List.flatten_cons]
    have hc := hg c List.mem_cons_self knowns
    have := ih (fun c' h => hg c' (List.mem_cons_of_mem _ h)) (d ++ (g c knowns).1) (g c knowns).2
    simp only at this
    obtain ⟨hc1, hc2⟩ := hc
    refine ⟨?_, ?_⟩
    · rw [this.1, List.append_eq_nil_iff, hc1, List.nodup_append]
      constructor
      · rintro ⟨⟨h1, h2, h3⟩, h4, h5⟩
        refine ⟨h1, ?_, h3, h5, ?_⟩
        · intro n hn
          rcases List.mem_append.mp hn with hn | hn
          · exact h2 n hn
          · exact fun hk => h4 n hn ((hc2 n).mpr (.inl hk))
        · intro a ha b hb hab
          subst hab
          exact h4 a hb ((hc2 a).mpr (.inr ha))
      · rintro ⟨h1, h2, h3, h5, h6⟩
        refine ⟨⟨h1, fun n hn => h2 n (List.mem_append_left _ hn), h3⟩, ?_, h5⟩
        intro n hn hk
        rcases (hc2 n).mp hk with hk | hk
        · exact h2 n (List.mem_append_right _ hn) hk
        · exact h6 n hk n hn rfl
    · intro x
      rw [this.2 x, hc2 x, List.mem_append]
      constructor
      · rintro ((h | h) | h)
        · exact .inl h
        · exact .inr (.inl h)
        · exact .inr (.inr h)
      · rintro (h | h | h)
        · exact .inl (.inl h)
        · exact .inl (.inr h)
        · exact .inr h

theorem dupProps_ok (defs : String → Option Schema) :
    ∀ (fuel : Nat) (nm : String) (sch : Schema) (knowns : List String),
      ScanOK (dupProps defs fuel nm sch knowns) knowns (leafNames defs fuel sch) := by
  intro fuel
  induction fuel with
  | zero => intro nm sch knowns; simp [dupProps, leafNames, ScanOK]
  | succ fuel ih =>
    intro nm sch knowns
    simp only [dupProps, leafNames]
    cases hc : chase defs 64 sch with
    | none => simp [ScanOK]
    | some schc =>
      simp only
      by_cases ha : (!schc.allOf.isEmpty) = true
      · simp only [ha, ↓reduceIte]
        have := scan_children (fun c k => dupProps defs fuel (if sch.base.ref != "" then sch.base.ref else nm) c k)
          (fun c => leafNames defs fuel c) schc.allOf (fun c _ k => ih _ c k) [] knowns
        simp only [true_and] at this
        exact this
      · simp only [ha, Bool.false_eq_true, ↓reduceIte]
        exact scanNames_ok _ _ _

theorem dupProps_nil_iff (defs : String → Option Schema) (fuel : Nat) (nm : String) (sch : Schema) :
    (dupProps defs fuel nm sch []).1 = [] ↔ (leafNames defs fuel sch).Nodup := by
  have := (dupProps_ok defs fuel nm sch []).1
  simpa using this

/-! ### the loop over the definitions -/

theorem duplicatePropertyErrs_nil_iff (defs : String → Option Schema) (l : List (String × Schema)) :
    duplicatePropertyErrs defs l = [] ↔
      ∀ ds ∈ l, ds.2.allOf ≠ [] → ¬ Revisits defs 64 ds.2 [defRef ds.1] ∧ (leafNames defs 64 ds.2).Nodup := by
  induction l with
  | nil => simp [duplicatePropertyErrs]
  | cons ds rest ih =>
    obtain ⟨k, sch⟩ := ds
    simp only [duplicatePropertyErrs, List.mem_cons, forall_eq_or_imp]
    by_cases he : sch.allOf.isEmpty = true
    · have : sch.allOf = [] := by simpa using he
      simp only [he, ↓reduceIte, this, ne_eq, not_true_eq_false, false_implies, true_and]
      exact ih
    · have hne : sch.allOf ≠ [] := by simpa using he
      simp only [he, Bool.false_eq_true, ↓reduceIte]
      have hcirc := circAnc_iff defs 64 k sch [defRef k]
      have hdup := dupProps_nil_iff defs 64 k sch
      by_cases hc : (circAnc defs 64 k sch [defRef k]).1 = []
      · have hnr : ¬ Revisits defs 64 sch [defRef k] := fun h => (hcirc.mpr h) hc
        simp only [hc, List.isEmpty_nil, Bool.not_true, Bool.false_eq_true, ↓reduceIte, List.append_eq_nil_iff]
        by_cases hd : (dupProps defs 64 k sch []).1 = []
        · simp only [hd, List.isEmpty_nil, ↓reduceIte, true_and, ih]
          exact ⟨fun h => ⟨fun _ => ⟨hnr, hdup.mp hd⟩, h⟩, fun h => h.2⟩
        · have : (dupProps defs 64 k sch []).1.isEmpty = false := by simpa using hd
          simp only [this, Bool.false_eq_true, ↓reduceIte, List.cons_ne_self, false_and, false_iff, reduceCtorEq]
          intro h
          exact hd (hdup.mpr (h.1 hne).2)
      · have : (!(circAnc defs 64 k sch [defRef k]).1.isEmpty) = true := by simpa using hc
        simp only [this, ↓reduceIte, List.cons_ne_self, false_iff, reduceCtorEq]
        intro h
        exact (h.1 hne).1 (hcirc.mp hc)


/-! ### arrays declare items -/

theorem schemaItemsErrs_nil_iff (O : Oracles) (defs : String → Option Schema) (pre op : String) (fuel : Nat) (s : Schema) :
    schemaItemsErrs O defs pre op fuel s = [] ↔ itemsDeclared O defs fuel s = true := by
  induction fuel generalizing s with
  | zero => simp [schemaItemsErrs, itemsDeclared]
  | succ fuel ih =>
    simp only [schemaItemsErrs, itemsDeclared]
    by_cases hr : (s.base.ref != "") = true
    · simp only [hr, ↓reduceIte]
      cases defs s.base.ref with
      | none => simp
      | some t => exact ih t
    · simp only [hr, Bool.false_eq_true, ↓reduceIte]
      by_cases ha : (!s.base.types.contains "array") = true
      · simp only [ha, ↓reduceIte]
      · simp only [ha, Bool.false_eq_true, ↓reduceIte]
        cases hi : s.itemsS with
        | none =>
          cases ht : s.itemsT with
          | nil => simp
          | cons a l => simp
        | some it =>
          simp only [List.append_eq_nil_iff, Bool.and_eq_true, ih it]
          apply and_congr _ Iff.rfl
          cases patOK O ((chase defs 64 it).getD it).base.pattern <;> simp

theorem itemsErrs_nil_iff (O : Oracles) (defs : String → Option Schema) (v : View) :
    itemsErrs O defs v = [] ↔ ArraysDeclareItems O defs v := by
  unfold itemsErrs ArraysDeclareItems
  rw [flatMap_eq_nil_iff']
  apply forall_congr'; intro o
  apply imp_congr Iff.rfl
  rw [List.append_eq_nil_iff, flatMap_eq_nil_iff', flatMap_eq_nil_iff']
  apply and_congr
  · apply forall_congr'; intro p
    apply imp_congr Iff.rfl
    unfold ParamDeclaresItems
    by_cases h1 : (p.type == "array" && p.itemsType == "") = true
    · have h1' : p.type = "array" ∧ p.itemsType = "" := by simpa using h1
      simp [h1, h1']
    · have h1' : ¬ (p.type = "array" ∧ p.itemsType = "") := by simpa using h1
      simp only [h1, Bool.false_eq_true, ↓reduceIte, h1', not_false_eq_true, true_and]
      by_cases hb : p.loc = "body"
      · have : (p.loc != "body") = false := by simp [hb]
        simp only [this, Bool.false_eq_true, ↓reduceIte, hb, ne_eq, not_true_eq_false, false_implies, true_and, forall_const]
        cases hs : p.schema with
        | none => simp
        | some s => simp [schemaItemsErrs_nil_iff]
      · have : (p.loc != "body") = true := by simpa using hb
        simp only [this, ↓reduceIte, ne_eq, hb, not_false_eq_true, forall_const, false_implies, and_true]
        cases itemsChainOK p.items <;> simp
  · apply forall_congr'; intro r
    apply imp_congr Iff.rfl
    unfold responseItemsErrs ResponseDeclaresItems
    rw [List.append_eq_nil_iff, filterMap_eq_nil_iff']
    apply and_congr
    · apply forall_congr'; intro h
      apply imp_congr Iff.rfl
      by_cases hh : (h.type == "array" && h.itemsType == "") = true
      · have hh' : h.type = "array" ∧ h.itemsType = "" := by simpa using hh
        simp [hh, hh']
      · have hh' : ¬ (h.type = "array" ∧ h.itemsType = "") := by simpa using hh
        simp [hh, hh']
    · cases hs : r.schema with
      | none => simp
      | some s => simp [schemaItemsErrs_nil_iff]

end VM.Sw
