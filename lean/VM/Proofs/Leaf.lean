/-
  Leaf validators of the implementation model agree with the draft-4 clauses of the
  specification (type, string+format, number, enum).
-/
import VM.Proofs.ResOk
import VM.Spec.Valid
namespace VM
open Impl Spec

/-- exactness of the float oracles (what `Cfg.floatTolerance = true` needs to be harmless) -/
def OExact (O : Oracles) : Prop :=
  (∀ n, O.isIntTol n = n.isInt) ∧ (∀ n m, O.mulOfTol n m = (n / m).isInt)

theorem intTest_exact (cfg : Cfg) (O : Oracles) (h : cfg.floatTolerance = true → OExact O) (n : Rat) :
    intTest cfg O n = n.isInt := by
  unfold intTest; split
  · rename_i hc; exact (h hc).1 n
  · rfl

theorem mulTest_exact (cfg : Cfg) (O : Oracles) (h : cfg.floatTolerance = true → OExact O) (n m : Rat) :
    mulTest cfg O n m = (n / m).isInt := by
  unfold mulTest; split
  · rename_i hc; exact (h hc).2 n m
  · rfl

/-! ### type -/

theorem any_ite_integer (ts : List String) (a : String) (i : Bool) (ha : a ≠ "integer") :
    ts.any (fun t => if t == "integer" then i else t == a) =
      (ts.contains a || (i && ts.contains "integer")) := by
  induction ts with
  | nil => simp
  | cons t ts ih =>
    simp only [List.any_cons, ih, List.contains_cons]
    by_cases ht : t = "integer"
    · subst ht
      have h1 : (a == "integer") = false := by simpa using ha
      simp only [beq_self_eq_true, ↓reduceIte, h1, Bool.false_or, Bool.true_or, Bool.and_true]
      cases i <;> cases List.contains ts a <;> simp
    · have h1 : (t == "integer") = false := by simpa using ht
      have h2 : ("integer" == t) = false := by simpa using fun h => ht h.symm
      simp only [h1, Bool.false_eq_true, ↓reduceIte, h2, Bool.false_or]
      have h3 : (t == a) = (a == t) := by
        by_cases h : t = a
        · subst h; simp
        · have : (t == a) = false := by simpa using h
          have h' : (a == t) = false := by simpa using fun e => h e.symm
          rw [this, h']
      rw [h3, Bool.or_assoc]

theorem typeName_eq_goSchType (v : JVal) (hv : v.isNull = false) : v.typeName = goSchType v := by
  cases v <;> simp_all [JVal.typeName, goSchType, JVal.isNull]

theorem goSchType_ne_integer (v : JVal) : goSchType v ≠ "integer" := by
  cases v <;> simp [goSchType]

theorem any_typeMatches (types : List String) (v : JVal) (hv : v.isNull = false) :
    types.any (typeMatches · v) =
      (types.contains (goSchType v) || (v.isInteger && types.contains "integer")) := by
  have := any_ite_integer types (goSchType v) v.isInteger (goSchType_ne_integer v)
  rw [← this]
  congr 1
  funext t
  simp only [typeMatches, typeName_eq_goSchType v hv]

theorem type_verdict (cfg : Cfg) (O : Oracles) (b : SBase) (path : String) (v : JVal)
    (hv : v.isNull = false)
    (hfl : cfg.floatTolerance = true → OExact O)
    (hfmt : b.format ≠ "" → b.types ≠ [])
    (hby : cfg.formatBypassesType = true →
      b.format = "" ∨ b.types.contains "number" = true ∨ b.types.contains "integer" = true) :
    (typeValidate cfg O b path v).panicked = false ∧
    (!typeApplies b || (typeValidate cfg O b path v).ok) = typeOK b.types v := by
  unfold typeOK
  rw [any_typeMatches _ _ hv]
  have hint := intTest_exact cfg O hfl
  cases v with
  | null => simp [JVal.isNull] at hv
  | bool x =>
    unfold typeValidate typeApplies
    by_cases hf : b.format = ""
    · simp [hf, strOrSlice, goSchType, goFormat, JVal.isInteger]
      cases h : List.contains b.types "boolean" <;> cases h2 : b.types.isEmpty <;> simp_all
    · have := hfmt hf
      simp [hf, strOrSlice, goSchType, goFormat, JVal.isInteger, Ne.symm hf]
      cases h : List.contains b.types "boolean" <;> simp_all
  | num n =>
    unfold typeValidate typeApplies
    by_cases hf : b.format = ""
    · simp [hf, strOrSlice, goSchType, goFormat, JVal.isInteger, hint]
      cases h : List.contains b.types "number" <;> cases h2 : b.types.isEmpty <;>
        cases h3 : n.isInt <;> cases h4 : List.contains b.types "integer" <;> simp_all
    · have := hfmt hf
      simp [hf, strOrSlice, goSchType, goFormat, JVal.isInteger, hint]
      cases h : List.contains b.types "number" <;>
        cases h3 : n.isInt <;> cases h4 : List.contains b.types "integer" <;>
        cases h5 : ("float64" == b.format) <;> simp_all
  | str x =>
    unfold typeValidate typeApplies
    by_cases hf : b.format = ""
    · simp [hf, strOrSlice, goSchType, goFormat, JVal.isInteger]
      cases h : List.contains b.types "string" <;> cases h2 : b.types.isEmpty <;> simp_all
    · have := hfmt hf
      by_cases hb : cfg.formatBypassesType = true
      · rcases hby hb with h | h | h
        · exact absurd h hf
        · simp [hf, strOrSlice, goSchType, goFormat, JVal.isInteger, h]
          cases h' : List.contains b.types "string" <;> simp_all
        · simp [hf, strOrSlice, goSchType, goFormat, JVal.isInteger, h]
          cases h' : List.contains b.types "string" <;> simp_all
      · simp [hf, strOrSlice, goSchType, goFormat, JVal.isInteger, hb]
        cases h' : List.contains b.types "string" <;> simp_all
  | arr x =>
    unfold typeValidate typeApplies
    by_cases hf : b.format = ""
    · simp [hf, strOrSlice, goSchType, goFormat, JVal.isInteger]
      cases h : List.contains b.types "array" <;> cases h2 : b.types.isEmpty <;> simp_all
    · have := hfmt hf
      by_cases hb : cfg.formatBypassesType = true
      · rcases hby hb with h | h | h
        · exact absurd h hf
        · simp [hf, strOrSlice, goSchType, goFormat, JVal.isInteger, h]
          cases h' : List.contains b.types "array" <;> simp_all
        · simp [hf, strOrSlice, goSchType, goFormat, JVal.isInteger, h]
          cases h' : List.contains b.types "array" <;> simp_all
      · simp [hf, strOrSlice, goSchType, goFormat, JVal.isInteger, hb]
        cases h' : List.contains b.types "array" <;> simp_all
  | obj x =>
    unfold typeValidate typeApplies
    by_cases hf : b.format = ""
    · simp [hf, strOrSlice, goSchType, goFormat, JVal.isInteger]
      cases h : List.contains b.types "object" <;> cases h2 : b.types.isEmpty <;> simp_all
    · have := hfmt hf
      simp [hf, strOrSlice, goSchType, goFormat, JVal.isInteger, Ne.symm hf]
      cases h : List.contains b.types "object" <;> simp_all

/-! ### string and format -/

theorem gtOpt_eq (x : Int) (m : Option Int) : gtOpt x m = !atMost x m := by
  cases m with
  | none => simp [gtOpt, atMost]
  | some m => simp only [gtOpt, atMost]; by_cases h : x ≤ m <;> simp [h] <;> omega

theorem ltOpt_eq (x : Int) (m : Option Int) : ltOpt x m = !atLeast x m := by
  cases m with
  | none => simp [ltOpt, atLeast]
  | some m => simp only [ltOpt, atLeast]; by_cases h : m ≤ x <;> simp [h] <;> omega

theorem stringValidate_ok (O : Oracles) (b : SBase) (path : String) (s : String) :
    okOpt (stringValidate O b path s) =
      (!gtOpt s.length b.maxLength && !ltOpt s.length b.minLength
        && !(b.pattern != "" && O.re b.pattern s != some true)) := by
  unfold stringValidate
  cases gtOpt (↑s.length) b.maxLength <;> cases ltOpt (↑s.length) b.minLength <;>
    cases (b.pattern != "" && O.re b.pattern s != some true) <;> simp

theorem string_verdict (O : Oracles) (b : SBase) (path : String) (s : String) :
    panickedOpt (stringValidate O b path s) = false ∧
    (formatValidate O b path s).panicked = false ∧
    (okOpt (stringValidate O b path s) && (!O.fmtKnown b.format || (formatValidate O b path s).ok))
      = strOK O b (.str s) := by
  refine ⟨?_, ?_, ?_⟩
  · unfold stringValidate; split <;> (try split) <;> (try split) <;> simp
  · unfold formatValidate; split <;> rfl
  · rw [stringValidate_ok, gtOpt_eq, ltOpt_eq]
    unfold strOK formatValidate
    have hfmt : (if O.fmt b.format s = true then ({} : Res) else { errors := [eInvalidType path b.format] }).ok
        = O.fmt b.format s := by
      cases O.fmt b.format s <;> simp [Res.ok]
    rw [hfmt]
    have hpat : (!(b.pattern != "" && O.re b.pattern s != some true))
        = (b.pattern == "" || O.re b.pattern s == some true) := by
      simp only [bne]
      generalize (b.pattern == "") = p
      generalize (O.re b.pattern s == some true) = q
      cases p <;> cases q <;> rfl
    rw [hpat]
    simp [Bool.and_assoc]

/-! ### number -/

theorem number_verdict (cfg : Cfg) (O : Oracles) (b : SBase) (path : String) (n : Rat)
    (hfl : cfg.floatTolerance = true → OExact O)
    (hmul : ∀ m, b.multipleOf = some m → 0 < m) :
    (numberValidate cfg O b path n).panicked = false ∧
    (numberValidate cfg O b path n).ok = numOK b (.num n) := by
  have hm := mulTest_exact cfg O hfl n
  unfold numberValidate numOK maxOK minOK mulOK
  constructor
  · simp only [panicked_inc, panicked_merge, panicked_default, Bool.false_or]
    cases h1 : b.multipleOf <;> cases h2 : b.maximum <;> cases h3 : b.minimum <;>
      simp [Option.map] <;> (repeat' split) <;> simp
  · simp only [ok_inc, ok_merge, ok_default, Bool.true_and, List.all_cons, List.all_nil, Bool.and_true]
    cases h1 : b.multipleOf with
    | none =>
      cases h2 : b.maximum <;> cases h3 : b.minimum <;> cases b.exclMax <;> cases b.exclMin <;>
        simp [Option.map, Rat.not_lt, Rat.not_le] <;> (repeat' split) <;> simp_all [Rat.not_lt, Rat.not_le, Bool.and_comm]
    | some m =>
      have hpos := hmul m h1
      have hnle : ¬ m ≤ 0 := Rat.not_le.mpr hpos
      cases h2 : b.maximum <;> cases h3 : b.minimum <;> cases b.exclMax <;> cases b.exclMin <;>
        cases hq : (n / m).isInt <;>
        simp [Option.map, hnle, hm, hq, Rat.not_lt, Rat.not_le] <;> (repeat' split) <;>
        simp_all [Rat.not_lt, Rat.not_le, Bool.and_comm]

/-! ### enum -/

theorem common_verdict (cfg : Cfg) (b : SBase) (path : String) (v : JVal)
    (hn : cfg.enumSkipsNil = true → v.isNull = false) :
    panickedOpt (commonValidate cfg b path v) = false ∧
    okOpt (commonValidate cfg b path v) = enumOK b.enum v := by
  unfold commonValidate enumOK
  by_cases he : b.enum.isEmpty = true
  · simp [he]
  · have he' : b.enum.isEmpty = false := by simpa using he
    simp only [he', Bool.false_eq_true, ↓reduceIte, Bool.false_or]
    by_cases hc : cfg.enumSkipsNil = true
    · have := hn hc
      simp only [hc, this, Bool.and_false, Bool.false_eq_true, ↓reduceIte]
      split <;> simp_all
    · simp only [hc, Bool.false_and, Bool.false_eq_true, ↓reduceIte]
      split <;> simp_all

end VM
