/-
  C17, location: every error the validator tree reports is *under the root path it was given* — its name is the
  root path extended by the members / indices walked through — or carries no name at all (the two composite
  messages without a path: "array doesn't allow for additional items", and the model's fuel marker).
  For every schema, instance, oracle, configuration; options without the Swagger pre-checks (whose two
  messages name the missing keyword, not the location).
-/
import VM.Proofs.ResOk
import VM.Proofs.NoPanic
namespace VM
open Impl

/-- `a` is a prefix of `b` (as character sequences) -/
def pre (a b : String) : Prop := a.toList <+: b.toList

theorem pre_refl (a : String) : pre a a := List.prefix_refl _
theorem pre_trans {a b c : String} (h1 : pre a b) (h2 : pre b c) : pre a c := List.IsPrefix.trans h1 h2
theorem pre_append (a x : String) : pre a (a ++ x) := by simp [pre]
theorem pre_dot (p k : String) : pre p (dot p k) := by
  unfold dot; rw [String.append_assoc]; exact pre_append _ _
theorem pre_idx (p : String) (i : Nat) : pre p (idx p i) := by
  unfold idx; rw [String.append_assoc]; exact pre_append _ _
theorem pre_empty (b : String) : pre "" b := by simp [pre]

/-- the message is located under `path`, or carries no name -/
def Under (path : String) (m : Msg) : Prop := pre path m.name ∨ m.name = ""

theorem under_mono {p q : String} (h : pre p q) {m : Msg} (hm : Under q m) : Under p m := by
  rcases hm with hm | hm
  · exact Or.inl (pre_trans h hm)
  · exact Or.inr hm

/-- every error of the result is located under `path` -/
def Loc (path : String) (r : Res) : Prop := ∀ m ∈ r.errors, Under path m

def LocOpt (path : String) : Option Res → Prop
  | some r => Loc path r
  | none => True

theorem loc_mono {p q : String} (h : pre p q) {r : Res} (hr : Loc q r) : Loc p r := fun m hm => under_mono h (hr m hm)
theorem loc_empty (p : String) : Loc p ({} : Res) := by intro m hm; cases hm
theorem loc_emptyResult (p : String) : Loc p emptyResult := by intro m hm; cases hm
theorem loc_sErr (p : String) (e : Msg) (h : Under p e) : Loc p (sErr e) := by
  intro m hm; simp only [sErr, List.mem_singleton] at hm; subst hm; exact h
theorem loc_inc {p : String} {r : Res} (h : Loc p r) : Loc p r.inc := h
theorem loc_absorb {p : String} {r : Res} (o : Res) (h : Loc p r) : Loc p (absorb r o) := h

theorem loc_mergeOne {p : String} {r o : Res} (h1 : Loc p r) (h2 : Loc p o) : Loc p (r.mergeOne o) := by
  intro m hm
  simp only [Res.mergeOne, mem_addMsgs, List.mem_map, Option.some.injEq, exists_eq_right] at hm
  rcases hm with hm | hm
  · exact h1 m hm
  · exact h2 m hm

theorem loc_addErrors {p : String} {r : Res} (es : List (Option Msg)) (h1 : Loc p r) (h2 : ∀ m, some m ∈ es → Under p m) :
    Loc p (r.addErrors es) := by
  intro m hm
  simp only [Res.addErrors, mem_addMsgs] at hm
  rcases hm with hm | hm
  · exact h1 m hm
  · exact h2 m hm

theorem loc_merge {p : String} {r : Res} (os : List (Option Res)) (h1 : Loc p r) (h2 : ∀ o ∈ os, LocOpt p o) : Loc p (r.merge os) := by
  induction os generalizing r with
  | nil => exact h1
  | cons o os ih =>
    cases o with
    | none => simp only [Res.merge]; exact ih h1 (fun x hx => h2 x (List.mem_cons_of_mem _ hx))
    | some x =>
      simp only [Res.merge]
      exact ih (loc_mergeOne h1 (h2 (some x) List.mem_cons_self)) (fun y hy => h2 y (List.mem_cons_of_mem _ hy))

theorem loc_ite {p : String} (c : Prop) [Decidable c] (a b : Res) (ha : Loc p a) (hb : Loc p b) : Loc p (if c then a else b) := by
  split <;> assumption

theorem under_self (p : String) (m : Msg) (h : m.name = p) : Under p m := Or.inl (by rw [h]; exact pre_refl p)

/-- a child validator: whatever path it is called with, its errors are under that path -/
def LV (f : V) : Prop := ∀ p x, Loc p (f p x)

structure KidsLV (k : IKids) : Prop where
  itemsS : ∀ f, k.itemsS = some f → LV f
  itemsT : ∀ f ∈ k.itemsT, LV f
  addItemsS : ∀ f, k.addItemsS = some f → LV f
  props : ∀ nf ∈ k.props, LV nf.2
  patProps : ∀ nf ∈ k.patProps, LV nf.2
  addPropsS : ∀ f, k.addPropsS = some f → LV f
  depSchemas : ∀ nf ∈ k.depSchemas, LV nf.2
  allOf : ∀ f ∈ k.allOf, LV f
  anyOf : ∀ f ∈ k.anyOf, LV f
  oneOf : ∀ f ∈ k.oneOf, LV f
  not : ∀ f, k.not = some f → LV f

/-! ### leaves -/

theorem typeValidate_loc (cfg : Cfg) (O : Oracles) (b : SBase) (path : String) (v : JVal) : Loc path (typeValidate cfg O b path v) := by
  unfold typeValidate
  have e1 : ∀ t, Loc path (sErr (eInvalidType path t)) := fun t => loc_sErr _ _ (under_self _ _ rfl)
  split
  · exact loc_ite _ _ _ (e1 _) (loc_emptyResult _)
  · exact loc_ite _ _ _ (e1 _) (loc_ite _ _ _ (loc_emptyResult _) (loc_ite _ _ _ (e1 _) (loc_emptyResult _)))

theorem stringValidate_loc (O : Oracles) (b : SBase) (path : String) (s : String) : LocOpt path (stringValidate O b path s) := by
  unfold stringValidate
  split
  · exact loc_sErr _ _ (under_self _ _ rfl)
  · split
    · exact loc_sErr _ _ (under_self _ _ rfl)
    · split
      · exact loc_sErr _ _ (under_self _ _ rfl)
      · trivial

theorem formatValidate_loc (O : Oracles) (b : SBase) (path : String) (s : String) : Loc path (formatValidate O b path s) := by
  unfold formatValidate
  split
  · exact loc_empty _
  · intro m hm; simp only [List.mem_singleton] at hm; subst hm; exact under_self _ _ rfl

theorem numberValidate_loc (cfg : Cfg) (O : Oracles) (b : SBase) (path : String) (n : Rat) : Loc path (numberValidate cfg O b path n) := by
  unfold numberValidate
  apply loc_inc
  apply loc_merge _ (loc_empty _)
  intro o ho
  simp only [List.mem_cons, List.mem_nil_iff, or_false] at ho
  rcases ho with rfl | rfl | rfl
  · cases b.multipleOf with
    | none => trivial
    | some m =>
      simp only [Option.map_some, LocOpt]
      exact loc_ite _ _ _ (loc_sErr _ _ (under_self _ _ rfl)) (loc_ite _ _ _ (loc_empty _) (loc_sErr _ _ (under_self _ _ rfl)))
  · cases b.minimum with
    | none => trivial
    | some m => simp only [Option.map_some, LocOpt]; exact loc_ite _ _ _ (loc_sErr _ _ (under_self _ _ rfl)) (loc_empty _)
  · cases b.maximum with
    | none => trivial
    | some m => simp only [Option.map_some, LocOpt]; exact loc_ite _ _ _ (loc_sErr _ _ (under_self _ _ rfl)) (loc_empty _)

theorem locOpt_ite {p : String} (c : Prop) [Decidable c] (a b : Option Res) (ha : LocOpt p a) (hb : LocOpt p b) :
    LocOpt p (if c then a else b) := by
  split <;> assumption

theorem commonValidate_loc (cfg : Cfg) (b : SBase) (path : String) (v : JVal) : LocOpt path (commonValidate cfg b path v) := by
  unfold commonValidate
  exact locOpt_ite _ _ _ trivial (locOpt_ite _ _ _ trivial (loc_sErr _ _ (under_self _ _ rfl)))

/-! ### slices -/

theorem itemsLoop_loc (f : V) (hf : LV f) (path : String) (xs : List JVal) (i : Nat) (acc : Res) (h : Loc path acc) :
    Loc path (itemsLoop f path xs i acc) := by
  induction xs generalizing i acc with
  | nil => exact h
  | cons x xs ih => simp only [itemsLoop]; exact ih _ _ (loc_mergeOne h (hf path x))

theorem tupleLoop_loc (path : String) (fs : List V) (hfs : ∀ f ∈ fs, LV f) (xs : List JVal) (i : Nat) (acc : Res)
    (h : Loc path acc) : Loc path (tupleLoop path fs xs i acc) := by
  induction fs generalizing xs i acc with
  | nil => simpa [tupleLoop] using h
  | cons f fs ih =>
    cases xs with
    | nil => simpa [tupleLoop] using h
    | cons x xs =>
      simp only [tupleLoop]
      exact ih (fun g hg => hfs g (List.mem_cons_of_mem _ hg)) _ _ _
        (loc_mergeOne h (loc_mono (pre_idx path i) (hfs f List.mem_cons_self (idx path i) x)))

theorem addlLoop_loc (f : V) (hf : LV f) (path : String) (xs : List JVal) (fuel i : Nat) (acc : Res) (h : Loc path acc) :
    Loc path (addlLoop f path xs fuel i acc) := by
  induction fuel generalizing i acc with
  | zero => exact h
  | succ fuel ih =>
    simp only [addlLoop]
    split
    · exact loc_absorb _ h
    · rename_i x _
      exact ih (i + 1) _ (loc_mergeOne h (loc_mono (pre_idx path i) (hf (idx path i) x)))

theorem addlPart_loc (cfg : Cfg) (b : SBase) (k : IKids) (hk : KidsLV k) (path : String) (xs : List JVal) (r2 : Res)
    (h : Loc path r2) : Loc path (addlPart cfg b k path xs r2) := by
  unfold addlPart
  simp only []
  split
  · have hr : Loc path (if (k.itemsT.length > 0 && b.addItems == .bool false) = true then r2.addErrors [some eNoAddlItems] else r2) := by
      apply loc_ite _ _ _ _ h
      exact loc_addErrors _ h (fun m hm => by
        simp only [List.mem_singleton, Option.some.injEq] at hm; subst hm; exact Or.inr rfl)
    split
    · rename_i f _ hm2
      split
      · exact addlLoop_loc f (hk.addItemsS f hm2) path xs _ _ _ hr
      · split
        · exact addlLoop_loc f (hk.addItemsS f hm2) path xs _ _ _ hr
        · exact hr
    · exact hr
  · exact h

theorem sizePart_loc (b : SBase) (path : String) (xs : List JVal) (r3 : Res) (h : Loc path r3) : Loc path (sizePart b path xs r3) := by
  unfold sizePart
  simp only []
  apply loc_inc
  have one (r : Res) (hr : Loc path r) (e : Msg) (he : e.name = path) : Loc path (r.addErrors [some e]) :=
    loc_addErrors _ hr (fun m hm => by
      simp only [List.mem_singleton, Option.some.injEq] at hm; subst hm; exact under_self _ _ he)
  have h4 := loc_ite (ltOpt (↑xs.length) b.minItems = true) _ _ (one r3 h (eMinItems path) rfl) h
  have h5 := loc_ite (gtOpt (↑xs.length) b.maxItems = true) _ _ (one _ h4 (eMaxItems path) rfl) h4
  exact loc_ite _ _ _ (one _ h5 (eUnique path) rfl) h5

theorem sliceValidate_loc (cfg : Cfg) (b : SBase) (k : IKids) (hk : KidsLV k) (path : String) (xs : List JVal) :
    Loc path (sliceValidate cfg b k path xs) := by
  unfold sliceValidate
  apply sizePart_loc
  apply addlPart_loc cfg b k hk
  apply tupleLoop_loc _ _ hk.itemsT
  cases hi : k.itemsS with
  | none => exact loc_empty _
  | some f => exact itemsLoop_loc f (hk.itemsS f hi) _ _ _ _ (loc_empty _)

/-! ### composition -/

theorem keepRelevant_loc (cfg : Cfg) (path : String) (r : Res) (h : Loc path r) : Loc path (keepRelevant cfg r) := by
  unfold keepRelevant
  split
  · intro m hm
    simp only [List.mem_map, List.mem_filter] at hm
    obtain ⟨m0, ⟨hm0, _⟩, rfl⟩ := hm
    exact h m0 hm0
  · exact loc_empty _

theorem add_one {p : String} {r : Res} (h : Loc p r) (e : Msg) (he : Under p e) : Loc p (r.addErrors [some e]) :=
  loc_addErrors _ h (fun m hm => by simp only [List.mem_singleton, Option.some.injEq] at hm; subst hm; exact he)

theorem anyOfLoop_loc (cfg : Cfg) (path : String) (v : JVal) (fs : List V) (hfs : ∀ f ∈ fs, LV f) (best : Option Res)
    (main keep : Res) (hb : LocOpt path best) (hm : Loc path main) (hk : Loc path keep) :
    Loc path (anyOfLoop cfg path v fs best main keep).1 ∧ Loc path (anyOfLoop cfg path v fs best main keep).2 := by
  induction fs generalizing best main keep with
  | nil =>
    simp only [anyOfLoop]
    exact ⟨loc_merge _ (add_one hm _ (under_self _ _ rfl)) (fun o ho => by
      simp only [List.mem_singleton] at ho; subst ho; exact hb), hk⟩
  | cons f fs ih =>
    have hf := hfs f List.mem_cons_self path v
    have hrest : ∀ g ∈ fs, LV g := fun g hg => hfs g (List.mem_cons_of_mem _ hg)
    simp only [anyOfLoop]
    split
    · exact ⟨loc_mergeOne (loc_absorb _ hm) hf, loc_empty _⟩
    · split
      · exact ih hrest _ _ _ hf (loc_absorb _ hm) (loc_mergeOne hk (keepRelevant_loc cfg path _ hf))
      · exact ih hrest _ _ _ hb (loc_absorb _ hm) (loc_mergeOne hk (keepRelevant_loc cfg path _ hf))

theorem oneOfLoop_loc (cfg : Cfg) (path : String) (v : JVal) (fs : List V) (hfs : ∀ f ∈ fs, LV f) (first best : Option Res)
    (n : Nat) (main keep : Res) (hfi : LocOpt path first) (hb : LocOpt path best) (hm : Loc path main) (hk : Loc path keep) :
    Loc path (oneOfLoop cfg path v fs first best n main keep).1 ∧ Loc path (oneOfLoop cfg path v fs first best n main keep).2 := by
  induction fs generalizing first best n main keep with
  | nil =>
    simp only [oneOfLoop]
    have one (o : Option Res) (ho : LocOpt path o) (r : Res) (hr : Loc path r) : Loc path (r.merge [o]) :=
      loc_merge _ hr (fun x hx => by simp only [List.mem_singleton] at hx; subst hx; exact ho)
    split
    · exact ⟨one best hb _ (add_one hm _ (under_self _ _ rfl)), hk⟩
    · exact ⟨one first hfi _ hm, hk⟩
    · exact ⟨one best hb _ (add_one hm _ (under_self _ _ rfl)), hk⟩
  | cons f fs ih =>
    have hf := hfs f List.mem_cons_self path v
    have hrest : ∀ g ∈ fs, LV g := fun g hg => hfs g (List.mem_cons_of_mem _ hg)
    simp only [oneOfLoop]
    split
    · refine ih hrest _ _ _ _ _ ?_ hb (loc_absorb _ hm) (loc_empty _)
      split
      · exact hf
      · exact hfi
    · split
      · exact ih hrest _ _ _ _ _ hfi hf (loc_absorb _ hm) (loc_mergeOne hk (keepRelevant_loc cfg path _ hf))
      · exact ih hrest _ _ _ _ _ hfi hb (loc_absorb _ hm) (loc_mergeOne hk (keepRelevant_loc cfg path _ hf))

theorem allOfLoop_loc (cfg : Cfg) (path : String) (v : JVal) (total : Nat) (fs : List V) (hfs : ∀ f ∈ fs, LV f) (n : Nat)
    (main keep : Res) (hm : Loc path main) (hk : Loc path keep) :
    Loc path (allOfLoop cfg path v total fs n main keep).1 ∧ Loc path (allOfLoop cfg path v total fs n main keep).2 := by
  induction fs generalizing n main keep with
  | nil =>
    simp only [allOfLoop]
    split
    · exact ⟨add_one hm _ (under_self _ _ rfl), hk⟩
    · split
      · exact ⟨hm, hk⟩
      · exact ⟨add_one hm _ (under_self _ _ rfl), hk⟩
  | cons f fs ih =>
    have hf := hfs f List.mem_cons_self path v
    have hrest : ∀ g ∈ fs, LV g := fun g hg => hfs g (List.mem_cons_of_mem _ hg)
    simp only [allOfLoop]
    exact ih hrest _ _ _ (loc_mergeOne hm hf) (loc_mergeOne hk (keepRelevant_loc cfg path _ hf))

theorem alookup_mem_lv {k : String} {l : List (String × V)} {f : V} (h : alookup k l = some f) (hl : ∀ nf ∈ l, LV nf.2) : LV f := by
  induction l with
  | nil => simp [alookup] at h
  | cons p ps ih =>
    obtain ⟨k', g⟩ := p
    simp only [alookup] at h
    split at h
    · cases h; exact hl (k', f) List.mem_cons_self
    · exact ih h (fun nf hnf => hl nf (List.mem_cons_of_mem _ hnf))

theorem depsLoop_loc (b : SBase) (k : IKids) (hk : KidsLV k) (path : String) (v : JVal) (kvs rest : List (String × JVal))
    (main : Res) (hm : Loc path main) : Loc path (depsLoop b k path v kvs rest main) := by
  induction rest generalizing main with
  | nil => exact hm
  | cons kv rest ih =>
    obtain ⟨key, x⟩ := kv
    simp only [depsLoop]
    split
    · rename_i f hf
      exact ih _ (loc_mergeOne hm (loc_mono (pre_dot path key) (alookup_mem_lv hf hk.depSchemas (dot path key) v)))
    · split
      · apply ih
        apply loc_addErrors _ hm
        intro m hm'
        simp only [List.mem_map] at hm'
        obtain ⟨d, _, hd⟩ := hm'
        split at hd
        · cases hd
        · simp only [Option.some.injEq] at hd; subst hd; exact under_self _ _ rfl
      · exact ih _ hm

theorem schemaPropsValidate_loc (cfg : Cfg) (b : SBase) (k : IKids) (hk : KidsLV k) (path : String) (v : JVal) :
    Loc path (schemaPropsValidate cfg b k path v) := by
  unfold schemaPropsValidate
  have h1 : Loc path (anyOfPart cfg k path v {}).1 ∧ LocOpt path (anyOfPart cfg k path v {}).2 := by
    unfold anyOfPart
    split
    · exact ⟨loc_empty _, trivial⟩
    · exact anyOfLoop_loc cfg path v k.anyOf hk.anyOf none {} {} trivial (loc_empty _) (loc_empty _)
  have h2 : Loc path (oneOfPart cfg k path v (anyOfPart cfg k path v {}).1).1
      ∧ LocOpt path (oneOfPart cfg k path v (anyOfPart cfg k path v {}).1).2 := by
    unfold oneOfPart
    split
    · exact ⟨h1.1, trivial⟩
    · exact oneOfLoop_loc cfg path v k.oneOf hk.oneOf none none 0 _ {} trivial trivial h1.1 (loc_empty _)
  have h3 : Loc path (allOfPart cfg k path v (oneOfPart cfg k path v (anyOfPart cfg k path v {}).1).1).1
      ∧ LocOpt path (allOfPart cfg k path v (oneOfPart cfg k path v (anyOfPart cfg k path v {}).1).1).2 := by
    unfold allOfPart
    split
    · exact ⟨h2.1, trivial⟩
    · exact allOfLoop_loc cfg path v _ k.allOf hk.allOf 0 _ {} h2.1 (loc_empty _)
  have h4 : ∀ main : Res, Loc path main → Loc path (notPart k path v main) := by
    intro main hm
    unfold notPart
    split
    · simp only []
      exact loc_ite _ _ _ (add_one (loc_absorb _ hm) _ (under_self _ _ rfl)) (loc_absorb _ hm)
    · exact hm
  have h5 : ∀ main : Res, Loc path main → Loc path (depsPart b k path v main) := by
    intro main hm
    unfold depsPart
    split
    · split
      · exact hm
      · exact depsLoop_loc b k hk path _ _ _ main hm
    · exact hm
  apply loc_merge _ (loc_inc (h5 _ (h4 _ h3.1)))
  intro o ho
  simp only [List.mem_cons, List.mem_nil_iff, or_false] at ho
  rcases ho with rfl | rfl | rfl
  · exact h3.2
  · exact h2.2
  · exact h1.2

/-! ### object validator -/

theorem patApply_loc (O : Oracles) (path key : String) (x : JVal) (pats : List (String × V)) (hp : ∀ nf ∈ pats, LV nf.2)
    (res : Res) (matched : Bool) (acc : List String) (h : Loc path res) :
    Loc path (patApply O path key x pats res matched acc).1 := by
  induction pats generalizing res matched acc with
  | nil => exact h
  | cons pf rest ih =>
    obtain ⟨p, f⟩ := pf
    have hrest : ∀ nf ∈ rest, LV nf.2 := fun nf hnf => hp nf (List.mem_cons_of_mem _ hnf)
    have hf : LV f := hp (p, f) List.mem_cons_self
    simp only [patApply]
    split
    · exact ih hrest _ _ _ (loc_mergeOne h (loc_mono (pre_dot path key) (hf (dot path key) x)))
    · exact ih hrest _ _ _ h

theorem headerRefErrors_under (path : String) (x : JVal) : ∀ m, some m ∈ headerRefErrors path x → Under path m := by
  intro m hm
  unfold headerRefErrors at hm
  split at hm
  · simp only [List.mem_map] at hm
    obtain ⟨hb, _, heq⟩ := hm
    split at heq
    · split at heq
      · simp only [Option.some.injEq] at heq; subst heq; exact under_self _ _ rfl
      · cases heq
    · cases heq
  · cases hm

theorem noAdditionalLoop_loc (cfg : Cfg) (O : Oracles) (k : IKids) (path : String) (kvs : List (String × JVal)) (res : Res)
    (h : Loc path res) : Loc path (noAdditionalLoop cfg O k path kvs res) := by
  induction kvs generalizing res with
  | nil => exact h
  | cons kv rest ih =>
    obtain ⟨key, x⟩ := kv
    simp only [noAdditionalLoop]
    split
    · exact ih _ h
    · split
      · exact ih _ h
      · split
        · exact ih _ h
        · apply ih
          have h1 := add_one h (eUnallowedProp path key) (under_self _ _ rfl)
          exact loc_ite _ _ _ (loc_addErrors _ h1 (headerRefErrors_under path x)) h1

theorem additionalLoop_loc (O : Oracles) (k : IKids) (hk : KidsLV k) (path : String) (kvs : List (String × JVal)) (res : Res)
    (h : Loc path res) : Loc path (additionalLoop O k path kvs res) := by
  induction kvs generalizing res with
  | nil => exact h
  | cons kv rest ih =>
    obtain ⟨key, x⟩ := kv
    simp only [additionalLoop]
    split
    · exact ih _ h
    · have hp := patApply_loc O path key x k.patProps hk.patProps res false [] h
      split
      · exact ih _ hp
      · split
        · rename_i f hf
          exact ih _ (loc_mergeOne hp (loc_mono (pre_dot path key) (hk.addPropsS f hf (dot path key) x)))
        · exact ih _ hp

theorem propsLoop_loc (path : String) (kvs : List (String × JVal)) (props : List (String × V)) (hp : ∀ nf ∈ props, LV nf.2)
    (res : Res) (h : Loc path res) : Loc path (propsLoop path kvs props res) := by
  induction props generalizing res with
  | nil => exact h
  | cons nf rest ih =>
    obtain ⟨name, f⟩ := nf
    have hrest : ∀ nf ∈ rest, LV nf.2 := fun nf hnf => hp nf (List.mem_cons_of_mem _ hnf)
    have hf : LV f := hp (name, f) List.mem_cons_self
    simp only [propsLoop]
    split
    · rename_i x _
      apply ih hrest
      apply loc_mergeOne h
      by_cases hpath : path = ""
      · subst hpath
        exact loc_mono (pre_empty _) (hf _ x)
      · have : (path == "") = false := by simpa using hpath
        simp only [this, Bool.false_eq_true, ↓reduceIte]
        exact loc_mono (pre_dot path name) (hf _ x)
    · exact ih hrest _ h

theorem foldPats_loc (k : IKids) (hk : KidsLV k) (path key : String) (x : JVal) (pats : List String) (res : Res)
    (h : Loc path res) :
    Loc path (pats.foldl (fun acc p => match alookup p k.patProps with
        | some f => acc.mergeOne (f (dot path key) x)
        | none => acc) res) := by
  induction pats generalizing res with
  | nil => exact h
  | cons p rest ih =>
    simp only [List.foldl_cons]
    apply ih
    split
    · rename_i f hf
      exact loc_mergeOne h (loc_mono (pre_dot path key) (alookup_mem_lv hf hk.patProps (dot path key) x))
    · exact h

theorem patSecondLoop_loc (O : Oracles) (k : IKids) (hk : KidsLV k) (path : String) (kvs : List (String × JVal)) (res : Res)
    (h : Loc path res) : Loc path (patSecondLoop O k path kvs res) := by
  induction kvs generalizing res with
  | nil => exact h
  | cons kv rest ih =>
    obtain ⟨key, x⟩ := kv
    simp only [patSecondLoop]
    have hp := patApply_loc O path key x k.patProps hk.patProps res false [] h
    split
    · exact ih _ hp
    · exact ih _ (foldPats_loc k hk path key x _ _ hp)

/-- without the Swagger pre-checks nothing is added before the loops -/
theorem precheck_off (path : String) (kvs : List (String × JVal)) (res : Res) :
    precheck {} path kvs res = res := by
  simp [precheck]

theorem objectValidate_loc (cfg : Cfg) (O : Oracles) (b : SBase) (defaults : List String) (k : IKids) (hk : KidsLV k)
    (path : String) (kvs : List (String × JVal)) : Loc path (objectValidate cfg {} O b defaults k path kvs) := by
  unfold objectValidate
  simp only [precheck_off]
  split
  · exact loc_sErr _ _ (under_self _ _ rfl)
  · split
    · exact loc_sErr _ _ (under_self _ _ rfl)
    · apply patSecondLoop_loc O k hk
      apply loc_addErrors
      · apply propsLoop_loc _ _ _ hk.props
        split
        · exact noAdditionalLoop_loc cfg O k path kvs _ (loc_empty _)
        · exact additionalLoop_loc O k hk path kvs _ (loc_empty _)
      · intro m hm
        simp only [List.mem_map] at hm
        obtain ⟨name, _, hn⟩ := hm
        split at hn
        · cases hn
        · split at hn
          · cases hn
          · simp only [Option.some.injEq] at hn; subst hn
            exact Or.inl (pre_dot path name)

/-! ### one node, the tree, references by fuel -/

theorem loc_step {p : String} (a : Bool) (res : Option Res) (acc : Res) (h1 : Loc p acc) (h2 : LocOpt p res) : Loc p (step a res acc) := by
  unfold step
  split
  · exact loc_inc (loc_merge _ h1 (fun o ho => by simp only [List.mem_singleton] at ho; subst ho; exact h2))
  · exact h1

theorem nodeValidate_loc (cfg : Cfg) (O : Oracles) (b : SBase) (defaults : Defaults) (k : IKids) (hk : KidsLV k)
    (path : String) (v : JVal) : Loc path (nodeValidate cfg {} O b defaults k path v) := by
  unfold nodeValidate
  have hT : LocOpt path (some (typeValidate cfg O b path v)) := typeValidate_loc cfg O b path v
  have hP : LocOpt path (some (schemaPropsValidate cfg b k path v)) := schemaPropsValidate_loc cfg b k hk path v
  have hC := commonValidate_loc cfg b path v
  split
  · exact loc_merge _ (loc_merge _ (loc_empty _) (fun o ho => by simp only [List.mem_singleton] at ho; subst ho; exact hT))
      (fun o ho => by simp only [List.mem_singleton] at ho; subst ho; exact hC)
  · apply loc_inc
    have s1 := loc_step (typeApplies b) _ _ (loc_empty path) hT
    have s2 := loc_step true _ _ s1 hP
    cases v with
    | null => exact loc_step true _ _ s2 hC
    | bool x => exact loc_step true _ _ s2 hC
    | num n =>
      exact loc_step true _ _ (loc_step true _ _ s2 (numberValidate_loc cfg O b path n)) hC
    | str s =>
      exact loc_step true _ _ (loc_step _ _ _ (loc_step true _ _ s2 (stringValidate_loc O b path s)) (formatValidate_loc O b path s)) hC
    | arr xs =>
      exact loc_step true _ _ (loc_step true _ _ s2 (sliceValidate_loc cfg b k hk path xs)) hC
    | obj kvs =>
      exact loc_step true _ _ (loc_step true _ _ s2 hC) (objectValidate_loc cfg O b defaults k hk path kvs)

section
variable (cfg : Cfg) (O : Oracles) (r : String → V) (hr : ∀ name, LV (r name))
include hr

mutual
theorem validate_loc (s : Schema) : LV (validate cfg {} O r s) := by
  match s with
  | .mk b itemsS itemsT addItemsS props patProps addPropsS depSchemas allOf anyOf oneOf nt =>
    intro p x
    rw [validate_mk']
    split
    · exact hr b.ref p x
    · apply nodeValidate_loc
      constructor
      · intro f hf
        cases itemsS with
        | none => cases hf
        | some s' => cases hf; exact validate_loc s'
      · exact validateL_loc itemsT
      · intro f hf
        cases addItemsS with
        | none => cases hf
        | some s' => cases hf; exact validate_loc s'
      · exact validateM_loc props
      · exact validateM_loc patProps
      · intro f hf
        cases addPropsS with
        | none => cases hf
        | some s' => cases hf; exact validate_loc s'
      · exact validateM_loc depSchemas
      · exact validateL_loc allOf
      · exact validateL_loc anyOf
      · exact validateL_loc oneOf
      · intro f hf
        cases nt with
        | none => cases hf
        | some s' => cases hf; exact validate_loc s'
theorem validateL_loc (l : List Schema) : ∀ f ∈ validateL cfg {} O r l, LV f := by
  match l with
  | [] => intro f hf; simp [validateL] at hf
  | s :: ss =>
    intro f hf
    simp only [validateL, List.mem_cons] at hf
    rcases hf with rfl | hf
    · exact validate_loc s
    · exact validateL_loc ss f hf
theorem validateM_loc (l : List (String × Schema)) : ∀ nf ∈ validateM cfg {} O r l, LV nf.2 := by
  match l with
  | [] => intro nf hnf; simp [validateM] at hnf
  | (name, s) :: ps =>
    intro nf hnf
    simp only [validateM, List.mem_cons] at hnf
    rcases hnf with rfl | hnf
    · exact validate_loc s
    · exact validateM_loc ps nf hnf
end
end

theorem validateF_loc (cfg : Cfg) (O : Oracles) (defs : String → Option Schema) (n : Nat) (s : Schema) :
    LV (validateF cfg {} O defs n s) := by
  induction n generalizing s with
  | zero =>
    simp only [validateF]
    exact validate_loc cfg O _ (fun name p x => loc_sErr _ _ (Or.inr rfl)) s
  | succ n ih =>
    simp only [validateF]
    refine validate_loc cfg O _ (fun name p x => ?_) s
    cases hd : defs name with
    | none => simp only []; intro m hm; cases hm
    | some t => simp only []; exact ih t p x

end VM
