import VM.Spec.Locations
import VM.Proofs.PipelineProof
namespace VM.Sw
open VM

theorem isVisited_repaired (p : String) (vis : List String) : isVisited DCfg.repaired p vis = false := by
  simp [isVisited, DCfg.repaired]

/-! ### unfolding of the specification -/

theorem Exp_mk (J : Judges) (O : Oracles) (w : Which) (inn : String) (b : SBase) (itemsS : Option Schema) (itemsT : List Schema)
    (addItemsS : Option Schema) (props patProps : List (String × Schema)) (addPropsS : Option Schema)
    (deps : List (String × Schema)) (allOf anyOf oneOf : List Schema) (nt : Option Schema) (path : String) (m : Msg) :
    Exp J O w inn (.mk b itemsS itemsT addItemsS props patProps addPropsS deps allOf anyOf oneOf nt) path m =
    (ownJudged J w (.mk b itemsS itemsT addItemsS props patProps addPropsS deps allOf anyOf oneOf nt) path m
    ∨ (match itemsS with | some s => Exp J O w inn s (path ++ ".items." ++ w.suffix) m | none => False)
    ∨ ExpL J O w inn itemsT path 0 m
    ∨ ownPattern O w inn b path m
    ∨ (match addItemsS with | some s => Exp J O w inn s (path ++ ".additionalItems") m | none => False)
    ∨ ExpM J O w inn props path m
    ∨ ExpM J O w inn patProps path m
    ∨ (match addPropsS with | some s => Exp J O w inn s (path ++ ".additionalProperties") m | none => False)
    ∨ ExpA J O w inn allOf path 0 m) := by
  cases itemsS <;> cases addItemsS <;> cases addPropsS <;> rfl

theorem ExpL_cons (J : Judges) (O : Oracles) (w : Which) (inn : String) (s : Schema) (ss : List Schema) (path : String) (i : Nat) (m : Msg) :
    ExpL J O w inn (s :: ss) path i m =
      (Exp J O w inn s (path ++ ".items[" ++ toString i ++ "]." ++ w.suffix) m ∨ ExpL J O w inn ss path (i + 1) m) := rfl
theorem ExpM_cons (J : Judges) (O : Oracles) (w : Which) (inn : String) (name : String) (s : Schema) (ps : List (String × Schema))
    (path : String) (m : Msg) :
    ExpM J O w inn ((name, s) :: ps) path m = (Exp J O w inn s (path ++ "." ++ name) m ∨ ExpM J O w inn ps path m) := rfl
theorem ExpA_cons (J : Judges) (O : Oracles) (w : Which) (inn : String) (s : Schema) (ss : List Schema) (path : String) (i : Nat) (m : Msg) :
    ExpA J O w inn (s :: ss) path i m =
      (Exp J O w inn s (path ++ ".allOf[" ++ toString i ++ "]") m ∨ ExpA J O w inn ss path (i + 1) m) := rfl

/-! ### membership through the merges -/

theorem mem_reportedOf_mergeOne (w : Which) (r x : Res) (m : Msg) :
    m ∈ reportedOf w (r.mergeOne x) ↔ m ∈ reportedOf w r ∨ m ∈ reportedOf w x := by
  cases w <;> simp [reportedOf, Res.mergeOne, mem_addMsgs]

theorem mem_reportedOf_mergeJ (w : Which) (r j : Res) (m : Msg) :
    m ∈ reportedOf w (mergeJ w r j) ↔ m ∈ reportedOf w r ∨ m ∈ judgedOf w j := by
  cases w
  · simp [reportedOf, judgedOf, mergeJ, Res.mergeOne, mem_addMsgs]
  · simp [reportedOf, judgedOf, mergeJ, Res.mergeAsWarningsOne, mem_addMsgs, or_assoc]

theorem mem_reportedOf_addError (w : Which) (r : Res) (e m : Msg) :
    m ∈ reportedOf w (r.addErrors [some e]) ↔ m ∈ reportedOf w r ∨ (w = .dflt ∧ m = e) := by
  cases w <;> simp [reportedOf, Res.addErrors, mem_addMsgs]

theorem not_mem_reportedOf_empty (w : Which) (m : Msg) : ¬ m ∈ reportedOf w ({} : Res) := by
  cases w <;> simp [reportedOf]

theorem thenOpt_mem (w : Which) (st : WSt) (f : List String → Option Res × List String) (P : Msg → Prop)
    (h : ∃ r, (f st.2).1 = some r ∧ ∀ m, (m ∈ reportedOf w r ↔ P m)) (m : Msg) :
    m ∈ reportedOf w (thenOpt st f).1 ↔ m ∈ reportedOf w st.1 ∨ P m := by
  obtain ⟨r, hr, hm⟩ := h
  simp only [thenOpt, hr, mergeOpt]
  rw [mem_reportedOf_mergeOne, hm]

variable (J : Judges) (O : Oracles) (w : Which) (inn : String)

theorem own_mem (J : Judges) (w : Which) (s0 : Schema) (b : SBase) (hb : s0.base = b) (path : String) (m : Msg) :
    m ∈ reportedOf w (match w.value b with
          | some v => mergeJ w {} (J.schema s0 (path ++ "." ++ w.suffix) v)
          | none => ({} : Res))
      ↔ ownJudged J w s0 path m := by
  simp only [ownJudged, hb]
  cases w.value b with
  | none => simp [not_mem_reportedOf_empty]
  | some v => simp [mem_reportedOf_mergeJ, not_mem_reportedOf_empty]

theorem pat_mem (O : Oracles) (w : Which) (inn : String) (b : SBase) (path : String) (r : Res) (m : Msg) :
    m ∈ reportedOf w (if patOK O b.pattern = true then r
          else r.addErrors [some (mkMsg "invalidPatternIn" [path, inn, b.pattern])])
      ↔ m ∈ reportedOf w r ∨ ownPattern O w inn b path m := by
  cases hp : patOK O b.pattern with
  | true => simp [ownPattern, hp]
  | false => simp [ownPattern, hp, mem_reportedOf_addError]

mutual
theorem walk_mem (s : Schema) (path : String) (vis : List String) :
    ∃ r, (walk DCfg.repaired J w O inn s path vis).1 = some r ∧ ∀ m, (m ∈ reportedOf w r ↔ Exp J O w inn s path m) := by
  match s with
  | .mk b itemsS itemsT addItemsS props patProps addPropsS deps allOf anyOf oneOf nt =>
    have hL := fun st m => walkL_mem itemsT path 0 st m
    have hP1 := fun st m => walkM_mem props path st m
    have hP2 := fun st m => walkM_mem patProps path st m
    have hA := fun st m => walkA_mem allOf path 0 st m
    have hI : ∀ s', itemsS = some s' → ∀ st m, m ∈ reportedOf w (thenOpt st (walk DCfg.repaired J w O inn s' (path ++ ".items." ++ w.suffix))).1
        ↔ m ∈ reportedOf w st.1 ∨ Exp J O w inn s' (path ++ ".items." ++ w.suffix) m :=
      fun s' hs' st m => by subst hs'; exact thenOpt_mem w st _ _ (walk_mem s' _ st.2) m
    have hAI : ∀ s', addItemsS = some s' → ∀ st m, m ∈ reportedOf w (thenOpt st (walk DCfg.repaired J w O inn s' (path ++ ".additionalItems"))).1
        ↔ m ∈ reportedOf w st.1 ∨ Exp J O w inn s' (path ++ ".additionalItems") m :=
      fun s' hs' st m => by subst hs'; exact thenOpt_mem w st _ _ (walk_mem s' _ st.2) m
    have hAP : ∀ s', addPropsS = some s' → ∀ st m, m ∈ reportedOf w (thenOpt st (walk DCfg.repaired J w O inn s' (path ++ ".additionalProperties"))).1
        ↔ m ∈ reportedOf w st.1 ∨ Exp J O w inn s' (path ++ ".additionalProperties") m :=
      fun s' hs' st m => by subst hs'; exact thenOpt_mem w st _ _ (walk_mem s' _ st.2) m
    simp only [walk, isVisited_repaired, Bool.false_eq_true, ↓reduceIte]
    refine ⟨_, rfl, fun m => ?_⟩
    rw [Exp_mk, hA]
    cases hi : itemsS with
    | none =>
      cases hai : addItemsS with
      | none =>
        cases hap : addPropsS with
        | none => simp only [hP2, hP1, pat_mem, hL, or_false, false_or, or_assoc]; exact or_congr (own_mem J w _ b rfl path m) Iff.rfl
        | some s3 => simp only [hAP s3 hap, hP2, hP1, pat_mem, hL, or_false, false_or, or_assoc]; exact or_congr (own_mem J w _ b rfl path m) Iff.rfl
      | some s2 =>
        cases hap : addPropsS with
        | none => simp only [hAI s2 hai, hP2, hP1, pat_mem, hL, or_false, false_or, or_assoc]; exact or_congr (own_mem J w _ b rfl path m) Iff.rfl
        | some s3 => simp only [hAP s3 hap, hAI s2 hai, hP2, hP1, pat_mem, hL, or_false, false_or, or_assoc]; exact or_congr (own_mem J w _ b rfl path m) Iff.rfl
    | some s1 =>
      cases hai : addItemsS with
      | none =>
        cases hap : addPropsS with
        | none => simp only [hI s1 hi, hP2, hP1, pat_mem, hL, or_false, false_or, or_assoc]; exact or_congr (own_mem J w _ b rfl path m) Iff.rfl
        | some s3 => simp only [hAP s3 hap, hI s1 hi, hP2, hP1, pat_mem, hL, or_false, false_or, or_assoc]; exact or_congr (own_mem J w _ b rfl path m) Iff.rfl
      | some s2 =>
        cases hap : addPropsS with
        | none => simp only [hAI s2 hai, hI s1 hi, hP2, hP1, pat_mem, hL, or_false, false_or, or_assoc]; exact or_congr (own_mem J w _ b rfl path m) Iff.rfl
        | some s3 => simp only [hAP s3 hap, hAI s2 hai, hI s1 hi, hP2, hP1, pat_mem, hL, or_false, false_or, or_assoc]; exact or_congr (own_mem J w _ b rfl path m) Iff.rfl
theorem walkL_mem (l : List Schema) (path : String) (i : Nat) (st : WSt) (m : Msg) :
    m ∈ reportedOf w (walkL DCfg.repaired J w O inn l path i st).1 ↔ m ∈ reportedOf w st.1 ∨ ExpL J O w inn l path i m := by
  match l with
  | [] => simp [walkL, ExpL]
  | s :: ss =>
    simp only [walkL, ExpL_cons]
    rw [walkL_mem ss path (i + 1) _ m, thenOpt_mem w st _ _ (walk_mem s _ st.2) m, or_assoc]
theorem walkM_mem (l : List (String × Schema)) (path : String) (st : WSt) (m : Msg) :
    m ∈ reportedOf w (walkM DCfg.repaired J w O inn l path st).1 ↔ m ∈ reportedOf w st.1 ∨ ExpM J O w inn l path m := by
  match l with
  | [] => simp [walkM, ExpM]
  | (name, s) :: ps =>
    simp only [walkM, ExpM_cons]
    rw [walkM_mem ps path _ m, thenOpt_mem w st _ _ (walk_mem s _ st.2) m, or_assoc]
theorem walkA_mem (l : List Schema) (path : String) (i : Nat) (st : WSt) (m : Msg) :
    m ∈ reportedOf w (walkA DCfg.repaired J w O inn l path i st).1 ↔ m ∈ reportedOf w st.1 ∨ ExpA J O w inn l path i m := by
  match l with
  | [] => simp [walkA, ExpA]
  | s :: ss =>
    simp only [walkA, ExpA_cons]
    rw [walkA_mem ss path (i + 1) _ m, thenOpt_mem w st _ _ (walk_mem s _ st.2) m, or_assoc]
end

/-! ### the code's visited test, without exact collisions: same traversal when no path overlaps -/

theorem noOverlap_mk (w : Which) (b : SBase) (itemsS : Option Schema) (itemsT : List Schema)
    (addItemsS : Option Schema) (props patProps : List (String × Schema)) (addPropsS : Option Schema)
    (deps : List (String × Schema)) (allOf anyOf oneOf : List Schema) (nt : Option Schema) (path : String) :
    noOverlap w (.mk b itemsS itemsT addItemsS props patProps addPropsS deps allOf anyOf oneOf nt) path =
    (!suffixOverlap path
    && (match itemsS with | some s => noOverlap w s (path ++ ".items." ++ w.suffix) | none => true)
    && noOverlapL w itemsT path 0
    && (match addItemsS with | some s => noOverlap w s (path ++ ".additionalItems") | none => true)
    && noOverlapM w props path && noOverlapM w patProps path
    && (match addPropsS with | some s => noOverlap w s (path ++ ".additionalProperties") | none => true)
    && noOverlapA w allOf path 0) := by
  cases itemsS <;> cases addItemsS <;> cases addPropsS <;> rfl

variable (c : DCfg) (hc : c.exactVisited = false)
include hc

mutual
theorem walk_noOverlap (s : Schema) (path : String) (h : noOverlap w s path = true) :
    walk c J w O inn s path = walk DCfg.repaired J w O inn s path := by
  match s with
  | .mk b itemsS itemsT addItemsS props patProps addPropsS deps allOf anyOf oneOf nt =>
    rw [noOverlap_mk] at h
    simp only [Bool.and_eq_true, Bool.not_eq_true'] at h
    obtain ⟨⟨⟨⟨⟨⟨⟨h0, h1⟩, h2⟩, h3⟩, h4⟩, h5⟩, h6⟩, h7⟩ := h
    funext vis
    have hv : isVisited c path vis = false := by simp [isVisited, hc, h0]
    have eL := walkL_noOverlap itemsT path 0 h2
    have eP1 := walkM_noOverlap props path h4
    have eP2 := walkM_noOverlap patProps path h5
    have eA := walkA_noOverlap allOf path 0 h7
    have eI : ∀ s', itemsS = some s' → walk c J w O inn s' (path ++ ".items." ++ w.suffix)
        = walk DCfg.repaired J w O inn s' (path ++ ".items." ++ w.suffix) :=
      fun s' hs' => by subst hs'; exact walk_noOverlap s' _ h1
    have eAI : ∀ s', addItemsS = some s' → walk c J w O inn s' (path ++ ".additionalItems")
        = walk DCfg.repaired J w O inn s' (path ++ ".additionalItems") :=
      fun s' hs' => by subst hs'; exact walk_noOverlap s' _ h3
    have eAP : ∀ s', addPropsS = some s' → walk c J w O inn s' (path ++ ".additionalProperties")
        = walk DCfg.repaired J w O inn s' (path ++ ".additionalProperties") :=
      fun s' hs' => by subst hs'; exact walk_noOverlap s' _ h6
    simp only [walk, hv, isVisited_repaired, Bool.false_eq_true, ↓reduceIte, eL, eP1, eP2, eA]
    cases hi : itemsS with
    | none =>
      cases hai : addItemsS with
      | none =>
        cases hap : addPropsS with
        | none => rfl
        | some s3 => simp only [eAP s3 hap]
      | some s2 =>
        cases hap : addPropsS with
        | none => simp only [eAI s2 hai]
        | some s3 => simp only [eAP s3 hap, eAI s2 hai]
    | some s1 =>
      cases hai : addItemsS with
      | none =>
        cases hap : addPropsS with
        | none => simp only [eI s1 hi]
        | some s3 => simp only [eAP s3 hap, eI s1 hi]
      | some s2 =>
        cases hap : addPropsS with
        | none => simp only [eAI s2 hai, eI s1 hi]
        | some s3 => simp only [eAP s3 hap, eAI s2 hai, eI s1 hi]
theorem walkL_noOverlap (l : List Schema) (path : String) (i : Nat) (h : noOverlapL w l path i = true) :
    walkL c J w O inn l path i = walkL DCfg.repaired J w O inn l path i := by
  match l with
  | [] => funext st; simp [walkL]
  | s :: ss =>
    simp only [noOverlapL, Bool.and_eq_true] at h
    funext st
    simp only [walkL, walk_noOverlap s _ h.1, walkL_noOverlap ss path (i + 1) h.2]
theorem walkM_noOverlap (l : List (String × Schema)) (path : String) (h : noOverlapM w l path = true) :
    walkM c J w O inn l path = walkM DCfg.repaired J w O inn l path := by
  match l with
  | [] => funext st; simp [walkM]
  | (name, s) :: ps =>
    simp only [noOverlapM, Bool.and_eq_true] at h
    funext st
    simp only [walkM, walk_noOverlap s _ h.1, walkM_noOverlap ps path h.2]
theorem walkA_noOverlap (l : List Schema) (path : String) (i : Nat) (h : noOverlapA w l path i = true) :
    walkA c J w O inn l path i = walkA DCfg.repaired J w O inn l path i := by
  match l with
  | [] => funext st; simp [walkA]
  | s :: ss =>
    simp only [noOverlapA, Bool.and_eq_true] at h
    funext st
    simp only [walkA, walk_noOverlap s _ h.1, walkA_noOverlap ss path (i + 1) h.2]
end

end VM.Sw

namespace VM.Sw
open VM

/-! ### from the schema walker to the whole stage (repaired configuration) -/

/-- the walker's result for a schema at a path, as a value (it always exists for the repaired configuration) -/
def walked (J : Judges) (O : Oracles) (w : Which) (inn : String) (s : Schema) (path : String) (vis : List String) : Res :=
  ((walk DCfg.repaired J w O inn s path vis).1).getD {}

theorem walked_spec (J : Judges) (O : Oracles) (w : Which) (inn : String) (s : Schema) (path : String) (vis : List String) :
    (walk DCfg.repaired J w O inn s path vis).1 = some (walked J O w inn s path vis)
      ∧ ∀ m, (m ∈ reportedOf w (walked J O w inn s path vis) ↔ Exp J O w inn s path m) := by
  obtain ⟨r, hr, hm⟩ := walk_mem J O w inn s path vis
  simp only [walked, hr, Option.getD_some]
  exact ⟨trivial, hm⟩

/-- **Definitions**: every definition is walked under `definitions.<name>`; the stage reports exactly what
    the specification asks for some definition (plus what was there before) -/
theorem defsStage_mem (J : Judges) (O : Oracles) (w : Which) (defs : List (String × Schema)) (res : Res) (vis : List String) (m : Msg) :
    m ∈ reportedOf w (defsStage DCfg.repaired J w O defs res vis)
      ↔ m ∈ reportedOf w res ∨ ∃ d ∈ defs, Exp J O w "body" d.2 ("definitions." ++ d.1) m := by
  induction defs generalizing res vis with
  | nil => simp [defsStage]
  | cons d rest ih =>
    obtain ⟨nm, s⟩ := d
    simp only [defsStage]
    rw [ih]
    obtain ⟨hr, hm⟩ := walked_spec J O w "body" s ("definitions." ++ nm) vis
    simp only [hr, mergeOpt, mem_reportedOf_mergeOne, hm, List.mem_cons, exists_eq_or_imp, or_assoc]

/-- what `report` adds for a judged sub-result: the wrapper message, and the sub-result's findings -/
theorem mem_reportedOf_report (w : Which) (res red : Res) (tag : Msg) (m : Msg) :
    m ∈ reportedOf w (report w res tag red false) ↔ m ∈ reportedOf w res ∨ m = tag ∨ m ∈ reportedOf w red := by
  cases w
  · simp [report, reportedOf, Res.mergeOne, Res.addErrors, mem_addMsgs, or_assoc]
  · simp [report, reportedOf, Res.mergeOne, Res.addWarnings, mem_addMsgs, or_assoc]

/-- **Body parameters**: the schema of a body parameter is walked under the parameter's name; when the
    walk finds anything, the wrapper message and the findings are reported, otherwise nothing is -/
theorem paramSchema_mem (J : Judges) (O : Oracles) (w : Which) (res : Res) (p : Param) (s : Schema) (hs : p.schema = some s) (m : Msg) :
    m ∈ reportedOf w (paramSchema DCfg.repaired J w O res p)
      ↔ m ∈ reportedOf w res
        ∨ (hasErrorsOrWarnings (some (walked J O w p.loc s p.name [])) = true
            ∧ (m = mkMsg (kindName w "Param") [p.name, p.loc] ∨ Exp J O w p.loc s p.name m)) := by
  obtain ⟨hr, hm⟩ := walked_spec J O w p.loc s p.name []
  simp only [paramSchema, hs, hr, reportIf]
  split
  · rename_i hew
    rw [mem_reportedOf_report, hm]
    simp [hew]
  · rename_i hew
    simp [hew]

/-- **Response schemas**: walked under the status code (or `default`) -/
theorem respSchema_mem (J : Judges) (O : Oracles) (w : Which) (o : Op) (r : Response) (res : Res) (s : Schema)
    (hs : r.schema = some s) (m : Msg) :
    m ∈ reportedOf w (respSchema DCfg.repaired J w O o r res)
      ↔ m ∈ reportedOf w res
        ∨ (hasErrorsOrWarnings (some (walked J O w "response" s r.code [])) = true
            ∧ (m = mkMsg (kindName w "Response") [o.id, responseName r] ∨ Exp J O w "response" s r.code m)) := by
  obtain ⟨hr, hm⟩ := walked_spec J O w "response" s r.code []
  simp only [respSchema, hs, hr, reportIf]
  split
  · rename_i hew
    rw [mem_reportedOf_report, hm]
    simp [hew]
  · rename_i hew
    simp [hew]

end VM.Sw

namespace VM.Sw
open VM

/-! ### simple parameters, headers and their items (no visited set involved) -/

theorem mem_reportedOf_report_true (w : Which) (res red : Res) (tag : Msg) (m : Msg) :
    m ∈ reportedOf w (report w res tag red true) ↔ m ∈ reportedOf w res ∨ m = tag ∨ m ∈ judgedOf w red := by
  cases w
  · simp [report, reportedOf, judgedOf, Res.mergeOne, Res.addErrors, mem_addMsgs, or_assoc]
  · simp [report, reportedOf, judgedOf, Res.mergeAsWarningsOne, Res.addWarnings, mem_addMsgs, or_assoc]

/-- what must be reported for an items chain: the judgement of each level's own value under
    `name`, `name[0].default`, … and (defaults only) each level's pattern that does not compile -/
def ExpItems (J : Judges) (O : Oracles) (w : Which) (inn rootFmt : String) : List ItemLevel → String → Msg → Prop
  | [], _, _ => False
  | l :: rest, path, m =>
    (match itemValue w l with
     | some v => m ∈ judgedOf w (J.items path inn rootFmt (l :: rest) v)
     | none => False)
    ∨ ExpItems J O w inn rootFmt rest (path ++ "[0]." ++ w.suffix) m
    ∨ (w = .dflt ∧ patOK O l.base.pattern = false ∧ m = mkMsg "invalidPatternIn" [path, inn, l.base.pattern])

theorem itemsHere_mem (J : Judges) (w : Which) (inn rootFmt : String) (l : ItemLevel) (rest : List ItemLevel) (path : String) (m : Msg) :
    m ∈ reportedOf w (itemsHere J w inn rootFmt l rest path)
      ↔ (match itemValue w l with
          | some v => m ∈ judgedOf w (J.items path inn rootFmt (l :: rest) v)
          | none => False) := by
  unfold itemsHere
  cases itemValue w l with
  | none => simp [not_mem_reportedOf_empty]
  | some v => simp [mem_reportedOf_mergeJ, not_mem_reportedOf_empty]

theorem itemsPattern_mem (O : Oracles) (w : Which) (inn : String) (l : ItemLevel) (path : String) (res : Res) (m : Msg) :
    m ∈ reportedOf w (itemsPattern O inn l path res)
      ↔ m ∈ reportedOf w res ∨ (w = .dflt ∧ patOK O l.base.pattern = false ∧ m = mkMsg "invalidPatternIn" [path, inn, l.base.pattern]) := by
  unfold itemsPattern
  cases hp : patOK O l.base.pattern with
  | true => simp
  | false => simp [mem_reportedOf_addError]

theorem walkItems_mem (J : Judges) (O : Oracles) (w : Which) (inn rootFmt : String) (chain : List ItemLevel) (path : String) (m : Msg) :
    m ∈ reportedOf w (walkItems J w O inn rootFmt chain path) ↔ ExpItems J O w inn rootFmt chain path m := by
  match chain with
  | [] => simp [walkItems, ExpItems, not_mem_reportedOf_empty]
  | [l] =>
    simp only [walkItems, ExpItems, itemsPattern_mem, itemsHere_mem, false_or]
  | l :: l' :: rest =>
    rw [walkItems, itemsPattern_mem, mem_reportedOf_mergeOne, itemsHere_mem, walkItems_mem J O w inn rootFmt (l' :: rest)]
    simp only [ExpItems, or_assoc]

/-- **Simple parameters**: the value is judged by the parameter's own validator; the wrapper message and the
    validator's findings are reported exactly when it finds something -/
theorem paramSimple_mem (J : Judges) (w : Which) (res : Res) (p : Param) (v : JVal)
    (hv : w.value p.base = some v) (hs : p.schema = none) (m : Msg) :
    m ∈ reportedOf w (paramSimple J w res p)
      ↔ m ∈ reportedOf w res
        ∨ (hasErrorsOrWarnings (some (J.param p v)) = true
            ∧ (m = mkMsg (kindName w "Param") [p.name, p.loc] ∨ m ∈ judgedOf w (J.param p v))) := by
  simp only [paramSimple, hv, hs, reportIf]
  split
  · rename_i hew
    rw [mem_reportedOf_report_true]
    simp [hew]
  · rename_i hew
    simp [hew]

/-- **Headers**: likewise, by the header's own validator -/
theorem headerSimple_mem (J : Judges) (w : Which) (opId : String) (r : Response) (res : Res) (h : Header) (v : JVal)
    (hv : w.value h.base = some v) (m : Msg) :
    m ∈ reportedOf w (headerSimple J w opId r res h)
      ↔ m ∈ reportedOf w res
        ∨ (hasErrorsOrWarnings (some (J.header h v)) = true
            ∧ (m = mkMsg (kindName w "Header") [opId, h.name, responseName r] ∨ m ∈ judgedOf w (J.header h v))) := by
  simp only [headerSimple, hv, reportIf]
  split
  · rename_i hew
    rw [mem_reportedOf_report_true]
    simp [hew]
  · rename_i hew
    simp [hew]

end VM.Sw
