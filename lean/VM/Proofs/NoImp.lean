/-
  C01, the one switch that was not threaded through the agreement proof: IMPORTANT!-tagged messages of failed anyOf / oneOf /
  allOf branches are kept (`leaksImportant`). Such a message is only ever produced for an undeclared member called `headers`
  that holds objects with a string `$ref` (object_validator.go:253-302). This file shows, by the same induction as
  `Proofs/Located.lean` (whose text it follows; the path argument of the predicates is not used here), that on an instance
  without such a member (`hdrQuiet`) no result of the validator tree carries an important message.
-/
import VM.Proofs.Located
namespace VM.NoImp
open VM Impl

mutual
/-- no object anywhere in the instance has a member called `headers` for which the code would add its IMPORTANT! message -/
def hdrQuiet : JVal → Bool
  | .arr xs => hdrQuietL xs
  | .obj kvs => hdrQuietM kvs
  | _ => true
def hdrQuietL : List JVal → Bool
  | [] => true
  | x :: xs => hdrQuiet x && hdrQuietL xs
def hdrQuietM : List (String × JVal) → Bool
  | [] => true
  | (k, x) :: rest => (k != "headers" || (headerRefErrors "" x).all Option.isNone) && hdrQuiet x && hdrQuietM rest
end

theorem hdrQuietL_mem (xs : List JVal) (h : hdrQuietL xs = true) : ∀ x ∈ xs, hdrQuiet x = true := by
  induction xs with
  | nil => intro x hx; cases hx
  | cons y ys ih =>
    simp only [hdrQuietL, Bool.and_eq_true] at h
    intro x hx
    rcases List.mem_cons.mp hx with rfl | hx
    · exact h.1
    · exact ih h.2 x hx

theorem hdrQuietM_mem (kvs : List (String × JVal)) (h : hdrQuietM kvs = true) :
    ∀ kv ∈ kvs, hdrQuiet kv.2 = true ∧ (kv.1 = "headers" → (headerRefErrors "" kv.2).all Option.isNone = true) := by
  induction kvs with
  | nil => intro kv hkv; cases hkv
  | cons a rest ih =>
    obtain ⟨k, x⟩ := a
    simp only [hdrQuietM, Bool.and_eq_true, Bool.or_eq_true, bne_iff_ne, ne_eq] at h
    intro kv hkv
    rcases List.mem_cons.mp hkv with rfl | hkv
    · refine ⟨h.1.2, fun hk => ?_⟩
      rcases h.1.1 with h1 | h1
      · exact absurd hk h1
      · exact h1
    · exact ih h.2 kv hkv

def Under (_path : String) (m : Msg) : Prop := m.important = false

theorem under_mono {p q : String} (_h : pre p q) {m : Msg} (hm : Under q m) : Under p m := hm

/-- every error of the result is located under `path` -/
def Loc (path : String) (r : Res) : Prop := (∀ m ∈ r.errors, Under path m) ∧ (∀ m ∈ r.warnings, Under path m)

def LocOpt (path : String) : Option Res → Prop
  | some r => Loc path r
  | none => True

theorem loc_mono {p q : String} (_h : pre p q) {r : Res} (hr : Loc q r) : Loc p r := hr
theorem loc_empty (p : String) : Loc p ({} : Res) := ⟨(by intro m hm; cases hm), (by intro m hm; cases hm)⟩
theorem loc_emptyResult (p : String) : Loc p emptyResult := ⟨(by intro m hm; cases hm), (by intro m hm; cases hm)⟩
theorem loc_sErr (p : String) (e : Msg) (h : Under p e) : Loc p (sErr e) := by
  refine ⟨?_, (by intro m hm; cases hm)⟩
  intro m hm; simp only [sErr, List.mem_singleton] at hm; subst hm; exact h
theorem loc_inc {p : String} {r : Res} (h : Loc p r) : Loc p r.inc := h
theorem loc_absorb {p : String} {r : Res} (o : Res) (h : Loc p r) : Loc p (absorb r o) := h

theorem loc_mergeOne {p : String} {r o : Res} (h1 : Loc p r) (h2 : Loc p o) : Loc p (r.mergeOne o) := by
  constructor
  · intro m hm
    simp only [Res.mergeOne, mem_addMsgs, List.mem_map, Option.some.injEq, exists_eq_right] at hm
    rcases hm with hm | hm
    · exact h1.1 m hm
    · exact h2.1 m hm
  · intro m hm
    simp only [Res.mergeOne, mem_addMsgs, List.mem_map, Option.some.injEq, exists_eq_right] at hm
    rcases hm with hm | hm
    · exact h1.2 m hm
    · exact h2.2 m hm

theorem loc_addErrors {p : String} {r : Res} (es : List (Option Msg)) (h1 : Loc p r) (h2 : ∀ m, some m ∈ es → Under p m) :
    Loc p (r.addErrors es) := by
  refine ⟨?_, h1.2⟩
  intro m hm
  simp only [Res.addErrors, mem_addMsgs] at hm
  rcases hm with hm | hm
  · exact h1.1 m hm
  · exact h2 m hm

theorem loc_merge {p : String} {r : Res} (os : List (Option Res)) (h1 : Loc p r) (h2 : ∀ o ∈ os, LocOpt p o) : Loc p (r.merge os) := by
  induction os generalizing r with
  | nil => exact h1
  | cons o os ih =>
    cases o with
    | none => simp only [Res.merge]; exact ih h1 (fun x hx => h2 x (List.mem_cons_of_mem _ hx))
    | some x =>
      simp only [Res.merge]
      exact ih (loc_mergeOne h1 (h2 (some x) List.mem_cons_self)) (fun y hy => h2 y (List.mem_cons_of_mem _ hy))

theorem loc_ite {p : String} (c : Prop) [Decidable c] (a b : Res) (ha : Loc p a) (hb : Loc p b) : Loc p (if c then a else b) := by
  split <;> assumption

theorem under_self (p : String) (m : Msg) (h : m.important = false) : Under p m := h

/-- a child validator: whatever path it is called with, its errors are under that path -/
def LV (f : V) : Prop := ∀ p x, hdrQuiet x = true → Loc p (f p x)

structure KidsLV (k : IKids) : Prop where
  itemsS : ∀ f, k.itemsS = some f → LV f
  itemsT : ∀ f ∈ k.itemsT, LV f
  addItemsS : ∀ f, k.addItemsS = some f → LV f
  props : ∀ nf ∈ k.props, LV nf.2
  patProps : ∀ nf ∈ k.patProps, LV nf.2
  addPropsS : ∀ f, k.addPropsS = some f → LV f
  depSchemas : ∀ nf ∈ k.depSchemas, LV nf.2
  allOf : ∀ f ∈ k.allOf, LV f
  anyOf : ∀ f ∈ k.anyOf, LV f
  oneOf : ∀ f ∈ k.oneOf, LV f
  not : ∀ f, k.not = some f → LV f

/-! ### leaves -/

theorem typeValidate_loc (cfg : Cfg) (O : Oracles) (b : SBase) (path : String) (v : JVal) : Loc path (typeValidate cfg O b path v) := by
  unfold typeValidate
  have e1 : ∀ t, Loc path (sErr (eInvalidType path t)) := fun t => loc_sErr _ _ (under_self _ _ rfl)
  split
  · exact loc_ite _ _ _ (e1 _) (loc_emptyResult _)
  · exact loc_ite _ _ _ (e1 _) (loc_ite _ _ _ (loc_emptyResult _) (loc_ite _ _ _ (e1 _) (loc_emptyResult _)))

theorem stringValidate_loc (O : Oracles) (b : SBase) (path : String) (s : String) : LocOpt path (stringValidate O b path s) := by
  unfold stringValidate
  split
  · exact loc_sErr _ _ (under_self _ _ rfl)
  · split
    · exact loc_sErr _ _ (under_self _ _ rfl)
    · split
      · exact loc_sErr _ _ (under_self _ _ rfl)
      · trivial

theorem formatValidate_loc (O : Oracles) (b : SBase) (path : String) (s : String) : Loc path (formatValidate O b path s) := by
  unfold formatValidate
  split
  · exact loc_empty _
  · exact ⟨(by intro m hm; simp only [List.mem_singleton] at hm; subst hm; rfl), (by intro m hm; cases hm)⟩

theorem numberValidate_loc (cfg : Cfg) (O : Oracles) (b : SBase) (path : String) (n : Rat) : Loc path (numberValidate cfg O b path n) := by
  unfold numberValidate
  apply loc_inc
  apply loc_merge _ (loc_empty _)
  intro o ho
  simp only [List.mem_cons, List.mem_nil_iff, or_false] at ho
  rcases ho with rfl | rfl | rfl
  · cases b.multipleOf with
    | none => trivial
    | some m =>
      simp only [Option.map_some, LocOpt]
      exact loc_ite _ _ _ (loc_sErr _ _ (under_self _ _ rfl)) (loc_ite _ _ _ (loc_empty _) (loc_sErr _ _ (under_self _ _ rfl)))
  · cases b.minimum with
    | none => trivial
    | some m => simp only [Option.map_some, LocOpt]; exact loc_ite _ _ _ (loc_sErr _ _ (under_self _ _ rfl)) (loc_empty _)
  · cases b.maximum with
    | none => trivial
    | some m => simp only [Option.map_some, LocOpt]; exact loc_ite _ _ _ (loc_sErr _ _ (under_self _ _ rfl)) (loc_empty _)

theorem locOpt_ite {p : String} (c : Prop) [Decidable c] (a b : Option Res) (ha : LocOpt p a) (hb : LocOpt p b) :
    LocOpt p (if c then a else b) := by
  split <;> assumption

theorem commonValidate_loc (cfg : Cfg) (b : SBase) (path : String) (v : JVal) : LocOpt path (commonValidate cfg b path v) := by
  unfold commonValidate
  exact locOpt_ite _ _ _ trivial (locOpt_ite _ _ _ trivial (loc_sErr _ _ (under_self _ _ rfl)))

/-! ### slices -/

theorem itemsLoop_loc (f : V) (hf : LV f) (path : String) (xs : List JVal) (hq : ∀ x ∈ xs, hdrQuiet x = true) (i : Nat) (acc : Res)
    (h : Loc path acc) : Loc path (itemsLoop f path xs i acc) := by
  induction xs generalizing i acc with
  | nil => exact h
  | cons x xs ih =>
    simp only [itemsLoop]
    exact ih (fun y hy => hq y (List.mem_cons_of_mem _ hy)) _ _ (loc_mergeOne h (hf _ x (hq x List.mem_cons_self)))

theorem tupleLoop_loc (path : String) (fs : List V) (hfs : ∀ f ∈ fs, LV f) (xs : List JVal) (hq : ∀ x ∈ xs, hdrQuiet x = true)
    (i : Nat) (acc : Res) (h : Loc path acc) : Loc path (tupleLoop path fs xs i acc) := by
  induction fs generalizing xs i acc with
  | nil => simpa [tupleLoop] using h
  | cons f fs ih =>
    cases xs with
    | nil => simpa [tupleLoop] using h
    | cons x xs =>
      simp only [tupleLoop]
      exact ih (fun g hg => hfs g (List.mem_cons_of_mem _ hg)) _ (fun y hy => hq y (List.mem_cons_of_mem _ hy)) _ _
        (loc_mergeOne h (loc_mono (pre_idx path i) (hfs f List.mem_cons_self (idx path i) x (hq x List.mem_cons_self))))

theorem addlLoop_loc (f : V) (hf : LV f) (path : String) (xs : List JVal) (hq : ∀ x ∈ xs, hdrQuiet x = true) (fuel i : Nat) (acc : Res)
    (h : Loc path acc) : Loc path (addlLoop f path xs fuel i acc) := by
  induction fuel generalizing i acc with
  | zero => exact h
  | succ fuel ih =>
    simp only [addlLoop]
    split
    · exact loc_absorb _ h
    · rename_i x hx
      exact ih (i + 1) _ (loc_mergeOne h (loc_mono (pre_idx path i) (hf (idx path i) x (hq x (List.mem_of_getElem? hx)))))

theorem addlPart_loc (cfg : Cfg) (b : SBase) (k : IKids) (hk : KidsLV k) (path : String) (xs : List JVal)
    (hq : ∀ x ∈ xs, hdrQuiet x = true) (r2 : Res)
    (h : Loc path r2) : Loc path (addlPart cfg b k path xs r2) := by
  unfold addlPart
  simp only []
  split
  · have hr : Loc path (if (k.itemsT.length > 0 && b.addItems == .bool false) = true then r2.addErrors [some eNoAddlItems] else r2) := by
      apply loc_ite _ _ _ _ h
      exact loc_addErrors _ h (fun m hm => by
        simp only [List.mem_singleton, Option.some.injEq] at hm; subst hm; rfl)
    split
    · rename_i f _ hm2
      split
      · exact addlLoop_loc f (hk.addItemsS f hm2) path xs hq _ _ _ hr
      · split
        · exact addlLoop_loc f (hk.addItemsS f hm2) path xs hq _ _ _ hr
        · exact hr
    · exact hr
  · exact h

theorem sizePart_loc (b : SBase) (path : String) (xs : List JVal) (r3 : Res) (h : Loc path r3) : Loc path (sizePart b path xs r3) := by
  unfold sizePart
  simp only []
  apply loc_inc
  have one (r : Res) (hr : Loc path r) (e : Msg) (he : e.important = false) : Loc path (r.addErrors [some e]) :=
    loc_addErrors _ hr (fun m hm => by
      simp only [List.mem_singleton, Option.some.injEq] at hm; subst hm; exact under_self _ _ he)
  have h4 := loc_ite (ltOpt (↑xs.length) b.minItems = true) _ _ (one r3 h (eMinItems path) rfl) h
  have h5 := loc_ite (gtOpt (↑xs.length) b.maxItems = true) _ _ (one _ h4 (eMaxItems path) rfl) h4
  exact loc_ite _ _ _ (one _ h5 (eUnique path) rfl) h5

theorem sliceValidate_loc (cfg : Cfg) (b : SBase) (k : IKids) (hk : KidsLV k) (path : String) (xs : List JVal)
    (hq : ∀ x ∈ xs, hdrQuiet x = true) : Loc path (sliceValidate cfg b k path xs) := by
  unfold sliceValidate
  apply sizePart_loc
  apply addlPart_loc cfg b k hk _ _ hq
  apply tupleLoop_loc _ _ hk.itemsT _ hq
  cases hi : k.itemsS with
  | none => exact loc_empty _
  | some f => exact itemsLoop_loc f (hk.itemsS f hi) _ _ hq _ _ (loc_empty _)

/-! ### composition -/

theorem keepRelevant_loc (cfg : Cfg) (path : String) (r : Res) (h : Loc path r) : Loc path (keepRelevant cfg r) := by
  unfold keepRelevant
  split
  · constructor <;> (intro m hm; simp only [List.mem_map, List.mem_filter] at hm; obtain ⟨m0, _, rfl⟩ := hm; rfl)
  · exact loc_empty _

theorem add_one {p : String} {r : Res} (h : Loc p r) (e : Msg) (he : Under p e) : Loc p (r.addErrors [some e]) :=
  loc_addErrors _ h (fun m hm => by simp only [List.mem_singleton, Option.some.injEq] at hm; subst hm; exact he)

theorem anyOfLoop_loc (cfg : Cfg) (path : String) (v : JVal) (hq : hdrQuiet v = true) (fs : List V) (hfs : ∀ f ∈ fs, LV f) (best : Option Res)
    (main keep : Res) (hb : LocOpt path best) (hm : Loc path main) (hk : Loc path keep) :
    Loc path (anyOfLoop cfg path v fs best main keep).1 ∧ Loc path (anyOfLoop cfg path v fs best main keep).2 := by
  induction fs generalizing best main keep with
  | nil =>
    simp only [anyOfLoop]
    exact ⟨loc_merge _ (add_one hm _ (under_self _ _ rfl)) (fun o ho => by
      simp only [List.mem_singleton] at ho; subst ho; exact hb), hk⟩
  | cons f fs ih =>
    have hf := hfs f List.mem_cons_self path v hq
    have hrest : ∀ g ∈ fs, LV g := fun g hg => hfs g (List.mem_cons_of_mem _ hg)
    simp only [anyOfLoop]
    split
    · exact ⟨loc_mergeOne (loc_absorb _ hm) hf, loc_empty _⟩
    · split
      · exact ih hrest _ _ _ hf (loc_absorb _ hm) (loc_mergeOne hk (keepRelevant_loc cfg path _ hf))
      · exact ih hrest _ _ _ hb (loc_absorb _ hm) (loc_mergeOne hk (keepRelevant_loc cfg path _ hf))

theorem oneOfLoop_loc (cfg : Cfg) (path : String) (v : JVal) (hq : hdrQuiet v = true) (fs : List V) (hfs : ∀ f ∈ fs, LV f) (first best : Option Res)
    (n : Nat) (main keep : Res) (hfi : LocOpt path first) (hb : LocOpt path best) (hm : Loc path main) (hk : Loc path keep) :
    Loc path (oneOfLoop cfg path v fs first best n main keep).1 ∧ Loc path (oneOfLoop cfg path v fs first best n main keep).2 := by
  induction fs generalizing first best n main keep with
  | nil =>
    simp only [oneOfLoop]
    have one (o : Option Res) (ho : LocOpt path o) (r : Res) (hr : Loc path r) : Loc path (r.merge [o]) :=
      loc_merge _ hr (fun x hx => by simp only [List.mem_singleton] at hx; subst hx; exact ho)
    split
    · exact ⟨one best hb _ (add_one hm _ (under_self _ _ rfl)), hk⟩
    · exact ⟨one first hfi _ hm, hk⟩
    · exact ⟨one best hb _ (add_one hm _ (under_self _ _ rfl)), hk⟩
  | cons f fs ih =>
    have hf := hfs f List.mem_cons_self path v hq
    have hrest : ∀ g ∈ fs, LV g := fun g hg => hfs g (List.mem_cons_of_mem _ hg)
    simp only [oneOfLoop]
    split
    · refine ih hrest _ _ _ _ _ ?_ hb (loc_absorb _ hm) (loc_empty _)
      split
      · exact hf
      · exact hfi
    · split
      · exact ih hrest _ _ _ _ _ hfi hf (loc_absorb _ hm) (loc_mergeOne hk (keepRelevant_loc cfg path _ hf))
      · exact ih hrest _ _ _ _ _ hfi hb (loc_absorb _ hm) (loc_mergeOne hk (keepRelevant_loc cfg path _ hf))

theorem allOfLoop_loc (cfg : Cfg) (path : String) (v : JVal) (hq : hdrQuiet v = true) (total : Nat) (fs : List V) (hfs : ∀ f ∈ fs, LV f) (n : Nat)
    (main keep : Res) (hm : Loc path main) (hk : Loc path keep) :
    Loc path (allOfLoop cfg path v total fs n main keep).1 ∧ Loc path (allOfLoop cfg path v total fs n main keep).2 := by
  induction fs generalizing n main keep with
  | nil =>
    simp only [allOfLoop]
    split
    · exact ⟨add_one hm _ (under_self _ _ rfl), hk⟩
    · split
      · exact ⟨hm, hk⟩
      · exact ⟨add_one hm _ (under_self _ _ rfl), hk⟩
  | cons f fs ih =>
    have hf := hfs f List.mem_cons_self path v hq
    have hrest : ∀ g ∈ fs, LV g := fun g hg => hfs g (List.mem_cons_of_mem _ hg)
    simp only [allOfLoop]
    exact ih hrest _ _ _ (loc_mergeOne hm hf) (loc_mergeOne hk (keepRelevant_loc cfg path _ hf))

theorem alookup_mem_lv {k : String} {l : List (String × V)} {f : V} (h : alookup k l = some f) (hl : ∀ nf ∈ l, LV nf.2) : LV f := by
  induction l with
  | nil => simp [alookup] at h
  | cons p ps ih =>
    obtain ⟨k', g⟩ := p
    simp only [alookup] at h
    split at h
    · cases h; exact hl (k', f) List.mem_cons_self
    · exact ih h (fun nf hnf => hl nf (List.mem_cons_of_mem _ hnf))

theorem depsLoop_loc (b : SBase) (k : IKids) (hk : KidsLV k) (path : String) (v : JVal) (hq : hdrQuiet v = true)
    (kvs rest : List (String × JVal))
    (main : Res) (hm : Loc path main) : Loc path (depsLoop b k path v kvs rest main) := by
  induction rest generalizing main with
  | nil => exact hm
  | cons kv rest ih =>
    obtain ⟨key, x⟩ := kv
    simp only [depsLoop]
    split
    · rename_i f hf
      exact ih _ (loc_mergeOne hm (loc_mono (pre_dot path key) (alookup_mem_lv hf hk.depSchemas (dot path key) v hq)))
    · split
      · apply ih
        apply loc_addErrors _ hm
        intro m hm'
        simp only [List.mem_map] at hm'
        obtain ⟨d, _, hd⟩ := hm'
        split at hd
        · cases hd
        · simp only [Option.some.injEq] at hd; subst hd; exact under_self _ _ rfl
      · exact ih _ hm

theorem schemaPropsValidate_loc (cfg : Cfg) (b : SBase) (k : IKids) (hk : KidsLV k) (path : String) (v : JVal)
    (hq : hdrQuiet v = true) : Loc path (schemaPropsValidate cfg b k path v) := by
  unfold schemaPropsValidate
  have h1 : Loc path (anyOfPart cfg k path v {}).1 ∧ LocOpt path (anyOfPart cfg k path v {}).2 := by
    unfold anyOfPart
    split
    · exact ⟨loc_empty _, trivial⟩
    · exact anyOfLoop_loc cfg path v hq k.anyOf hk.anyOf none {} {} trivial (loc_empty _) (loc_empty _)
  have h2 : Loc path (oneOfPart cfg k path v (anyOfPart cfg k path v {}).1).1
      ∧ LocOpt path (oneOfPart cfg k path v (anyOfPart cfg k path v {}).1).2 := by
    unfold oneOfPart
    split
    · exact ⟨h1.1, trivial⟩
    · exact oneOfLoop_loc cfg path v hq k.oneOf hk.oneOf none none 0 _ {} trivial trivial h1.1 (loc_empty _)
  have h3 : Loc path (allOfPart cfg k path v (oneOfPart cfg k path v (anyOfPart cfg k path v {}).1).1).1
      ∧ LocOpt path (allOfPart cfg k path v (oneOfPart cfg k path v (anyOfPart cfg k path v {}).1).1).2 := by
    unfold allOfPart
    split
    · exact ⟨h2.1, trivial⟩
    · exact allOfLoop_loc cfg path v hq _ k.allOf hk.allOf 0 _ {} h2.1 (loc_empty _)
  have h4 : ∀ main : Res, Loc path main → Loc path (notPart k path v main) := by
    intro main hm
    unfold notPart
    split
    · simp only []
      exact loc_ite _ _ _ (add_one (loc_absorb _ hm) _ (under_self _ _ rfl)) (loc_absorb _ hm)
    · exact hm
  have h5 : ∀ main : Res, Loc path main → Loc path (depsPart b k path v main) := by
    intro main hm
    unfold depsPart
    split
    · split
      · exact hm
      · exact depsLoop_loc b k hk path _ hq _ _ main hm
    · exact hm
  apply loc_merge _ (loc_inc (h5 _ (h4 _ h3.1)))
  intro o ho
  simp only [List.mem_cons, List.mem_nil_iff, or_false] at ho
  rcases ho with rfl | rfl | rfl
  · exact h3.2
  · exact h2.2
  · exact h1.2

/-! ### object validator -/

theorem patApply_loc (O : Oracles) (path key : String) (x : JVal) (hx : hdrQuiet x = true) (pats : List (String × V))
    (hp : ∀ nf ∈ pats, LV nf.2)
    (res : Res) (matched : Bool) (acc : List String) (h : Loc path res) :
    Loc path (patApply O path key x pats res matched acc).1 := by
  induction pats generalizing res matched acc with
  | nil => exact h
  | cons pf rest ih =>
    obtain ⟨p, f⟩ := pf
    have hrest : ∀ nf ∈ rest, LV nf.2 := fun nf hnf => hp nf (List.mem_cons_of_mem _ hnf)
    have hf : LV f := hp (p, f) List.mem_cons_self
    simp only [patApply]
    split
    · exact ih hrest _ _ _ (loc_mergeOne h (loc_mono (pre_dot path key) (hf (dot path key) x hx)))
    · exact ih hrest _ _ _ h

theorem headerRefErrors_none (path : String) (x : JVal) (hq : (headerRefErrors "" x).all Option.isNone = true) :
    ∀ m, some m ∉ headerRefErrors path x := by
  intro m hm
  cases x with
  | obj headers =>
    simp only [headerRefErrors, List.all_map, List.all_eq_true, Function.comp] at hq
    simp only [headerRefErrors, List.mem_map] at hm
    obtain ⟨hb, hmem, heq⟩ := hm
    have hthis := hq hb hmem
    obtain ⟨hk, hv⟩ := hb
    cases hv with
    | obj hs =>
      simp only at heq hthis
      cases hl : alookup "$ref" hs with
      | none => rw [hl] at heq; cases heq
      | some r =>
        rw [hl] at heq hthis
        cases r with
        | str ref => simp at hthis
        | _ => cases heq
    | _ => cases heq
  | _ => simp [headerRefErrors] at hm

theorem headerRefErrors_under (path : String) (x : JVal) (hq : (headerRefErrors "" x).all Option.isNone = true) :
    ∀ m, some m ∈ headerRefErrors path x → Under path m :=
  fun m hm => absurd hm (headerRefErrors_none path x hq m)

theorem noAdditionalLoop_loc (cfg : Cfg) (O : Oracles) (k : IKids) (path : String) (kvs : List (String × JVal))
    (hq : ∀ kv ∈ kvs, kv.1 = "headers" → (headerRefErrors "" kv.2).all Option.isNone = true) (res : Res)
    (h : Loc path res) : Loc path (noAdditionalLoop cfg O k path kvs res) := by
  induction kvs generalizing res with
  | nil => exact h
  | cons kv rest ih =>
    obtain ⟨key, x⟩ := kv
    have hq' : ∀ kv ∈ rest, kv.1 = "headers" → (headerRefErrors "" kv.2).all Option.isNone = true :=
      fun kv hkv => hq kv (List.mem_cons_of_mem _ hkv)
    simp only [noAdditionalLoop]
    split
    · exact ih hq' _ h
    · split
      · exact ih hq' _ h
      · split
        · exact ih hq' _ h
        · apply ih hq'
          have h1 := add_one h (eUnallowedProp path key) (under_self _ _ rfl)
          by_cases hk : key = "headers"
          · have := hq (key, x) List.mem_cons_self hk
            exact loc_ite _ _ _ (loc_addErrors _ h1 (headerRefErrors_under path x this)) h1
          · have : (key == "headers") = false := by simpa using hk
            simp only [this, Bool.false_eq_true, ↓reduceIte]
            exact h1

theorem additionalLoop_loc (O : Oracles) (k : IKids) (hk : KidsLV k) (path : String) (kvs : List (String × JVal))
    (hq : ∀ kv ∈ kvs, hdrQuiet kv.2 = true) (res : Res)
    (h : Loc path res) : Loc path (additionalLoop O k path kvs res) := by
  induction kvs generalizing res with
  | nil => exact h
  | cons kv rest ih =>
    obtain ⟨key, x⟩ := kv
    have hq' : ∀ kv ∈ rest, hdrQuiet kv.2 = true := fun kv hkv => hq kv (List.mem_cons_of_mem _ hkv)
    have hx : hdrQuiet x = true := hq (key, x) List.mem_cons_self
    simp only [additionalLoop]
    split
    · exact ih hq' _ h
    · have hp := patApply_loc O path key x hx k.patProps hk.patProps res false [] h
      split
      · exact ih hq' _ hp
      · split
        · rename_i f hf
          exact ih hq' _ (loc_mergeOne hp (loc_mono (pre_dot path key) (hk.addPropsS f hf (dot path key) x hx)))
        · exact ih hq' _ hp

theorem alookup_quiet (kvs : List (String × JVal)) (hq : ∀ kv ∈ kvs, hdrQuiet kv.2 = true) (name : String) (x : JVal)
    (h : alookup name kvs = some x) : hdrQuiet x = true := by
  induction kvs with
  | nil => simp [alookup] at h
  | cons kv rest ih =>
    obtain ⟨k', x'⟩ := kv
    simp only [alookup] at h
    split at h
    · cases h; exact hq (k', x) List.mem_cons_self
    · exact ih (fun kv hkv => hq kv (List.mem_cons_of_mem _ hkv)) h

theorem propsLoop_loc (path : String) (kvs : List (String × JVal)) (hq : ∀ kv ∈ kvs, hdrQuiet kv.2 = true)
    (props : List (String × V)) (hp : ∀ nf ∈ props, LV nf.2)
    (res : Res) (h : Loc path res) : Loc path (propsLoop path kvs props res) := by
  induction props generalizing res with
  | nil => exact h
  | cons nf rest ih =>
    obtain ⟨name, f⟩ := nf
    have hrest : ∀ nf ∈ rest, LV nf.2 := fun nf hnf => hp nf (List.mem_cons_of_mem _ hnf)
    have hf : LV f := hp (name, f) List.mem_cons_self
    simp only [propsLoop]
    split
    · rename_i x hxl
      have hx : hdrQuiet x = true := alookup_quiet kvs hq name x hxl
      apply ih hrest
      apply loc_mergeOne h
      by_cases hpath : path = ""
      · subst hpath
        exact loc_mono (pre_empty _) (hf _ x hx)
      · have : (path == "") = false := by simpa using hpath
        simp only [this, Bool.false_eq_true, ↓reduceIte]
        exact loc_mono (pre_dot path name) (hf _ x hx)
    · exact ih hrest _ h

theorem foldPats_loc (k : IKids) (hk : KidsLV k) (path key : String) (x : JVal) (hx : hdrQuiet x = true) (pats : List String)
    (res : Res) (h : Loc path res) :
    Loc path (pats.foldl (fun acc p => match alookup p k.patProps with
        | some f => acc.mergeOne (f (dot path key) x)
        | none => acc) res) := by
  induction pats generalizing res with
  | nil => exact h
  | cons p rest ih =>
    simp only [List.foldl_cons]
    apply ih
    split
    · rename_i f hf
      exact loc_mergeOne h (loc_mono (pre_dot path key) (alookup_mem_lv hf hk.patProps (dot path key) x hx))
    · exact h

theorem patSecondLoop_loc (O : Oracles) (k : IKids) (hk : KidsLV k) (path : String) (kvs : List (String × JVal))
    (hq : ∀ kv ∈ kvs, hdrQuiet kv.2 = true) (res : Res)
    (h : Loc path res) : Loc path (patSecondLoop O k path kvs res) := by
  induction kvs generalizing res with
  | nil => exact h
  | cons kv rest ih =>
    obtain ⟨key, x⟩ := kv
    have hq' : ∀ kv ∈ rest, hdrQuiet kv.2 = true := fun kv hkv => hq kv (List.mem_cons_of_mem _ hkv)
    have hx : hdrQuiet x = true := hq (key, x) List.mem_cons_self
    simp only [patSecondLoop]
    have hp := patApply_loc O path key x hx k.patProps hk.patProps res false [] h
    split
    · exact ih hq' _ hp
    · exact ih hq' _ (foldPats_loc k hk path key x hx _ _ hp)

/-- without the Swagger pre-checks nothing is added before the loops -/
theorem precheck_off (path : String) (kvs : List (String × JVal)) (res : Res) :
    precheck {} path kvs res = res := by
  simp [precheck]

theorem objectValidate_loc (cfg : Cfg) (O : Oracles) (b : SBase) (defaults : List String) (k : IKids) (hk : KidsLV k)
    (path : String) (kvs : List (String × JVal)) (hqm : hdrQuietM kvs = true) :
    Loc path (objectValidate cfg {} O b defaults k path kvs) := by
  have hq : ∀ kv ∈ kvs, hdrQuiet kv.2 = true := fun kv hkv => (hdrQuietM_mem kvs hqm kv hkv).1
  have hqh : ∀ kv ∈ kvs, kv.1 = "headers" → (headerRefErrors "" kv.2).all Option.isNone = true :=
    fun kv hkv => (hdrQuietM_mem kvs hqm kv hkv).2
  unfold objectValidate
  simp only [precheck_off]
  split
  · exact loc_sErr _ _ (under_self _ _ rfl)
  · split
    · exact loc_sErr _ _ (under_self _ _ rfl)
    · apply patSecondLoop_loc O k hk _ _ hq
      apply loc_addErrors
      · apply propsLoop_loc _ _ hq _ hk.props
        split
        · exact noAdditionalLoop_loc cfg O k path kvs hqh _ (loc_empty _)
        · exact additionalLoop_loc O k hk path kvs hq _ (loc_empty _)
      · intro m hm
        simp only [List.mem_map] at hm
        obtain ⟨name, _, hn⟩ := hm
        split at hn
        · cases hn
        · split at hn
          · cases hn
          · simp only [Option.some.injEq] at hn; subst hn
            rfl

/-! ### one node, the tree, references by fuel -/

theorem loc_step {p : String} (a : Bool) (res : Option Res) (acc : Res) (h1 : Loc p acc) (h2 : LocOpt p res) : Loc p (step a res acc) := by
  unfold step
  split
  · exact loc_inc (loc_merge _ h1 (fun o ho => by simp only [List.mem_singleton] at ho; subst ho; exact h2))
  · exact h1

theorem nodeValidate_loc (cfg : Cfg) (O : Oracles) (b : SBase) (defaults : Defaults) (k : IKids) (hk : KidsLV k)
    (path : String) (v : JVal) (hq : hdrQuiet v = true) : Loc path (nodeValidate cfg {} O b defaults k path v) := by
  unfold nodeValidate
  have hT : LocOpt path (some (typeValidate cfg O b path v)) := typeValidate_loc cfg O b path v
  have hP : LocOpt path (some (schemaPropsValidate cfg b k path v)) := schemaPropsValidate_loc cfg b k hk path v hq
  have hC := commonValidate_loc cfg b path v
  split
  · exact loc_merge _ (loc_merge _ (loc_empty _) (fun o ho => by simp only [List.mem_singleton] at ho; subst ho; exact hT))
      (fun o ho => by simp only [List.mem_singleton] at ho; subst ho; exact hC)
  · apply loc_inc
    have s1 := loc_step (typeApplies b) _ _ (loc_empty path) hT
    have s2 := loc_step true _ _ s1 hP
    cases v with
    | null => exact loc_step true _ _ s2 hC
    | bool x => exact loc_step true _ _ s2 hC
    | num n =>
      exact loc_step true _ _ (loc_step true _ _ s2 (numberValidate_loc cfg O b path n)) hC
    | str s =>
      exact loc_step true _ _ (loc_step _ _ _ (loc_step true _ _ s2 (stringValidate_loc O b path s)) (formatValidate_loc O b path s)) hC
    | arr xs =>
      have hxs : ∀ x ∈ xs, hdrQuiet x = true := hdrQuietL_mem xs (by simpa [hdrQuiet] using hq)
      exact loc_step true _ _ (loc_step true _ _ s2 (sliceValidate_loc cfg b k hk path xs hxs)) hC
    | obj kvs =>
      have hkvs : hdrQuietM kvs = true := by simpa [hdrQuiet] using hq
      exact loc_step true _ _ (loc_step true _ _ s2 hC) (objectValidate_loc cfg O b defaults k hk path kvs hkvs)

section
variable (cfg : Cfg) (O : Oracles) (r : String → V) (hr : ∀ name, LV (r name))
include hr

mutual
theorem validate_loc (s : Schema) : LV (validate cfg {} O r s) := by
  match s with
  | .mk b itemsS itemsT addItemsS props patProps addPropsS depSchemas allOf anyOf oneOf nt =>
    intro p x hx
    rw [validate_mk']
    split
    · exact hr b.ref p x hx
    · refine nodeValidate_loc cfg O b _ _ ?_ p x hx
      constructor
      · intro f hf
        cases itemsS with
        | none => cases hf
        | some s' => cases hf; exact validate_loc s'
      · exact validateL_loc itemsT
      · intro f hf
        cases addItemsS with
        | none => cases hf
        | some s' => cases hf; exact validate_loc s'
      · exact validateM_loc props
      · exact validateM_loc patProps
      · intro f hf
        cases addPropsS with
        | none => cases hf
        | some s' => cases hf; exact validate_loc s'
      · exact validateM_loc depSchemas
      · exact validateL_loc allOf
      · exact validateL_loc anyOf
      · exact validateL_loc oneOf
      · intro f hf
        cases nt with
        | none => cases hf
        | some s' => cases hf; exact validate_loc s'
theorem validateL_loc (l : List Schema) : ∀ f ∈ validateL cfg {} O r l, LV f := by
  match l with
  | [] => intro f hf; simp [validateL] at hf
  | s :: ss =>
    intro f hf
    simp only [validateL, List.mem_cons] at hf
    rcases hf with rfl | hf
    · exact validate_loc s
    · exact validateL_loc ss f hf
theorem validateM_loc (l : List (String × Schema)) : ∀ nf ∈ validateM cfg {} O r l, LV nf.2 := by
  match l with
  | [] => intro nf hnf; simp [validateM] at hnf
  | (name, s) :: ps =>
    intro nf hnf
    simp only [validateM, List.mem_cons] at hnf
    rcases hnf with rfl | hnf
    · exact validate_loc s
    · exact validateM_loc ps nf hnf
end
end

theorem validateF_loc (cfg : Cfg) (O : Oracles) (defs : String → Option Schema) (n : Nat) (s : Schema) :
    LV (validateF cfg {} O defs n s) := by
  induction n generalizing s with
  | zero =>
    simp only [validateF]
    exact validate_loc cfg O _ (fun name p x _ => loc_sErr p eFuel rfl) s
  | succ n ih =>
    simp only [validateF]
    refine validate_loc cfg O _ (fun name p x hx => ?_) s
    cases hd : defs name with
    | none => simp only []; exact ⟨(by intro m hm; cases hm), (by intro m hm; cases hm)⟩
    | some t => simp only []; exact ih t p x hx

end VM.NoImp
