/-
  The validator tree of the model never sets the panic flag, for *every* schema (no vocabulary
  condition: empty enums, multipleOf ≤ 0, patterns that do not compile, unknown types and formats,
  keywords foreign to the instance kind …), every instance, every option and every oracle — provided
  the additional-items loop has its repaired bound (`addlItemsBound = false`, the code as it is after the
  `fix:` commits) and every `$ref` that is followed resolves (an unresolvable one is the documented panic).
-/
import VM.Proofs.ResOk
namespace VM
open Impl

/-- a built validator that never panics -/
def NP (f : V) : Prop := ∀ p x, (f p x).panicked = false

structure KidsNP (k : IKids) : Prop where
  itemsS : ∀ f, k.itemsS = some f → NP f
  itemsT : ∀ f ∈ k.itemsT, NP f
  addItemsS : ∀ f, k.addItemsS = some f → NP f
  props : ∀ nf ∈ k.props, NP nf.2
  patProps : ∀ nf ∈ k.patProps, NP nf.2
  addPropsS : ∀ f, k.addPropsS = some f → NP f
  depSchemas : ∀ nf ∈ k.depSchemas, NP nf.2
  allOf : ∀ f ∈ k.allOf, NP f
  anyOf : ∀ f ∈ k.anyOf, NP f
  oneOf : ∀ f ∈ k.oneOf, NP f
  not : ∀ f, k.not = some f → NP f

/-! ### leaves -/

/-- split every `if`/`match` of the goal and close the leaves, which are literal results -/
macro "np_leaves" : tactic => `(tactic| ((repeat' split) <;> (first | rfl | simp)))

theorem panicked_ite (c : Prop) [Decidable c] (a b : Res) (ha : a.panicked = false) (hb : b.panicked = false) :
    (if c then a else b).panicked = false := by
  split <;> assumption

theorem typeValidate_np (cfg : Cfg) (O : Oracles) (b : SBase) (path : String) (v : JVal) :
    (typeValidate cfg O b path v).panicked = false := by
  unfold typeValidate
  split
  · exact panicked_ite _ _ _ rfl rfl
  · exact panicked_ite _ _ _ rfl (panicked_ite _ _ _ rfl (panicked_ite _ _ _ rfl rfl))

theorem stringValidate_np (O : Oracles) (b : SBase) (path : String) (s : String) :
    panickedOpt (stringValidate O b path s) = false := by
  unfold stringValidate
  np_leaves

theorem formatValidate_np (O : Oracles) (b : SBase) (path : String) (s : String) :
    (formatValidate O b path s).panicked = false := by
  unfold formatValidate; np_leaves

theorem numberValidate_np (cfg : Cfg) (O : Oracles) (b : SBase) (path : String) (n : Rat) :
    (numberValidate cfg O b path n).panicked = false := by
  unfold numberValidate
  simp only [panicked_inc, panicked_merge, panicked_default, Bool.false_or, List.any_cons, List.any_nil, Bool.or_false,
    Bool.or_eq_false_iff]
  refine ⟨?_, ?_, ?_⟩
  · cases b.multipleOf with
    | none => rfl
    | some m => simp only [Option.map_some, panickedOpt_some]; np_leaves
  · cases b.minimum with
    | none => rfl
    | some m => simp only [Option.map_some, panickedOpt_some]; np_leaves
  · cases b.maximum with
    | none => rfl
    | some m => simp only [Option.map_some, panickedOpt_some]; np_leaves

theorem commonValidate_np (cfg : Cfg) (b : SBase) (path : String) (v : JVal) :
    panickedOpt (commonValidate cfg b path v) = false := by
  unfold commonValidate
  np_leaves

/-! ### slices -/

theorem itemsLoop_np (f : V) (hf : NP f) (path : String) (xs : List JVal) (i : Nat) (acc : Res)
    (h : acc.panicked = false) : (itemsLoop f path xs i acc).panicked = false := by
  induction xs generalizing i acc with
  | nil => exact h
  | cons x xs ih => simp only [itemsLoop]; exact ih _ _ (by simp [h, hf path x])

theorem tupleLoop_np (path : String) (fs : List V) (hfs : ∀ f ∈ fs, NP f) (xs : List JVal) (i : Nat) (acc : Res)
    (h : acc.panicked = false) : (tupleLoop path fs xs i acc).panicked = false := by
  induction fs generalizing xs i acc with
  | nil => simpa [tupleLoop] using h
  | cons f fs ih =>
    cases xs with
    | nil => simpa [tupleLoop] using h
    | cons x xs =>
      simp only [tupleLoop]
      exact ih (fun g hg => hfs g (List.mem_cons_of_mem _ hg)) _ _ _
        (by simp [h, hfs f List.mem_cons_self (idx path i) x])

/-- the loop never runs past the end when it starts at `i` with at most `size - i` rounds -/
theorem addlLoop_np (f : V) (hf : NP f) (path : String) (xs : List JVal) (fuel i : Nat) (acc : Res)
    (hb : i + fuel ≤ xs.length) (h : acc.panicked = false) : (addlLoop f path xs fuel i acc).panicked = false := by
  induction fuel generalizing i acc with
  | zero => exact h
  | succ fuel ih =>
    simp only [addlLoop]
    have hi : i < xs.length := by omega
    rw [List.getElem?_eq_getElem hi]
    simp only []
    exact ih (i + 1) _ (by omega) (by simp [h, hf (idx path i) xs[i]])

theorem addlPart_np (cfg : Cfg) (hc : cfg.addlItemsBound = false) (b : SBase) (k : IKids) (hk : KidsNP k) (path : String)
    (xs : List JVal) (r2 : Res) (h : r2.panicked = false) : (addlPart cfg b k path xs r2).panicked = false := by
  unfold addlPart
  simp only [hc, Bool.false_eq_true, ↓reduceIte]
  split
  · rename_i hlt
    have hlt' : k.itemsT.length < xs.length := by
      simp only [Bool.and_eq_true, decide_eq_true_eq] at hlt; exact hlt.2
    have hr : (if k.itemsT.length > 0 && b.addItems == .bool false then r2.addErrors [some eNoAddlItems] else r2).panicked = false := by
      split <;> simpa using h
    split
    · rename_i f hm1 hm2
      split
      · exact addlLoop_np f (hk.addItemsS f hm2) path xs _ _ _ (by omega) hr
      · exact hr
    · exact hr
  · exact h

theorem sizePart_np (b : SBase) (path : String) (xs : List JVal) (r3 : Res) (h : r3.panicked = false) :
    (sizePart b path xs r3).panicked = false := by
  unfold sizePart
  simp only [panicked_inc]
  split <;> split <;> split <;> simpa using h

theorem sliceValidate_np (cfg : Cfg) (hc : cfg.addlItemsBound = false) (b : SBase) (k : IKids) (hk : KidsNP k)
    (path : String) (xs : List JVal) : (sliceValidate cfg b k path xs).panicked = false := by
  unfold sliceValidate
  apply sizePart_np
  apply addlPart_np cfg hc b k hk
  apply tupleLoop_np _ _ hk.itemsT
  cases hi : k.itemsS with
  | none => rfl
  | some f => exact itemsLoop_np f (hk.itemsS f hi) _ _ _ _ rfl

/-! ### composition (schema_props.go) -/

theorem keepRelevant_np (cfg : Cfg) (r : Res) : (keepRelevant cfg r).panicked = false := by
  unfold keepRelevant; split <;> rfl

theorem anyOfLoop_np (cfg : Cfg) (path : String) (v : JVal) (fs : List V) (hfs : ∀ f ∈ fs, NP f) (best : Option Res)
    (main keep : Res) (hb : panickedOpt best = false) (hm : main.panicked = false) (hk : keep.panicked = false) :
    (anyOfLoop cfg path v fs best main keep).1.panicked = false ∧ (anyOfLoop cfg path v fs best main keep).2.panicked = false := by
  induction fs generalizing best main keep with
  | nil => simp [anyOfLoop, hm, hk, hb]
  | cons f fs ih =>
    have hf := hfs f List.mem_cons_self path v
    have hrest : ∀ g ∈ fs, NP g := fun g hg => hfs g (List.mem_cons_of_mem _ hg)
    simp only [anyOfLoop]
    split
    · simp [hm, hf]
    · split
      · exact ih hrest _ _ _ (by simp [hf]) (by simp [hm, hf]) (by simp [hk, keepRelevant_np])
      · exact ih hrest _ _ _ hb (by simp [hm, hf]) (by simp [hk, keepRelevant_np])

theorem oneOfLoop_np (cfg : Cfg) (path : String) (v : JVal) (fs : List V) (hfs : ∀ f ∈ fs, NP f) (first best : Option Res)
    (n : Nat) (main keep : Res) (hfi : panickedOpt first = false) (hb : panickedOpt best = false)
    (hm : main.panicked = false) (hk : keep.panicked = false) :
    (oneOfLoop cfg path v fs first best n main keep).1.panicked = false
      ∧ (oneOfLoop cfg path v fs first best n main keep).2.panicked = false := by
  induction fs generalizing first best n main keep with
  | nil =>
    simp only [oneOfLoop]
    split <;> simp [hm, hk, hb, hfi]
  | cons f fs ih =>
    have hf := hfs f List.mem_cons_self path v
    have hrest : ∀ g ∈ fs, NP g := fun g hg => hfs g (List.mem_cons_of_mem _ hg)
    simp only [oneOfLoop]
    split
    · refine ih hrest _ _ _ _ _ ?_ hb (by simp [hm, hf]) rfl
      split
      · simp [hf]
      · exact hfi
    · split
      · exact ih hrest _ _ _ _ _ hfi (by simp [hf]) (by simp [hm, hf]) (by simp [hk, keepRelevant_np])
      · exact ih hrest _ _ _ _ _ hfi hb (by simp [hm, hf]) (by simp [hk, keepRelevant_np])

theorem allOfLoop_np (cfg : Cfg) (path : String) (v : JVal) (total : Nat) (fs : List V) (hfs : ∀ f ∈ fs, NP f) (n : Nat)
    (main keep : Res) (hm : main.panicked = false) (hk : keep.panicked = false) :
    (allOfLoop cfg path v total fs n main keep).1.panicked = false
      ∧ (allOfLoop cfg path v total fs n main keep).2.panicked = false := by
  induction fs generalizing n main keep with
  | nil =>
    simp only [allOfLoop]
    split
    · simp [hm, hk]
    · split <;> simp [hm, hk]
  | cons f fs ih =>
    have hf := hfs f List.mem_cons_self path v
    have hrest : ∀ g ∈ fs, NP g := fun g hg => hfs g (List.mem_cons_of_mem _ hg)
    simp only [allOfLoop]
    exact ih hrest _ _ _ (by simp [hm, hf]) (by simp [hk, keepRelevant_np])

theorem alookup_mem_np {k : String} {l : List (String × V)} {f : V} (h : alookup k l = some f) (hl : ∀ nf ∈ l, NP nf.2) : NP f := by
  induction l with
  | nil => simp [alookup] at h
  | cons p ps ih =>
    obtain ⟨k', g⟩ := p
    simp only [alookup] at h
    split at h
    · cases h; exact hl (k', f) List.mem_cons_self
    · exact ih h (fun nf hnf => hl nf (List.mem_cons_of_mem _ hnf))

theorem depsLoop_np (b : SBase) (k : IKids) (hk : KidsNP k) (path : String) (v : JVal) (kvs rest : List (String × JVal))
    (main : Res) (hm : main.panicked = false) : (depsLoop b k path v kvs rest main).panicked = false := by
  induction rest generalizing main with
  | nil => exact hm
  | cons kv rest ih =>
    obtain ⟨key, x⟩ := kv
    simp only [depsLoop]
    split
    · rename_i f hf
      exact ih _ (by simp [hm, alookup_mem_np hf hk.depSchemas (dot path key) v])
    · split
      · exact ih _ (by simpa using hm)
      · exact ih _ hm

theorem schemaPropsValidate_np (cfg : Cfg) (b : SBase) (k : IKids) (hk : KidsNP k) (path : String) (v : JVal) :
    (schemaPropsValidate cfg b k path v).panicked = false := by
  unfold schemaPropsValidate
  have h1 : (anyOfPart cfg k path v {}).1.panicked = false ∧ panickedOpt (anyOfPart cfg k path v {}).2 = false := by
    unfold anyOfPart
    split
    · exact ⟨rfl, rfl⟩
    · exact anyOfLoop_np cfg path v k.anyOf hk.anyOf none {} {} rfl rfl rfl
  have h2 : (oneOfPart cfg k path v (anyOfPart cfg k path v {}).1).1.panicked = false
      ∧ panickedOpt (oneOfPart cfg k path v (anyOfPart cfg k path v {}).1).2 = false := by
    unfold oneOfPart
    split
    · exact ⟨h1.1, rfl⟩
    · exact oneOfLoop_np cfg path v k.oneOf hk.oneOf none none 0 _ {} rfl rfl h1.1 rfl
  have h3 : (allOfPart cfg k path v (oneOfPart cfg k path v (anyOfPart cfg k path v {}).1).1).1.panicked = false
      ∧ panickedOpt (allOfPart cfg k path v (oneOfPart cfg k path v (anyOfPart cfg k path v {}).1).1).2 = false := by
    unfold allOfPart
    split
    · exact ⟨h2.1, rfl⟩
    · exact allOfLoop_np cfg path v _ k.allOf hk.allOf 0 _ {} h2.1 rfl
  have h4 : ∀ main : Res, main.panicked = false → (notPart k path v main).panicked = false := by
    intro main hm
    unfold notPart
    split
    · rename_i f hf
      simp only []
      split <;> simp [hm, hk.not f hf path v]
    · exact hm
  have h5 : ∀ main : Res, main.panicked = false → (depsPart b k path v main).panicked = false := by
    intro main hm
    unfold depsPart
    split
    · split
      · exact hm
      · exact depsLoop_np b k hk path _ _ _ main hm
    · exact hm
  simp only [panicked_merge, panicked_inc, List.any_cons, List.any_nil, Bool.or_false, Bool.or_eq_false_iff]
  exact ⟨h5 _ (h4 _ h3.1), h3.2, h2.2, h1.2⟩

/-! ### object validator (object_validator.go) -/

theorem patApply_np (O : Oracles) (path key : String) (x : JVal) (pats : List (String × V)) (hp : ∀ nf ∈ pats, NP nf.2)
    (res : Res) (matched : Bool) (acc : List String) (h : res.panicked = false) :
    (patApply O path key x pats res matched acc).1.panicked = false := by
  induction pats generalizing res matched acc with
  | nil => exact h
  | cons pf rest ih =>
    obtain ⟨p, f⟩ := pf
    have hrest : ∀ nf ∈ rest, NP nf.2 := fun nf hnf => hp nf (List.mem_cons_of_mem _ hnf)
    simp only [patApply]
    split
    · have hf : NP f := hp (p, f) List.mem_cons_self
      exact ih hrest _ _ _ (by simp [h, hf (dot path key) x])
    · exact ih hrest _ _ _ h

theorem noAdditionalLoop_np (cfg : Cfg) (O : Oracles) (k : IKids) (path : String) (kvs : List (String × JVal)) (res : Res)
    (h : res.panicked = false) : (noAdditionalLoop cfg O k path kvs res).panicked = false := by
  induction kvs generalizing res with
  | nil => exact h
  | cons kv rest ih =>
    obtain ⟨key, x⟩ := kv
    simp only [noAdditionalLoop]
    split
    · exact ih _ h
    · split
      · exact ih _ h
      · split
        · exact ih _ h
        · apply ih
          split <;> simpa using h

theorem additionalLoop_np (O : Oracles) (k : IKids) (hk : KidsNP k) (path : String) (kvs : List (String × JVal)) (res : Res)
    (h : res.panicked = false) : (additionalLoop O k path kvs res).panicked = false := by
  induction kvs generalizing res with
  | nil => exact h
  | cons kv rest ih =>
    obtain ⟨key, x⟩ := kv
    simp only [additionalLoop]
    split
    · exact ih _ h
    · have hp := patApply_np O path key x k.patProps hk.patProps res false [] h
      split
      · exact ih _ hp
      · split
        · rename_i f hf
          exact ih _ (by simp [hp, hk.addPropsS f hf (dot path key) x])
        · exact ih _ hp

theorem propsLoop_np (path : String) (kvs : List (String × JVal)) (props : List (String × V)) (hp : ∀ nf ∈ props, NP nf.2)
    (res : Res) (h : res.panicked = false) : (propsLoop path kvs props res).panicked = false := by
  induction props generalizing res with
  | nil => exact h
  | cons nf rest ih =>
    obtain ⟨name, f⟩ := nf
    have hrest : ∀ nf ∈ rest, NP nf.2 := fun nf hnf => hp nf (List.mem_cons_of_mem _ hnf)
    simp only [propsLoop]
    split
    · have hf : NP f := hp (name, f) List.mem_cons_self
      exact ih hrest _ (by simp [h, hf _ _])
    · exact ih hrest _ h

theorem foldPats_np (k : IKids) (hk : KidsNP k) (path key : String) (x : JVal) (pats : List String) (res : Res)
    (h : res.panicked = false) :
    (pats.foldl (fun acc p => match alookup p k.patProps with
        | some f => acc.mergeOne (f (dot path key) x)
        | none => acc) res).panicked = false := by
  induction pats generalizing res with
  | nil => exact h
  | cons p rest ih =>
    simp only [List.foldl_cons]
    apply ih
    split
    · rename_i f hf
      simp [h, alookup_mem_np hf hk.patProps (dot path key) x]
    · exact h

theorem patSecondLoop_np (O : Oracles) (k : IKids) (hk : KidsNP k) (path : String) (kvs : List (String × JVal)) (res : Res)
    (h : res.panicked = false) : (patSecondLoop O k path kvs res).panicked = false := by
  induction kvs generalizing res with
  | nil => exact h
  | cons kv rest ih =>
    obtain ⟨key, x⟩ := kv
    simp only [patSecondLoop]
    have hp := patApply_np O path key x k.patProps hk.patProps res false [] h
    split
    · exact ih _ hp
    · exact ih _ (foldPats_np k hk path key x _ _ hp)

theorem precheck_np (opts : Opts) (path : String) (kvs : List (String × JVal)) (res : Res) (h : res.panicked = false) :
    (precheck opts path kvs res).panicked = false := by
  unfold precheck
  simp only []
  repeat' split
  all_goals simpa using h

theorem objectValidate_np (cfg : Cfg) (opts : Opts) (O : Oracles) (b : SBase) (defaults : List String) (k : IKids) (hk : KidsNP k)
    (path : String) (kvs : List (String × JVal)) : (objectValidate cfg opts O b defaults k path kvs).panicked = false := by
  unfold objectValidate
  simp only []
  split
  · rfl
  · split
    · rfl
    · apply patSecondLoop_np O k hk
      simp only [panicked_addErrors]
      apply propsLoop_np _ _ _ hk.props
      split
      · exact noAdditionalLoop_np cfg O k path kvs _ (precheck_np opts path kvs {} rfl)
      · exact additionalLoop_np O k hk path kvs _ (precheck_np opts path kvs {} rfl)

/-! ### one node, the tree, references by fuel -/

theorem nodeValidate_np (cfg : Cfg) (hc : cfg.addlItemsBound = false) (opts : Opts) (O : Oracles) (b : SBase)
    (defaults : Defaults) (k : IKids) (hk : KidsNP k) (path : String) (v : JVal) :
    (nodeValidate cfg opts O b defaults k path v).panicked = false := by
  unfold nodeValidate
  split
  · simp [typeValidate_np, commonValidate_np]
  · simp only [panicked_inc]
    have hT := typeValidate_np cfg O b path v
    have hP := schemaPropsValidate_np cfg b k hk path v
    have hC := commonValidate_np cfg b path v
    cases v with
    | null => simp [hT, hP, hC]
    | bool x => simp [hT, hP, hC]
    | num n => simp [hT, hP, hC, numberValidate_np]
    | str s => simp [hT, hP, hC, stringValidate_np, formatValidate_np]
    | arr xs => simp [hT, hP, hC, sliceValidate_np cfg hc b k hk path xs]
    | obj kvs => simp [hT, hP, hC, objectValidate_np cfg opts O b defaults k hk path kvs]

/- every `$ref` of the schema (at any depth) is one the resolver knows -/
mutual
def refsKnown (known : String → Bool) : Schema → Bool
  | .mk b itemsS itemsT addItemsS props patProps addPropsS depSchemas allOf anyOf oneOf nt =>
    if b.ref != "" then known b.ref else
    (match itemsS with | some s => refsKnown known s | none => true)
    && refsKnownL known itemsT
    && (match addItemsS with | some s => refsKnown known s | none => true)
    && refsKnownM known props && refsKnownM known patProps
    && (match addPropsS with | some s => refsKnown known s | none => true)
    && refsKnownM known depSchemas
    && refsKnownL known allOf && refsKnownL known anyOf && refsKnownL known oneOf
    && (match nt with | some s => refsKnown known s | none => true)
termination_by structural s => s
def refsKnownL (known : String → Bool) : List Schema → Bool
  | [] => true
  | s :: ss => refsKnown known s && refsKnownL known ss
termination_by structural l => l
def refsKnownM (known : String → Bool) : List (String × Schema) → Bool
  | [] => true
  | (_, s) :: ps => refsKnown known s && refsKnownM known ps
termination_by structural l => l
end

theorem refsKnown_mk (known : String → Bool) (b : SBase) (itemsS : Option Schema) (itemsT : List Schema) (addItemsS : Option Schema)
    (props patProps : List (String × Schema)) (addPropsS : Option Schema) (depSchemas : List (String × Schema))
    (allOf anyOf oneOf : List Schema) (nt : Option Schema) :
    refsKnown known (.mk b itemsS itemsT addItemsS props patProps addPropsS depSchemas allOf anyOf oneOf nt) =
    (if b.ref != "" then known b.ref else
    (match itemsS with | some s => refsKnown known s | none => true)
    && refsKnownL known itemsT
    && (match addItemsS with | some s => refsKnown known s | none => true)
    && refsKnownM known props && refsKnownM known patProps
    && (match addPropsS with | some s => refsKnown known s | none => true)
    && refsKnownM known depSchemas
    && refsKnownL known allOf && refsKnownL known anyOf && refsKnownL known oneOf
    && (match nt with | some s => refsKnown known s | none => true)) := by
  cases itemsS <;> cases addItemsS <;> cases addPropsS <;> cases nt <;> rfl

theorem validate_mk' (cfg : Cfg) (opts : Opts) (O : Oracles) (r : String → V) (b : SBase) (itemsS : Option Schema)
    (itemsT : List Schema) (addItemsS : Option Schema) (props patProps : List (String × Schema)) (addPropsS : Option Schema)
    (depSchemas : List (String × Schema)) (allOf anyOf oneOf : List Schema) (nt : Option Schema) (path : String) (v : JVal) :
    validate cfg opts O r (.mk b itemsS itemsT addItemsS props patProps addPropsS depSchemas allOf anyOf oneOf nt) path v
      = if b.ref != "" then r b.ref path v else
        nodeValidate cfg opts O b (defaultsOf props)
          { itemsS := match itemsS with | some s => some (fun p x => validate cfg opts O r s p x) | none => none
            itemsT := validateL cfg opts O r itemsT
            addItemsS := match addItemsS with | some s => some (fun p x => validate cfg opts O r s p x) | none => none
            props := validateM cfg opts O r props
            patProps := validateM cfg opts O r patProps
            addPropsS := match addPropsS with | some s => some (fun p x => validate cfg opts O r s p x) | none => none
            depSchemas := validateM cfg opts O r depSchemas
            allOf := validateL cfg opts O r allOf
            anyOf := validateL cfg opts O r anyOf
            oneOf := validateL cfg opts O r oneOf
            not := match nt with | some s => some (fun p x => validate cfg opts O r s p x) | none => none } path v := by
  cases itemsS <;> cases addItemsS <;> cases addPropsS <;> cases nt <;> rfl

section
variable (cfg : Cfg) (hc : cfg.addlItemsBound = false) (opts : Opts) (O : Oracles) (r : String → V) (known : String → Bool)
  (hr : ∀ name, known name = true → NP (r name))
include hc hr

mutual
theorem validate_np (s : Schema) (hs : refsKnown known s = true) : NP (validate cfg opts O r s) := by
  match s with
  | .mk b itemsS itemsT addItemsS props patProps addPropsS depSchemas allOf anyOf oneOf nt =>
    rw [refsKnown_mk] at hs
    intro p x
    rw [validate_mk']
    by_cases hb : (b.ref != "") = true
    · rw [if_pos hb] at hs ⊢
      exact hr b.ref hs p x
    · rw [if_neg hb] at hs ⊢
      simp only [Bool.and_eq_true] at hs
      obtain ⟨⟨⟨⟨⟨⟨⟨⟨⟨⟨h1, h2⟩, h3⟩, h4⟩, h5⟩, h6⟩, h7⟩, h8⟩, h9⟩, h10⟩, h11⟩ := hs
      apply nodeValidate_np cfg hc
      constructor
      · intro f hf
        cases itemsS with
        | none => cases hf
        | some s' => cases hf; exact validate_np s' h1
      · exact validateL_np itemsT h2
      · intro f hf
        cases addItemsS with
        | none => cases hf
        | some s' => cases hf; exact validate_np s' h3
      · exact validateM_np props h4
      · exact validateM_np patProps h5
      · intro f hf
        cases addPropsS with
        | none => cases hf
        | some s' => cases hf; exact validate_np s' h6
      · exact validateM_np depSchemas h7
      · exact validateL_np allOf h8
      · exact validateL_np anyOf h9
      · exact validateL_np oneOf h10
      · intro f hf
        cases nt with
        | none => cases hf
        | some s' => cases hf; exact validate_np s' h11
theorem validateL_np (l : List Schema) (hl : refsKnownL known l = true) : ∀ f ∈ validateL cfg opts O r l, NP f := by
  match l with
  | [] => intro f hf; simp [validateL] at hf
  | s :: ss =>
    simp only [refsKnownL, Bool.and_eq_true] at hl
    intro f hf
    simp only [validateL, List.mem_cons] at hf
    rcases hf with rfl | hf
    · exact validate_np s hl.1
    · exact validateL_np ss hl.2 f hf
theorem validateM_np (l : List (String × Schema)) (hl : refsKnownM known l = true) :
    ∀ nf ∈ validateM cfg opts O r l, NP nf.2 := by
  match l with
  | [] => intro nf hnf; simp [validateM] at hnf
  | (name, s) :: ps =>
    simp only [refsKnownM, Bool.and_eq_true] at hl
    intro nf hnf
    simp only [validateM, List.mem_cons] at hnf
    rcases hnf with rfl | hnf
    · exact validate_np s hl.1
    · exact validateM_np ps hl.2 nf hnf
end
end

/-- the definitions table is closed: what a reference resolves to only refers to things that resolve -/
def DefsClosed (defs : String → Option Schema) : Prop :=
  ∀ name t, defs name = some t → refsKnown (fun n => (defs n).isSome) t = true

theorem validateF_np (cfg : Cfg) (hc : cfg.addlItemsBound = false) (opts : Opts) (O : Oracles) (defs : String → Option Schema)
    (hdefs : DefsClosed defs) (n : Nat) (s : Schema) (hs : refsKnown (fun m => (defs m).isSome) s = true) :
    NP (validateF cfg opts O defs n s) := by
  induction n generalizing s with
  | zero =>
    simp only [validateF]
    exact validate_np cfg hc opts O _ _ (fun name _ p x => rfl) s hs
  | succ n ih =>
    simp only [validateF]
    refine validate_np cfg hc opts O _ (fun m => (defs m).isSome) (fun name hname => ?_) s hs
    cases hd : defs name with
    | none => simp [hd] at hname
    | some t =>
      intro p x
      simp only []
      exact ih t (hdefs name t hd) p x


/-! ### references known at every node, also below a node that is itself a reference -/

mutual
/-- every `$ref` anywhere in the schema is known — including in the siblings of a `$ref`, which the validator built for
    the node ignores but the walkers of the default and example validators visit -/
def allRefsKnown (known : String → Bool) : Schema → Bool
  | .mk b itemsS itemsT addItemsS props patProps addPropsS depSchemas allOf anyOf oneOf nt =>
    (b.ref == "" || known b.ref)
    && (match itemsS with | some s => allRefsKnown known s | none => true)
    && allRefsKnownL known itemsT
    && (match addItemsS with | some s => allRefsKnown known s | none => true)
    && allRefsKnownM known props && allRefsKnownM known patProps
    && (match addPropsS with | some s => allRefsKnown known s | none => true)
    && allRefsKnownM known depSchemas
    && allRefsKnownL known allOf && allRefsKnownL known anyOf && allRefsKnownL known oneOf
    && (match nt with | some s => allRefsKnown known s | none => true)
termination_by structural s => s
def allRefsKnownL (known : String → Bool) : List Schema → Bool
  | [] => true
  | s :: ss => allRefsKnown known s && allRefsKnownL known ss
termination_by structural l => l
def allRefsKnownM (known : String → Bool) : List (String × Schema) → Bool
  | [] => true
  | (_, s) :: ps => allRefsKnown known s && allRefsKnownM known ps
termination_by structural l => l
end

theorem allRefsKnown_mk (known : String → Bool) (b : SBase) (itemsS : Option Schema) (itemsT : List Schema) (addItemsS : Option Schema)
    (props patProps : List (String × Schema)) (addPropsS : Option Schema) (depSchemas : List (String × Schema))
    (allOf anyOf oneOf : List Schema) (nt : Option Schema) :
    allRefsKnown known (.mk b itemsS itemsT addItemsS props patProps addPropsS depSchemas allOf anyOf oneOf nt) =
    ((b.ref == "" || known b.ref)
    && (match itemsS with | some s => allRefsKnown known s | none => true)
    && allRefsKnownL known itemsT
    && (match addItemsS with | some s => allRefsKnown known s | none => true)
    && allRefsKnownM known props && allRefsKnownM known patProps
    && (match addPropsS with | some s => allRefsKnown known s | none => true)
    && allRefsKnownM known depSchemas
    && allRefsKnownL known allOf && allRefsKnownL known anyOf && allRefsKnownL known oneOf
    && (match nt with | some s => allRefsKnown known s | none => true)) := by
  cases itemsS <;> cases addItemsS <;> cases addPropsS <;> cases nt <;> rfl

theorem allRefsKnownL_mem (known : String → Bool) (l : List Schema) (h : allRefsKnownL known l = true) :
    ∀ s ∈ l, allRefsKnown known s = true := by
  induction l with
  | nil => intro s hs; cases hs
  | cons a l ih =>
    simp only [allRefsKnownL, Bool.and_eq_true] at h
    intro s hs
    rcases List.mem_cons.mp hs with rfl | hs
    · exact h.1
    · exact ih h.2 s hs

theorem allRefsKnownM_mem (known : String → Bool) (l : List (String × Schema)) (h : allRefsKnownM known l = true) :
    ∀ p ∈ l, allRefsKnown known p.2 = true := by
  induction l with
  | nil => intro s hs; cases hs
  | cons a l ih =>
    obtain ⟨k, t⟩ := a
    simp only [allRefsKnownM, Bool.and_eq_true] at h
    intro s hs
    rcases List.mem_cons.mp hs with rfl | hs
    · exact h.1
    · exact ih h.2 s hs

mutual
theorem allRefsKnown_refsKnown (known : String → Bool) (s : Schema) (h : allRefsKnown known s = true) :
    refsKnown known s = true := by
  match s with
  | .mk b itemsS itemsT addItemsS props patProps addPropsS depSchemas allOf anyOf oneOf nt =>
    rw [allRefsKnown_mk] at h
    rw [refsKnown_mk]
    simp only [Bool.and_eq_true, Bool.or_eq_true, beq_iff_eq] at h
    obtain ⟨⟨⟨⟨⟨⟨⟨⟨⟨⟨⟨h0, h1⟩, h2⟩, h3⟩, h4⟩, h5⟩, h6⟩, h7⟩, h8⟩, h9⟩, h10⟩, h11⟩ := h
    by_cases hr : b.ref = ""
    · have : (b.ref != "") = false := by simp [hr]
      simp only [this, Bool.false_eq_true, ↓reduceIte, Bool.and_eq_true]
      refine ⟨⟨⟨⟨⟨⟨⟨⟨⟨⟨?_, allRefsKnownL_refsKnownL known itemsT h2⟩, ?_⟩, allRefsKnownM_refsKnownM known props h4⟩,
        allRefsKnownM_refsKnownM known patProps h5⟩, ?_⟩, allRefsKnownM_refsKnownM known depSchemas h7⟩,
        allRefsKnownL_refsKnownL known allOf h8⟩, allRefsKnownL_refsKnownL known anyOf h9⟩,
        allRefsKnownL_refsKnownL known oneOf h10⟩, ?_⟩
      · cases itemsS with
        | none => rfl
        | some t => exact allRefsKnown_refsKnown known t h1
      · cases addItemsS with
        | none => rfl
        | some t => exact allRefsKnown_refsKnown known t h3
      · cases addPropsS with
        | none => rfl
        | some t => exact allRefsKnown_refsKnown known t h6
      · cases nt with
        | none => rfl
        | some t => exact allRefsKnown_refsKnown known t h11
    · have : (b.ref != "") = true := by simpa using hr
      simp only [this, ↓reduceIte]
      rcases h0 with h0 | h0
      · exact absurd h0 hr
      · exact h0
theorem allRefsKnownL_refsKnownL (known : String → Bool) (l : List Schema) (h : allRefsKnownL known l = true) :
    refsKnownL known l = true := by
  match l with
  | [] => rfl
  | s :: ss =>
    simp only [allRefsKnownL, Bool.and_eq_true] at h
    simp only [refsKnownL, Bool.and_eq_true]
    exact ⟨allRefsKnown_refsKnown known s h.1, allRefsKnownL_refsKnownL known ss h.2⟩
theorem allRefsKnownM_refsKnownM (known : String → Bool) (l : List (String × Schema)) (h : allRefsKnownM known l = true) :
    refsKnownM known l = true := by
  match l with
  | [] => rfl
  | (k, s) :: ps =>
    simp only [allRefsKnownM, Bool.and_eq_true] at h
    simp only [refsKnownM, Bool.and_eq_true]
    exact ⟨allRefsKnown_refsKnown known s h.1, allRefsKnownM_refsKnownM known ps h.2⟩
end

end VM
