/-
  One schema node: `Impl.nodeValidate` against `Spec.nodeValid`, given agreeing children.
-/
import VM.Proofs.Comp
import VM.Proofs.NoImp
namespace VM
open Impl Spec

mutual
/-- instances a configuration handles like draft 4 (closed under sub-instances):
    with the null early exit open, no `null` anywhere; with the `$schema`/`id` exemption open,
    no member of those names; with the IMPORTANT!-message leak open, no member called `headers` that holds objects with
    a string `$ref` (the one shape for which the code produces such a message) -/
def adm (cfg : Cfg) : JVal → Bool
  | .null => !cfg.nullSkipsComposition && !cfg.enumSkipsNil
  | .arr xs => admList cfg xs
  | .obj kvs => admMembers cfg kvs
  | _ => true
def admList (cfg : Cfg) : List JVal → Bool
  | [] => true
  | x :: xs => adm cfg x && admList cfg xs
def admMembers (cfg : Cfg) : List (String × JVal) → Bool
  | [] => true
  | (k, x) :: rest =>
    (!cfg.ignoresSchemaIdKeys || (k != "$schema" && k != "id"))
    && (!cfg.leaksImportant || k != "headers" || (headerRefErrors "" x).all Option.isNone)
    && adm cfg x && admMembers cfg rest
end

theorem admList_mem (cfg : Cfg) (xs : List JVal) (h : admList cfg xs = true) :
    ∀ x ∈ xs, adm cfg x = true := by
  induction xs with
  | nil => intro x hx; cases hx
  | cons y ys ih =>
    simp only [admList, Bool.and_eq_true] at h
    intro x hx
    rcases List.mem_cons.mp hx with rfl | hx
    · exact h.1
    · exact ih h.2 x hx

theorem admMembers_mem (cfg : Cfg) (kvs : List (String × JVal)) (h : admMembers cfg kvs = true) :
    (∀ kv ∈ kvs, adm cfg kv.2 = true) ∧
    (cfg.ignoresSchemaIdKeys = true → ∀ kv ∈ kvs, kv.1 ≠ "$schema" ∧ kv.1 ≠ "id") := by
  induction kvs with
  | nil => exact ⟨(by intro kv h; cases h), (by intro _ kv h; cases h)⟩
  | cons kv rest ih =>
    obtain ⟨k, x⟩ := kv
    simp only [admMembers, Bool.and_eq_true, Bool.or_eq_true, Bool.not_eq_eq_eq_not, Bool.not_true,
      bne_iff_ne, ne_eq] at h
    obtain ⟨⟨⟨h1, _⟩, h2⟩, h3⟩ := h
    obtain ⟨ih1, ih2⟩ := ih h3
    constructor
    · intro kv hkv
      rcases List.mem_cons.mp hkv with rfl | hkv
      · exact h2
      · exact ih1 kv hkv
    · intro hc kv hkv
      rcases List.mem_cons.mp hkv with rfl | hkv
      · rcases h1 with h1 | h1
        · rw [hc] at h1; cases h1
        · exact h1
      · exact ih2 hc kv hkv

mutual
/-- an admissible instance is quiet about `headers` when that switch is open -/
theorem adm_quiet (cfg : Cfg) (hc : cfg.leaksImportant = true) (v : JVal) (h : adm cfg v = true) : NoImp.hdrQuiet v = true := by
  match v with
  | .null => rfl
  | .bool _ => rfl
  | .num _ => rfl
  | .str _ => rfl
  | .arr xs => simp only [adm] at h; simp only [NoImp.hdrQuiet]; exact admList_quiet cfg hc xs h
  | .obj kvs => simp only [adm] at h; simp only [NoImp.hdrQuiet]; exact admMembers_quiet cfg hc kvs h
theorem admList_quiet (cfg : Cfg) (hc : cfg.leaksImportant = true) (xs : List JVal) (h : admList cfg xs = true) :
    NoImp.hdrQuietL xs = true := by
  match xs with
  | [] => rfl
  | x :: xs =>
    simp only [admList, Bool.and_eq_true] at h
    simp only [NoImp.hdrQuietL, Bool.and_eq_true]
    exact ⟨adm_quiet cfg hc x h.1, admList_quiet cfg hc xs h.2⟩
theorem admMembers_quiet (cfg : Cfg) (hc : cfg.leaksImportant = true) (kvs : List (String × JVal))
    (h : admMembers cfg kvs = true) : NoImp.hdrQuietM kvs = true := by
  match kvs with
  | [] => rfl
  | (k, x) :: rest =>
    simp only [admMembers, Bool.and_eq_true] at h
    obtain ⟨⟨⟨_, h1⟩, h2⟩, h3⟩ := h
    simp only [NoImp.hdrQuietM, Bool.and_eq_true]
    refine ⟨⟨?_, adm_quiet cfg hc x h2⟩, admMembers_quiet cfg hc rest h3⟩
    simpa [hc] using h1
end

theorem any_typeMatches_null (types : List String) :
    types.any (typeMatches · .null) = types.contains "null" := by
  induction types with
  | nil => rfl
  | cons t ts ih =>
    simp only [List.any_cons, List.contains_cons]
    rw [ih]
    simp only [typeMatches, JVal.isInteger, JVal.typeName]
    by_cases ht : t = "integer"
    · subst ht; simp
    · have h1 : (t == "integer") = false := by simpa using ht
      simp only [h1, Bool.false_eq_true, ↓reduceIte]
      congr 1
      by_cases h : t = "null"
      · subst h; rfl
      · have h2 : (t == "null") = false := by simpa using h
        have h3 : ("null" == t) = false := by simpa using fun e => h e.symm
        rw [h2, h3]

theorem type_verdict_null (cfg : Cfg) (O : Oracles) (b : SBase) (path : String)
    (hfmt : b.format ≠ "" → b.types ≠ []) (hnull : b.nullable = false) :
    (typeValidate cfg O b path .null).panicked = false ∧
    (!typeApplies b || (typeValidate cfg O b path .null).ok) = typeOK b.types .null := by
  unfold typeValidate typeApplies typeOK
  rw [any_typeMatches_null]
  simp only [hnull, Bool.not_false, Bool.and_true]
  cases he : b.types.isEmpty
  · cases hc : List.contains b.types "null" <;> simp
  · have : b.types = [] := by simpa using he
    have hf : b.format = "" := by
      by_cases hf : b.format = ""
      · exact hf
      · exact absurd this (hfmt hf)
    simp [this, hf]

/-- vocabulary and configuration conditions of one node -/
structure NodeWF (cfg : Cfg) (O : Oracles) (b : SBase) (defaults : Defaults) (ik : IKids)
    (sk : SKids) : Prop where
  /-- what is kept of a failed branch is empty: the switch is closed, or no branch result carries an IMPORTANT! message -/
  keep : ∀ path v, adm cfg v = true → ∀ f, (f ∈ ik.anyOf ∨ f ∈ ik.oneOf ∨ f ∈ ik.allOf) → keepRelevant cfg (f path v) = {}
  bound : cfg.addlItemsBound = false
  float : cfg.floatTolerance = true → OExact O
  fmtTypes : b.format ≠ "" → b.types ≠ []
  bypass : cfg.formatBypassesType = true →
    b.format = "" ∨ b.types.contains "number" = true ∨ b.types.contains "integer" = true
  mulPos : ∀ m, b.multipleOf = some m → 0 < m
  nullable : b.nullable = false
  req : cfg.requiredByDefault = true → ∀ n ∈ b.required, defaults.contains n = false
  addProps : b.addProps = .schema ↔ ik.addPropsS.isSome = true
  depsNodup : (akeys sk.depSchemas ++ akeys b.depProps).Nodup

theorem node_verdict (cfg : Cfg) (O : Oracles) (b : SBase) (defaults : Defaults) (ik : IKids)
    (sk : SKids) (hk : KidsAgree (fun x => adm cfg x = true) ik sk) (hw : NodeWF cfg O b defaults ik sk)
    (path : String) (v : JVal) (hv : adm cfg v = true) :
    good (nodeValidate cfg {} O b defaults ik path v) (nodeValid O b sk v) := by
  have hnn : cfg.enumSkipsNil = true → v.isNull = false := by
    intro hc; cases v <;> simp_all [adm, JVal.isNull]
  have hS := schemaProps_verdict cfg b ik sk hk path v (hw.keep path v hv) hv hw.depsNodup
  have hC := common_verdict cfg b path v hnn
  unfold nodeValidate nodeValid
  cases v with
  | null =>
    have hskip : cfg.nullSkipsComposition = false := by
      simp only [adm, Bool.and_eq_true, Bool.not_eq_eq_eq_not, Bool.not_true] at hv; exact hv.1
    simp only [JVal.isNull, hskip, Bool.and_false, Bool.false_eq_true, ↓reduceIte]
    -- general path for a null instance (only reachable in a configuration without the early exit)
    obtain ⟨hTp, hTo⟩ := type_verdict_null cfg O b path hw.fmtTypes hw.nullable
    obtain ⟨hSp, hSo⟩ := hS
    obtain ⟨hCp, hCo⟩ := hC
    refine ⟨?_, ?_⟩
    · simp [hTp, hSp, hCp]
    · simp only [ok_inc, ok_step, ok_default, okOpt_some, Bool.not_true, Bool.false_or, Bool.true_and,
        hSo, hCo, numOK, strOK, arrSizeOK, objSizeOK, itemsOK, membersOK, Bool.and_true]
      rw [hTo]
      generalize typeOK b.types JVal.null = c1
      generalize enumOK b.enum JVal.null = c2
      generalize depsOK b sk JVal.null = c3
      generalize compOK sk JVal.null = c4
      cases c1 <;> cases c2 <;> cases c3 <;> cases c4 <;> rfl
  | bool x =>
    obtain ⟨hTp, hTo⟩ := type_verdict cfg O b path (.bool x) rfl hw.float hw.fmtTypes hw.bypass
    obtain ⟨hSp, hSo⟩ := hS
    obtain ⟨hCp, hCo⟩ := hC
    simp only [JVal.isNull, Bool.false_and, Bool.false_eq_true, ↓reduceIte]
    refine ⟨?_, ?_⟩
    · simp [hTp, hSp, hCp]
    · simp only [ok_inc, ok_step, ok_default, okOpt_some, Bool.not_true, Bool.false_or, Bool.true_and,
        hSo, hCo, numOK, strOK, arrSizeOK, objSizeOK, itemsOK, membersOK, Bool.and_true]
      rw [hTo]
      generalize typeOK b.types (JVal.bool x) = c1
      generalize enumOK b.enum (JVal.bool x) = c2
      generalize depsOK b sk (JVal.bool x) = c3
      generalize compOK sk (JVal.bool x) = c4
      cases c1 <;> cases c2 <;> cases c3 <;> cases c4 <;> rfl
  | num n =>
    obtain ⟨hTp, hTo⟩ := type_verdict cfg O b path (.num n) rfl hw.float hw.fmtTypes hw.bypass
    obtain ⟨hSp, hSo⟩ := hS
    obtain ⟨hCp, hCo⟩ := hC
    obtain ⟨hNp, hNo⟩ := number_verdict cfg O b path n hw.float hw.mulPos
    simp only [JVal.isNull, Bool.false_and, Bool.false_eq_true, ↓reduceIte]
    refine ⟨?_, ?_⟩
    · simp [hTp, hSp, hCp, hNp]
    · simp only [ok_inc, ok_step, ok_default, okOpt_some, Bool.not_true, Bool.false_or, Bool.true_and,
        hSo, hCo, hNo, strOK, arrSizeOK, objSizeOK, itemsOK, membersOK, Bool.and_true]
      rw [hTo]
      generalize typeOK b.types (JVal.num n) = c1
      generalize enumOK b.enum (JVal.num n) = c2
      generalize depsOK b sk (JVal.num n) = c3
      generalize compOK sk (JVal.num n) = c4
      generalize numOK b (JVal.num n) = c5
      cases c1 <;> cases c2 <;> cases c3 <;> cases c4 <;> cases c5 <;> rfl
  | str s =>
    obtain ⟨hTp, hTo⟩ := type_verdict cfg O b path (.str s) rfl hw.float hw.fmtTypes hw.bypass
    obtain ⟨hSp, hSo⟩ := hS
    obtain ⟨hCp, hCo⟩ := hC
    obtain ⟨hStp, hFp, hSto⟩ := string_verdict O b path s
    simp only [JVal.isNull, Bool.false_and, Bool.false_eq_true, ↓reduceIte]
    refine ⟨?_, ?_⟩
    · simp [hTp, hSp, hCp, hStp, hFp]
    · simp only [ok_inc, ok_step, ok_default, okOpt_some, Bool.not_true, Bool.false_or, Bool.true_and,
        hSo, hCo, numOK, arrSizeOK, objSizeOK, itemsOK, membersOK, Bool.and_true]
      rw [hTo, ← hSto]
      generalize typeOK b.types (JVal.str s) = c1
      generalize enumOK b.enum (JVal.str s) = c2
      generalize depsOK b sk (JVal.str s) = c3
      generalize compOK sk (JVal.str s) = c4
      generalize okOpt (stringValidate O b path s) = c5
      generalize (!O.fmtKnown b.format || (formatValidate O b path s).ok) = c6
      cases c1 <;> cases c2 <;> cases c3 <;> cases c4 <;> cases c5 <;> cases c6 <;> rfl
  | arr xs =>
    obtain ⟨hTp, hTo⟩ := type_verdict cfg O b path (.arr xs) rfl hw.float hw.fmtTypes hw.bypass
    obtain ⟨hSp, hSo⟩ := hS
    obtain ⟨hCp, hCo⟩ := hC
    obtain ⟨hAp, hAo⟩ := slice_verdict cfg b ik sk _ path xs (admList_mem cfg xs hv) hk hw.bound
    simp only [JVal.isNull, Bool.false_and, Bool.false_eq_true, ↓reduceIte]
    refine ⟨?_, ?_⟩
    · simp [hTp, hSp, hCp, hAp]
    · simp only [ok_inc, ok_step, ok_default, okOpt_some, Bool.not_true, Bool.false_or, Bool.true_and,
        hSo, hCo, hAo, numOK, strOK, objSizeOK, membersOK, Bool.and_true]
      rw [hTo]
      generalize typeOK b.types (JVal.arr xs) = c1
      generalize enumOK b.enum (JVal.arr xs) = c2
      generalize depsOK b sk (JVal.arr xs) = c3
      generalize compOK sk (JVal.arr xs) = c4
      generalize arrSizeOK b (JVal.arr xs) = c5
      generalize itemsOK b sk (JVal.arr xs) = c6
      cases c1 <;> cases c2 <;> cases c3 <;> cases c4 <;> cases c5 <;> cases c6 <;> rfl
  | obj kvs =>
    obtain ⟨hTp, hTo⟩ := type_verdict cfg O b path (.obj kvs) rfl hw.float hw.fmtTypes hw.bypass
    obtain ⟨hSp, hSo⟩ := hS
    obtain ⟨hCp, hCo⟩ := hC
    obtain ⟨hm1, hm2⟩ := admMembers_mem cfg kvs hv
    obtain ⟨hOp, hOo⟩ := object_verdict cfg O b defaults ik sk _ path kvs hm1 hk hm2 hw.req hw.addProps
    simp only [JVal.isNull, Bool.false_and, Bool.false_eq_true, ↓reduceIte]
    refine ⟨?_, ?_⟩
    · simp [hTp, hSp, hCp, hOp]
    · simp only [ok_inc, ok_step, ok_default, okOpt_some, Bool.not_true, Bool.false_or, Bool.true_and,
        hSo, hCo, hOo, numOK, strOK, arrSizeOK, itemsOK, Bool.and_true]
      rw [hTo]
      generalize typeOK b.types (JVal.obj kvs) = c1
      generalize enumOK b.enum (JVal.obj kvs) = c2
      generalize depsOK b sk (JVal.obj kvs) = c3
      generalize compOK sk (JVal.obj kvs) = c4
      generalize objSizeOK b (JVal.obj kvs) = c5
      generalize membersOK O b sk (JVal.obj kvs) = c6
      cases c1 <;> cases c2 <;> cases c3 <;> cases c4 <;> cases c5 <;> cases c6 <;> rfl

end VM
