/-
  The object validator of the model (object_validator.go) against the object clauses of
  draft 4.
-/
import VM.Proofs.Slice
namespace VM
open Impl Spec

theorem MapAgree.ahas {P : JVal → Prop} {fs : List (String × V)} {gs : List (String × (JVal → Bool))}
    (h : MapAgree P fs gs) (key : String) : VM.ahas key fs = VM.ahas key gs := by
  induction h with
  | nil => rfl
  | @cons a b as bs hab _ ih =>
    obtain ⟨ka, fa⟩ := a; obtain ⟨kb, gb⟩ := b
    have hk : ka = kb := hab.1
    subst hk
    unfold VM.ahas at ih ⊢
    simp only [alookup]
    split <;> simp_all

theorem anyPatMatches_eq {P : JVal → Prop} {fs : List (String × V)}
    {gs : List (String × (JVal → Bool))} (h : MapAgree P fs gs) (O : Oracles) (key : String) :
    anyPatMatches O fs key = patMatches O (akeys gs) key := by
  induction h with
  | nil => rfl
  | @cons a b as bs hab _ ih =>
    obtain ⟨ka, fa⟩ := a; obtain ⟨kb, gb⟩ := b
    have hk : ka = kb := hab.1
    subst hk
    simp only [anyPatMatches, patMatches, akeys, List.any_cons, List.map_cons] at ih ⊢
    rw [ih]

/-- object_validator.go:392-427: `validatePatternProperty` merges the verdict of every pattern
    property whose pattern matches, and reports whether any matched -/
theorem patApply_good {P : JVal → Prop} {fs : List (String × V)}
    {gs : List (String × (JVal → Bool))} (h : MapAgree P fs gs) (O : Oracles)
    (path key : String) (x : JVal) (hx : P x) (res : Res) (a : Bool) (hres : good res a)
    (m : Bool) (pats : List String) :
    good (patApply O path key x fs res m pats).1
      (a && gs.all (fun pf => !(O.re pf.1 key == some true) || pf.2 x))
    ∧ (patApply O path key x fs res m pats).2.1 = (m || patMatches O (akeys gs) key) := by
  induction h generalizing res a m pats with
  | nil => simpa [patApply, patMatches, akeys] using hres
  | @cons fa gb as bs hab _ ih =>
    obtain ⟨ka, f⟩ := fa; obtain ⟨kb, g⟩ := gb
    have hk : ka = kb := hab.1
    subst hk
    have hfg : VAgree P f g := hab.2
    simp only [patApply]
    by_cases hm : (O.re ka key == some true) = true
    · simp only [hm, ↓reduceIte]
      have := ih (res.mergeOne (f (dot path key) x)) (a && g x)
        (good_mergeOne hres (hfg _ x hx)) true (pats ++ [ka])
      refine ⟨good_congr this.1 ?_, ?_⟩
      · simp [hm, Bool.and_assoc]
      · rw [this.2]; simp [patMatches, akeys, hm]
    · have hm' : (O.re ka key == some true) = false := by simpa using hm
      simp only [hm', Bool.false_eq_true, ↓reduceIte]
      have := ih res a hres m pats
      refine ⟨good_congr this.1 ?_, ?_⟩
      · simp [hm']
      · rw [this.2]; simp [patMatches, akeys, hm']

/-- the names returned by `validatePatternProperty` all match and are pattern-property keys -/
theorem patApply_pats (O : Oracles) (path key : String) (x : JVal) (fs : List (String × V))
    (res : Res) (m : Bool) (pats : List String)
    (hp : ∀ p ∈ pats, (O.re p key == some true) = true) :
    ∀ p ∈ (patApply O path key x fs res m pats).2.2, (O.re p key == some true) = true := by
  induction fs generalizing res m pats with
  | nil => simpa [patApply] using hp
  | cons a as ih =>
    obtain ⟨ka, f⟩ := a
    simp only [patApply]
    split
    · rename_i hm
      apply ih
      intro p hp'
      rcases List.mem_append.mp hp' with h | h
      · exact hp p h
      · simp at h; subst h; exact hm
    · exact ih _ _ _ hp

theorem alookup_agree {P : JVal → Prop} {fs : List (String × V)}
    {gs : List (String × (JVal → Bool))} (h : MapAgree P fs gs) (p : String) :
    (alookup p fs = none ∧ alookup p gs = none) ∨
    (∃ f g, alookup p fs = some f ∧ alookup p gs = some g ∧ VAgree P f g ∧ (p, g) ∈ gs) := by
  induction h with
  | nil => exact .inl ⟨rfl, rfl⟩
  | @cons a b as bs hab _ ih =>
    obtain ⟨ka, f⟩ := a; obtain ⟨kb, g⟩ := b
    have hk : ka = kb := hab.1
    subst hk
    simp only [alookup]
    by_cases hp : p = ka
    · subst hp
      simp only [↓reduceIte]
      exact .inr ⟨f, g, rfl, rfl, hab.2, List.mem_cons_self ..⟩
    · simp only [hp, ↓reduceIte]
      rcases ih with h | ⟨f', g', h1, h2, h3, h4⟩
      · exact .inl h
      · exact .inr ⟨f', g', h1, h2, h3, List.mem_cons_of_mem _ h4⟩

/-- object_validator.go:213-218: the second validation of matched pattern properties adds
    nothing to the verdict once the first pass has been merged -/
theorem patSecond_fold_good {P : JVal → Prop} {fs : List (String × V)}
    {gs : List (String × (JVal → Bool))} (h : MapAgree P fs gs) (O : Oracles)
    (path key : String) (x : JVal) (hx : P x) (pats : List String)
    (hp : ∀ p ∈ pats, (O.re p key == some true) = true)
    (res : Res) (a : Bool) (hres : good res a)
    (hfirst : a = true → gs.all (fun pf => !(O.re pf.1 key == some true) || pf.2 x) = true) :
    good (pats.foldl (fun acc p => match alookup p fs with
        | some f => acc.mergeOne (f (dot path key) x)
        | none => acc) res) a := by
  induction pats generalizing res with
  | nil => exact hres
  | cons p ps ih =>
    simp only [List.foldl_cons]
    apply ih (fun q hq => hp q (List.mem_cons_of_mem _ hq))
    rcases alookup_agree h p with ⟨h1, _⟩ | ⟨f, g, h1, _, hfg, hmem⟩
    · simpa [h1] using hres
    · simp only [h1]
      have hg := hfg (dot path key) x hx
      refine good_congr (good_mergeOne hres hg) ?_
      cases a with
      | false => rfl
      | true =>
        have hall := hfirst rfl
        rw [List.all_eq_true] at hall
        have := hall (p, g) hmem
        have hm := hp p (List.mem_cons_self ..)
        simp only [hm, Bool.not_true, Bool.false_or] at this
        simp [this]

theorem patSecondLoop_good {P : JVal → Prop} (ik : IKids) (sk : SKids)
    (h : MapAgree P ik.patProps sk.patProps) (O : Oracles) (path : String)
    (kvs : List (String × JVal)) (hx : ∀ kv ∈ kvs, P kv.2) (res : Res) (a : Bool)
    (hres : good res a) :
    good (patSecondLoop O ik path kvs res) (a && patsOK O sk kvs) := by
  induction kvs generalizing res a with
  | nil => simpa [patSecondLoop, patsOK] using hres
  | cons kv rest ih =>
    obtain ⟨key, x⟩ := kv
    have hxx : P x := hx (key, x) (List.mem_cons_self ..)
    have hrest : ∀ kv ∈ rest, P kv.2 := fun kv hkv => hx kv (List.mem_cons_of_mem _ hkv)
    simp only [patSecondLoop]
    have hpa := patApply_good h O path key x hxx res a hres false []
    have hpp := patApply_pats O path key x ik.patProps res false [] (by simp)
    generalize patApply O path key x ik.patProps res false [] = out at hpa hpp
    obtain ⟨res', matched, pats⟩ := out
    simp only at hpa hpp ⊢
    have hgoal : (a && patsOK O sk ((key, x) :: rest))
        = ((a && patsOKFor O sk key x) && patsOK O sk rest) := by
      simp [patsOK, Bool.and_assoc]
    rw [hgoal]
    split
    · exact ih hrest _ _ hpa.1
    · apply ih hrest
      apply patSecond_fold_good h O path key x hxx pats hpp res' _ hpa.1
      intro ha
      simp only [Bool.and_eq_true] at ha
      exact ha.2

theorem propsLoop_good {P : JVal → Prop} {fs : List (String × V)}
    {gs : List (String × (JVal → Bool))} (h : MapAgree P fs gs) (path : String)
    (kvs : List (String × JVal)) (hx : ∀ kv ∈ kvs, P kv.2) (res : Res) (a : Bool)
    (hres : good res a) :
    good (propsLoop path kvs fs res)
      (a && gs.all (propOK kvs)) := by
  induction h generalizing res a with
  | nil => simpa [propsLoop] using hres
  | @cons fa gb as bs hab _ ih =>
    obtain ⟨ka, f⟩ := fa; obtain ⟨kb, g⟩ := gb
    have hk : ka = kb := hab.1
    subst hk
    have hfg : VAgree P f g := hab.2
    simp only [propsLoop, List.all_cons, propOK]
    cases hl : alookup ka kvs with
    | none =>
      simp only []
      exact good_congr (ih res a hres) (by simp)
    | some x =>
      simp only []
      have hmem : P x := by
        have : ∃ kv ∈ kvs, kv.2 = x := by
          clear ih hres
          induction kvs with
          | nil => simp [alookup] at hl
          | cons kv rest ihk =>
            obtain ⟨k', v'⟩ := kv
            simp only [alookup] at hl
            split at hl
            · cases hl; exact ⟨(k', x), List.mem_cons_self .., rfl⟩
            · obtain ⟨kv, hkv, e⟩ := ihk (fun kv hkv => hx kv (List.mem_cons_of_mem _ hkv)) hl
              exact ⟨kv, List.mem_cons_of_mem _ hkv, e⟩
        obtain ⟨kv, hkv, e⟩ := this
        exact e ▸ hx kv hkv
      have := ih (res.mergeOne (f (if path == "" then ka else dot path ka) x)) (a && g x)
        (good_mergeOne hres (hfg _ x hmem))
      exact good_congr this (by simp [Bool.and_assoc])

/-- verdict of an optional child on `x` (absent = no constraint) -/
def optApply (f : Option (JVal → Bool)) (x : JVal) : Bool :=
  match f with | some g => g x | none => true

theorem noAdditionalLoop_good {P : JVal → Prop} (cfg : Cfg) (O : Oracles) (ik : IKids) (sk : SKids)
    (hp : MapAgree P ik.props sk.props) (hpp : MapAgree P ik.patProps sk.patProps)
    (path : String) (kvs : List (String × JVal))
    (hid : cfg.ignoresSchemaIdKeys = true → ∀ kv ∈ kvs, kv.1 ≠ "$schema" ∧ kv.1 ≠ "id")
    (res : Res) (a : Bool) (hres : good res a) :
    good (noAdditionalLoop cfg O ik path kvs res)
      (a && kvs.all (fun kv => !isAdditional O sk kv.1)) := by
  induction kvs generalizing res a with
  | nil => simpa [noAdditionalLoop] using hres
  | cons kv rest ih =>
    obtain ⟨key, x⟩ := kv
    have hid' : cfg.ignoresSchemaIdKeys = true → ∀ kv ∈ rest, kv.1 ≠ "$schema" ∧ kv.1 ≠ "id" :=
      fun hc kv hkv => hid hc kv (List.mem_cons_of_mem _ hkv)
    have hskip : (cfg.ignoresSchemaIdKeys && (key == "$schema" || key == "id")) = false := by
      cases hc : cfg.ignoresSchemaIdKeys
      · rfl
      · have := hid hc (key, x) (List.mem_cons_self ..)
        simp [this.1, this.2]
    simp only [noAdditionalLoop, hskip, Bool.false_eq_true, ↓reduceIte, hp.ahas key,
      anyPatMatches_eq hpp O key]
    have hall : (a && ((key, x) :: rest).all (fun kv => !isAdditional O sk kv.1))
        = ((a && !isAdditional O sk key) && rest.all (fun kv => !isAdditional O sk kv.1)) := by
      simp [Bool.and_assoc]
    rw [hall]
    have hia : isAdditional O sk key = !(ahas key sk.props || patMatches O (akeys sk.patProps) key) := rfl
    rw [hia]
    cases h1 : ahas key sk.props
    · cases h2 : patMatches O (akeys sk.patProps) key
      · simp only [Bool.false_eq_true, ↓reduceIte, Bool.or_self, Bool.not_false, Bool.not_true,
          Bool.and_false]
        have e1 := good_addErrors hres [some (eUnallowedProp path key)]
        have e1' : good (res.addErrors [some (eUnallowedProp path key)]) false :=
          good_congr e1 (by simp)
        split
        · have e2 := good_addErrors e1' (headerRefErrors path x)
          exact good_congr (ih hid' _ _ e2) (by simp)
        · exact good_congr (ih hid' _ _ e1') (by simp)
      · simp only [↓reduceIte, Bool.false_eq_true, Bool.or_true, Bool.not_true, Bool.not_false,
          Bool.and_true]
        exact ih hid' _ _ hres
    · simp only [↓reduceIte, Bool.true_or, Bool.not_true, Bool.not_false, Bool.and_true]
      exact ih hid' _ _ hres

theorem additionalLoop_good {P : JVal → Prop} (O : Oracles) (ik : IKids) (sk : SKids)
    (hp : MapAgree P ik.props sk.props) (hpp : MapAgree P ik.patProps sk.patProps)
    (hA : OptAgree P ik.addPropsS sk.addPropsS)
    (path : String) (kvs : List (String × JVal)) (hx : ∀ kv ∈ kvs, P kv.2)
    (res : Res) (a : Bool) (hres : good res a) :
    good (additionalLoop O ik path kvs res)
      (a && kvs.all (fun kv => ahas kv.1 sk.props ||
        (patsOKFor O sk kv.1 kv.2 && (patMatches O (akeys sk.patProps) kv.1 || optApply sk.addPropsS kv.2)))) := by
  induction kvs generalizing res a with
  | nil => simpa [additionalLoop] using hres
  | cons kv rest ih =>
    obtain ⟨key, x⟩ := kv
    have hxx : P x := hx (key, x) (List.mem_cons_self ..)
    have hrest : ∀ kv ∈ rest, P kv.2 := fun kv hkv => hx kv (List.mem_cons_of_mem _ hkv)
    simp only [additionalLoop, hp.ahas key, List.all_cons]
    cases h1 : ahas key sk.props
    · simp only [Bool.false_eq_true, ↓reduceIte, Bool.false_or]
      have hpa := patApply_good hpp O path key x hxx res a hres false []
      generalize patApply O path key x ik.patProps res false [] = out at hpa
      obtain ⟨res', matched, pats⟩ := out
      simp only [Bool.false_or] at hpa ⊢
      obtain ⟨hg, hm⟩ := hpa
      subst hm
      cases h2 : patMatches O (akeys sk.patProps) key
      · simp only [Bool.false_eq_true, ↓reduceIte, Bool.false_or]
        cases hi : ik.addPropsS <;> cases hs : sk.addPropsS <;> simp only [hi, hs, OptAgree] at hA
        · exact good_congr (ih hrest _ _ hg) (by simp [patsOKFor, optApply, hs, Bool.and_assoc])
        · rename_i f g
          have := ih hrest _ _ (good_mergeOne hg (hA (dot path key) x hxx))
          exact good_congr this (by simp [patsOKFor, optApply, hs, Bool.and_assoc])
      · simp only [↓reduceIte, Bool.true_or, Bool.and_true]
        exact good_congr (ih hrest _ _ hg) (by simp [patsOKFor, Bool.and_assoc])
    · simp only [↓reduceIte, Bool.true_or, Bool.true_and]
      exact ih hrest _ _ hres

theorem required_filter (cfg : Cfg) (defaults : Defaults) (kvs : List (String × JVal))
    (path : String) (l : List String)
    (h : cfg.requiredByDefault = true → ∀ n ∈ l, defaults.contains n = false) :
    (List.filterMap id (l.map fun name =>
      if ahas name kvs then none
      else if cfg.requiredByDefault && defaults.contains name then none
      else some (eRequired (dot path name)))).isEmpty = l.all (fun k => ahas k kvs) := by
  induction l with
  | nil => rfl
  | cons n ns ih =>
    have ih' := ih (fun hc m hm => h hc m (List.mem_cons_of_mem _ hm))
    simp only [List.map_cons, List.all_cons]
    cases hn : ahas n kvs
    · have hd : (cfg.requiredByDefault && defaults.contains n) = false := by
        cases hc : cfg.requiredByDefault
        · rfl
        · rw [h hc n (List.mem_cons_self ..)]; rfl
      simp only [Bool.false_eq_true, ↓reduceIte, hd, List.filterMap_cons, id, Bool.false_and]
      rfl
    · simpa using ih'

theorem all_congr' {α : Type} (l : List α) (p q : α → Bool) (h : ∀ x ∈ l, p x = q x) :
    l.all p = l.all q := by
  induction l with
  | nil => rfl
  | cons x xs ih =>
    simp only [List.all_cons]
    rw [h x (List.mem_cons_self ..), ih (fun y hy => h y (List.mem_cons_of_mem _ hy))]

theorem all_and_split {α : Type} (l : List α) (p q : α → Bool) :
    l.all (fun x => p x && q x) = (l.all p && l.all q) := by
  induction l with
  | nil => rfl
  | cons x xs ih =>
    simp only [List.all_cons, ih]
    cases p x <;> cases q x <;> cases xs.all p <;> cases xs.all q <;> rfl

/-- object_validator.go:160-222 vs. the object clauses of draft 4 (Swagger pre-checks off) -/
theorem object_verdict (cfg : Cfg) (O : Oracles) (b : SBase) (defaults : Defaults)
    (ik : IKids) (sk : SKids) (P : JVal → Prop) (path : String) (kvs : List (String × JVal))
    (hx : ∀ kv ∈ kvs, P kv.2) (hk : KidsAgree P ik sk)
    (hid : cfg.ignoresSchemaIdKeys = true → ∀ kv ∈ kvs, kv.1 ≠ "$schema" ∧ kv.1 ≠ "id")
    (hreq : cfg.requiredByDefault = true → ∀ n ∈ b.required, defaults.contains n = false)
    (hadd : b.addProps = .schema ↔ ik.addPropsS.isSome = true) :
    good (objectValidate cfg {} O b defaults ik path kvs)
      (objSizeOK b (.obj kvs) && membersOK O b sk (.obj kvs)) := by
  unfold objectValidate
  simp only [objSizeOK, membersOK, gtOpt_eq, ltOpt_eq]
  cases hmin : atLeast (↑kvs.length) b.minProps
  · simp [good]
  cases hmax : atMost (↑kvs.length) b.maxProps
  · simp [good]
  simp only [Bool.not_true, Bool.false_eq_true, ↓reduceIte, Bool.true_and]
  have h0 : good (precheck {} path kvs {}) true := by simp [precheck, good]
  -- required
  have hreqs : ∀ (r : Res) (a : Bool), good r a →
      good (r.addErrors (b.required.map fun name =>
        if ahas name kvs then none
        else if cfg.requiredByDefault && defaults.contains name then none
        else some (eRequired (dot path name))))
        (a && b.required.all (fun k => ahas k kvs)) := by
    intro r a hr
    refine good_congr (good_addErrors hr _) ?_
    congr 1
    exact required_filter cfg defaults kvs path b.required hreq
  by_cases hfalse : b.addProps = .bool false
  · -- additionalProperties: false
    simp only [hfalse, beq_self_eq_true, ↓reduceIte, addlPropsOK]
    have h1 := noAdditionalLoop_good cfg O ik sk hk.props hk.patProps path kvs hid _ _ h0
    have h2 := propsLoop_good hk.props path kvs hx _ _ h1
    have h3 := hreqs _ _ h2
    have h4 := patSecondLoop_good ik sk hk.patProps O path kvs hx _ _ h3
    refine good_congr h4 ?_
    unfold propsOK
    generalize sk.props.all (propOK kvs) = c1
    generalize (kvs.all fun kv => !isAdditional O sk kv.1) = c2
    generalize (b.required.all fun k => ahas k kvs) = c3
    generalize patsOK O sk kvs = c4
    cases c1 <;> cases c2 <;> cases c3 <;> cases c4 <;> rfl
  · have hne : (b.addProps == AddL.bool false) = false := by
      cases hb : b.addProps with
      | absent => rfl
      | schema => rfl
      | bool bb => cases bb <;> simp_all
    simp only [hne, Bool.false_eq_true, ↓reduceIte]
    have h1 := additionalLoop_good O ik sk hk.props hk.patProps hk.addPropsS path kvs hx _ _ h0
    have h2 := propsLoop_good hk.props path kvs hx _ _ h1
    have h3 := hreqs _ _ h2
    have h4 := patSecondLoop_good ik sk hk.patProps O path kvs hx _ _ h3
    refine good_congr h4 ?_
    -- with every pattern property satisfied, the additional-members clause is what remains
    have key : (kvs.all (fun kv => ahas kv.1 sk.props ||
          (patsOKFor O sk kv.1 kv.2 && (patMatches O (akeys sk.patProps) kv.1 || optApply sk.addPropsS kv.2)))
          && patsOK O sk kvs)
        = (addlPropsOK O b sk kvs && patsOK O sk kvs) := by
      have hA := hk.addPropsS
      cases hp : patsOK O sk kvs
      · simp
      · simp only [Bool.and_true]
        have hpf : ∀ kv ∈ kvs, patsOKFor O sk kv.1 kv.2 = true := by
          simpa [patsOK, List.all_eq_true] using hp
        unfold addlPropsOK
        cases hi : ik.addPropsS <;> cases hs : sk.addPropsS <;> simp only [hi, hs, OptAgree] at hA
        · -- no schema: nothing constrains additional members
          have hns : b.addProps ≠ .schema := fun h => by simpa [hi] using hadd.mp h
          have : kvs.all (fun kv => ahas kv.1 sk.props ||
              (patsOKFor O sk kv.1 kv.2 && (patMatches O (akeys sk.patProps) kv.1 || optApply none kv.2))) = true := by
            rw [List.all_eq_true]
            intro kv hkv
            simp [hpf kv hkv, optApply]
          rw [this]
          cases hb : b.addProps with
          | absent => rfl
          | schema => exact absurd hb hns
          | bool bb =>
            cases bb with
            | true => rfl
            | false => exact absurd hb hfalse
        · rename_i f g
          have hb : b.addProps = .schema := hadd.mpr (by simp [hi])
          simp only [hb]
          apply all_congr'
          intro kv hkv
          simp [hpf kv hkv, optApply, isAdditional, Bool.or_assoc]
    unfold propsOK
    generalize sk.props.all (propOK kvs) = c1 at *
    generalize (b.required.all fun k => ahas k kvs) = c3 at *
    generalize patsOK O sk kvs = c4 at *
    generalize addlPropsOK O b sk kvs = c5 at *
    generalize (kvs.all fun kv => ahas kv.1 sk.props ||
        (patsOKFor O sk kv.1 kv.2 && (patMatches O (akeys sk.patProps) kv.1 || optApply sk.addPropsS kv.2))) = c6 at *
    cases c1 <;> cases c3 <;> cases c4 <;> cases c5 <;> cases c6 <;> simp_all

end VM
