import VM.Impl.Pipeline
import VM.Proofs.ResultLemmas
namespace VM.Sw
open VM

theorem mem_mergeOne_errors (r o : Res) (m : Msg) : m ∈ (r.mergeOne o).errors ↔ m ∈ r.errors ∨ m ∈ o.errors := by
  simp [Res.mergeOne, mem_addMsgs]

theorem mem_mergeOne_warnings (r o : Res) (m : Msg) : m ∈ (r.mergeOne o).warnings ↔ m ∈ r.warnings ∨ m ∈ o.warnings := by
  simp [Res.mergeOne, mem_addMsgs]

theorem mem_mergeAll_errors (r : Res) (os : List Res) (m : Msg) :
    m ∈ (mergeAll r os).errors ↔ m ∈ r.errors ∨ ∃ o ∈ os, m ∈ o.errors := by
  induction os generalizing r with
  | nil => simp [mergeAll]
  | cons o os ih =>
    simp only [mergeAll, List.foldl_cons] at ih ⊢
    rw [ih, mem_mergeOne_errors]
    simp only [List.mem_cons, exists_eq_or_imp, or_assoc]

theorem mem_mergeAll_warnings (r : Res) (os : List Res) (m : Msg) :
    m ∈ (mergeAll r os).warnings ↔ m ∈ r.warnings ∨ ∃ o ∈ os, m ∈ o.warnings := by
  induction os generalizing r with
  | nil => simp [mergeAll]
  | cons o os ih =>
    simp only [mergeAll, List.foldl_cons] at ih ⊢
    rw [ih, mem_mergeOne_warnings]
    simp only [List.mem_cons, exists_eq_or_imp, or_assoc]

theorem mergeOne_nodup {r : Res} (o : Res) (he : r.errors.Nodup) (hw : r.warnings.Nodup) :
    (r.mergeOne o).errors.Nodup ∧ (r.mergeOne o).warnings.Nodup :=
  ⟨addMsgs_nodup he _, addMsgs_nodup hw _⟩

theorem mergeAll_nodup {r : Res} (os : List Res) (he : r.errors.Nodup) (hw : r.warnings.Nodup) :
    (mergeAll r os).errors.Nodup ∧ (mergeAll r os).warnings.Nodup := by
  induction os generalizing r with
  | nil => exact ⟨he, hw⟩
  | cons o os ih =>
    simp only [mergeAll, List.foldl_cons]
    exact ih (mergeOne_nodup o he hw).1 (mergeOne_nodup o he hw).2

/-- the errors `runStages` ends with, characterised by membership -/
theorem runStages_nodup (cont : Bool) (s : Stages) :
    (runStages cont s).errors.Nodup ∧ (runStages cont s).warnings.Nodup := by
  have h1 := mergeOne_nodup (r := ({} : Res)) s.schemaPass List.nodup_nil List.nodup_nil
  have h2 := mergeOne_nodup (r := (({} : Res).mergeOne s.schemaPass)) s.refsValid h1.1 h1.2
  have h3 := mergeAll_nodup (s.middle cont) h2.1 h2.2
  have h4 := mergeAll_nodup s.late h3.1 h3.2
  unfold runStages
  simp only
  split
  · exact h1
  · split
    · exact h2
    · split
      · exact h3
      · exact h4

theorem addMsgs_append_of_nodup (ws cur : List Msg) (hnd : (cur ++ ws).Nodup) :
    addMsgs cur (ws.map some) = cur ++ ws := by
  induction ws generalizing cur with
  | nil => simp [addMsgs]
  | cons w ws ih =>
    have hw : cur.contains w = false := by
      cases hc : cur.contains w with
      | false => rfl
      | true =>
        have hc' : w ∈ cur := by simpa using hc
        exact absurd rfl ((List.nodup_append.mp hnd).2.2 w hc' w (by simp))
    simp only [List.map_cons, addMsgs, hw, Bool.false_eq_true, ↓reduceIte]
    rw [ih (cur ++ [w]) (by simpa using hnd)]
    simp

/-- adding to the empty list a list without duplicates gives that list back -/
theorem addMsgs_nil_of_nodup (ws : List Msg) (h : ws.Nodup) : addMsgs [] (ws.map some) = ws := by
  simpa using addMsgs_append_of_nodup ws [] (by simpa using h)

end VM.Sw
