import VM.Impl.Pool
namespace VM.Pool

variable {H : Type} [DecidableEq H]

theorem takeAt_spec : ∀ (l : List Nat) (i p rest), takeAt l i = some (p, rest) →
    p ∈ l ∧ (∀ x, x ∈ rest → x ∈ l) ∧ (l.Nodup → rest.Nodup ∧ p ∉ rest)
  | [], _, _, _, h => by simp [takeAt] at h
  | x :: xs, 0, p, rest, h => by
    simp [takeAt] at h; obtain ⟨rfl, rfl⟩ := h
    simp_all [List.nodup_cons]
  | x :: xs, i+1, p, rest, h => by
    simp only [takeAt, Option.map_eq_some_iff] at h
    obtain ⟨⟨y, ys⟩, hy, heq⟩ := h
    simp at heq; obtain ⟨rfl, rfl⟩ := heq
    have ih := takeAt_spec xs i y ys hy
    refine ⟨by simp [ih.1], ?_, ?_⟩
    · intro z hz; simp at hz; rcases hz with rfl | hz
      · simp
      · simp [ih.2.1 z hz]
    · intro hnd
      simp [List.nodup_cons] at hnd
      have := ih.2.2 hnd.2
      refine ⟨?_, ?_⟩
      · simp [List.nodup_cons, this.1]; intro hx; exact hnd.1 (ih.2.1 _ hx)
      · simp [this.2]; intro e; subst e; exact hnd.1 ih.1

theorem recycling_invisible {R} : ∀ (p : Prog H R) (ch : List (Option Nat)) (L : Live H) (σ : PState H) (τ : H → Obj),
    Disciplined p L → Sim L σ τ → runPool p ch σ = runFresh p τ
  | .ret r, _, _, _, _, _, _ => rfl
  | .borrow h k, ch, L, σ, τ, hd, hs => by
    obtain ⟨hL, hk⟩ := hd
    simp only [runPool, runFresh]
    split
    next p rest heq =>
      -- recycled object
      have hc : ∃ i, takeAt σ.free i = some (p, rest) := by
        generalize (match ch with
          | [] => ((none : Option Nat), ([] : List (Option Nat)))
          | c :: cs => (c, cs)).1 = c at heq
        cases c with
        | none => simp at heq
        | some i => exact ⟨i, by simpa using heq⟩
      obtain ⟨i, hi⟩ := hc
      have sp := takeAt_spec _ _ _ _ hi
      have nd := sp.2.2 hs.nodup
      apply recycling_invisible k _ _ _ _ hk
      constructor
      · intro h' w hw f hf
        by_cases e : h' = h
        · subst e; simp at hw; subst hw; simp at hf
        · simp [e] at hw ⊢; exact hs.agree h' w hw f hf
      · intro h' w hw
        by_cases e : h' = h
        · subst e; simpa using nd.2
        · simp [e] at hw ⊢; intro hin; exact hs.notfree h' w hw (sp.2.1 _ hin)
      · intro h1 h2 w1 w2 hw1 hw2 hp
        by_cases e1 : h1 = h <;> by_cases e2 : h2 = h
        · rw [e1, e2]
        · subst e1; simp [e2] at hw2 hp; exact absurd (hp ▸ sp.1) (hs.notfree h2 w2 hw2)
        · subst e2; simp [e1] at hw1 hp; exact absurd (hp ▸ sp.1) (hs.notfree h1 w1 hw1)
        · simp [e1, e2] at hw1 hw2 hp; exact hs.inj _ _ _ _ hw1 hw2 hp
      · exact nd.1
      · refine ⟨fun q hq => hs.bound.1 q (sp.2.1 q hq), ?_⟩
        intro h' w hw
        by_cases e : h' = h
        · subst e; simpa using hs.bound.1 p sp.1
        · simp [e] at hw ⊢; exact hs.bound.2 h' w hw
    next heq =>
      -- fresh allocation
      apply recycling_invisible k _ _ _ _ hk
      constructor
      · intro h' w hw f hf
        by_cases e : h' = h
        · subst e; simp at hw; subst hw; simp at hf
        · simp [e] at hw ⊢; exact hs.agree h' w hw f hf
      · intro h' w hw
        by_cases e : h' = h
        · subst e; simp; intro hin; exact Nat.lt_irrefl _ (hs.bound.1 _ hin)
        · simp [e] at hw ⊢; exact hs.notfree h' w hw
      · intro h1 h2 w1 w2 hw1 hw2 hp
        by_cases e1 : h1 = h <;> by_cases e2 : h2 = h
        · rw [e1, e2]
        · subst e1; simp [e2] at hw2 hp; exact absurd (hp ▸ hs.bound.2 h2 w2 hw2) (Nat.lt_irrefl _)
        · subst e2; simp [e1] at hw1 hp; exact absurd (hp ▸ hs.bound.2 h1 w1 hw1) (Nat.lt_irrefl _)
        · simp [e1, e2] at hw1 hw2 hp; exact hs.inj _ _ _ _ hw1 hw2 hp
      · exact hs.nodup
      · refine ⟨fun q hq => Nat.lt_succ_of_lt (hs.bound.1 q hq), ?_⟩
        intro h' w hw
        by_cases e : h' = h
        · subst e; simp
        · simp [e] at hw ⊢; exact Nat.lt_succ_of_lt (hs.bound.2 h' w hw)
  | .write h f v k, ch, L, σ, τ, hd, hs => by
    obtain ⟨w, hw, hk⟩ := hd
    simp only [runPool, runFresh]
    apply recycling_invisible k _ _ _ _ hk
    constructor
    · intro h' w' hw' f' hf'
      by_cases e : h' = h
      · subst e; simp at hw'; subst hw'
        by_cases ef : f' = f
        · subst ef; simp
        · simp [ef] at hf' ⊢; exact hs.agree h' w hw f' hf'
      · simp [e] at hw' ⊢
        have : σ.phys h' ≠ σ.phys h := fun hp => e (hs.inj _ _ _ _ hw' hw hp)
        simp [this]; exact hs.agree h' w' hw' f' hf'
    · intro h' w' hw'
      by_cases e : h' = h
      · subst e; exact hs.notfree h' w hw
      · simp [e] at hw'; exact hs.notfree h' w' hw'
    · intro h1 h2 w1 w2 hw1 hw2 hp
      have a1 : ∃ u, L h1 = some u := by
        by_cases e : h1 = h
        · exact ⟨w, e ▸ hw⟩
        · simp [e] at hw1; exact ⟨w1, hw1⟩
      have a2 : ∃ u, L h2 = some u := by
        by_cases e : h2 = h
        · exact ⟨w, e ▸ hw⟩
        · simp [e] at hw2; exact ⟨w2, hw2⟩
      obtain ⟨u1, hu1⟩ := a1; obtain ⟨u2, hu2⟩ := a2
      exact hs.inj _ _ _ _ hu1 hu2 hp
    · exact hs.nodup
    · refine ⟨hs.bound.1, ?_⟩
      intro h' w' hw'
      by_cases e : h' = h
      · subst e; exact hs.bound.2 h' w hw
      · simp [e] at hw'; exact hs.bound.2 h' w' hw'
  | .read h f k, ch, L, σ, τ, hd, hs => by
    obtain ⟨w, hw, hf, hk⟩ := hd
    simp only [runPool, runFresh]
    rw [hs.agree h w hw f hf]
    exact recycling_invisible (k (τ h f)) ch L σ τ (hk _) hs
  | .redeem h k, ch, L, σ, τ, hd, hs => by
    obtain ⟨⟨w, hw⟩, hk⟩ := hd
    simp only [runPool, runFresh]
    apply recycling_invisible k _ _ _ _ hk
    constructor
    · intro h' w' hw' f' hf'
      by_cases e : h' = h
      · subst e; simp at hw'
      · simp [e] at hw'; exact hs.agree h' w' hw' f' hf'
    · intro h' w' hw'
      by_cases e : h' = h
      · subst e; simp at hw'
      · simp [e] at hw'; simp
        refine ⟨fun hp => e (hs.inj _ _ _ _ hw' hw hp), hs.notfree h' w' hw'⟩
    · intro h1 h2 w1 w2 hw1 hw2 hp
      by_cases e1 : h1 = h
      · subst e1; simp at hw1
      · by_cases e2 : h2 = h
        · subst e2; simp at hw2
        · simp [e1] at hw1; simp [e2] at hw2; exact hs.inj _ _ _ _ hw1 hw2 hp
    · simp [List.nodup_cons]; exact ⟨hs.notfree h w hw, hs.nodup⟩
    · refine ⟨?_, ?_⟩
      · intro q hq; simp at hq; rcases hq with rfl | hq
        · exact hs.bound.2 h w hw
        · exact hs.bound.1 q hq
      · intro h' w' hw'
        by_cases e : h' = h
        · subst e; simp at hw'
        · simp [e] at hw'; exact hs.bound.2 h' w' hw'


end VM.Pool
