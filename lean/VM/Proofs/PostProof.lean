/-
  C18 / C19 — the field-schemata entries the validator tree records for valid data are, as a set,
  exactly the (object, member, default) triples the specification of applicable schemas lists.
-/
import VM.Impl.Post
import VM.Spec.Post
import VM.Proofs.Tree
namespace VM.PostProof
open VM Impl Spec Post

/-- same elements -/
def Sim (es as : List Entry) : Prop := ∀ e, e ∈ es ↔ e ∈ as

theorem Sim.refl (a : List Entry) : Sim a a := fun _ => Iff.rfl
theorem Sim.symm {a b : List Entry} (h : Sim a b) : Sim b a := fun e => (h e).symm
theorem Sim.trans {a b c : List Entry} (h1 : Sim a b) (h2 : Sim b c) : Sim a c := fun e => (h1 e).trans (h2 e)

theorem sim_append {a b c d : List Entry} (h1 : Sim a b) (h2 : Sim c d) : Sim (a ++ c) (b ++ d) := by
  intro e; simp only [List.mem_append, h1 e, h2 e]

theorem sim_append_comm (a b : List Entry) : Sim (a ++ b) (b ++ a) := by
  intro e; simp only [List.mem_append]; exact or_comm

theorem sim_snoc_cons (a : List Entry) (x : Entry) : Sim (a ++ [x]) (x :: a) := by
  intro e; simp only [List.mem_append, List.mem_cons, List.not_mem_nil, or_false]; exact or_comm

theorem sim_absorb {a b : List Entry} (h : ∀ x ∈ a, x ∈ b) : Sim (a ++ b) b := by
  intro e; simp only [List.mem_append]
  exact ⟨fun h' => h'.elim (h e) id, Or.inr⟩


theorem sim_flatten_all2 {α β : Type} {R : α → β → Prop} {as : List α} {bs : List β} (h : All2 R as bs)
    (F : α → List Entry) (G : β → List Entry) (hFG : ∀ a b, R a b → Sim (F a) (G b)) :
    Sim (as.map F).flatten (bs.map G).flatten := by
  induction h with
  | nil => exact Sim.refl _
  | cons hab _ ih =>
    simp only [List.map_cons, List.flatten_cons]
    exact sim_append (hFG _ _ hab) ih

theorem sim_flatten_map {α : Type} (l : List α) (F G : α → List Entry) (h : ∀ a ∈ l, Sim (F a) (G a)) :
    Sim (l.map F).flatten (l.map G).flatten := by
  induction l with
  | nil => exact Sim.refl _
  | cons a l ih =>
    simp only [List.map_cons, List.flatten_cons]
    exact sim_append (h a List.mem_cons_self) (ih fun b hb => h b (List.mem_cons_of_mem _ hb))


/-! ### relations between the entry builders and the specification's builders -/

/-- on every admissible value at every position: same elements -/
def FSim (P : JVal → Prop) (f : E) (g : A) : Prop := ∀ pos x, P x → Sim (f pos x) (g pos x)

def OSim (P : JVal → Prop) : Option E → Option A → Prop
  | none, none => True
  | some f, some g => FSim P f g
  | _, _ => False

structure KSim (P : JVal → Prop) (kE : EKids) (kA : AKids) : Prop where
  itemsS : OSim P kE.itemsS kA.itemsS
  itemsT : All2 (FSim P) kE.itemsT kA.itemsT
  addItemsS : OSim P kE.addItemsS kA.addItemsS
  props : All2 (fun a b => a.1 = b.1 ∧ a.2.1 = b.2.1 ∧ FSim P a.2.2 b.2.2) kE.props kA.props
  patProps : All2 (fun a b => a.1 = b.1 ∧ FSim P a.2 b.2) kE.patProps kA.patProps
  addPropsS : OSim P kE.addPropsS kA.addPropsS
  depSchemas : All2 (fun a b => a.1 = b.1 ∧ FSim P a.2 b.2) kE.depSchemas kA.depSchemas
  allOf : All2 (FSim P) kE.allOf kA.allOf
  anyOf : All2 (FSim P) kE.anyOf kA.anyOf
  oneOf : All2 (FSim P) kE.oneOf kA.oneOf

/-! ### composition -/

theorem sim_firstValid {P : JVal → Prop} {fs : List E} {gs : List A} (h : All2 (FSim P) fs gs) (oks : List Bool)
    (pos : Post.Pos) (v : JVal) (hv : P v) :
    Sim (match (fs.zip oks).find? (·.2) with | some (f, _) => f pos v | none => [])
        (match (gs.zip oks).find? (·.2) with | some (g, _) => g pos v | none => []) := by
  induction h generalizing oks with
  | nil => simp only [List.zip_nil_left, List.find?_nil]; exact Sim.refl _
  | cons hab _ ih =>
    cases oks with
    | nil => simp only [List.zip_nil_right, List.find?_nil]; exact Sim.refl _
    | cons ok oks =>
      cases ok with
      | true => simp only [List.zip_cons_cons, List.find?_cons_of_pos]; exact hab pos v hv
      | false => simpa only [List.zip_cons_cons, Bool.false_eq_true, not_false_eq_true, List.find?_cons_of_neg] using ih oks

theorem alookup_eq_some_of_mem {α : Type} (l : List (String × α)) (hn : (akeys l).Nodup) (k : String) (a : α)
    (h : (k, a) ∈ l) : alookup k l = some a := by
  induction l with
  | nil => cases h
  | cons kv rest ih =>
    obtain ⟨k', a'⟩ := kv
    simp only [akeys, List.map_cons, List.nodup_cons] at hn
    rcases List.mem_cons.mp h with heq | hm
    · cases heq; simp [alookup]
    · have hne : k ≠ k' := by
        intro he; subst he
        exact hn.1 (List.mem_map.mpr ⟨(k, a), hm, rfl⟩)
      simp only [alookup, hne, ↓reduceIte]
      exact ih hn.2 hm

theorem mem_of_alookup_eq_some {α : Type} (l : List (String × α)) (k : String) (a : α)
    (h : alookup k l = some a) : (k, a) ∈ l := by
  induction l with
  | nil => cases h
  | cons kv rest ih =>
    obtain ⟨k', a'⟩ := kv
    simp only [alookup] at h
    by_cases he : k = k'
    · subst he; simp only [↓reduceIte, Option.some.injEq] at h; subst h; exact List.mem_cons_self
    · simp only [he, ↓reduceIte] at h; exact List.mem_cons_of_mem _ (ih h)

theorem ahas_iff_mem {α : Type} (l : List (String × α)) (k : String) : ahas k l = true ↔ ∃ a, (k, a) ∈ l := by
  unfold ahas
  constructor
  · intro h
    obtain ⟨a, ha⟩ := Option.isSome_iff_exists.mp h
    exact ⟨a, mem_of_alookup_eq_some l k a ha⟩
  · rintro ⟨a, ha⟩
    induction l with
    | nil => cases ha
    | cons kv rest ih =>
      obtain ⟨k', a'⟩ := kv
      simp only [alookup]
      by_cases he : k = k'
      · simp [he]
      · simp only [he, ↓reduceIte]
        rcases List.mem_cons.mp ha with heq | hm
        · cases heq; exact absurd rfl he
        · exact ih hm

theorem akeys_all2 {α β : Type} {R : α → β → Prop} {as : List (String × α)} {bs : List (String × β)}
    (h : All2 (fun a b => a.1 = b.1 ∧ R a.2 b.2) as bs) : akeys as = akeys bs := by
  induction h with
  | nil => rfl
  | cons hab _ ih => simp only [akeys, List.map_cons, hab.1] at *; rw [ih]

/-- schema dependencies: the code looks each present key up, the specification walks the dependencies -/
theorem sim_deps {P : JVal → Prop} {ds : List (String × E)} {gs : List (String × A)}
    (h : All2 (fun a b => a.1 = b.1 ∧ FSim P a.2 b.2) ds gs) (hn : (akeys ds).Nodup)
    (pos : Post.Pos) (kvs : List (String × JVal)) (hv : P (.obj kvs)) :
    Sim (kvs.map fun (name, _) => match alookup name ds with | some f => f pos (.obj kvs) | none => []).flatten
        (gs.map fun (name, g) => if ahas name kvs then g pos (.obj kvs) else []).flatten := by
  -- first walk the dependencies on the code's side too
  have h1 : Sim (kvs.map fun (name, _) => match alookup name ds with | some f => f pos (.obj kvs) | none => []).flatten
      (ds.map fun (name, f) => if ahas name kvs then f pos (.obj kvs) else []).flatten := by
    intro e
    simp only [List.mem_flatten, List.mem_map, Prod.exists]
    constructor
    · rintro ⟨l, ⟨name, x, hm, rfl⟩, he⟩
      cases hl : alookup name ds with
      | none => rw [hl] at he; cases he
      | some f =>
        rw [hl] at he
        refine ⟨_, ⟨name, f, mem_of_alookup_eq_some ds name f hl, rfl⟩, ?_⟩
        have : ahas name kvs = true := (ahas_iff_mem kvs name).mpr ⟨x, hm⟩
        simpa [this] using he
    · rintro ⟨l, ⟨name, f, hm, rfl⟩, he⟩
      by_cases ha : ahas name kvs = true
      · obtain ⟨x, hx⟩ := (ahas_iff_mem kvs name).mp ha
        refine ⟨_, ⟨name, x, hx, rfl⟩, ?_⟩
        rw [alookup_eq_some_of_mem ds hn name f hm]
        simpa [ha] using he
      · simp [ha] at he
  refine h1.trans ?_
  apply sim_flatten_all2 h
  rintro ⟨n1, f⟩ ⟨n2, g⟩ ⟨hname, hfg⟩
  simp only at hname; subst hname
  by_cases ha : ahas n1 kvs = true
  · simp only [ha, ↓reduceIte]; exact hfg pos _ hv
  · simp only [ha, Bool.false_eq_true, ↓reduceIte]; exact Sim.refl _

theorem sim_comp {P : JVal → Prop} {kE : EKids} {kA : AKids} (hk : KSim P kE kA) (hn : (akeys kE.depSchemas).Nodup)
    (anyOk oneOk : List Bool) (pos : Post.Pos) (v : JVal) : P v →
    Sim (compEntries kE anyOk oneOk pos v)
      ((match (kA.anyOf.zip anyOk).find? (·.2) with | some (f, _) => f pos v | none => [])
        ++ (if (oneOk.filter id).length == 1 then
              (match (kA.oneOf.zip oneOk).find? (·.2) with | some (f, _) => f pos v | none => []) else [])
        ++ (kA.allOf.map fun f => f pos v).flatten
        ++ (match v with
            | .obj kvs => (kA.depSchemas.map fun (name, f) => if ahas name kvs then f pos v else []).flatten
            | _ => [])) := by
  intro hv
  unfold compEntries
  refine sim_append (sim_append (sim_append (sim_firstValid hk.anyOf anyOk pos v hv) ?_) ?_) ?_
  · by_cases h1 : ((oneOk.filter id).length == 1) = true
    · simp only [h1, ↓reduceIte]; exact sim_firstValid hk.oneOf oneOk pos v hv
    · simp only [h1, Bool.false_eq_true, ↓reduceIte]; exact Sim.refl _
  · exact sim_flatten_all2 hk.allOf _ _ (fun f g hfg => hfg pos v hv)
  · cases v with
    | obj kvs => exact sim_deps hk.depSchemas hn pos kvs hv
    | _ => exact Sim.refl _


/-! ### array elements -/

theorem sim_single {P : JVal → Prop} {f : E} {g : A} (h : FSim P f g) (pos : Post.Pos) (l : List (JVal × Nat))
    (hl : ∀ xi ∈ l, P xi.1) :
    Sim (l.map fun (x, i) => f (pos ++ [idxSeg i]) x).flatten (l.map fun (x, i) => g (pos ++ [toString i]) x).flatten :=
  sim_flatten_map l _ _ (fun xi hxi => h _ _ (hl xi hxi))

theorem sim_tuple {P : JVal → Prop} {fs : List E} {gs : List A} (h : All2 (FSim P) fs gs) (pos : Post.Pos)
    (xs : List JVal) (hx : ∀ x ∈ xs, P x) (n : Nat) :
    Sim (((fs.zip xs).zipIdx n).map fun ((f, x), i) => f (pos ++ [idxSeg i]) x).flatten
        (((gs.zip xs).zipIdx n).map fun ((g, x), i) => g (pos ++ [toString i]) x).flatten := by
  induction h generalizing xs n with
  | nil => simp only [List.zip_nil_left, List.zipIdx_nil, List.map_nil, List.flatten_nil]; exact Sim.refl _
  | cons hab _ ih =>
    cases xs with
    | nil => simp only [List.zip_nil_right, List.zipIdx_nil, List.map_nil, List.flatten_nil]; exact Sim.refl _
    | cons x xs =>
      simp only [List.zip_cons_cons, List.zipIdx_cons, List.map_cons, List.flatten_cons]
      exact sim_append (hab _ _ (hx x List.mem_cons_self)) (ih xs (fun y hy => hx y (List.mem_cons_of_mem _ hy)) (n + 1))

theorem all2_length {α β : Type} {R : α → β → Prop} {as : List α} {bs : List β} (h : All2 R as bs) : as.length = bs.length :=
  h.length_eq

theorem sim_slice {P : JVal → Prop} {kE : EKids} {kA : AKids} (hk : KSim P kE kA) (b : SBase) (pos : Post.Pos)
    (xs : List JVal) (hx : ∀ x ∈ xs, P x) :
    Sim (sliceEntries b kE pos xs)
      ((match kA.itemsS with
         | some f => (xs.zipIdx.map fun (x, i) => f (pos ++ [toString i]) x).flatten
         | none => [])
        ++ ((kA.itemsT.zip xs).zipIdx.map fun ((f, x), i) => f (pos ++ [toString i]) x).flatten
        ++ (match b.addItems, kA.addItemsS with
            | .schema, some f =>
              if kA.itemsT.isEmpty then []
              else ((xs.zipIdx.drop kA.itemsT.length).map fun (x, i) => f (pos ++ [toString i]) x).flatten
            | _, _ => [])) := by
  unfold sliceEntries
  have hzip : ∀ xi ∈ xs.zipIdx, P xi.1 := fun xi h => hx _ (List.fst_mem_of_mem_zipIdx h)
  refine sim_append (sim_append ?_ (sim_tuple hk.itemsT pos xs hx 0)) ?_
  · have := hk.itemsS
    cases hE : kE.itemsS <;> cases hA : kA.itemsS <;> simp only [hE, hA, OSim] at this ⊢
    · exact Sim.refl _
    · exact sim_single this pos _ hzip
  · have := hk.addItemsS
    have hlen : kE.itemsT.length = kA.itemsT.length := all2_length hk.itemsT
    have hemp : kE.itemsT.isEmpty = kA.itemsT.isEmpty := by
      cases h1 : kE.itemsT <;> cases h2 : kA.itemsT <;> simp_all
    cases hE : kE.addItemsS <;> cases hA : kA.addItemsS <;> simp only [hE, hA, OSim] at this ⊢
    · cases b.addItems <;> exact Sim.refl _
    · cases b.addItems
      · exact Sim.refl _
      · exact Sim.refl _
      · simp only [hemp, hlen]
        cases kA.itemsT.isEmpty
        · simp only [Bool.false_eq_true, ↓reduceIte]
          exact sim_single this pos _ (fun xi h => hzip xi (List.mem_of_mem_drop h))
        · exact Sim.refl _


/-! ### object members -/

theorem hasDefault_eq (d : Option JVal) : Impl.hasDefault d = Spec.declaresDefault d := by
  cases d with
  | none => rfl
  | some v => cases v <;> rfl

theorem ahas_eq_any {α : Type} (l : List (String × α)) (name : String) : ahas name l = l.any (·.1 == name) := by
  induction l with
  | nil => rfl
  | cons kv rest ih =>
    obtain ⟨k', a⟩ := kv
    unfold ahas at ih ⊢
    simp only [alookup, List.any_cons]
    by_cases he : name = k'
    · subst he; simp
    · have : (k' == name) = false := by simpa using fun h => he h.symm
      simp only [he, ↓reduceIte, this, Bool.false_or]; exact ih

theorem any_key_all2 {α β : Type} {R : α → β → Prop} {as : List (String × α)} {bs : List (String × β)}
    (h : All2 (fun a b => a.1 = b.1 ∧ R a.2 b.2) as bs) (p : String → Bool) :
    as.any (fun a => p a.1) = bs.any (fun b => p b.1) := by
  induction h with
  | nil => rfl
  | cons hab _ ih => simp only [List.any_cons, hab.1, ih]

theorem filter_key_all2 {α β : Type} {R : α → β → Prop} {as : List (String × α)} {bs : List (String × β)}
    (h : All2 (fun a b => a.1 = b.1 ∧ R a.2 b.2) as bs) (p : String → Bool) :
    All2 (fun a b => a.1 = b.1 ∧ R a.2 b.2) (as.filter fun a => p a.1) (bs.filter fun b => p b.1) := by
  induction h with
  | nil => exact All2.nil
  | @cons a b as bs hab _ ih =>
    simp only [List.filter_cons, hab.1]
    cases p b.1
    · simpa using ih
    · have := All2.cons (R := fun (a : String × α) (b : String × β) => a.1 = b.1 ∧ R a.2 b.2) hab ih
      simpa using this

theorem filter_isEmpty_eq {α : Type} (l : List α) (p : α → Bool) : (l.filter p).isEmpty = !l.any p := by
  induction l with
  | nil => rfl
  | cons a l ih =>
    simp only [List.filter_cons, List.any_cons]
    cases p a <;> simp [ih]

section obj
variable {P : JVal → Prop} (O : Oracles) (b : SBase) {kE : EKids} {kA : AKids} (hk : KSim P kE kA)
  (pos : Post.Pos) (kvs : List (String × JVal))

def ent (pos : Post.Pos) (name : String) : Entry := { pos := pos, field := name, dflt := none }

def msE (O : Oracles) (kE : EKids) (name : String) : List (String × E) := kE.patProps.filter fun a => O.re a.1 name == some true
def msA (O : Oracles) (kA : AKids) (name : String) : List (String × A) := kA.patProps.filter fun a => O.re a.1 name == some true
def regE (kE : EKids) (name : String) : Bool := kE.props.any (·.1 == name)

def patsE (O : Oracles) (kE : EKids) (pos : Post.Pos) (kv : String × JVal) : List Entry :=
  ((msE O kE kv.1).map fun a => a.2 (pos ++ [kv.1]) kv.2).flatten
  ++ (if regE kE kv.1 then []
      else ((msE O kE kv.1).map fun a => a.2 (pos ++ [kv.1]) kv.2 ++ [ent pos kv.1]).flatten)

def coreE (O : Oracles) (kE : EKids) (pos : Post.Pos) (kv : String × JVal) : List Entry :=
  if regE kE kv.1 then []
  else if !(msE O kE kv.1).isEmpty then []
  else match kE.addPropsS with
    | some f => f (pos ++ [kv.1]) kv.2 ++ [ent pos kv.1]
    | none => []

def addlE (O : Oracles) (kE : EKids) (pos : Post.Pos) (kv : String × JVal) : List Entry :=
  if regE kE kv.1 then []
  else ((msE O kE kv.1).map fun a => a.2 (pos ++ [kv.1]) kv.2).flatten
    ++ (if !(msE O kE kv.1).isEmpty then []
        else match kE.addPropsS with
          | some f => f (pos ++ [kv.1]) kv.2 ++ [ent pos kv.1]
          | none => [])

def propsE (pos : Post.Pos) (kvs : List (String × JVal)) (pr : String × Option JVal × E) : List Entry :=
  match alookup pr.1 kvs with
  | some x => pr.2.2 (pos ++ [pr.1]) x ++ [ent pos pr.1]
  | none => if Impl.hasDefault pr.2.1 then [{ pos := pos, field := pr.1, dflt := pr.2.1 }] else []

theorem objectEntries_eq :
    objectEntries O b kE pos kvs =
      (if b.addProps == .bool false then [] else (kvs.map (addlE O kE pos)).flatten)
      ++ (kE.props.map (propsE pos kvs)).flatten
      ++ (kvs.map (patsE O kE pos)).flatten := rfl

theorem addl_core_or_pats (kv : String × JVal) (e : Entry) :
    e ∈ addlE O kE pos kv ↔ (e ∈ coreE O kE pos kv ∨ (e ∈ addlE O kE pos kv ∧ e ∈ patsE O kE pos kv)) := by
  unfold addlE coreE patsE
  by_cases hr : regE kE kv.1 = true
  · simp [hr]
  · simp only [hr, Bool.false_eq_true, ↓reduceIte, List.mem_append]
    constructor
    · rintro (h | h)
      · exact .inr ⟨.inl h, .inl h⟩
      · exact .inl h
    · rintro (h | ⟨h, _⟩)
      · exact .inr h
      · exact h

theorem sim_addl_absorb :
    Sim ((kvs.map (addlE O kE pos)).flatten ++ (kvs.map (patsE O kE pos)).flatten)
        ((kvs.map (coreE O kE pos)).flatten ++ (kvs.map (patsE O kE pos)).flatten) := by
  intro e
  simp only [List.mem_append, List.mem_flatten, List.mem_map]
  constructor
  · rintro (⟨l, ⟨kv, hkv, rfl⟩, he⟩ | h)
    · rcases (addl_core_or_pats O pos kv e).mp he with h | ⟨_, h⟩
      · exact .inl ⟨_, ⟨kv, hkv, rfl⟩, h⟩
      · exact .inr ⟨_, ⟨kv, hkv, rfl⟩, h⟩
    · exact .inr h
  · rintro (⟨l, ⟨kv, hkv, rfl⟩, he⟩ | h)
    · exact .inl ⟨_, ⟨kv, hkv, rfl⟩, (addl_core_or_pats O pos kv e).mpr (.inl he)⟩
    · exact .inr h

include hk in
theorem regE_eq (name : String) : regE kE name = ahas name kA.props := by
  rw [ahas_eq_any]
  exact any_key_all2 (R := fun a b => a.1 = b.1 ∧ FSim P a.2 b.2) hk.props (fun k => k == name)

include hk in
theorem ms_all2 (name : String) : All2 (fun a b => a.1 = b.1 ∧ FSim P a.2 b.2) (msE O kE name) (msA O kA name) :=
  filter_key_all2 hk.patProps (fun p => O.re p name == some true)

include hk in
theorem sim_pats (kv : String × JVal) (hx : P kv.2) :
    Sim (patsE O kE pos kv)
      ((msA O kA kv.1).map fun a => (if ahas kv.1 kA.props then [] else [ent pos kv.1]) ++ a.2 (pos ++ [kv.1]) kv.2).flatten := by
  unfold patsE
  rw [regE_eq hk]
  have hms := ms_all2 O hk kv.1
  by_cases hr : ahas kv.1 kA.props = true
  · simp only [hr, ↓reduceIte, List.append_nil, List.nil_append]
    exact sim_flatten_all2 hms _ _ (fun a c hac => hac.2 _ _ hx)
  · simp only [hr, Bool.false_eq_true, ↓reduceIte]
    refine (sim_absorb ?_).trans ?_
    · intro e he
      simp only [List.mem_flatten, List.mem_map] at he ⊢
      obtain ⟨l, ⟨a, ha, rfl⟩, hel⟩ := he
      exact ⟨_, ⟨a, ha, rfl⟩, List.mem_append_left _ hel⟩
    · exact sim_flatten_all2 hms _ _ (fun a c hac =>
        (sim_append (hac.2 _ _ hx) (Sim.refl _)).trans (sim_append_comm _ _))

include hk in
theorem sim_props (hsub : ∀ kv ∈ kvs, P kv.2) :
    Sim (kE.props.map (propsE pos kvs)).flatten
      (kA.props.map fun pr =>
        match alookup pr.1 kvs with
        | some x => ent pos pr.1 :: pr.2.2 (pos ++ [pr.1]) x
        | none => if Spec.declaresDefault pr.2.1 then [{ pos := pos, field := pr.1, dflt := pr.2.1 }] else []).flatten := by
  apply sim_flatten_all2 hk.props
  rintro ⟨n1, d1, f⟩ ⟨n2, d2, g⟩ ⟨h1, h2, hfg⟩
  simp only at h1 h2 hfg; subst h1; subst h2
  unfold propsE
  cases hl : alookup n1 kvs with
  | none => simp only [hasDefault_eq]; exact Sim.refl _
  | some x =>
    simp only
    have hx : P x := hsub (n1, x) (mem_of_alookup_eq_some kvs n1 x hl)
    exact (sim_append (hfg _ _ hx) (Sim.refl _)).trans (sim_snoc_cons _ _)

include hk in
theorem sim_core (hadd : (b.addProps == .schema) = kE.addPropsS.isSome) (hsub : ∀ kv ∈ kvs, P kv.2) :
    Sim (if b.addProps == .bool false then [] else (kvs.map (coreE O kE pos)).flatten)
      (match b.addProps, kA.addPropsS with
       | .schema, some f =>
         (kvs.map fun kv =>
           if ahas kv.1 kA.props || kA.patProps.any (fun a => O.re a.1 kv.1 == some true) then []
           else ent pos kv.1 :: f (pos ++ [kv.1]) kv.2).flatten
       | _, _ => []) := by
  have hO := hk.addPropsS
  have hnil : ∀ (l : List (String × JVal)), (∀ kv ∈ l, coreE O kE pos kv = []) → (l.map (coreE O kE pos)).flatten = [] := by
    intro l hl
    induction l with
    | nil => rfl
    | cons a l ih =>
      simp only [List.map_cons, List.flatten_cons, hl a List.mem_cons_self, List.nil_append]
      exact ih (fun kv h => hl kv (List.mem_cons_of_mem _ h))
  cases hE : kE.addPropsS with
  | none =>
    cases hA : kA.addPropsS with
    | some g => rw [hE, hA] at hO; exact absurd hO (by simp [OSim])
    | none =>
      have : (kvs.map (coreE O kE pos)).flatten = [] := by
        apply hnil; intro kv _; unfold coreE; simp [hE]
      rw [this]
      cases b.addProps <;> simp <;> exact Sim.refl _
  | some f =>
    cases hA : kA.addPropsS with
    | none => rw [hE, hA] at hO; exact absurd hO (by simp [OSim])
    | some g =>
      rw [hE, hA] at hO
      have hs : b.addProps = .schema := by simpa [hE] using hadd
      simp only [hs]
      have : ((AddL.schema == AddL.bool false) = false) := by decide
      simp only [this, Bool.false_eq_true, ↓reduceIte]
      apply sim_flatten_map
      intro kv hkv
      unfold coreE
      rw [regE_eq hk, hE]
      have hemp : (msE O kE kv.1).isEmpty = !kA.patProps.any (fun a => O.re a.1 kv.1 == some true) := by
        unfold msE
        rw [filter_isEmpty_eq]
        congr 1
        exact any_key_all2 hk.patProps (fun p => O.re p kv.1 == some true)
      rw [hemp]
      cases ahas kv.1 kA.props <;> cases kA.patProps.any (fun a => O.re a.1 kv.1 == some true)
      · simp only [Bool.not_false, Bool.not_true, Bool.false_eq_true, ↓reduceIte, Bool.or_false]
        exact (sim_append (hO _ _ (hsub kv hkv)) (Sim.refl _)).trans (sim_snoc_cons _ _)
      all_goals (simp; exact Sim.refl _)

end obj


/-! ### one node -/

theorem sim_object {P : JVal → Prop} (O : Oracles) (b : SBase) {kE : EKids} {kA : AKids} (hk : KSim P kE kA)
    (hadd : (b.addProps == .schema) = kE.addPropsS.isSome) (pos : Post.Pos) (kvs : List (String × JVal))
    (hsub : ∀ kv ∈ kvs, P kv.2) :
    Sim (objectEntries O b kE pos kvs)
      ((kA.props.map fun pr =>
          match alookup pr.1 kvs with
          | some x => ent pos pr.1 :: pr.2.2 (pos ++ [pr.1]) x
          | none => if Spec.declaresDefault pr.2.1 then [{ pos := pos, field := pr.1, dflt := pr.2.1 }] else []).flatten
        ++ (kvs.map fun kv =>
              ((msA O kA kv.1).map fun a => (if ahas kv.1 kA.props then [] else [ent pos kv.1]) ++ a.2 (pos ++ [kv.1]) kv.2).flatten).flatten
        ++ (match b.addProps, kA.addPropsS with
            | .schema, some f =>
              (kvs.map fun kv =>
                if ahas kv.1 kA.props || kA.patProps.any (fun a => O.re a.1 kv.1 == some true) then []
                else ent pos kv.1 :: f (pos ++ [kv.1]) kv.2).flatten
            | _, _ => [])) := by
  rw [objectEntries_eq]
  have hpats : Sim (kvs.map (patsE O kE pos)).flatten
      (kvs.map fun kv =>
        ((msA O kA kv.1).map fun a => (if ahas kv.1 kA.props then [] else [ent pos kv.1]) ++ a.2 (pos ++ [kv.1]) kv.2).flatten).flatten :=
    sim_flatten_map kvs _ _ (fun kv hkv => sim_pats O hk pos kv (hsub kv hkv))
  have hprops := sim_props hk pos kvs hsub
  have hcore := sim_core O b hk pos kvs hadd hsub
  have habs := sim_addl_absorb (kE := kE) O pos kvs
  intro e
  have h1 := hpats e; have h2 := hprops e; have h3 := hcore e; have h4 := habs e
  simp only [List.mem_append] at h4 ⊢
  by_cases hb : (b.addProps == .bool false) = true
  · simp only [hb, ↓reduceIte, List.not_mem_nil, false_or] at h3 ⊢
    rw [h2, h1, ← h3]
    simp
  · simp only [hb, Bool.false_eq_true, ↓reduceIte] at h3 ⊢
    rw [← h3, ← h2, ← h1]
    constructor
    · rintro ((h | h) | h)
      · rcases h4.mp (.inl h) with h' | h'
        · exact .inr h'
        · exact .inl (.inr h')
      · exact .inl (.inl h)
      · exact .inl (.inr h)
    · rintro ((h | h) | h)
      · exact .inl (.inr h)
      · exact .inr h
      · rcases h4.mpr (.inl h) with h' | h'
        · exact .inl (.inl h')
        · exact .inr h'

theorem node_sim {P : JVal → Prop} (hsubA : ∀ xs, P (.arr xs) → ∀ x ∈ xs, P x)
    (hsubO : ∀ kvs, P (.obj kvs) → ∀ kv ∈ kvs, P kv.2)
    (O : Oracles) (b : SBase) {kE : EKids} {kA : AKids} (hk : KSim P kE kA)
    (hadd : (b.addProps == .schema) = kE.addPropsS.isSome) (hn : (akeys kE.depSchemas).Nodup)
    (anyOk oneOk : List Bool) (pos : Post.Pos) (v : JVal) (hv : P v) :
    Sim (nodeEntries O b kE anyOk oneOk pos v) (nodeApplies O b kA anyOk oneOk pos v) := by
  unfold nodeEntries nodeApplies
  refine sim_append (sim_append ?_ ?_) ?_
  · exact sim_comp hk hn anyOk oneOk pos v hv
  · cases v with
    | arr xs => exact sim_slice hk b pos xs (hsubA xs hv)
    | _ => exact Sim.refl _
  · cases v with
    | obj kvs => exact sim_object O b hk hadd pos kvs (hsubO kvs hv)
    | _ => exact Sim.refl _


/-! ### the whole tree -/

def ekidsOf (cfg : Cfg) (O : Oracles) (r : String → V) (re : String → E) (itemsS : Option Schema) (itemsT : List Schema)
    (addItemsS : Option Schema) (props patProps : List (String × Schema)) (addPropsS : Option Schema)
    (depSchemas : List (String × Schema)) (allOf anyOf oneOf : List Schema) : EKids :=
  { itemsS := match itemsS with | some s => some (fun p x => entries cfg O r re s p x) | none => none
    itemsT := entriesL cfg O r re itemsT
    addItemsS := match addItemsS with | some s => some (fun p x => entries cfg O r re s p x) | none => none
    props := entriesP cfg O r re props
    patProps := entriesM cfg O r re patProps
    addPropsS := match addPropsS with | some s => some (fun p x => entries cfg O r re s p x) | none => none
    depSchemas := entriesM cfg O r re depSchemas
    allOf := entriesL cfg O r re allOf
    anyOf := entriesL cfg O r re anyOf
    oneOf := entriesL cfg O r re oneOf }

def akidsOf (O : Oracles) (r : String → JVal → Bool) (ra : String → A) (itemsS : Option Schema) (itemsT : List Schema)
    (addItemsS : Option Schema) (props patProps : List (String × Schema)) (addPropsS : Option Schema)
    (depSchemas : List (String × Schema)) (allOf anyOf oneOf : List Schema) : AKids :=
  { itemsS := match itemsS with | some s => some (fun p x => applies O r ra s p x) | none => none
    itemsT := appliesL O r ra itemsT
    addItemsS := match addItemsS with | some s => some (fun p x => applies O r ra s p x) | none => none
    props := appliesP O r ra props
    patProps := appliesM O r ra patProps
    addPropsS := match addPropsS with | some s => some (fun p x => applies O r ra s p x) | none => none
    depSchemas := appliesM O r ra depSchemas
    allOf := appliesL O r ra allOf
    anyOf := appliesL O r ra anyOf
    oneOf := appliesL O r ra oneOf }

theorem entries_mk (cfg : Cfg) (O : Oracles) (r : String → V) (re : String → E) (b : SBase) (itemsS : Option Schema)
    (itemsT : List Schema) (addItemsS : Option Schema) (props patProps : List (String × Schema)) (addPropsS : Option Schema)
    (depSchemas : List (String × Schema)) (allOf anyOf oneOf : List Schema) (nt : Option Schema) (pos : Post.Pos) (v : JVal) :
    entries cfg O r re (.mk b itemsS itemsT addItemsS props patProps addPropsS depSchemas allOf anyOf oneOf nt) pos v
      = if b.ref != "" then re b.ref pos v else
        nodeEntries O b (ekidsOf cfg O r re itemsS itemsT addItemsS props patProps addPropsS depSchemas allOf anyOf oneOf)
          (okL cfg O r anyOf v) (okL cfg O r oneOf v) pos v := by
  cases itemsS <;> cases addItemsS <;> cases addPropsS <;> cases nt <;> rfl

theorem applies_mk (O : Oracles) (r : String → JVal → Bool) (ra : String → A) (b : SBase) (itemsS : Option Schema)
    (itemsT : List Schema) (addItemsS : Option Schema) (props patProps : List (String × Schema)) (addPropsS : Option Schema)
    (depSchemas : List (String × Schema)) (allOf anyOf oneOf : List Schema) (nt : Option Schema) (pos : Post.Pos) (v : JVal) :
    applies O r ra (.mk b itemsS itemsT addItemsS props patProps addPropsS depSchemas allOf anyOf oneOf nt) pos v
      = if b.ref != "" then ra b.ref pos v else
        nodeApplies O b (akidsOf O r ra itemsS itemsT addItemsS props patProps addPropsS depSchemas allOf anyOf oneOf)
          (validOkL O r anyOf v) (validOkL O r oneOf v) pos v := by
  cases itemsS <;> cases addItemsS <;> cases addPropsS <;> cases nt <;> rfl

theorem akeys_entriesM (cfg : Cfg) (O : Oracles) (r : String → V) (re : String → E) (ps : List (String × Schema)) :
    akeys (entriesM cfg O r re ps) = akeys ps := by
  induction ps with
  | nil => rfl
  | cons p ps ih => obtain ⟨k, s⟩ := p; simp only [entriesM, akeys, List.map_cons] at ih ⊢; rw [ih]

section tree
variable (cfg : Cfg) (O : Oracles)
  (hbound : cfg.addlItemsBound = false)
  (hO : cfg.floatTolerance = true → OExact O)
  (rI : String → V) (rS : String → JVal → Bool) (known : String → Bool)
  (hr : ∀ name, known name = true → VAgree (AdmP cfg) (rI name) (rS name))
  (hleak : cfg.leaksImportant = true → ∀ name, NoImp.LV (rI name))
  (reE : String → E) (raA : String → A)
  (hre : ∀ name, known name = true → FSim (AdmP cfg) (reE name) (raA name))

include hleak hbound hO hr in
/-- the verdicts that select the alternatives are those of the specification (C01) -/
theorem okL_eq (ss : List Schema) (hs : wfL cfg known ss = true) (v : JVal) (hv : AdmP cfg v) :
    okL cfg O rI ss v = validOkL O rS ss v := by
  induction ss with
  | nil => rfl
  | cons s ss ih =>
    rw [wfL_cons] at hs
    simp only [Bool.and_eq_true] at hs
    have h := (validate_agree cfg O hbound hO rI rS known hr hleak s hs.1 "" v hv).2
    simp only [okL, validOkL, ih hs.2]
    congr 1

theorem admP_arr (xs : List JVal) (h : AdmP cfg (.arr xs)) : ∀ x ∈ xs, AdmP cfg x := by
  have : admList cfg xs = true := by simpa [AdmP, adm] using h
  exact admList_mem cfg xs this

theorem admP_obj (kvs : List (String × JVal)) (h : AdmP cfg (.obj kvs)) : ∀ kv ∈ kvs, AdmP cfg kv.2 := by
  have : admMembers cfg kvs = true := by simpa [AdmP, adm] using h
  exact (admMembers_mem cfg kvs this).1

include hleak hbound hO hr hre
mutual
theorem entries_sim (s : Schema) (hs : wf cfg known s = true) :
    FSim (AdmP cfg) (fun p x => entries cfg O rI reE s p x) (fun p x => applies O rS raA s p x) := by
  match s with
  | .mk b itemsS itemsT addItemsS props patProps addPropsS depSchemas allOf anyOf oneOf nt =>
    intro pos v hv
    simp only [entries_mk, applies_mk]
    have hs' := hs
    rw [wf_mk] at hs'
    by_cases href : b.ref = ""
    · simp only [href, bne_self_eq_false, Bool.false_and, Bool.false_or, beq_self_eq_true, Bool.true_and,
        Bool.and_eq_true] at hs'
      obtain ⟨⟨⟨⟨⟨⟨⟨⟨⟨⟨⟨hn, h1⟩, h2⟩, h3⟩, h4⟩, h5⟩, h6⟩, h7⟩, h8⟩, h9⟩, h10⟩, _⟩ := hs'
      simp only [href, bne_self_eq_false, Bool.false_eq_true, ↓reduceIte]
      rw [okL_eq cfg O hbound hO rI rS known hr hleak anyOf h9 v hv,
          okL_eq cfg O hbound hO rI rS known hr hleak oneOf h10 v hv]
      unfold nodeWf at hn
      simp only [Bool.and_eq_true, decide_eq_true_eq] at hn
      obtain ⟨⟨_, n6⟩, n7⟩ := hn
      apply node_sim (admP_arr cfg) (admP_obj cfg) O b _ _ _ _ _ pos v hv
      · exact {
          itemsS := by
            cases itemsS with
            | none => simp [ekidsOf, akidsOf, OSim]
            | some s => simp only [ekidsOf, akidsOf, OSim]; exact entries_sim s h1
          itemsT := entriesL_sim itemsT h2
          addItemsS := by
            cases addItemsS with
            | none => simp [ekidsOf, akidsOf, OSim]
            | some s => simp only [ekidsOf, akidsOf, OSim]; exact entries_sim s h3
          props := entriesP_sim props h4
          patProps := entriesM_sim patProps h5
          addPropsS := by
            cases addPropsS with
            | none => simp [ekidsOf, akidsOf, OSim]
            | some s => simp only [ekidsOf, akidsOf, OSim]; exact entries_sim s h6
          depSchemas := entriesM_sim depSchemas h7
          allOf := entriesL_sim allOf h8
          anyOf := entriesL_sim anyOf h9
          oneOf := entriesL_sim oneOf h10 }
      · have n6' : (b.addProps == AddL.schema) = addPropsS.isSome := by simpa using n6
        simp only [ekidsOf]
        rw [n6']
        cases addPropsS <;> rfl
      · simp only [ekidsOf, akeys_entriesM]
        exact (List.nodup_append.mp n7).1
    · have hne : (b.ref != "") = true := by simpa using href
      have heq : (b.ref == "") = false := by simpa using href
      simp only [hne, heq, Bool.true_and, Bool.false_and, Bool.or_false] at hs'
      simp only [hne, ↓reduceIte]
      exact hre b.ref hs' pos v hv
theorem entriesL_sim (ss : List Schema) (hs : wfL cfg known ss = true) :
    All2 (FSim (AdmP cfg)) (entriesL cfg O rI reE ss) (appliesL O rS raA ss) := by
  match ss with
  | [] => exact All2.nil
  | s :: ss =>
    rw [wfL_cons] at hs
    simp only [Bool.and_eq_true] at hs
    show All2 _ ((fun p x => entries cfg O rI reE s p x) :: entriesL cfg O rI reE ss)
      ((fun p x => applies O rS raA s p x) :: appliesL O rS raA ss)
    exact All2.cons (entries_sim s hs.1) (entriesL_sim ss hs.2)
theorem entriesM_sim (ps : List (String × Schema)) (hs : wfM cfg known ps = true) :
    All2 (fun a b => a.1 = b.1 ∧ FSim (AdmP cfg) a.2 b.2) (entriesM cfg O rI reE ps) (appliesM O rS raA ps) := by
  match ps with
  | [] => exact All2.nil
  | (k, s) :: ps =>
    rw [wfM_cons] at hs
    simp only [Bool.and_eq_true] at hs
    show All2 _ ((k, fun p x => entries cfg O rI reE s p x) :: entriesM cfg O rI reE ps)
      ((k, fun p x => applies O rS raA s p x) :: appliesM O rS raA ps)
    exact All2.cons ⟨rfl, entries_sim s hs.1⟩ (entriesM_sim ps hs.2)
theorem entriesP_sim (ps : List (String × Schema)) (hs : wfM cfg known ps = true) :
    All2 (fun a b => a.1 = b.1 ∧ a.2.1 = b.2.1 ∧ FSim (AdmP cfg) a.2.2 b.2.2) (entriesP cfg O rI reE ps) (appliesP O rS raA ps) := by
  match ps with
  | [] => exact All2.nil
  | (k, s) :: ps =>
    rw [wfM_cons] at hs
    simp only [Bool.and_eq_true] at hs
    show All2 _ ((k, s.base.default, fun p x => entries cfg O rI reE s p x) :: entriesP cfg O rI reE ps)
      ((k, s.base.default, fun p x => applies O rS raA s p x) :: appliesP O rS raA ps)
    exact All2.cons ⟨rfl, rfl, entries_sim s hs.1⟩ (entriesP_sim ps hs.2)
end
end tree

/-- `$ref` by fuel: the recorded entries and the applicable schemas, as sets, for every amount of fuel -/
theorem entriesF_sim (cfg : Cfg) (O : Oracles)
    (hbound : cfg.addlItemsBound = false)
    (hO : cfg.floatTolerance = true → OExact O)
    (defs : String → Option Schema) (hdefs : DefsWf cfg defs) (n : Nat) :
    ∀ s, wf cfg (fun n => (defs n).isSome) s = true →
      FSim (AdmP cfg) (entriesF cfg O defs n s) (appliesF O defs n s) := by
  induction n with
  | zero =>
    intro s hs
    exact entries_sim cfg O hbound hO _ _ (fun n => (defs n).isSome)
      (fun _ _ _ _ _ => ⟨rfl, rfl⟩) (fun _ _ p _ _ => NoImp.loc_sErr p eFuel rfl) _ _ (fun _ _ _ _ _ => Sim.refl _) s hs
  | succ n ih =>
    intro s hs
    apply entries_sim cfg O hbound hO _ _ (fun n => (defs n).isSome) ?_ ?_ _ _ ?_ s hs
    · intro name hk p x hx
      cases hd : defs name with
      | none => simp [hd] at hk
      | some t => simpa [hd] using validateF_agree cfg O hbound hO defs hdefs n t (hdefs name t hd) p x hx
    · intro _ name p x hx
      cases hd : defs name with
      | none => simp only []; exact ⟨(by intro m hm; cases hm), (by intro m hm; cases hm)⟩
      | some t => simp only []; exact NoImp.validateF_loc cfg O defs n t p x hx
    · intro name hk p x hx
      cases hd : defs name with
      | none => simp [hd] at hk
      | some t => simpa [hd] using ih t (hdefs name t hd) p x hx

end VM.PostProof
