import VM.Impl.Protocol
namespace VM.Protocol

-- every object borrowed at construction is redeemed exactly once by redeemAll
mutual
theorem redeemAll_bal (x : Pos) : ∀ (p : Pos) (v : VT), cR x (redeemAll p v) = cB x (borrowAll p v)
  | p, .mk kids dyn => by
    simp only [redeemAll, borrowAll]
    have := redeemKids_bal x p 0 kids
    simp [cR, cB, List.count_cons] at *
    omega
theorem redeemKids_bal (x : Pos) : ∀ (p : Pos) (i : Nat) (ks : List (Act × VT)), cR x (redeemKids p i ks) = cB x (borrowKids p i ks)
  | _, _, [] => by simp [redeemKids, borrowKids]
  | p, i, (a, v) :: rest => by
    simp only [redeemKids, borrowKids, cR_app, cB_app]
    rw [redeemAll_bal x (p ++ [i]) v, redeemKids_bal x p (i+1) rest]
end

mutual
theorem cR_borrowAll (x : Pos) : ∀ (p : Pos) (v : VT), cR x (borrowAll p v) = 0
  | p, .mk kids dyn => by
    simp only [borrowAll]
    have := cR_borrowKids x p 0 kids
    simp [cR, List.count_cons] at *
    exact this
theorem cR_borrowKids (x : Pos) : ∀ (p : Pos) (i : Nat) (ks : List (Act × VT)), cR x (borrowKids p i ks) = 0
  | _, _, [] => by simp [borrowKids]
  | p, i, (a, v) :: rest => by
    simp only [borrowKids, cR_app]
    rw [cR_borrowAll x (p ++ [i]) v, cR_borrowKids x p (i+1) rest]
end

mutual
theorem cB_redeemAll (x : Pos) : ∀ (p : Pos) (v : VT), cB x (redeemAll p v) = 0
  | p, .mk kids dyn => by
    simp only [redeemAll, cB_app]
    rw [cB_redeemKids x p 0 kids]; simp [cB]
theorem cB_redeemKids (x : Pos) : ∀ (p : Pos) (i : Nat) (ks : List (Act × VT)), cB x (redeemKids p i ks) = 0
  | _, _, [] => by simp [redeemKids]
  | p, i, (a, v) :: rest => by
    simp only [redeemKids, cB_app]
    rw [cB_redeemAll x (p ++ [i]) v, cB_redeemKids x p (i+1) rest]
end

-- exactly-once, for every tree shape, every slot script, every panic point — when the slot is nilled before the call
mutual
theorem run_bal (x : Pos) : ∀ (p : Pos) (v : VT) (k : Option Nat),
    cR x (run true p v k).evs = cB x (borrowAll p v) + cB x (run true p v k).evs
  | p, .mk kids dyn, k => by
    have hk := runKids_bal x p 0 kids (tick k)
    have hd := runDyn_bal x p 1000 dyn (runKids true p 0 kids (tick k)).k
    have hr := redeemKids_bal x p 0 kids
    have hz := cB_redeemKids x p 0 kids
    unfold run
    split
    · simp only [borrowAll, cR_app, cB_app]
      simp [cR, cB, List.count_cons] at *
      omega
    · simp only [borrowAll]
      split
      · simp only [cR_app, cB_app]
        simp [cR, cB, List.count_cons] at *
        omega
      · simp only [cR_app, cB_app]
        simp [cR, cB, List.count_cons] at *
        omega
theorem runKids_bal (x : Pos) : ∀ (p : Pos) (i : Nat) (ks : List (Act × VT)) (k : Option Nat),
    cR x (runKids true p i ks k).evs + cR x (runKids true p i ks k).deferred
      = cB x (borrowKids p i ks) + cB x (runKids true p i ks k).evs ∧ cB x (runKids true p i ks k).deferred = 0
  | _, _, [], k => by simp [runKids, borrowKids]
  | p, i, (.unvisited, v) :: rest, k => by
    have ih := runKids_bal x p (i+1) rest k
    have h1 := redeemAll_bal x (p ++ [i]) v
    have h2 := cB_redeemAll x (p ++ [i]) v
    simp only [runKids, borrowKids, cR_app, cB_app]
    omega
  | p, i, (.notApplies, v) :: rest, k => by
    have ih := runKids_bal x p (i+1) rest k
    have h1 := redeemAll_bal x (p ++ [i]) v
    have h2 := cB_redeemAll x (p ++ [i]) v
    simp only [runKids, borrowKids, cR_app, cB_app]
    omega
  | p, i, (.call, v) :: rest, k => by
    have hc := run_bal x (p ++ [i]) v k
    have ih := runKids_bal x p (i+1) rest (run true (p ++ [i]) v k).k
    have h1 := redeemKids_bal x p (i+1) rest
    have h2 := cB_redeemKids x p (i+1) rest
    simp only [runKids, borrowKids]
    split
    · simp only [cR_app, cB_app, if_true, List.nil_append, cR_nil, cB_nil]
      omega
    · simp only [cR_app, cB_app]
      omega
theorem runDyn_bal (x : Pos) : ∀ (p : Pos) (j : Nat) (vs : List VT) (k : Option Nat),
    cR x (runDyn true p j vs k).evs = cB x (runDyn true p j vs k).evs
  | _, _, [], k => by simp [runDyn]
  | p, j, v :: rest, k => by
    have hc := run_bal x (p ++ [j]) v k
    have ih := runDyn_bal x p (j+1) rest (run true (p ++ [j]) v k).k
    have hb : cR x (borrowAll (p ++ [j]) v) = 0 := cR_borrowAll x _ v
    simp only [runDyn]
    split
    · simp only [cR_app, cB_app]; omega
    · simp only [cR_app, cB_app]; omega
end


end VM.Protocol
