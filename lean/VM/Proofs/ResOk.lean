/-
  Verdict (`ok`) and panic-flag algebra of `Res` operations, in simp-normal form.
-/
import VM.Proofs.ResultLemmas
import VM.Impl.Schema
namespace VM
open Impl

def Res.ok (r : Res) : Bool := r.errors.isEmpty

/-- `good r g`: the modelled computation did not panic and its verdict is `g` -/
def good (r : Res) (g : Bool) : Prop := r.panicked = false ∧ r.ok = g

@[simp] theorem ok_mk (e w : List Msg) (m : Int) (p : Bool) :
    (Res.mk e w m p).ok = e.isEmpty := rfl

@[simp] theorem ok_default : ({} : Res).ok = true := rfl
@[simp] theorem panicked_default : ({} : Res).panicked = false := rfl

theorem filterMap_map_some_isEmpty (l : List Msg) : ((l.map some).filterMap id).isEmpty = l.isEmpty := by
  cases l <;> simp

@[simp] theorem ok_mergeOne (r o : Res) : (r.mergeOne o).ok = (r.ok && o.ok) := by
  simp [Res.ok, Res.mergeOne, addMsgs_isEmpty, filterMap_map_some_isEmpty]

@[simp] theorem panicked_mergeOne (r o : Res) :
    (r.mergeOne o).panicked = (r.panicked || o.panicked) := rfl

@[simp] theorem ok_inc (r : Res) : r.inc.ok = r.ok := rfl
@[simp] theorem panicked_inc (r : Res) : r.inc.panicked = r.panicked := rfl

@[simp] theorem ok_addErrors (r : Res) (es : List (Option Msg)) :
    (r.addErrors es).ok = (r.ok && (es.filterMap id).isEmpty) := by
  simp [Res.ok, Res.addErrors, addMsgs_isEmpty]

@[simp] theorem panicked_addErrors (r : Res) (es : List (Option Msg)) :
    (r.addErrors es).panicked = r.panicked := rfl

def okOpt : Option Res → Bool
  | some o => o.ok | none => true
def panickedOpt : Option Res → Bool
  | some o => o.panicked | none => false

@[simp] theorem okOpt_some (o : Res) : okOpt (some o) = o.ok := rfl
@[simp] theorem okOpt_none : okOpt none = true := rfl
@[simp] theorem panickedOpt_some (o : Res) : panickedOpt (some o) = o.panicked := rfl
@[simp] theorem panickedOpt_none : panickedOpt none = false := rfl

@[simp] theorem ok_merge (r : Res) (os : List (Option Res)) :
    (r.merge os).ok = (r.ok && os.all okOpt) := by
  induction os generalizing r with
  | nil => simp [Res.merge]
  | cons o os ih => cases o <;> simp [Res.merge, ih, Bool.and_assoc]

@[simp] theorem panicked_merge (r : Res) (os : List (Option Res)) :
    (r.merge os).panicked = (r.panicked || os.any panickedOpt) := by
  induction os generalizing r with
  | nil => simp [Res.merge]
  | cons o os ih => cases o <;> simp [Res.merge, ih, Bool.or_assoc]

@[simp] theorem ok_sErr (e : Msg) : (sErr e).ok = false := rfl
@[simp] theorem panicked_sErr (e : Msg) : (sErr e).panicked = false := rfl
@[simp] theorem ok_emptyResult : emptyResult.ok = true := rfl
@[simp] theorem panicked_emptyResult : emptyResult.panicked = false := rfl
@[simp] theorem ok_absorb (r o : Res) : (absorb r o).ok = r.ok := rfl
@[simp] theorem panicked_absorb (r o : Res) : (absorb r o).panicked = (r.panicked || o.panicked) := rfl

@[simp] theorem ok_step (a : Bool) (res : Option Res) (acc : Res) :
    (step a res acc).ok = (acc.ok && (!a || okOpt res)) := by
  unfold step; cases a <;> simp

@[simp] theorem panicked_step (a : Bool) (res : Option Res) (acc : Res) :
    (step a res acc).panicked = (acc.panicked || (a && panickedOpt res)) := by
  unfold step; cases a <;> simp

end VM
