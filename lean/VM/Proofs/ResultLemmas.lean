import VM.Spec.Result
namespace VM
open Spec

theorem dedup_nodup (l : List Msg) : (dedup l).Nodup := by
  induction l with
  | nil => simp [dedup]
  | cons m ms ih =>
    simp only [dedup, List.nodup_cons]
    refine ⟨?_, ih.filter _⟩
    simp

theorem mem_dedup (l : List Msg) (x : Msg) : x ∈ dedup l ↔ x ∈ l := by
  induction l with
  | nil => simp [dedup]
  | cons m ms ih =>
    simp only [dedup, List.mem_cons, List.mem_filter, ih]
    by_cases h : x = m <;> simp [h]

/-- `AddErrors` computes the ordered-set union (nil entries dropped). -/
theorem addMsgs_eq_ordUnion (cur : List Msg) (es : List (Option Msg)) :
    addMsgs cur es = ordUnion cur (es.filterMap id) := by
  induction es generalizing cur with
  | nil => simp [addMsgs, ordUnion, dedup]
  | cons e es ih =>
    cases e with
    | none => simpa [addMsgs] using ih cur
    | some e =>
      simp only [addMsgs, List.filterMap_cons, id]
      by_cases h : cur.contains e = true
      · rw [if_pos h, ih cur]
        simp only [ordUnion, dedup]
        congr 1
        rw [List.filter_cons]
        simp only [h, Bool.not_true, Bool.false_eq_true, ↓reduceIte, List.filter_filter]
        apply List.filter_congr
        intro x _
        by_cases hx : x = e
        · subst hx; have : x ∈ cur := by simpa using h
          simp [this]
        · simp [hx]
      · rw [if_neg h, ih (cur ++ [e])]
        simp only [ordUnion, dedup]
        rw [List.filter_cons]
        simp only [h, Bool.not_false, ↓reduceIte, List.filter_filter, List.append_assoc,
          List.singleton_append]
        congr 2
        apply List.filter_congr
        intro x _
        simp only [List.contains_append, List.contains_cons, List.contains_nil, Bool.or_false,
          Bool.not_or, bne, Bool.and_comm]

theorem ordUnion_nodup {cur : List Msg} (h : cur.Nodup) (new : List Msg) :
    (ordUnion cur new).Nodup := by
  unfold ordUnion
  rw [List.nodup_append]
  refine ⟨h, (dedup_nodup new).filter _, ?_⟩
  intro a ha b hb
  simp only [List.mem_filter, Bool.not_eq_eq_eq_not, Bool.not_true] at hb
  intro hab; subst hab
  have : cur.contains a = true := by simpa using ha
  rw [this] at hb; exact absurd hb.2 (by simp)

theorem mem_ordUnion (cur new : List Msg) (x : Msg) :
    x ∈ ordUnion cur new ↔ x ∈ cur ∨ x ∈ new := by
  unfold ordUnion
  simp only [List.mem_append, List.mem_filter, mem_dedup]
  by_cases h : x ∈ cur <;> simp [h]

theorem addMsgs_nodup {cur : List Msg} (h : cur.Nodup) (es : List (Option Msg)) :
    (addMsgs cur es).Nodup := by
  rw [addMsgs_eq_ordUnion]; exact ordUnion_nodup h _

theorem mem_addMsgs (cur : List Msg) (es : List (Option Msg)) (x : Msg) :
    x ∈ addMsgs cur es ↔ x ∈ cur ∨ some x ∈ es := by
  rw [addMsgs_eq_ordUnion, mem_ordUnion]
  simp [List.mem_filterMap]

theorem addMsgs_prefix (cur : List Msg) (es : List (Option Msg)) :
    cur <+: addMsgs cur es := by
  rw [addMsgs_eq_ordUnion]; exact List.prefix_append _ _

theorem addMsgs_isEmpty (cur : List Msg) (es : List (Option Msg)) :
    (addMsgs cur es).isEmpty = (cur.isEmpty && (es.filterMap id).isEmpty) := by
  rw [addMsgs_eq_ordUnion]
  unfold ordUnion
  cases cur with
  | nil =>
    cases h : es.filterMap id with
    | nil => simp [dedup]
    | cons a l => simp [dedup]
  | cons a l => simp

end VM
