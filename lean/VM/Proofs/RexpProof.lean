import VM.Impl.RexpCache
namespace VM.Rexp

def CacheOk (valid : Pat → Bool) (c : Cache) : Prop := ∀ k r, (k, r) ∈ c → r = k ∧ valid k = true

theorem lookup_mem {k r : Pat} : ∀ {c : Cache}, lookup k c = some r → (k, r) ∈ c
  | [], h => by simp [lookup] at h
  | (k', r') :: rest, h => by
    simp only [lookup] at h
    split at h
    · simp at h; subst h; simp_all
    · exact List.mem_cons_of_mem _ (lookup_mem h)

def TSOk (valid : Pat → Bool) : TS → Prop
  | .idle => True
  | .loaded _ c => CacheOk valid c
  | .miss _ => True
  | .wantLock r => valid r = true
  | .locked r => valid r = true
  | .lockedLoaded r c => valid r = true ∧ CacheOk valid c
  | .unlocking r => valid r = true
  | .done p res => res = (if valid p then some p else none)

def CInv (valid : Pat → Bool) (g : G) : Prop := CacheOk valid g.published ∧ ∀ t, TSOk valid (g.th t)

theorem setTh_inv {valid g t s} (hc : CacheOk valid g.published) (hall : ∀ x, TSOk valid (g.th x)) (hs : TSOk valid s) :
    CInv valid (setTh g t s) := by
  refine ⟨hc, fun x => ?_⟩
  simp only [setTh]
  split
  · exact hs
  · exact hall x

-- the invariant survives every step of every thread, when the insert key is the expression's own source text
theorem step_inv (valid : Pat → Bool) (g : G) (t : Nat) (req : Pat) (h : CInv valid g) :
    CInv valid (step valid id g t req) := by
  obtain ⟨hc, hall⟩ := h
  have ht := hall t
  unfold step
  split
  · exact setTh_inv hc hall hc
  · rename_i p c heq
    rw [heq] at ht
    split
    · rename_i r hl
      have := ht _ _ (lookup_mem hl)
      apply setTh_inv hc hall
      simp [TSOk, this.1, this.2]
    · exact setTh_inv hc hall trivial
  · rename_i p heq
    split
    · rename_i hv; exact setTh_inv hc hall hv
    · rename_i hv; apply setTh_inv hc hall; simp [TSOk, hv]
  · rename_i r heq
    rw [heq] at ht
    split
    · exact setTh_inv (g := { g with lock := some t }) hc hall ht
    · exact ⟨hc, hall⟩
  · rename_i r heq
    rw [heq] at ht
    exact setTh_inv hc hall ⟨ht, hc⟩
  · rename_i r c heq
    rw [heq] at ht
    split
    · exact setTh_inv hc hall ht.1
    · refine setTh_inv (g := { g with published := (id r, r) :: c }) (s := .unlocking r) ?_ hall ht.1
      intro k r' hm
      simp at hm
      rcases hm with ⟨rfl, rfl⟩ | hm
      · exact ⟨rfl, ht.1⟩
      · exact ht.2 _ _ hm
  · rename_i r heq
    rw [heq] at ht
    apply setTh_inv (g := { g with lock := none }) hc hall
    have hv : valid r = true := ht
    simp [TSOk, hv]
  · exact setTh_inv hc hall trivial

-- every reachable state, any number of threads, any schedule, any requests
def runSched (valid : Pat → Bool) (g : G) : List (Nat × Pat) → G
  | [] => g
  | (t, req) :: rest => runSched valid (step valid id g t req) rest

theorem reachable_inv (valid : Pat → Bool) : ∀ (sched : List (Nat × Pat)) (g : G), CInv valid g → CInv valid (runSched valid g sched)
  | [], _, h => h
  | (t, req) :: rest, g, h => reachable_inv valid rest _ (step_inv valid g t req h)

def g0 : G := { published := [], lock := none, th := fun _ => .idle }

theorem returns_requested (valid : Pat → Bool) (sched : List (Nat × Pat)) (t : Nat) (p : Pat) (res : Option Pat)
    (h : (runSched valid g0 sched).th t = .done p res) : res = (if valid p then some p else none) := by
  have := (reachable_inv valid sched g0 ⟨by intro k r hm; simp [g0] at hm, fun _ => trivial⟩).2 t
  rw [h] at this
  exact this


/-! ### entries are never lost (this is what the mutex and the load *inside* it are for) -/

def holdsLock : TS → Bool
  | .locked _ | .lockedLoaded _ _ | .unlocking _ => true
  | _ => false

/-- lock discipline: only the lock holder is in the critical section, and the snapshot it
    took inside the critical section is still the published map -/
def LInv (g : G) : Prop :=
  (∀ t, holdsLock (g.th t) = true → g.lock = some t) ∧
  (∀ t r c, g.th t = .lockedLoaded r c → c = g.published)

theorem lookup_cons_ne_none (k k' r : Pat) (c : Cache) (h : lookup k c ≠ none) :
    lookup k ((k', r) :: c) ≠ none := by
  simp only [lookup]; split <;> simp_all

theorem step_keeps_entries (valid : Pat → Bool) (keyOf : Pat → Pat) (g : G) (t : Nat) (req : Pat)
    (h : LInv g) :
    LInv (step valid keyOf g t req) ∧
    ∀ k, lookup k g.published ≠ none → lookup k (step valid keyOf g t req).published ≠ none := by
  obtain ⟨hl, hs⟩ := h
  have setTh_L : ∀ (g' : G) (s : TS), g'.published = g.published →
      (∀ x, x ≠ t → g'.th x = g.th x) →
      (∀ x, x ≠ t → holdsLock (g.th x) = true → g'.lock = some x) →
      (holdsLock s = true → g'.lock = some t) →
      (∀ r c, s = .lockedLoaded r c → c = g'.published) →
      LInv (setTh g' t s) := by
    intro g' s hp hth hlk hs1 hs2
    constructor
    · intro x hx
      simp only [setTh] at hx ⊢
      by_cases e : x = t
      · subst e; simp at hx; exact hs1 hx
      · simp [e] at hx; rw [hth x e] at hx; exact hlk x e hx
    · intro x r c hx
      simp only [setTh] at hx ⊢
      by_cases e : x = t
      · subst e; simp at hx; exact hs2 r c hx
      · simp [e] at hx; rw [hth x e] at hx; rw [hp]; exact hs x r c hx
  unfold step
  split
  · exact ⟨setTh_L g _ rfl (fun _ _ => rfl) (fun x _ hx => hl x hx) (by simp [holdsLock]) (by simp), fun _ h => by simpa [setTh] using h⟩
  · split
    · exact ⟨setTh_L g _ rfl (fun _ _ => rfl) (fun x _ hx => hl x hx) (by simp [holdsLock]) (by simp), fun _ h => by simpa [setTh] using h⟩
    · exact ⟨setTh_L g _ rfl (fun _ _ => rfl) (fun x _ hx => hl x hx) (by simp [holdsLock]) (by simp), fun _ h => by simpa [setTh] using h⟩
  · split
    · exact ⟨setTh_L g _ rfl (fun _ _ => rfl) (fun x _ hx => hl x hx) (by simp [holdsLock]) (by simp), fun _ h => by simpa [setTh] using h⟩
    · exact ⟨setTh_L g _ rfl (fun _ _ => rfl) (fun x _ hx => hl x hx) (by simp [holdsLock]) (by simp), fun _ h => by simpa [setTh] using h⟩
  · rename_i r heq
    split
    · rename_i hnone
      refine ⟨setTh_L { g with lock := some t } _ rfl (fun _ _ => rfl) ?_ (fun _ => rfl) (by simp), fun _ h => by simpa [setTh] using h⟩
      intro x _ hx
      have := hl x hx
      rw [hnone] at this; cases this
    · exact ⟨⟨hl, hs⟩, fun _ h => h⟩
  · rename_i r heq
    have hlk : g.lock = some t := hl t (by rw [heq]; rfl)
    refine ⟨setTh_L g _ rfl (fun _ _ => rfl) (fun x _ hx => hl x hx) (fun _ => hlk) ?_, fun _ h => by simpa [setTh] using h⟩
    intro r' c' e; cases e; rfl
  · rename_i r c heq
    have hlk : g.lock = some t := hl t (by rw [heq]; rfl)
    have hc : c = g.published := hs t r c heq
    have others : ∀ x, x ≠ t → holdsLock (g.th x) = true → False := by
      intro x hne hx
      have := hl x hx
      rw [hlk] at this
      exact hne (Option.some.inj this).symm
    split
    · exact ⟨setTh_L g _ rfl (fun _ _ => rfl) (fun x _ hx => hl x hx) (fun _ => hlk) (by simp), fun _ h => by simpa [setTh] using h⟩
    · refine ⟨?_, ?_⟩
      · constructor
        · intro x hx
          simp only [setTh] at hx ⊢
          by_cases e : x = t
          · subst e; exact hlk
          · simp [e] at hx; exact absurd hx (fun h => others x e h)
        · intro x r' c' hx
          simp only [setTh] at hx
          by_cases e : x = t
          · subst e; simp at hx
          · simp [e] at hx
            exact absurd (by rw [hx]; rfl) (fun h => others x e h)
      · intro k hk
        simp only [setTh]
        rw [hc]
        exact lookup_cons_ne_none _ _ _ _ hk
  · rename_i r heq
    have hlk : g.lock = some t := hl t (by rw [heq]; rfl)
    refine ⟨setTh_L { g with lock := none } _ rfl (fun _ _ => rfl) ?_ (by simp [holdsLock]) (by simp), fun _ h => by simpa [setTh] using h⟩
    intro x hne hx
    have := hl x hx
    rw [hlk] at this
    exact absurd (Option.some.inj this).symm hne
  · exact ⟨setTh_L g _ rfl (fun _ _ => rfl) (fun x _ hx => hl x hx) (by simp [holdsLock]) (by simp), fun _ h => by simpa [setTh] using h⟩

def runSchedK (valid : Pat → Bool) (keyOf : Pat → Pat) (g : G) : List (Nat × Pat) → G
  | [] => g
  | (t, req) :: rest => runSchedK valid keyOf (step valid keyOf g t req) rest

/-- once published, a key stays published, for every schedule of every number of threads -/
theorem entries_never_lost (valid : Pat → Bool) (keyOf : Pat → Pat) :
    ∀ (sched : List (Nat × Pat)) (g : G), LInv g → ∀ k, lookup k g.published ≠ none →
      lookup k (runSchedK valid keyOf g sched).published ≠ none
  | [], _, _, _, h => h
  | (t, req) :: rest, g, hg, k, h =>
    let s := step_keeps_entries valid keyOf g t req hg
    entries_never_lost valid keyOf rest _ s.1 k (s.2 k h)

end VM.Rexp
