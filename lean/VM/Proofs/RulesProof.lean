import VM.Spec.SpecRules
namespace VM.Sw
open VM Rules

/-! ### small list facts -/

theorem filterMap_eq_nil_iff' {α β : Type} (f : α → Option β) (l : List α) :
    l.filterMap f = [] ↔ ∀ a ∈ l, f a = none := by
  induction l with
  | nil => simp
  | cons a l ih =>
    simp only [List.filterMap_cons, List.mem_cons, forall_eq_or_imp]
    cases h : f a with
    | none => simp [ih]
    | some b => simp

theorem flatMap_eq_nil_iff' {α β : Type} (f : α → List β) (l : List α) :
    l.flatMap f = [] ↔ ∀ a ∈ l, f a = [] := by
  induction l with
  | nil => simp
  | cons a l ih => simp [List.flatMap_cons, ih]

/-! ### required properties are defined -/

theorem patCompileErrs_nil_iff (O : Oracles) (name defn : String) (s : Schema) :
    patCompileErrs O name defn s = [] ↔ (s.patProps.all fun pp => (O.re pp.1 name).isSome) = true := by
  unfold patCompileErrs
  rw [filterMap_eq_nil_iff', List.all_eq_true]
  constructor
  · intro h pp hpp
    have := h pp hpp
    cases hre : O.re pp.1 name <;> simp_all
  · intro h pp hpp
    have := h pp hpp
    cases hre : O.re pp.1 name <;> simp_all

theorem requiredPropErrs_nil_iff (O : Oracles) (name defn : String) (fuel : Nat) (s : Schema) :
    requiredPropErrs O name defn fuel s = [] ↔ requiredOK O name fuel s = true := by
  induction fuel generalizing s with
  | zero => simp [requiredPropErrs, requiredOK]
  | succ fuel ih =>
    rw [requiredPropErrs, requiredOK, List.append_eq_nil_iff, Bool.and_eq_true, patCompileErrs_nil_iff]
    apply and_congr Iff.rfl
    cases hd : directMatch O name s with
    | true => simp
    | false =>
      simp only [Bool.false_eq_true, ↓reduceIte, Bool.false_or]
      cases hap : s.base.addProps with
      | absent => simp
      | bool b => cases b <;> simp
      | schema =>
        cases has : s.addPropsS with
        | none => simp
        | some a =>
          simp only [List.append_eq_nil_iff]
          rw [← ih a]
          constructor
          · rintro ⟨h, _⟩; exact h
          · intro h; exact ⟨h, by simp [h]⟩

/-! ### operation ids -/

theorem dupOperationIDs_nil_iff (v : View) : dupOperationIDs v = [] ↔ UniqueOperationIds v := by
  unfold dupOperationIDs UniqueOperationIds
  simp only []
  rw [filterMap_eq_nil_iff', List.nodup_iff_count]
  constructor
  · intro h k
    by_cases hk : k ∈ (v.ops.map effId).filter (· != "")
    · have := h k (List.mem_eraseDups.mpr hk)
      by_cases hc : countOf k ((v.ops.map effId).filter (· != "")) > 1
      · rw [if_pos hc] at this; cases this
      · have hc' : ¬ List.count k ((v.ops.map effId).filter (· != "")) > 1 := hc
        omega
    · have : List.count k ((v.ops.map effId).filter (· != "")) = 0 := List.count_eq_zero.mpr hk
      omega
  · intro h k _
    have hk : ¬ countOf k ((v.ops.map effId).filter (· != "")) > 1 := by
      have := h k
      show ¬ List.count k ((v.ops.map effId).filter (· != "")) > 1
      omega
    rw [if_neg hk]

/-! ### parameters of one operation -/

theorem uniqueParamErrs_go_nil_iff (o : Op) (seen : List String) (ps : List Param) :
    uniqueParamErrs.go o seen ps = [] ↔
      (∀ p ∈ ps.filter (·.name != ""), pkey p ∉ seen) ∧ ((ps.filter (·.name != "")).map pkey).Nodup := by
  induction ps generalizing seen with
  | nil => simp [uniqueParamErrs.go]
  | cons p rest ih =>
    by_cases hn : p.name = ""
    · simp [uniqueParamErrs.go, hn, ih]
    · by_cases hs : pkey p ∈ seen
      · have hs' : seen.contains (pkey p) = true := by simpa using hs
        simp only [uniqueParamErrs.go, hn, beq_iff_eq, hs', ↓reduceIte, reduceCtorEq, false_iff]
        intro h
        have hmem : p ∈ (p :: rest).filter (·.name != "") := by simp [hn]
        exact h.1 p hmem hs
      · have hs' : seen.contains (pkey p) = false := by simpa using hs
        simp only [uniqueParamErrs.go, hn, beq_iff_eq, hs', Bool.false_eq_true, ↓reduceIte, ih]
        have hf : (p :: rest).filter (·.name != "") = p :: rest.filter (·.name != "") := by simp [hn]
        rw [hf]
        simp only [List.mem_cons, forall_eq_or_imp, List.map_cons, List.nodup_cons, List.mem_map, not_exists, not_and]
        constructor
        · rintro ⟨h1, h2⟩
          refine ⟨⟨hs, fun q hq hqs => ?_⟩, ⟨fun q hq heq => ?_, h2⟩⟩
          · exact h1 q hq (Or.inr hqs)
          · exact h1 q hq (Or.inl heq)
        · rintro ⟨⟨_, h1⟩, h2, h3⟩
          refine ⟨fun q hq hqs => ?_, h3⟩
          rcases hqs with hqs | hqs
          · exact h2 q hq hqs
          · exact h1 q hq hqs

theorem uniqueParamErrs_nil_iff (o : Op) : uniqueParamErrs o = [] ↔ UniqueNameLocation o := by
  unfold uniqueParamErrs UniqueNameLocation
  rw [uniqueParamErrs_go_nil_iff]
  simp

theorem pathParamUniqueErrs_go_nil_iff (path : String) (before ps : List String) :
    pathParamUniqueErrs.go path before ps = [] ↔ (∀ p ∈ ps, p ∉ before) ∧ ps.Nodup := by
  induction ps generalizing before with
  | nil => simp [pathParamUniqueErrs.go]
  | cons p rest ih =>
    by_cases hb : p ∈ before
    · have hb' : before.contains p = true := by simpa using hb
      simp only [pathParamUniqueErrs.go, hb', ↓reduceIte, reduceCtorEq, List.mem_cons, forall_eq_or_imp, false_iff]
      intro h; exact h.1.1 hb
    · have hb' : before.contains p = false := by simpa using hb
      simp only [pathParamUniqueErrs.go, hb', Bool.false_eq_true, ↓reduceIte, ih, List.mem_append,
        List.mem_cons, forall_eq_or_imp, List.nodup_cons]
      constructor
      · rintro ⟨h1, h2⟩
        refine ⟨⟨hb, fun q hq hqb => h1 q hq (Or.inl hqb)⟩, fun hp => ?_, h2⟩
        exact h1 p hp (Or.inr (Or.inl rfl))
      · rintro ⟨⟨_, h1⟩, h2, h3⟩
        refine ⟨fun q hq hqb => ?_, h3⟩
        rcases hqb with hqb | hqb | hqb
        · exact h1 q hq hqb
        · subst hqb; exact h2 hq
        · cases hqb

theorem pathParamUniqueErrs_nil_iff (path : String) (ps : List String) :
    pathParamUniqueErrs path ps = [] ↔ ps.Nodup := by
  unfold pathParamUniqueErrs
  rw [pathParamUniqueErrs_go_nil_iff]; simp

theorem pathParamPresenceErrs_nil_iff (path : String) (fromPath fromOp : List String) :
    pathParamPresenceErrs path fromPath fromOp = [] ↔
      (∀ l ∈ fromPath, ∃ r ∈ fromOp, l = "{" ++ r ++ "}") ∧ (∀ p ∈ fromOp, ("{" ++ p ++ "}") ∈ fromPath) := by
  unfold pathParamPresenceErrs
  rw [List.append_eq_nil_iff, filterMap_eq_nil_iff', filterMap_eq_nil_iff']
  apply and_congr
  · constructor
    · intro h l hl
      have := h l hl
      split at this
      · rename_i hany
        obtain ⟨r, hr, hlr⟩ := List.any_eq_true.mp hany
        exact ⟨r, hr, by simpa using hlr⟩
      · cases this
    · intro h l hl
      obtain ⟨r, hr, hlr⟩ := h l hl
      have : (fromOp.any fun r => l == "{" ++ r ++ "}") = true := List.any_eq_true.mpr ⟨r, hr, by simpa using hlr⟩
      simp [this]
  · constructor
    · intro h p hp
      have := h p hp
      split at this
      · rename_i hany
        obtain ⟨r, hr, hpr⟩ := List.any_eq_true.mp hany
        have : "{" ++ p ++ "}" = r := by simpa using hpr
        rw [this]; exact hr
      · cases this
    · intro h p hp
      have : (fromPath.any fun r => "{" ++ p ++ "}" == r) = true :=
        List.any_eq_true.mpr ⟨_, h p hp, by simp⟩
      simp [this]

theorem ite_list_nil_iff {α : Type} (c : Prop) [Decidable c] (l : List α) (hl : l ≠ []) :
    (if c then l else []) = [] ↔ ¬ c := by
  by_cases h : c <;> simp [h, hl]

theorem ite_nil_list_iff {α : Type} (c : Prop) [Decidable c] (l : List α) (hl : l ≠ []) :
    (if c then [] else l) = [] ↔ c := by
  by_cases h : c <;> simp [h, hl]

theorem operationParamErrs_nil_iff (O : Oracles) (o : Op) :
    operationParamErrs O o = [] ↔ OperationRules O o := by
  unfold operationParamErrs operationParamErrsOn OperationRules
  simp only [List.append_eq_nil_iff]
  rw [uniqueParamErrs_nil_iff, pathParamUniqueErrs_nil_iff, pathParamPresenceErrs_nil_iff, flatMap_eq_nil_iff',
    ite_list_nil_iff _ _ (by simp), ite_list_nil_iff _ _ (by simp)]
  unfold PathParamsMatch PathParamsRequired AtMostOneBody NotBodyAndForm ParamPatternsValid
  constructor
  · rintro ⟨⟨⟨⟨⟨hu, hper⟩, hbf⟩, hmb⟩, hnd⟩, hp1, hp2⟩
    refine ⟨hu, ⟨?_, ?_, hnd⟩, ?_, ?_, ?_, ?_⟩
    · intro l hl
      obtain ⟨r, hr, hlr⟩ := hp1 l hl
      obtain ⟨p, hp, rfl⟩ := List.mem_map.mp hr
      have hp' := List.mem_filter.mp hp
      exact ⟨p, hp'.1, by simpa using hp'.2, hlr⟩
    · intro p hp hloc
      exact hp2 p.name (List.mem_map.mpr ⟨p, List.mem_filter.mpr ⟨hp, by simpa using hloc⟩, rfl⟩)
    · intro p hp hloc
      have := hper p hp
      simp only [List.append_eq_nil_iff] at this
      have h2 := this.2
      by_cases hr : p.required = true
      · exact hr
      · have : (p.loc == "path" && !p.required) = true := by simp [hloc, hr]
        rw [if_pos this] at h2; cases h2
    · simp only [List.length_map] at hmb; omega
    · rintro ⟨⟨pb, hpb, hlb⟩, ⟨pf, hpf, hlf⟩⟩
      apply hbf
      rw [Bool.and_eq_true]
      constructor
      · have : pb ∈ o.params.filter (·.loc == "body") := List.mem_filter.mpr ⟨hpb, by simpa using hlb⟩
        cases hfl : o.params.filter (·.loc == "body") with
        | nil => rw [hfl] at this; cases this
        | cons a l => simp
      · exact List.any_eq_true.mpr ⟨pf, hpf, by simpa using hlf⟩
    · intro p hp
      have := hper p hp
      simp only [List.append_eq_nil_iff] at this
      have h1 := this.1
      by_cases hk : patOK O p.base.pattern = true
      · exact hk
      · rw [if_neg hk] at h1; cases h1
  · rintro ⟨hu, ⟨hm1, hm2, hnd⟩, hreq, hone, hbf, hpat⟩
    refine ⟨⟨⟨⟨⟨hu, ?_⟩, ?_⟩, ?_⟩, hnd⟩, ?_, ?_⟩
    · intro p hp
      simp only [List.append_eq_nil_iff]
      constructor
      · rw [if_pos (hpat p hp)]
      · by_cases hloc : p.loc = "path"
        · have := hreq p hp hloc
          simp [this]
        · simp [hloc]
    · intro hbf'
      rw [Bool.and_eq_true] at hbf'
      obtain ⟨hb, hf⟩ := hbf'
      apply hbf
      constructor
      · cases hfl : o.params.filter (·.loc == "body") with
        | nil => simp [hfl] at hb
        | cons a l =>
          have : a ∈ o.params.filter (·.loc == "body") := by rw [hfl]; exact List.mem_cons_self
          have ha := List.mem_filter.mp this
          exact ⟨a, ha.1, by simpa using ha.2⟩
      · obtain ⟨pf, hpf, hlf⟩ := List.any_eq_true.mp hf
        exact ⟨pf, hpf, by simpa using hlf⟩
    · simp only [List.length_map]; omega
    · intro l hl
      obtain ⟨p, hp, hloc, hlp⟩ := hm1 l hl
      exact ⟨p.name, List.mem_map.mpr ⟨p, List.mem_filter.mpr ⟨hp, by simpa using hloc⟩, rfl⟩, hlp⟩
    · intro n hn
      obtain ⟨p, hp, rfl⟩ := List.mem_map.mp hn
      have hp' := List.mem_filter.mp hp
      exact hm2 p hp'.1 (by simpa using hp'.2)

theorem pathNameErrs_nil_iff (v : View) : pathNameErrs v = [] ↔ PathsPresent v := by
  unfold pathNameErrs PathsPresent
  cases h1 : v.hasPaths with
  | false => simp
  | true =>
    cases h2 : v.hasPathItems with
    | false => simp
    | true =>
      simp only [Bool.not_true, Bool.false_eq_true, ↓reduceIte, true_and, forall_const]
      rw [filterMap_eq_nil_iff']
      constructor
      · intro h k hk
        have := h k hk
        cases hc : containsEmptyBraces k.toList with
        | false => rfl
        | true => simp [hc] at this
      · intro h k hk
        simp [h k hk]

/-! ### overlapping paths -/

def clash (a b : Op) : Prop := a.method = b.method ∧ stripParametersInPath a.path = stripParametersInPath b.path

theorem overlapErrs_go_nil_iff (seen : List (String × String × String)) (ops : List Op) :
    overlapErrs.go seen ops = [] ↔
      (∀ o ∈ ops, ∀ e ∈ seen, ¬ (e.1 = o.method ∧ e.2.1 = stripParametersInPath o.path))
      ∧ ops.Pairwise (fun a b => ¬ clash a b) := by
  induction ops generalizing seen with
  | nil => simp [overlapErrs.go]
  | cons o rest ih =>
    simp only [overlapErrs.go]
    cases hf : seen.find? (fun x => x.1 == o.method && x.2.1 == stripParametersInPath o.path) with
    | some e =>
      obtain ⟨m, st, first⟩ := e
      simp only [reduceCtorEq, List.mem_cons, forall_eq_or_imp, List.pairwise_cons, false_iff]
      rintro ⟨⟨h1, _⟩, _⟩
      have hmem := List.mem_of_find?_eq_some hf
      have hp := List.find?_some hf
      simp only [Bool.and_eq_true, beq_iff_eq] at hp
      exact h1 _ hmem hp
    | none =>
      have hnone := List.find?_eq_none.mp hf
      simp only [ih, List.mem_cons, forall_eq_or_imp, List.pairwise_cons]
      constructor
      · rintro ⟨h1, h2⟩
        refine ⟨⟨fun e he hm => ?_, fun o' ho' e he => h1 o' ho' |>.2 e he⟩, fun b hb hc => ?_, h2⟩
        · have := hnone e he
          simp only [Bool.and_eq_true, beq_iff_eq] at this
          exact this hm
        · exact (h1 b hb).1 ⟨hc.1, hc.2⟩
      · rintro ⟨⟨_, h1⟩, h2, h3⟩
        refine ⟨fun o' ho' => ⟨fun hc => h2 o' ho' ⟨hc.1, hc.2⟩, h1 o' ho'⟩, h3⟩

theorem pairwise_symm_forall {α : Type} {R : α → α → Prop} (hsymm : ∀ a b, R a b → R b a) {l : List α}
    (h : l.Pairwise R) : ∀ a ∈ l, ∀ b ∈ l, a ≠ b → R a b := by
  induction l with
  | nil => intro a ha; cases ha
  | cons x xs ih =>
    rw [List.pairwise_cons] at h
    intro a ha b hb hab
    rcases List.mem_cons.mp ha with rfl | ha'
    · rcases List.mem_cons.mp hb with rfl | hb'
      · exact absurd rfl hab
      · exact h.1 b hb'
    · rcases List.mem_cons.mp hb with rfl | hb'
      · exact hsymm _ _ (h.1 a ha')
      · exact ih h.2 a ha' b hb' hab

/-- operations are keyed by method and path (Go maps): no two entries share both -/
def DistinctKeys (ops : List Op) : Prop := ops.Pairwise fun a b => ¬ (a.method = b.method ∧ a.path = b.path)

theorem overlapErrs_nil_iff (ops : List Op) (hk : DistinctKeys ops) : overlapErrs ops = [] ↔ NoOverlap ops := by
  unfold overlapErrs
  rw [overlapErrs_go_nil_iff]
  simp only [List.not_mem_nil, false_imp_iff, implies_true, true_and]
  constructor
  · intro hp a ha b hb hm hs
    by_cases hpath : a.path = b.path
    · exact hpath
    · have hne : a ≠ b := fun h => hpath (by rw [h])
      have := pairwise_symm_forall (R := fun a b => ¬ clash a b)
        (fun x y hxy hc => hxy ⟨hc.1.symm, hc.2.symm⟩) hp a ha b hb hne
      exact absurd ⟨hm, hs⟩ this
  · intro hno
    refine List.Pairwise.imp_of_mem ?_ hk
    intro a b ha hb hab hc
    exact hab ⟨hc.1, hno a ha b hb hc.1 hc.2⟩

end VM.Sw
