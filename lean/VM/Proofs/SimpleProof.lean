/-
  C16 — the chain of the parameter / header / items validators composes its six slots as the
  simple-schema specification composes its constraints, at every nesting depth of `items`.
  The leaf checks (one level, one value) are compared separately (`leafImpl` / `leafSpec`).
-/
import VM.Impl.Simple
import VM.Proofs.ValuesProof
namespace VM.Simple
open VM GoVal Values Helpers
open VM.Impl (gtOpt ltOpt)

/-- everything the chain decides at one level about one value, the elements apart -/
def leafImpl (O : Oracles) (rootFmt : String) (b : SBase) (required allowEmpty : Bool) (v : GoVal) : Bool :=
  !typeBad O b v && !strBad O b required allowEmpty v && !fmtBad O rootFmt b v && !numBad O b v
  && !sliceLocalBad b v && !commonErr b.enum v

/-- everything the specification asks at one level of one value, the elements apart -/
def leafSpec (O : Oracles) (b : SBase) (required allowEmpty : Bool) (v : GoVal) : Bool :=
  specType (typOf b) v
  && (match v with
      | .str s =>
        !(required && !allowEmpty && s.isEmpty && b.default.isNone)
        && VM.Spec.atMost (runeCount s) b.maxLength && VM.Spec.atLeast (runeCount s) b.minLength
        && (b.pattern == "" || O.re b.pattern (strOf s) == some true)
        && (!O.fmtKnown b.format || O.fmt b.format (strOf s))
      | _ => true)
  && (match numVal v with
      | some x => specTypedValid [] b x
      | none => true)
  && (match v with
      | .slice _ _ xs =>
        VM.Spec.atMost xs.length b.maxItems && VM.Spec.atLeast xs.length b.minItems
        && (!b.uniqueItems || !specHasDup xs)
      | _ => true)
  && specEnumOK b.enum v

/-- the elements of a slice under `items`, as the specification sees them -/
def itemsSpec (O : Oracles) (fuel : Nat) (items : Option SSchema) : GoVal → Bool
  | .slice _ _ xs => (match items with
                      | some it => xs.all (fun x => specAux O fuel it x)
                      | none => true)
  | _ => true

theorem specAux_succ (O : Oracles) (fuel : Nat) (b : SBase) (req ae : Bool) (items : Option SSchema) (v : GoVal)
    (hv : v ≠ .nil) :
    specAux O (fuel + 1) (.mk b req ae items) v = (leafSpec O b req ae v && itemsSpec O fuel items v) := by
  cases v <;> first | exact absurd rfl hv | skip
  all_goals simp only [specAux, leafSpec, itemsSpec, typOf, Bool.and_true, Bool.true_and]
  -- slice: reorder the conjunction
  all_goals (try rfl)
  all_goals (cases items <;> simp only [Bool.and_true, Bool.and_assoc, Bool.and_comm, Bool.and_left_comm] <;> try rfl)

theorem itemsStep_done (f : GoVal → Bool × Bool) (x : GoVal) : itemsStep f false (true, false) x = (true, false) := by
  simp [itemsStep]

theorem itemsStep_nil (f : GoVal → Bool × Bool) : itemsStep f false (false, false) .nil = (false, false) := by
  simp [itemsStep]

theorem itemsStep_val (f : GoVal → Bool × Bool) (x : GoVal) (hx : x ≠ .nil) :
    itemsStep f false (false, false) x = (!(f x).1, (f x).2) := by
  cases x <;> first | exact absurd rfl hx | simp [itemsStep]

/-- the fold over the elements: no panic (the repaired code), and "some element invalid" -/
theorem itemsFold_eq (f : GoVal → Bool × Bool) (g : GoVal → Bool) (xs : List GoVal)
    (h : ∀ x ∈ xs, x ≠ .nil → f x = (g x, false)) (hn : g .nil = true) :
    itemsFold f false xs = (!xs.all g, false) := by
  unfold itemsFold
  suffices H : ∀ (acc : Bool) (ys : List GoVal), (∀ x ∈ ys, x ≠ .nil → f x = (g x, false)) →
      ys.foldl (itemsStep f false) (acc, false) = (acc || !ys.all g, false) from by
    have := H false xs h
    simpa using this
  intro acc ys
  induction ys generalizing acc with
  | nil => intro _; simp
  | cons y ys ih =>
    intro hy
    have hys : ∀ x ∈ ys, x ≠ .nil → f x = (g x, false) := fun x hx => hy x (List.mem_cons_of_mem _ hx)
    simp only [List.foldl_cons, List.all_cons]
    cases acc with
    | true => rw [itemsStep_done, ih true hys]; simp
    | false =>
      by_cases hyn : y = .nil
      · subst hyn; rw [itemsStep_nil, ih false hys, hn]; simp
      · rw [itemsStep_val f y hyn, hy y List.mem_cons_self hyn, ih _ hys]
        cases g y <;> simp

/-- per-level agreement of the leaf checks on every (level, value) pair the chain can reach -/
def LeafAgree (O : Oracles) (rootFmt : String) : Nat → SSchema → GoVal → Prop
  | 0, _, _ => True
  | fuel + 1, .mk b req ae items, v =>
    leafImpl O rootFmt b req ae v = leafSpec O b req ae v ∧
    (match v, items with
     | .slice _ _ xs, some it => ∀ x ∈ xs, x ≠ .nil → LeafAgree O rootFmt fuel it x
     | _, _ => True)

theorem validateAux_eq_spec (O : Oracles) (rootFmt : String) :
    ∀ (fuel : Nat) (root : Root) (s : SSchema) (v : GoVal), v ≠ .nil → LeafAgree O rootFmt fuel s v →
      validateAux O false fuel root rootFmt s v = (specAux O fuel s v, false) := by
  intro fuel
  induction fuel with
  | zero => intro root s v _ _; simp [validateAux, specAux]
  | succ fuel ih =>
    intro root s v hv hA
    obtain ⟨b, req, ae, items⟩ := s
    obtain ⟨hleaf, hkids⟩ := hA
    rw [specAux_succ O fuel b req ae items v hv, ← hleaf]
    -- the element part
    have hitems : itemsRes (validateAux O false fuel .items rootFmt) false items v = (!itemsSpec O fuel items v, false) := by
      cases v with
      | slice e n xs =>
        cases items with
        | none => simp [itemsSpec, itemsRes]
        | some it =>
          simp only [itemsSpec, itemsRes]
          apply itemsFold_eq
          · intro x hx hxn; exact ih .items it x hxn (hkids x hx hxn)
          · cases fuel <;> simp [specAux]
      | _ => simp [itemsSpec, itemsRes]
    simp only [validateAux, hitems, leafImpl]
    cases typeBad O b v <;> cases strBad O b req ae v <;> cases fmtBad O rootFmt b v <;> cases numBad O b v
      <;> cases sliceLocalBad b v <;> cases itemsSpec O fuel items v <;> cases commonErr b.enum v <;> simp

/-- **C16, structure of the chain**: when the leaf checks agree with the specification at every level
    and value reached, the parameter / header / items validator accepts exactly what the simple-schema
    specification accepts, and does not panic — for every nesting depth of `items`. -/
theorem validate_eq_spec (O : Oracles) (root : Root) (s : SSchema) (v : GoVal)
    (hA : LeafAgree O s.base.format (s.depth + 1) s v) :
    validate O root s v = (specValid O s v, false) := by
  unfold validate specValid
  cases v with
  | nil => rfl
  | _ => exact validateAux_eq_spec O _ _ root s _ (by simp) hA

end VM.Simple

namespace VM.Simple
open VM GoVal Values Helpers
open VM.Impl (gtOpt ltOpt)

/-! ### the leaf checks on the fragment without numbers and formats -/

theorem gtOpt_atMost (x : Int) (m : Option Int) : gtOpt x m = !VM.Spec.atMost x m := by
  cases m with
  | none => rfl
  | some m => simp only [gtOpt, VM.Spec.atMost]; by_cases h : x ≤ m <;> simp [h] <;> omega
theorem ltOpt_atLeast (x : Int) (m : Option Int) : ltOpt x m = !VM.Spec.atLeast x m := by
  cases m with
  | none => rfl
  | some m => simp only [ltOpt, VM.Spec.atLeast]; by_cases h : m ≤ x <;> simp [h] <;> omega

theorem any_congr_mem {α : Type} {l : List α} {p q : α → Bool} (h : ∀ a ∈ l, p a = q a) : l.any p = l.any q := by
  induction l with
  | nil => rfl
  | cons a l ih =>
    simp only [List.any_cons, h a List.mem_cons_self, ih (fun b hb => h b (List.mem_cons_of_mem _ hb))]

def isScalar : GoVal → Bool | .str _ => true | .bool _ => true | _ => false

theorem deepEq_valEq_scalar (x y : GoVal) (hx : isScalar x = true) (hy : isScalar y = true) : deepEq x y = valEq x y := by
  cases x <;> cases y <;> simp_all [isScalar, deepEq, valEq]

theorem hasDeepDup_spec_scalar (xs : List GoVal) (h : ∀ x ∈ xs, isScalar x = true) : hasDeepDup xs = specHasDup xs := by
  induction xs with
  | nil => rfl
  | cons x xs ih =>
    have hx := h x List.mem_cons_self
    have hxs : ∀ y ∈ xs, isScalar y = true := fun y hy => h y (List.mem_cons_of_mem _ hy)
    simp only [hasDeepDup, specHasDup, ih hxs]
    congr 1
    exact any_congr_mem (fun y hy => deepEq_valEq_scalar x y hx (hxs y hy))

/-- enum on a string: conversion changes nothing, `reflect.DeepEqual` is byte equality -/
theorem enum_str (enum : List JVal) (s : List UInt8) : commonErr enum (.str s) = !specEnumOK enum (.str s) := by
  unfold commonErr specEnumOK
  cases h : enum.isEmpty
  · simp only [Bool.false_eq_true, ↓reduceIte, Bool.false_or]
    congr 1
    apply List.any_congr rfl
    intro e
    cases e <;> simp [jvalToGo, convertTo, deepEq, valEq, numVal]
  · simp

theorem enum_bool (enum : List JVal) (x : Bool) : commonErr enum (.bool x) = !specEnumOK enum (.bool x) := by
  unfold commonErr specEnumOK
  cases h : enum.isEmpty
  · simp only [Bool.false_eq_true, ↓reduceIte, Bool.false_or]
    congr 1
    apply List.any_congr rfl
    intro e
    cases e <;> simp [jvalToGo, convertTo, deepEq, valEq, numVal]
  · simp

theorem typeErrOther_noFormat (typ sch : String) (ss : Bool) : typeErrOther typ "" sch ss = !(typ == sch) := by
  simp [typeErrOther]

theorem leaf_str (O : Oracles) (rootFmt : String) (b : SBase) (req ae : Bool) (s : List UInt8)
    (hf : b.format = "") (hr : O.fmtKnown rootFmt = false) (h0 : O.fmtKnown "" = false)
    (hd : hasDefault b.default = b.default.isSome) :
    leafImpl O rootFmt b req ae (.str s) = leafSpec O b req ae (.str s) := by
  simp only [leafImpl, leafSpec, typeBad, strBad, fmtBad, numBad, sliceLocalBad, numKindOf, numVal, specType, hf, hr, h0, hd,
    typeErrOther_noFormat, enum_str, gtOpt_atMost, ltOpt_atLeast, bne]
  have hiso : b.default.isNone = !b.default.isSome := by cases b.default <;> rfl
  rw [hiso]
  generalize (typOf b == "") = a1
  generalize (typOf b == "string") = a2
  generalize b.default.isSome = a3
  generalize List.isEmpty s = a4
  generalize VM.Spec.atMost (runeCount s) b.maxLength = a5
  generalize VM.Spec.atLeast (runeCount s) b.minLength = a6
  generalize (b.pattern == "") = a7
  generalize (O.re b.pattern (strOf s) == some true) = a8
  generalize specEnumOK b.enum (.str s) = a9
  cases a1 <;> cases a2 <;> cases req <;> cases ae <;> cases a3 <;> cases a4 <;> cases a5 <;> cases a6 <;> cases a7 <;> cases a8
    <;> cases a9 <;> rfl


theorem leaf_bool (O : Oracles) (rootFmt : String) (b : SBase) (req ae : Bool) (x : Bool) (hf : b.format = "") :
    leafImpl O rootFmt b req ae (.bool x) = leafSpec O b req ae (.bool x) := by
  simp only [leafImpl, leafSpec, typeBad, strBad, fmtBad, numBad, sliceLocalBad, numKindOf, numVal, specType, hf,
    typeErrOther_noFormat, enum_bool, bne]
  generalize (typOf b == "") = a1
  generalize (typOf b == "boolean") = a2
  generalize specEnumOK b.enum (.bool x) = a9
  cases a1 <;> cases a2 <;> cases a9 <;> rfl

/-- a slice: its own constraints (the elements are the business of `itemsSpec`); `enum` on arrays is outside the
    simple-schema vocabulary of the model, `uniqueItems` is compared on scalar elements -/
theorem leaf_slice (O : Oracles) (rootFmt : String) (b : SBase) (req ae : Bool) (e : String) (n : Bool) (xs : List GoVal)
    (hf : b.format = "") (he : b.enum = []) (hu : b.uniqueItems = true → ∀ x ∈ xs, isScalar x = true) :
    leafImpl O rootFmt b req ae (.slice e n xs) = leafSpec O b req ae (.slice e n xs) := by
  have hdup : (b.uniqueItems && hasDeepDup xs) = (b.uniqueItems && specHasDup xs) := by
    cases hb : b.uniqueItems
    · rfl
    · rw [hasDeepDup_spec_scalar xs (hu hb)]
  simp only [leafImpl, leafSpec, typeBad, strBad, fmtBad, numBad, sliceLocalBad, numKindOf, numVal, specType, hf, he, hdup,
    typeErrOther_noFormat, gtOpt_atMost, ltOpt_atLeast, bne, commonErr, specEnumOK, List.isEmpty_nil]
  generalize (typOf b == "") = a1
  generalize (typOf b == "array") = a2
  generalize VM.Spec.atMost (xs.length : Int) b.maxItems = a5
  generalize VM.Spec.atLeast (xs.length : Int) b.minItems = a6
  generalize b.uniqueItems = a7
  generalize specHasDup xs = a8
  cases a1 <;> cases a2 <;> cases a5 <;> cases a6 <;> cases a7 <;> cases a8 <;> rfl

/-! ### signed integers with integral bounds -/

/-- an optional float64 bound that is an integer within int64 (what `IsValueValidAgainstRange` accepts for `integer`) -/
def IntBound : Option Rat → Prop
  | none => True
  | some m => ∃ mi : Int, m = (mi : Rat) ∧ -(pow2 63) ≤ mi ∧ mi < pow2 63

theorem inRange_intCast (typ : String) (mi : Int) (h : -(pow2 63) ≤ mi ∧ mi < pow2 63) : inRange typ "" (mi : Rat) = true := by
  unfold inRange
  by_cases ht : typ = "integer"
  · simp [ht, Rat.isInt, h.1, h.2]
  · simp [ht]

theorem isInt_intCast (a : Int) : ((a : Int) : Rat).isInt = true := by simp [Rat.isInt]

theorem enum_int (enum : List JVal) (bits : Nat) (x : Int) (he : ∀ e ∈ enum, ∀ t, e ≠ .str t) :
    commonErr enum (.int bits x) = !specEnumOK enum (.int bits x) := by
  unfold commonErr specEnumOK
  cases h : enum.isEmpty
  · simp only [Bool.false_eq_true, ↓reduceIte, Bool.false_or]
    congr 1
    apply any_congr_mem
    intro e hm
    cases e with
    | str t => exact absurd rfl (he _ hm t)
    | num r => simp [jvalToGo, convertTo, deepEq, valEq, numVal]
    | _ => simp [jvalToGo, convertTo, deepEq, valEq, numVal]
  · simp

theorem leaf_int (O : Oracles) (rootFmt : String) (b : SBase) (req ae : Bool) (bits : Nat) (x : Int)
    (hf : b.format = "") (hx : -(pow2 63) ≤ x ∧ x < pow2 63)
    (hmax : IntBound b.maximum) (hmin : IntBound b.minimum) (hmul : IntBound b.multipleOf)
    (he : ∀ e ∈ b.enum, ∀ t, e ≠ .str t) :
    leafImpl O rootFmt b req ae (.int bits x) = leafSpec O b req ae (.int bits x) := by
  have htype : typeBad O b (.int bits x) = !specType (typOf b) (.int bits x) := by
    simp only [typeBad, numKindOf, specType, numVal, typeErrTyped, goTypeInfo, hf, isInt_intCast]
    have c1 : ("integer" = typOf b) = (typOf b = "integer") := propext eq_comm
    have c2 : ("number" = typOf b) = (typOf b = "number") := propext eq_comm
    by_cases h1 : typOf b = "" <;> by_cases h2 : typOf b = "integer" <;> by_cases h3 : typOf b = "number" <;>
      simp_all [List.contains_cons, bne]
  have hopt : ∀ (f g : Rat → Bool) (o : Option Rat), IntBound o → (∀ mi : Int, f (mi : Rat) = !g (mi : Rat)) →
      optErr (typOf b) "" f o = !optOK g o := by
    intro f g o ho hfg
    cases o with
    | none => rfl
    | some m =>
      obtain ⟨mi, rfl, hr⟩ := ho
      simp only [optErr, optOK, inRange_intCast _ mi hr, ↓reduceIte, hfg]
  have hnum : numBad O b (.int bits x) = !specTypedValid [] b (x : Rat) := by
    simp only [numBad, numKindOf, numberErrTyped, specTypedValid, hf, inRange_intCast _ x hx, List.isEmpty_nil,
      Bool.true_or, Bool.true_and, Bool.not_true, Bool.false_or]
    rw [hopt _ (fun m => !specMax (x : Rat) m b.exclMax) _ hmax (fun mi => by simp only [native_int_max_exact, Bool.not_not]),
        hopt _ (fun m => !specMin (x : Rat) m b.exclMin) _ hmin (fun mi => by simp only [native_int_min_exact, Bool.not_not]),
        hopt _ (fun m => specMul (x : Rat) m == MulRes.ok) _ hmul (fun mi => by
          simp only [mulErr, native_int_mul_exact]; cases specMul (x : Rat) (mi : Rat) <;> rfl)]
    generalize optOK (fun m => !specMax (x : Rat) m b.exclMax) b.maximum = a1
    generalize optOK (fun m => !specMin (x : Rat) m b.exclMin) b.minimum = a2
    generalize optOK (fun m => specMul (x : Rat) m == MulRes.ok) b.multipleOf = a3
    cases a1 <;> cases a2 <;> cases a3 <;> rfl
  simp only [leafImpl, leafSpec, htype, hnum, strBad, fmtBad, sliceLocalBad, numVal, enum_int _ _ _ he]
  generalize specType (typOf b) (.int bits x) = a1
  generalize specTypedValid [] b (x : Rat) = a2
  generalize specEnumOK b.enum (.int bits x) = a3
  cases a1 <;> cases a2 <;> cases a3 <;> rfl

/-! ### unsigned integers (integral bounds, no multipleOf) and floats (exact oracles) -/

theorem enum_uint (enum : List JVal) (bits : Nat) (x : Nat) (he : ∀ e ∈ enum, ∀ t, e ≠ .str t) :
    commonErr enum (.uint bits x) = !specEnumOK enum (.uint bits x) := by
  unfold commonErr specEnumOK
  cases h : enum.isEmpty
  · simp only [Bool.false_eq_true, ↓reduceIte, Bool.false_or]
    congr 1
    apply any_congr_mem
    intro e hm
    cases e with
    | str t => exact absurd rfl (he _ hm t)
    | num r => simp [jvalToGo, convertTo, deepEq, valEq, numVal]
    | _ => simp [jvalToGo, convertTo, deepEq, valEq, numVal]
  · simp

theorem enum_float (enum : List JVal) (bits : Nat) (x : Rat) :
    commonErr enum (.float bits x) = !specEnumOK enum (.float bits x) := by
  unfold commonErr specEnumOK
  cases h : enum.isEmpty
  · simp only [Bool.false_eq_true, ↓reduceIte, Bool.false_or]
    congr 1
    apply List.any_congr rfl
    intro e
    cases e <;> simp [jvalToGo, convertTo, deepEq, valEq, numVal]
  · simp

/-- an optional multipleOf factor that is a positive integer within int64 -/
def PosIntBound : Option Rat → Prop
  | none => True
  | some m => ∃ mi : Int, m = (mi : Rat) ∧ 0 < mi ∧ mi < pow2 63

theorem optErr_none (typ fmt : String) (f : Rat → Bool) : optErr typ fmt f none = false := rfl
theorem optOK_none (f : Rat → Bool) : optOK f none = true := rfl

theorem leaf_uint (O : Oracles) (rootFmt : String) (b : SBase) (req ae : Bool) (bits : Nat) (x : Nat)
    (hf : b.format = "") (hx : ((x : Int)) < pow2 63)
    (hmax : IntBound b.maximum) (hmin : IntBound b.minimum) (hmul : PosIntBound b.multipleOf)
    (he : ∀ e ∈ b.enum, ∀ t, e ≠ .str t) :
    leafImpl O rootFmt b req ae (.uint bits x) = leafSpec O b req ae (.uint bits x) := by
  have hx' : -(pow2 63) ≤ (x : Int) ∧ (x : Int) < pow2 63 := ⟨by unfold pow2; omega, hx⟩
  have htype : typeBad O b (.uint bits x) = !specType (typOf b) (.uint bits x) := by
    simp only [typeBad, numKindOf, specType, numVal, typeErrTyped, goTypeInfo, hf, isInt_intCast]
    have c1 : ("integer" = typOf b) = (typOf b = "integer") := propext eq_comm
    have c2 : ("number" = typOf b) = (typOf b = "number") := propext eq_comm
    by_cases h1 : typOf b = "" <;> by_cases h2 : typOf b = "integer" <;> by_cases h3 : typOf b = "number" <;>
      simp_all [List.contains_cons, bne]
  have hopt : ∀ (f g : Rat → Bool) (o : Option Rat), IntBound o → (∀ mi : Int, f (mi : Rat) = !g (mi : Rat)) →
      optErr (typOf b) "" f o = !optOK g o := by
    intro f g o ho hfg
    cases o with
    | none => rfl
    | some m =>
      obtain ⟨mi, rfl, hr⟩ := ho
      simp only [optErr, optOK, inRange_intCast _ mi hr, ↓reduceIte, hfg]
  have hmulE : optErr (typOf b) "" (mulErr O (.uint bits) ((x : Int) : Rat)) b.multipleOf
      = !optOK (fun m => specMul ((x : Int) : Rat) m == MulRes.ok) b.multipleOf := by
    cases hm : b.multipleOf with
    | none => rfl
    | some m =>
      rw [hm] at hmul
      obtain ⟨mi, rfl, hpos, hlt⟩ := hmul
      have hr : -(pow2 63) ≤ mi ∧ mi < pow2 63 := ⟨by unfold pow2 at *; omega, hlt⟩
      simp only [optErr, optOK, inRange_intCast _ mi hr, ↓reduceIte, mulErr, native_uint_mul_exact bits x mi hpos]
      cases specMul ((x : Int) : Rat) (mi : Rat) <;> rfl
  have hnum : numBad O b (.uint bits x) = !specTypedValid [] b ((x : Int) : Rat) := by
    simp only [numBad, numKindOf, numberErrTyped, specTypedValid, hf, inRange_intCast _ (x : Int) hx', List.isEmpty_nil,
      Bool.true_or, Bool.true_and, Bool.not_true, Bool.false_or, hmulE]
    rw [hopt _ (fun m => !specMax ((x : Int) : Rat) m b.exclMax) _ hmax (fun mi => by simp only [native_uint_max_exact, Bool.not_not]),
        hopt _ (fun m => !specMin ((x : Int) : Rat) m b.exclMin) _ hmin (fun mi => by simp only [native_uint_min_exact, Bool.not_not])]
    generalize optOK (fun m => !specMax ((x : Int) : Rat) m b.exclMax) b.maximum = a1
    generalize optOK (fun m => !specMin ((x : Int) : Rat) m b.exclMin) b.minimum = a2
    generalize optOK (fun m => specMul ((x : Int) : Rat) m == MulRes.ok) b.multipleOf = a3
    cases a1 <;> cases a2 <;> cases a3 <;> rfl
  simp only [leafImpl, leafSpec, htype, hnum, strBad, fmtBad, sliceLocalBad, numVal, enum_uint _ _ _ he]
  generalize specType (typOf b) (.uint bits x) = a1
  generalize specTypedValid [] b ((x : Int) : Rat) = a2
  generalize specEnumOK b.enum (.uint bits x) = a3
  cases a1 <;> cases a2 <;> cases a3 <;> rfl

/-- a float64/float32 value (what JSON numbers decode to): exact under exact float oracles; when the declared type is
    `integer`, an integral value must fit int64 and the bounds must be integers that fit (the range gate of the code) -/
theorem leaf_float (O : Oracles) (rootFmt : String) (b : SBase) (req ae : Bool) (bits : Nat) (x : Rat)
    (hf : b.format = "") (hO : (∀ n, O.isIntTol n = n.isInt) ∧ (∀ n m, O.mulOfTol n m = (n / m).isInt))
    (hint : typOf b = "integer" →
      (x.isInt = true → -(pow2 63) ≤ x.num ∧ x.num < pow2 63) ∧ IntBound b.maximum ∧ IntBound b.minimum ∧ IntBound b.multipleOf) :
    leafImpl O rootFmt b req ae (.float bits x) = leafSpec O b req ae (.float bits x) := by
  have hmul : ∀ m, mulErr O (.float bits) x m = !(specMul x m == MulRes.ok) := by
    intro m
    simp only [mulErr, nativeMulInt, specMul, hO.2]
    by_cases hm : m ≤ 0
    · simp [hm]
    · simp only [hm, ↓reduceIte]
      cases (x / m).isInt <;> rfl
  have htype : typeBad O b (.float bits x) = !specType (typOf b) (.float bits x) := by
    simp only [typeBad, numKindOf, specType, numVal, typeErrTyped, goTypeInfo, hf, hO.1]
    have c1 : ("integer" = typOf b) = (typOf b = "integer") := propext eq_comm
    have c2 : ("number" = typOf b) = (typOf b = "number") := propext eq_comm
    by_cases h1 : typOf b = "" <;> by_cases h2 : typOf b = "integer" <;> by_cases h3 : typOf b = "number" <;>
      cases x.isInt <;> simp_all [List.contains_cons, bne]
  by_cases hti : typOf b = "integer"
  · obtain ⟨hrange, hmaxB, hminB, hmulB⟩ := hint hti
    cases hxi : x.isInt with
    | false =>
      -- not an integer: the type check fails on both sides
      have hs : specType (typOf b) (.float bits x) = false := by simp [specType, numVal, hti, hxi]
      simp only [leafImpl, leafSpec, htype, hs, Bool.not_false, Bool.not_true, Bool.false_and]
    | true =>
      have hx := hrange hxi
      have hxc : x = ((x.num : Int) : Rat) := isInt_eq_intCast hxi
      have hir : inRange (typOf b) "" x = true := by rw [hxc]; exact inRange_intCast _ _ hx
      have hopt : ∀ (f g : Rat → Bool) (o : Option Rat), IntBound o → (∀ m, f m = !g m) →
          optErr (typOf b) "" f o = !optOK g o := by
        intro f g o ho hfg
        cases o with
        | none => rfl
        | some m =>
          obtain ⟨mi, rfl, hr⟩ := ho
          simp only [optErr, optOK, inRange_intCast _ mi hr, ↓reduceIte, hfg]
      have hnum : numBad O b (.float bits x) = !specTypedValid [] b x := by
        simp only [numBad, numKindOf, numberErrTyped, specTypedValid, hf, hir, List.isEmpty_nil,
          Bool.true_or, Bool.true_and, Bool.not_true, Bool.false_or]
        rw [hopt _ (fun m => !specMax x m b.exclMax) _ hmaxB (fun m => by simp only [native_float_max_exact, Bool.not_not]),
            hopt _ (fun m => !specMin x m b.exclMin) _ hminB (fun m => by simp only [native_float_min_exact, Bool.not_not]),
            hopt _ (fun m => specMul x m == MulRes.ok) _ hmulB (fun m => hmul m)]
        generalize optOK (fun m => !specMax x m b.exclMax) b.maximum = a1
        generalize optOK (fun m => !specMin x m b.exclMin) b.minimum = a2
        generalize optOK (fun m => specMul x m == MulRes.ok) b.multipleOf = a3
        cases a1 <;> cases a2 <;> cases a3 <;> rfl
      simp only [leafImpl, leafSpec, htype, hnum, strBad, fmtBad, sliceLocalBad, numVal, enum_float]
      generalize specType (typOf b) (.float bits x) = a1
      generalize specTypedValid [] b x = a2
      generalize specEnumOK b.enum (.float bits x) = a3
      cases a1 <;> cases a2 <;> cases a3 <;> rfl
  · have hir : ∀ m, inRange (typOf b) "" m = true := by
      intro m; unfold inRange; simp [hti]
    have hopt : ∀ (f g : Rat → Bool) (o : Option Rat), (∀ m, f m = !g m) → optErr (typOf b) "" f o = !optOK g o := by
      intro f g o hfg
      cases o with
      | none => rfl
      | some m => simp only [optErr, optOK, hir m, ↓reduceIte, hfg]
    have hnum : numBad O b (.float bits x) = !specTypedValid [] b x := by
      simp only [numBad, numKindOf, numberErrTyped, specTypedValid, hf, hir x, List.isEmpty_nil,
        Bool.true_or, Bool.true_and, Bool.not_true, Bool.false_or]
      rw [hopt _ (fun m => !specMax x m b.exclMax) b.maximum (fun m => by simp only [native_float_max_exact, Bool.not_not]),
          hopt _ (fun m => !specMin x m b.exclMin) b.minimum (fun m => by simp only [native_float_min_exact, Bool.not_not]),
          hopt _ (fun m => specMul x m == MulRes.ok) b.multipleOf (fun m => hmul m)]
      generalize optOK (fun m => !specMax x m b.exclMax) b.maximum = a1
      generalize optOK (fun m => !specMin x m b.exclMin) b.minimum = a2
      generalize optOK (fun m => specMul x m == MulRes.ok) b.multipleOf = a3
      cases a1 <;> cases a2 <;> cases a3 <;> rfl
    simp only [leafImpl, leafSpec, htype, hnum, strBad, fmtBad, sliceLocalBad, numVal, enum_float]
    generalize specType (typOf b) (.float bits x) = a1
    generalize specTypedValid [] b x = a2
    generalize specEnumOK b.enum (.float bits x) = a3
    cases a1 <;> cases a2 <;> cases a3 <;> rfl

/-! ### the fragment: strings, booleans, signed and unsigned integers with integral bounds, floats (exact float oracles; with a
    declared `integer` type the range gate of the code applies), and arrays of these to any depth, without formats (the open
    deviations of C13/C14/C16 all lie outside: formats, fractional bounds against integer carriers, multipleOf on unsigned
    carriers, values beyond int64, lossy enum conversions, equal values of different Go types) -/

def Frag (O : Oracles) : Nat → SSchema → GoVal → Prop
  | 0, _, _ => True
  | fuel + 1, .mk b _ _ items, v =>
    b.format = "" ∧
    (match v with
     | .str _ => hasDefault b.default = b.default.isSome
     | .bool _ => True
     | .int _ x => (-(pow2 63) ≤ x ∧ x < pow2 63) ∧ IntBound b.maximum ∧ IntBound b.minimum ∧ IntBound b.multipleOf
                   ∧ (∀ e ∈ b.enum, ∀ t, e ≠ .str t)
     | .uint _ x => ((x : Int) < pow2 63) ∧ IntBound b.maximum ∧ IntBound b.minimum ∧ PosIntBound b.multipleOf
                   ∧ (∀ e ∈ b.enum, ∀ t, e ≠ .str t)
     | .float _ x => ((∀ n, O.isIntTol n = n.isInt) ∧ (∀ n m, O.mulOfTol n m = (n / m).isInt))
                   ∧ (typOf b = "integer" →
                        (x.isInt = true → -(pow2 63) ≤ x.num ∧ x.num < pow2 63) ∧ IntBound b.maximum ∧ IntBound b.minimum
                        ∧ IntBound b.multipleOf)
     | .slice _ _ xs =>
       b.enum = [] ∧ (b.uniqueItems = true → ∀ x ∈ xs, isScalar x = true) ∧
       (match items with
        | some it => ∀ x ∈ xs, x ≠ .nil → Frag O fuel it x
        | none => True)
     | _ => False)

theorem frag_leafAgree (O : Oracles) (rootFmt : String) (hr : O.fmtKnown rootFmt = false) (h0 : O.fmtKnown "" = false) :
    ∀ (fuel : Nat) (s : SSchema) (v : GoVal), Frag O fuel s v → LeafAgree O rootFmt fuel s v := by
  intro fuel
  induction fuel with
  | zero => intro s v _; trivial
  | succ fuel ih =>
    intro s v h
    obtain ⟨b, req, ae, items⟩ := s
    obtain ⟨hf, hv⟩ := h
    cases v with
    | str s => exact ⟨leaf_str O rootFmt b req ae s hf hr h0 hv, trivial⟩
    | bool x => exact ⟨leaf_bool O rootFmt b req ae x hf, trivial⟩
    | int bits x => exact ⟨leaf_int O rootFmt b req ae bits x hf hv.1 hv.2.1 hv.2.2.1 hv.2.2.2.1 hv.2.2.2.2, trivial⟩
    | uint bits x => exact ⟨leaf_uint O rootFmt b req ae bits x hf hv.1 hv.2.1 hv.2.2.1 hv.2.2.2.1 hv.2.2.2.2, trivial⟩
    | float bits x => exact ⟨leaf_float O rootFmt b req ae bits x hf hv.1 hv.2, trivial⟩
    | slice e n xs =>
      refine ⟨leaf_slice O rootFmt b req ae e n xs hf hv.1 hv.2.1, ?_⟩
      cases items with
      | none => trivial
      | some it => exact fun x hx hxn => ih it x (hv.2.2 x hx hxn)
    | _ => exact absurd hv (by simp)

/-- **C16 on the fragment**: with no format in play, a parameter / header / items validator accepts a value made of
    strings, booleans, signed integers (integral bounds) and arrays of these, nested to any depth, exactly when the
    simple-schema specification does — declared type, every declared constraint at every level — and never panics. -/
theorem validate_eq_spec_frag (O : Oracles) (root : Root) (s : SSchema) (v : GoVal)
    (h0 : O.fmtKnown "" = false) (hroot : s.base.format = "") (hF : Frag O (s.depth + 1) s v) :
    validate O root s v = (specValid O s v, false) :=
  validate_eq_spec O root s v (frag_leafAgree O _ (by rw [hroot]; exact h0) h0 _ s v hF)


/-! ### the chain never panics (code as it is: a nil element is skipped) -/

theorem itemsFold_np (f : GoVal → Bool × Bool) (h : ∀ x, (f x).2 = false) (xs : List GoVal) : (itemsFold f false xs).2 = false := by
  unfold itemsFold
  suffices H : ∀ (acc : Bool × Bool), acc.2 = false → (xs.foldl (itemsStep f false) acc).2 = false from H (false, false) rfl
  induction xs with
  | nil => intro acc ha; exact ha
  | cons x xs ih =>
    intro acc ha
    simp only [List.foldl_cons]
    apply ih
    unfold itemsStep
    split
    · exact ha
    · cases x <;> simp [ha, h]

theorem validateAux_np (O : Oracles) : ∀ (fuel : Nat) (root : Root) (rootFmt : String) (s : SSchema) (v : GoVal),
    (validateAux O false fuel root rootFmt s v).2 = false := by
  intro fuel
  induction fuel with
  | zero => intro root rootFmt s v; rfl
  | succ fuel ih =>
    intro root rootFmt s v
    obtain ⟨b, req, ae, items⟩ := s
    have hitems : (itemsRes (validateAux O false fuel .items rootFmt) false items v).2 = false := by
      unfold itemsRes
      cases v with
      | slice e n xs =>
        cases items with
        | none => rfl
        | some it => exact itemsFold_np _ (fun x => ih .items rootFmt it x) xs
      | _ => rfl
    simp only [validateAux]
    split
    · rfl
    · split
      · rfl
      · split
        · rfl
        · split
          · rfl
          · split
            · rfl
            · simp only [hitems, Bool.false_eq_true, ↓reduceIte]
              split <;> rfl

theorem validate_np (O : Oracles) (root : Root) (s : SSchema) (v : GoVal) : (validate O root s v).2 = false := by
  unfold validate
  cases v <;> first | rfl | exact validateAux_np O _ _ _ _ _

end VM.Simple
