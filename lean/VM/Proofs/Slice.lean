/-
  Agreement between built child validators (`V`) and child verdict functions, and the slice
  validator lemma.
-/
import VM.Proofs.Leaf
namespace VM
open Impl Spec

/-- `f` (model of a built validator) and `g` (specification verdict) agree on the admissible
    instances `P`: no panic, same verdict, whatever the path. -/
def VAgree (P : JVal → Prop) (f : V) (g : JVal → Bool) : Prop :=
  ∀ p x, P x → good (f p x) (g x)

/-- pointwise relation between two lists of the same length (core has no `Forall₂`) -/
inductive All2 {α β : Type} (R : α → β → Prop) : List α → List β → Prop
  | nil : All2 R [] []
  | cons {a b as bs} : R a b → All2 R as bs → All2 R (a :: as) (b :: bs)

theorem All2.length_eq {α β : Type} {R : α → β → Prop} {as : List α} {bs : List β}
    (h : All2 R as bs) : as.length = bs.length := by
  induction h <;> simp [*]

def OptAgree (P : JVal → Prop) : Option V → Option (JVal → Bool) → Prop
  | some f, some g => VAgree P f g
  | none, none => True
  | _, _ => False

def ListAgree (P : JVal → Prop) (fs : List V) (gs : List (JVal → Bool)) : Prop :=
  All2 (VAgree P) fs gs

def MapAgree (P : JVal → Prop) (fs : List (String × V)) (gs : List (String × (JVal → Bool))) : Prop :=
  All2 (fun a b => a.1 = b.1 ∧ VAgree P a.2 b.2) fs gs

structure KidsAgree (P : JVal → Prop) (ik : IKids) (sk : SKids) : Prop where
  itemsS : OptAgree P ik.itemsS sk.itemsS
  itemsT : ListAgree P ik.itemsT sk.itemsT
  addItemsS : OptAgree P ik.addItemsS sk.addItemsS
  props : MapAgree P ik.props sk.props
  patProps : MapAgree P ik.patProps sk.patProps
  addPropsS : OptAgree P ik.addPropsS sk.addPropsS
  depSchemas : MapAgree P ik.depSchemas sk.depSchemas
  allOf : ListAgree P ik.allOf sk.allOf
  anyOf : ListAgree P ik.anyOf sk.anyOf
  oneOf : ListAgree P ik.oneOf sk.oneOf
  not : OptAgree P ik.not sk.not

theorem good_mergeOne {r o : Res} {a b : Bool} (hr : good r a) (ho : good o b) :
    good (r.mergeOne o) (a && b) := by
  obtain ⟨h1, h2⟩ := hr; obtain ⟨h3, h4⟩ := ho
  exact ⟨by simp [h1, h3], by simp [h2, h4]⟩

theorem good_addErrors {r : Res} {a : Bool} (hr : good r a) (es : List (Option Msg)) :
    good (r.addErrors es) (a && (es.filterMap id).isEmpty) := by
  obtain ⟨h1, h2⟩ := hr
  exact ⟨by simp [h1], by simp [h2]⟩

theorem good_inc {r : Res} {a : Bool} (hr : good r a) : good r.inc a := hr

theorem good_default : good ({} : Res) true := ⟨rfl, rfl⟩

theorem good_congr {r : Res} {a b : Bool} (h : good r a) (e : a = b) : good r b := e ▸ h

/-! ### loops of the slice validator -/

theorem itemsLoop_good {P : JVal → Prop} {f : V} {g : JVal → Bool} (h : VAgree P f g)
    (path : String) (xs : List JVal) (hx : ∀ x ∈ xs, P x) (i : Nat) (acc : Res) (a : Bool)
    (hacc : good acc a) : good (itemsLoop f path xs i acc) (a && xs.all g) := by
  induction xs generalizing i acc a with
  | nil => simpa [itemsLoop] using hacc
  | cons x xs ih =>
    simp only [itemsLoop, List.all_cons]
    have := ih (fun y hy => hx y (List.mem_cons_of_mem _ hy)) (i + 1) _ _
      (good_mergeOne hacc (h path x (hx x (List.mem_cons_self ..))))
    exact good_congr this (by simp [Bool.and_assoc])

theorem tupleLoop_good {P : JVal → Prop} {fs : List V} {gs : List (JVal → Bool)}
    (h : ListAgree P fs gs) (path : String) (xs : List JVal) (hx : ∀ x ∈ xs, P x) (i : Nat)
    (acc : Res) (a : Bool) (hacc : good acc a) :
    good (tupleLoop path fs xs i acc) (a && tupleOK gs xs) := by
  induction h generalizing xs i acc a with
  | nil => cases xs <;> simpa [tupleLoop, tupleOK] using hacc
  | @cons f g fs gs hfg _ ih =>
    cases xs with
    | nil => simpa [tupleLoop, tupleOK] using hacc
    | cons x xs =>
      simp only [tupleLoop, tupleOK]
      have := ih xs (fun y hy => hx y (List.mem_cons_of_mem _ hy)) (i + 1) _ _
        (good_mergeOne hacc (hfg (idx path i) x (hx x (List.mem_cons_self ..))))
      exact good_congr this (by simp [Bool.and_assoc])

theorem addlLoop_good {P : JVal → Prop} {f : V} {g : JVal → Bool} (h : VAgree P f g)
    (path : String) (xs : List JVal) (hx : ∀ x ∈ xs, P x) (fuel i : Nat) (hfi : i + fuel = xs.length)
    (acc : Res) (a : Bool) (hacc : good acc a) :
    good (addlLoop f path xs fuel i acc) (a && (xs.drop i).all g) := by
  induction fuel generalizing i acc a with
  | zero =>
    have : xs.drop i = [] := List.drop_eq_nil_of_le (by omega)
    simpa [addlLoop, this] using hacc
  | succ fuel ih =>
    have hi : i < xs.length := by omega
    have hget : xs[i]? = some xs[i] := List.getElem?_eq_getElem hi
    simp only [addlLoop, hget]
    have hmem : xs[i] ∈ xs := List.getElem_mem hi
    have := ih (i + 1) (by omega) _ _ (good_mergeOne hacc (h (idx path i) xs[i] (hx _ hmem)))
    refine good_congr this ?_
    have hd : xs.drop i = xs[i] :: xs.drop (i + 1) := List.drop_eq_getElem_cons hi
    rw [hd, List.all_cons, Bool.and_assoc]

theorem hasDup_eq_not_uniq (xs : List JVal) : hasDup xs = !uniq xs := by
  induction xs with
  | nil => rfl
  | cons x xs ih => simp [hasDup, uniq, ih, Bool.not_and]

theorem tupleOK_of_agree_length {P : JVal → Prop} {fs : List V} {gs : List (JVal → Bool)}
    (h : ListAgree P fs gs) : fs.length = gs.length := All2.length_eq h

theorem addlPart_good (cfg : Cfg) (b : SBase) (ik : IKids) (sk : SKids) (P : JVal → Prop)
    (path : String) (xs : List JVal) (hx : ∀ x ∈ xs, P x)
    (hk : KidsAgree P ik sk) (hbound : cfg.addlItemsBound = false)
    (r2 : Res) (a : Bool) (h2 : good r2 a) :
    good (addlPart cfg b ik path xs r2)
      (a && (sk.itemsT.isEmpty || addlItemsOK b sk xs)) := by
  have hlen := All2.length_eq hk.itemsT
  have hA := hk.addItemsS
  unfold addlPart addlItemsOK
  simp only [hbound, Bool.false_eq_true, ↓reduceIte, hlen]
  have hemp : sk.itemsT.isEmpty = decide (sk.itemsT.length = 0) := by
    cases sk.itemsT <;> simp
  rw [hemp]
  by_cases hlt : sk.itemsT.length < xs.length
  · -- there are additional elements
    have hnle : ¬ xs.length ≤ sk.itemsT.length := by omega
    cases hadd : b.addItems with
    | absent => simpa using h2
    | bool bb =>
      cases bb with
      | true => simpa [bne, hlt] using h2
      | false =>
        by_cases h0 : sk.itemsT.length = 0
        · simpa [bne, hlt, h0] using h2
        · have hpos : 0 < sk.itemsT.length := by omega
          have := good_addErrors h2 [some eNoAddlItems]
          simpa [bne, hlt, hpos, h0, hnle] using this
    | schema =>
      cases hi : ik.addItemsS <;> cases hs : sk.addItemsS <;> simp only [hi, hs, OptAgree] at hA
      · simpa [bne, hlt] using h2
      · rename_i f g
        by_cases h0 : sk.itemsT.length = 0
        · simpa [bne, hlt, h0] using h2
        · have hpos : 0 < sk.itemsT.length := by omega
          have := addlLoop_good hA path xs hx (xs.length - sk.itemsT.length) sk.itemsT.length
            (by omega) _ _ h2
          simpa [bne, hlt, hpos, h0] using this
  · -- no additional elements: nothing to check
    have hle : xs.length ≤ sk.itemsT.length := by omega
    have hdrop : xs.drop sk.itemsT.length = [] := List.drop_eq_nil_of_le hle
    simp only [hlt, decide_false, Bool.and_false, Bool.false_eq_true, ↓reduceIte]
    refine good_congr h2 ?_
    cases b.addItems with
    | absent => simp
    | bool bb => cases bb <;> simp [hle]
    | schema => cases sk.addItemsS <;> simp [hdrop]

theorem good_condErr {r : Res} {a : Bool} (h : good r a) (c : Bool) (e : Msg) :
    good (if c = true then r.addErrors [some e] else r) (a && !c) := by
  cases c
  · simpa using h
  · simpa using good_addErrors h [some e]

theorem sizePart_good (b : SBase) (path : String) (xs : List JVal) (r3 : Res) (a : Bool)
    (h3 : good r3 a) : good (sizePart b path xs r3) (a && arrSizeOK b (.arr xs)) := by
  unfold sizePart
  have h4 := good_condErr h3 (ltOpt xs.length b.minItems) (eMinItems path)
  have h5 := good_condErr h4 (gtOpt xs.length b.maxItems) (eMaxItems path)
  have h6 := good_condErr h5 (b.uniqueItems && hasDup xs) (eUnique path)
  refine good_congr (good_inc h6) ?_
  simp only [arrSizeOK, gtOpt_eq, ltOpt_eq, hasDup_eq_not_uniq]
  generalize atLeast xs.length b.minItems = c1
  generalize atMost xs.length b.maxItems = c2
  generalize uniq xs = c3
  cases a <;> cases c1 <;> cases c2 <;> cases c3 <;> cases b.uniqueItems <;> rfl

/-- slice_validator.go vs. the array clauses of draft 4 (with the repaired loop bound) -/
theorem slice_verdict (cfg : Cfg) (b : SBase) (ik : IKids) (sk : SKids) (P : JVal → Prop)
    (path : String) (xs : List JVal) (hx : ∀ x ∈ xs, P x)
    (hk : KidsAgree P ik sk) (hbound : cfg.addlItemsBound = false) :
    good (sliceValidate cfg b ik path xs) (arrSizeOK b (.arr xs) && itemsOK b sk (.arr xs)) := by
  have h1 : good (match ik.itemsS with | some f => itemsLoop f path xs 0 {} | none => {})
      (allItems sk.itemsS xs) := by
    have := hk.itemsS
    cases hi : ik.itemsS <;> cases hs : sk.itemsS <;> simp only [hi, hs, OptAgree, allItems] at this ⊢
    · exact good_default
    · exact good_congr (itemsLoop_good this path xs hx 0 {} true good_default) (by simp)
  have h2 := tupleLoop_good hk.itemsT path xs hx 0 _ _ h1
  have h3 := addlPart_good cfg b ik sk P path xs hx hk hbound _ _ h2
  have h4 := sizePart_good b path xs _ _ h3
  unfold sliceValidate
  refine good_congr h4 ?_
  unfold itemsOK
  cases he : sk.itemsT.isEmpty
  · simp only [Bool.false_or]
    generalize allItems sk.itemsS xs = c1
    generalize tupleOK sk.itemsT xs = c2
    generalize addlItemsOK b sk xs = c3
    generalize arrSizeOK b (JVal.arr xs) = c4
    cases c1 <;> cases c2 <;> cases c3 <;> cases c4 <;> rfl
  · have : sk.itemsT = [] := by simpa using he
    simp only [this, tupleOK, Bool.true_or, Bool.and_true]
    generalize allItems sk.itemsS xs = c1
    generalize arrSizeOK b (JVal.arr xs) = c4
    cases c1 <;> cases c4 <;> rfl

end VM
