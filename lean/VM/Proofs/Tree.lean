/-
  The whole validator tree: `Impl.validate` agrees with `Spec.valid` on every schema of the
  vocabulary (mutual structural induction; `$ref` through agreeing resolvers, then by fuel).
-/
import VM.Proofs.Node
namespace VM
open Impl Spec

/-- syntactic conditions of one node: the C01 vocabulary plus, for every deviation switch that
    is still open in `cfg`, the condition under which that deviation cannot show -/
def nodeWf (cfg : Cfg) (b : SBase) (props : List (String × Schema)) (addPropsS : Option Schema)
    (depSchemas : List (String × Schema)) : Bool :=
  (b.format == "" || !b.types.isEmpty)
  && (!cfg.formatBypassesType || b.format == "" || b.types.contains "number" || b.types.contains "integer")
  && (match b.multipleOf with | some m => decide (0 < m) | none => true)
  && !b.nullable
  && (!cfg.requiredByDefault || b.required.all (fun n => !(defaultsOf props).contains n))
  && ((b.addProps == .schema) == addPropsS.isSome)
  && decide ((akeys depSchemas ++ akeys b.depProps).Nodup)

mutual
def wf (cfg : Cfg) (known : String → Bool) : Schema → Bool
  | .mk b itemsS itemsT addItemsS props patProps addPropsS depSchemas allOf anyOf oneOf not =>
    (b.ref != "" && known b.ref) ||
    (b.ref == "" && nodeWf cfg b props addPropsS depSchemas
      && (match itemsS with | some s => wf cfg known s | none => true)
      && wfL cfg known itemsT
      && (match addItemsS with | some s => wf cfg known s | none => true)
      && wfM cfg known props && wfM cfg known patProps
      && (match addPropsS with | some s => wf cfg known s | none => true)
      && wfM cfg known depSchemas
      && wfL cfg known allOf && wfL cfg known anyOf && wfL cfg known oneOf
      && (match not with | some s => wf cfg known s | none => true))
def wfL (cfg : Cfg) (known : String → Bool) : List Schema → Bool
  | [] => true
  | s :: ss => wf cfg known s && wfL cfg known ss
def wfM (cfg : Cfg) (known : String → Bool) : List (String × Schema) → Bool
  | [] => true
  | (_, s) :: ps => wf cfg known s && wfM cfg known ps
end

theorem wf_mk (cfg : Cfg) (known : String → Bool) (b : SBase) (itemsS : Option Schema) (itemsT : List Schema) (addItemsS : Option Schema)
    (props patProps : List (String × Schema)) (addPropsS : Option Schema)
    (depSchemas : List (String × Schema)) (allOf anyOf oneOf : List Schema) (not : Option Schema) :
    wf cfg known (.mk b itemsS itemsT addItemsS props patProps addPropsS depSchemas allOf anyOf oneOf not) =
    ((b.ref != "" && known b.ref) ||
    (b.ref == "" && nodeWf cfg b props addPropsS depSchemas
      && (match itemsS with | some s => wf cfg known s | none => true)
      && wfL cfg known itemsT
      && (match addItemsS with | some s => wf cfg known s | none => true)
      && wfM cfg known props && wfM cfg known patProps
      && (match addPropsS with | some s => wf cfg known s | none => true)
      && wfM cfg known depSchemas
      && wfL cfg known allOf && wfL cfg known anyOf && wfL cfg known oneOf
      && (match not with | some s => wf cfg known s | none => true))) := by
  cases itemsS <;> cases addItemsS <;> cases addPropsS <;> cases not <;> rfl

theorem wfL_cons (cfg : Cfg) (known : String → Bool) (s : Schema) (ss : List Schema) : wfL cfg known (s :: ss) = (wf cfg known s && wfL cfg known ss) := rfl
theorem wfM_cons (cfg : Cfg) (known : String → Bool) (k : String) (s : Schema) (ps : List (String × Schema)) :
    wfM cfg known ((k, s) :: ps) = (wf cfg known s && wfM cfg known ps) := rfl

abbrev AdmP (cfg : Cfg) : JVal → Prop := fun x => adm cfg x = true

theorem akeys_validM (O : Oracles) (r : String → JVal → Bool) (ps : List (String × Schema)) :
    akeys (validM O r ps) = akeys ps := by
  induction ps with
  | nil => rfl
  | cons p ps ih => obtain ⟨k, s⟩ := p; simp [validM, akeys] at ih ⊢; exact ih

theorem isSome_match {α β : Type} (o : Option α) (f : α → β) :
    (match o with | some s => some (f s) | none => none).isSome = o.isSome := by
  cases o <;> rfl

section
variable (cfg : Cfg) (O : Oracles)
  (hbound : cfg.addlItemsBound = false)
  (hO : cfg.floatTolerance = true → OExact O)
  (rI : String → V) (rS : String → JVal → Bool) (known : String → Bool)
  (hr : ∀ name, known name = true → VAgree (AdmP cfg) (rI name) (rS name))
  /- with the IMPORTANT!-message switch open: what a reference resolves to carries no such message on a quiet instance -/
  (hleak : cfg.leaksImportant = true → ∀ name, NoImp.LV (rI name))
include hleak hbound hO hr

/-- children of a node as the model / the specification build them -/
def ikidsOf (itemsS : Option Schema) (itemsT : List Schema) (addItemsS : Option Schema)
    (props patProps : List (String × Schema)) (addPropsS : Option Schema)
    (depSchemas : List (String × Schema)) (allOf anyOf oneOf : List Schema) (not : Option Schema) : IKids :=
  { itemsS := match itemsS with | some s => some (fun p x => validate cfg {} O rI s p x) | none => none
    itemsT := validateL cfg {} O rI itemsT
    addItemsS := match addItemsS with | some s => some (fun p x => validate cfg {} O rI s p x) | none => none
    props := validateM cfg {} O rI props
    patProps := validateM cfg {} O rI patProps
    addPropsS := match addPropsS with | some s => some (fun p x => validate cfg {} O rI s p x) | none => none
    depSchemas := validateM cfg {} O rI depSchemas
    allOf := validateL cfg {} O rI allOf
    anyOf := validateL cfg {} O rI anyOf
    oneOf := validateL cfg {} O rI oneOf
    not := match not with | some s => some (fun p x => validate cfg {} O rI s p x) | none => none }

def skidsOf (itemsS : Option Schema) (itemsT : List Schema) (addItemsS : Option Schema)
    (props patProps : List (String × Schema)) (addPropsS : Option Schema)
    (depSchemas : List (String × Schema)) (allOf anyOf oneOf : List Schema) (not : Option Schema) : SKids :=
  { itemsS := match itemsS with | some s => some (fun x => valid O rS s x) | none => none
    itemsT := validL O rS itemsT
    addItemsS := match addItemsS with | some s => some (fun x => valid O rS s x) | none => none
    props := validM O rS props
    patProps := validM O rS patProps
    addPropsS := match addPropsS with | some s => some (fun x => valid O rS s x) | none => none
    depSchemas := validM O rS depSchemas
    allOf := validL O rS allOf
    anyOf := validL O rS anyOf
    oneOf := validL O rS oneOf
    not := match not with | some s => some (fun x => valid O rS s x) | none => none }

omit hleak hbound hO hr in
theorem validate_mk (b : SBase) (itemsS : Option Schema) (itemsT : List Schema) (addItemsS : Option Schema)
    (props patProps : List (String × Schema)) (addPropsS : Option Schema)
    (depSchemas : List (String × Schema)) (allOf anyOf oneOf : List Schema) (not : Option Schema)
    (path : String) (v : JVal) :
    validate cfg {} O rI (.mk b itemsS itemsT addItemsS props patProps addPropsS depSchemas allOf anyOf oneOf not) path v
      = if b.ref != "" then rI b.ref path v else
        nodeValidate cfg {} O b (defaultsOf props)
          (ikidsOf cfg O rI itemsS itemsT addItemsS props patProps addPropsS depSchemas allOf anyOf oneOf not) path v := by
  cases itemsS <;> cases addItemsS <;> cases addPropsS <;> cases not <;> rfl

omit hleak hbound hO hr in
theorem valid_mk (b : SBase) (itemsS : Option Schema) (itemsT : List Schema) (addItemsS : Option Schema)
    (props patProps : List (String × Schema)) (addPropsS : Option Schema)
    (depSchemas : List (String × Schema)) (allOf anyOf oneOf : List Schema) (not : Option Schema) (v : JVal) :
    valid O rS (.mk b itemsS itemsT addItemsS props patProps addPropsS depSchemas allOf anyOf oneOf not) v
      = if b.ref != "" then rS b.ref v else
        nodeValid O b
          (skidsOf O rS itemsS itemsT addItemsS props patProps addPropsS depSchemas allOf anyOf oneOf not) v := by
  cases itemsS <;> cases addItemsS <;> cases addPropsS <;> cases not <;> rfl

theorem node_agree (b : SBase) (itemsS : Option Schema) (itemsT : List Schema) (addItemsS : Option Schema)
    (props patProps : List (String × Schema)) (addPropsS : Option Schema)
    (depSchemas : List (String × Schema)) (allOf anyOf oneOf : List Schema) (not : Option Schema)
    (hn : b.ref = "" → nodeWf cfg b props addPropsS depSchemas = true)
    (hkn : b.ref ≠ "" → known b.ref = true)
    (hk : KidsAgree (AdmP cfg)
      (ikidsOf cfg O rI itemsS itemsT addItemsS props patProps addPropsS depSchemas allOf anyOf oneOf not)
      (skidsOf O rS itemsS itemsT addItemsS props patProps addPropsS depSchemas allOf anyOf oneOf not)) :
    VAgree (AdmP cfg)
      (fun p x => validate cfg {} O rI (.mk b itemsS itemsT addItemsS props patProps addPropsS depSchemas allOf anyOf oneOf not) p x)
      (fun x => valid O rS (.mk b itemsS itemsT addItemsS props patProps addPropsS depSchemas allOf anyOf oneOf not) x) := by
  intro path v hv
  simp only [validate_mk, valid_mk]
  by_cases href : b.ref = ""
  · simp only [href, bne_self_eq_false, Bool.false_eq_true, ↓reduceIte]
    have hn := hn href
    unfold nodeWf at hn
    simp only [Bool.and_eq_true, Bool.or_eq_true, Bool.not_eq_eq_eq_not, Bool.not_true,
      beq_iff_eq, decide_eq_true_eq] at hn
    obtain ⟨⟨⟨⟨⟨⟨n1, n2⟩, n3⟩, n4⟩, n5⟩, n6⟩, n7⟩ := hn
    apply node_verdict cfg O b (defaultsOf props) _ _ hk ?wf path v hv
    exact {
      keep := by
        intro path' v' hv' f hf
        cases hc : cfg.leaksImportant with
        | false => exact keepRelevant_off cfg hc _
        | true =>
          have hq := adm_quiet cfg hc v' hv'
          have hlv : NoImp.LV f := by
            rcases hf with hf | hf | hf
            · exact NoImp.validateL_loc cfg O rI (hleak hc) anyOf f hf
            · exact NoImp.validateL_loc cfg O rI (hleak hc) oneOf f hf
            · exact NoImp.validateL_loc cfg O rI (hleak hc) allOf f hf
          have hni := hlv path' v' hq
          unfold keepRelevant
          simp only [hc, ↓reduceIte]
          have e1 : (f path' v').errors.filter isImportant = [] := by
            rw [List.filter_eq_nil_iff]
            intro m hm
            have := hni.1 m hm
            simp [isImportant, NoImp.Under] at this ⊢
            exact this
          have e2 : (f path' v').warnings.filter isImportant = [] := by
            rw [List.filter_eq_nil_iff]
            intro m hm
            have := hni.2 m hm
            simp [isImportant, NoImp.Under] at this ⊢
            exact this
          rw [e1, e2]
          rfl
      bound := hbound
      float := hO
      fmtTypes := by
        intro hf
        rcases n1 with h | h
        · exact absurd h hf
        · intro he; simp [he] at h
      bypass := by
        intro hc
        rcases n2 with ((h | h) | h) | h
        · rw [hc] at h; cases h
        · exact .inl h
        · exact .inr (.inl h)
        · exact .inr (.inr h)
      mulPos := by
        intro m hm
        rw [hm] at n3
        simpa using n3
      nullable := n4
      req := by
        intro hc n hn
        rcases n5 with h | h
        · rw [hc] at h; cases h
        · rw [List.all_eq_true] at h
          simpa using h n hn
      addProps := by
        show _ ↔ (ikidsOf cfg O rI itemsS itemsT addItemsS props patProps addPropsS depSchemas allOf anyOf oneOf not).addPropsS.isSome = true
        simp only [ikidsOf, isSome_match]
        cases hb : b.addProps <;> cases ha : addPropsS <;> simp_all
      depsNodup := by
        show (akeys (skidsOf O rS itemsS itemsT addItemsS props patProps addPropsS depSchemas allOf anyOf oneOf not).depSchemas ++ _).Nodup
        simpa [skidsOf, akeys_validM] using n7 }
  · have : (b.ref != "") = true := by simpa using href
    simp only [this, ↓reduceIte]
    exact hr b.ref (hkn href) path v hv

mutual
theorem validate_agree (s : Schema) (hs : wf cfg known s = true) :
    VAgree (AdmP cfg) (fun p x => validate cfg {} O rI s p x) (fun x => valid O rS s x) := by
  match s with
  | .mk b itemsS itemsT addItemsS props patProps addPropsS depSchemas allOf anyOf oneOf not =>
    by_cases href : b.ref = ""
    · have hs' := hs
      rw [wf_mk] at hs'
      simp only [href, bne_self_eq_false, Bool.false_and, Bool.false_or, beq_self_eq_true, Bool.true_and,
        Bool.and_eq_true] at hs'
      obtain ⟨⟨⟨⟨⟨⟨⟨⟨⟨⟨⟨hn, h1⟩, h2⟩, h3⟩, h4⟩, h5⟩, h6⟩, h7⟩, h8⟩, h9⟩, h10⟩, h11⟩ := hs'
      apply node_agree cfg O hbound hO rI rS known hr hleak b _ _ _ _ _ _ _ _ _ _ _ (fun _ => hn)
        (fun h => absurd href h)
      exact {
        itemsS := by
          cases itemsS with
          | none => trivial
          | some s => exact validate_agree s h1
        itemsT := validateL_agree itemsT h2
        addItemsS := by
          cases addItemsS with
          | none => trivial
          | some s => exact validate_agree s h3
        props := validateM_agree props h4
        patProps := validateM_agree patProps h5
        addPropsS := by
          cases addPropsS with
          | none => trivial
          | some s => exact validate_agree s h6
        depSchemas := validateM_agree depSchemas h7
        allOf := validateL_agree allOf h8
        anyOf := validateL_agree anyOf h9
        oneOf := validateL_agree oneOf h10
        not := by
          cases not with
          | none => trivial
          | some s => exact validate_agree s h11 }
    · intro path v hv
      have hne : (b.ref != "") = true := by simpa using href
      have heq : (b.ref == "") = false := by simpa using href
      have hs' := hs
      rw [wf_mk] at hs'
      simp only [hne, heq, Bool.true_and, Bool.false_and, Bool.or_false] at hs'
      simp only [validate_mk, valid_mk, hne, ↓reduceIte]
      exact hr b.ref hs' path v hv
theorem validateL_agree (ss : List Schema) (hs : wfL cfg known ss = true) :
    ListAgree (AdmP cfg) (validateL cfg {} O rI ss) (validL O rS ss) := by
  match ss with
  | [] => exact All2.nil
  | s :: ss =>
    rw [wfL_cons] at hs
    simp only [Bool.and_eq_true] at hs
    show All2 _ ((fun p x => validate cfg {} O rI s p x) :: validateL cfg {} O rI ss)
      ((fun x => valid O rS s x) :: validL O rS ss)
    exact All2.cons (validate_agree s hs.1) (validateL_agree ss hs.2)
theorem validateM_agree (ps : List (String × Schema)) (hs : wfM cfg known ps = true) :
    MapAgree (AdmP cfg) (validateM cfg {} O rI ps) (validM O rS ps) := by
  match ps with
  | [] => exact All2.nil
  | (k, s) :: ps =>
    rw [wfM_cons] at hs
    simp only [Bool.and_eq_true] at hs
    show All2 _ ((k, fun p x => validate cfg {} O rI s p x) :: validateM cfg {} O rI ps)
      ((k, fun x => valid O rS s x) :: validM O rS ps)
    exact All2.cons ⟨rfl, validate_agree s hs.1⟩ (validateM_agree ps hs.2)
end
end

/-! ### `$ref` by fuel -/

/-- every definition a reference can reach is itself in the vocabulary -/
def DefsWf (cfg : Cfg) (defs : String → Option Schema) : Prop :=
  ∀ name t, defs name = some t → wf cfg (fun n => (defs n).isSome) t = true

theorem validateF_agree (cfg : Cfg) (O : Oracles)
    (hbound : cfg.addlItemsBound = false)
    (hO : cfg.floatTolerance = true → OExact O)
    (defs : String → Option Schema) (hdefs : DefsWf cfg defs) (n : Nat) :
    ∀ s, wf cfg (fun n => (defs n).isSome) s = true →
      VAgree (AdmP cfg) (validateF cfg {} O defs n s) (validF O defs n s) := by
  induction n with
  | zero =>
    intro s hs
    exact validate_agree cfg O hbound hO _ _ (fun n => (defs n).isSome)
      (fun _ _ _ _ _ => ⟨rfl, rfl⟩) (fun _ _ p _ _ => NoImp.loc_sErr p eFuel rfl) s hs
  | succ n ih =>
    intro s hs
    apply validate_agree cfg O hbound hO _ _ (fun n => (defs n).isSome) ?_ ?_ s hs
    · intro name hk p x hx
      cases hd : defs name with
      | none => simp [hd] at hk
      | some t => simpa [hd] using ih t (hdefs name t hd) p x hx
    · intro _ name p x hx
      cases hd : defs name with
      | none => simp only []; exact ⟨(by intro m hm; cases hm), (by intro m hm; cases hm)⟩
      | some t => simp only []; exact NoImp.validateF_loc cfg O defs n t p x hx

end VM
