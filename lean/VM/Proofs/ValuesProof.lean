import VM.Impl.Values
namespace VM.Values
open Generated

/-! bridge lemmas: the regenerated definitions say what we expect them to say -/

theorem maximumInt_iff (d m : Int) (e : Bool) : (MaximumInt d m e != 0) = (decide (d > m) || (e && decide (d = m))) := by
  unfold MaximumInt
  by_cases h1 : d > m <;> by_cases h2 : d = m <;> cases e <;> simp [h1, h2] <;> omega

theorem minimumInt_iff (d m : Int) (e : Bool) : (MinimumInt d m e != 0) = (decide (d < m) || (e && decide (d = m))) := by
  unfold MinimumInt
  by_cases h1 : d < m <;> by_cases h2 : d = m <;> cases e <;> simp [h1, h2] <;> omega

theorem maximumUint_iff (d m : Nat) (e : Bool) : (MaximumUint d m e != 0) = (decide (d > m) || (e && decide (d = m))) := by
  unfold MaximumUint
  by_cases h1 : d > m <;> by_cases h2 : d = m <;> cases e <;> simp [h1, h2] <;> omega

theorem minimumUint_iff (d m : Nat) (e : Bool) : (MinimumUint d m e != 0) = (decide (d < m) || (e && decide (d = m))) := by
  unfold MinimumUint
  by_cases h1 : d < m <;> by_cases h2 : d = m <;> cases e <;> simp [h1, h2] <;> omega

theorem maximum_iff (d m : Rat) (e : Bool) : (Maximum d m e != 0) = specMax d m e := by
  unfold Maximum specMax
  by_cases h1 : d > m
  · cases e <;> simp [h1, Rat.le_of_lt h1]
  · by_cases h2 : d = m
    · subst h2; cases e <;> simp [Rat.lt_irrefl, Rat.le_refl]
    · have h3 : ¬ d ≥ m := by
        intro h; rcases Rat.le_iff_lt_or_eq.mp h with h | h
        · exact h1 h
        · exact h2 h.symm
      cases e <;> simp [h1, h2, h3]

theorem minimum_iff (d m : Rat) (e : Bool) : (Minimum d m e != 0) = specMin d m e := by
  unfold Minimum specMin
  by_cases h1 : d < m
  · cases e <;> simp [h1, Rat.le_of_lt h1]
  · by_cases h2 : d = m
    · subst h2; cases e <;> simp [Rat.lt_irrefl, Rat.le_refl]
    · have h3 : ¬ d ≤ m := by
        intro h; rcases Rat.le_iff_lt_or_eq.mp h with h | h
        · exact h1 h
        · exact h2 h
      cases e <;> simp [h1, h2, h3]

end VM.Values

namespace VM.Values
open Generated

theorem truncToInt_intCast (a : Int) : truncToInt (a : Rat) = a := by
  simp [truncToInt]

theorem specMax_intCast (a b : Int) (e : Bool) :
    specMax (a : Rat) (b : Rat) e = (decide (a > b) || (e && decide (a = b))) := by
  unfold specMax
  have h1 : ((a : Rat) > (b : Rat)) ↔ a > b := Rat.intCast_lt_intCast
  have h2 : ((a : Rat) = (b : Rat)) ↔ a = b := Rat.intCast_inj
  simp only [h1, h2]

theorem specMin_intCast (a b : Int) (e : Bool) :
    specMin (a : Rat) (b : Rat) e = (decide (a < b) || (e && decide (a = b))) := by
  unfold specMin
  have h1 : ((a : Rat) < (b : Rat)) ↔ a < b := Rat.intCast_lt_intCast
  have h2 : ((a : Rat) = (b : Rat)) ↔ a = b := Rat.intCast_inj
  simp only [h1, h2]

/-- signed integer kinds, integral bound: exact -/
theorem native_int_max_exact (n : Nat) (a b : Int) (e : Bool) :
    nativeMax (.int n) (a : Rat) (b : Rat) e = specMax (a : Rat) (b : Rat) e := by
  simp only [nativeMax, truncToInt_intCast, maximumInt_iff, specMax_intCast]

theorem native_int_min_exact (n : Nat) (a b : Int) (e : Bool) :
    nativeMin (.int n) (a : Rat) (b : Rat) e = specMin (a : Rat) (b : Rat) e := by
  simp only [nativeMin, truncToInt_intCast, minimumInt_iff, specMin_intCast]

/-- unsigned kinds, integral bound of either sign: exact (a negative maximum always fails, a
    negative minimum never does) -/
theorem native_uint_max_exact (n : Nat) (a : Nat) (b : Int) (e : Bool) :
    nativeMax (.uint n) ((a : Int) : Rat) (b : Rat) e = specMax ((a : Int) : Rat) (b : Rat) e := by
  simp only [nativeMax, truncToInt_intCast, specMax_intCast]
  have hb : ((b : Rat) < 0) ↔ b < 0 := by
    have : ((b : Rat) < ((0 : Int) : Rat)) ↔ b < 0 := Rat.intCast_lt_intCast
    simpa using this
  by_cases hneg : b < 0
  · simp only [hb.mpr hneg, ↓reduceIte]
    have : (a : Int) > b := by omega
    simp [this]
  · have : ¬ ((b : Rat) < 0) := fun h => hneg (hb.mp h)
    simp only [this, ↓reduceIte, maximumUint_iff, Int.toNat_natCast]
    have hb' : (b.toNat : Int) = b := Int.toNat_of_nonneg (by omega)
    have e1 : (a > b.toNat) ↔ ((a : Int) > b) := by omega
    have e2 : (a = b.toNat) ↔ ((a : Int) = b) := by omega
    simp only [e1, e2]

theorem native_uint_min_exact (n : Nat) (a : Nat) (b : Int) (e : Bool) :
    nativeMin (.uint n) ((a : Int) : Rat) (b : Rat) e = specMin ((a : Int) : Rat) (b : Rat) e := by
  simp only [nativeMin, truncToInt_intCast, specMin_intCast]
  have hb : ((b : Rat) < 0) ↔ b < 0 := by
    have : ((b : Rat) < ((0 : Int) : Rat)) ↔ b < 0 := Rat.intCast_lt_intCast
    simpa using this
  by_cases hneg : b < 0
  · simp only [hb.mpr hneg, ↓reduceIte]
    have h1 : ¬ ((a : Int) < b) := by omega
    have h2 : ¬ ((a : Int) = b) := by omega
    simp [h1, h2]
  · have : ¬ ((b : Rat) < 0) := fun h => hneg (hb.mp h)
    simp only [this, ↓reduceIte, minimumUint_iff, Int.toNat_natCast]
    have e1 : (a < b.toNat) ↔ ((a : Int) < b) := by omega
    have e2 : (a = b.toNat) ↔ ((a : Int) = b) := by omega
    simp only [e1, e2]

/-- float kinds: exact for every (exactly representable) value and bound -/
theorem native_float_max_exact (n : Nat) (v b : Rat) (e : Bool) :
    nativeMax (.float n) v b e = specMax v b e := by simp only [nativeMax, maximum_iff]

theorem native_float_min_exact (n : Nat) (v b : Rat) (e : Bool) :
    nativeMin (.float n) v b e = specMin v b e := by simp only [nativeMin, minimum_iff]

/-- the verdict depends on the number, not on the Go type that carries it — for integral values
    (non-negative when an unsigned kind is involved) and integral bounds -/
theorem carrier_independent_max (k1 k2 : NumKind) (a : Nat) (b : Int) (e : Bool) :
    nativeMax k1 ((a : Int) : Rat) (b : Rat) e = nativeMax k2 ((a : Int) : Rat) (b : Rat) e := by
  have h : ∀ k, nativeMax k ((a : Int) : Rat) (b : Rat) e = specMax ((a : Int) : Rat) (b : Rat) e := by
    intro k
    cases k with
    | int n => exact native_int_max_exact n a b e
    | uint n => exact native_uint_max_exact n a b e
    | float n => exact native_float_max_exact n _ _ e
  rw [h k1, h k2]

theorem carrier_independent_min (k1 k2 : NumKind) (a : Nat) (b : Int) (e : Bool) :
    nativeMin k1 ((a : Int) : Rat) (b : Rat) e = nativeMin k2 ((a : Int) : Rat) (b : Rat) e := by
  have h : ∀ k, nativeMin k ((a : Int) : Rat) (b : Rat) e = specMin ((a : Int) : Rat) (b : Rat) e := by
    intro k
    cases k with
    | int n => exact native_int_min_exact n a b e
    | uint n => exact native_uint_min_exact n a b e
    | float n => exact native_float_min_exact n _ _ e
  rw [h k1, h k2]

end VM.Values

namespace VM.Values
open Generated

theorem isInt_eq_intCast {x : Rat} (h : x.isInt = true) : x = ((x.num : Int) : Rat) := by
  apply Rat.ext
  · simp
  · have : x.den = 1 := by simpa [Rat.isInt] using h
    simp [this]

/-- for a positive integral factor, `a / b` is an integer exactly when `b` divides `a` -/
theorem div_isInt_iff_dvd (a b : Int) (hb : 0 < b) : ((a : Rat) / (b : Rat)).isInt = decide (b ∣ a) := by
  have hb0 : (b : Rat) ≠ 0 := by
    intro h; have := Rat.intCast_eq_zero_iff.mp h; omega
  by_cases hd : b ∣ a
  · obtain ⟨c, rfl⟩ := hd
    have : ((b * c : Int) : Rat) / (b : Rat) = (c : Rat) := by
      rw [Rat.intCast_mul, Rat.mul_comm, Rat.mul_div_cancel hb0]
    rw [this]
    simp [Rat.isInt]
  · simp only [hd, decide_false]
    cases h : ((a : Rat) / (b : Rat)).isInt with
    | false => rfl
    | true =>
      exfalso
      have e := isInt_eq_intCast h
      have : (a : Rat) = ((((a : Rat) / (b : Rat)).num * b : Int) : Rat) := by
        rw [Rat.intCast_mul, ← e, Rat.div_mul_cancel hb0]
      have h2 : a = ((a : Rat) / (b : Rat)).num * b := Rat.intCast_inj.mp this
      exact hd ⟨((a : Rat) / (b : Rat)).num, h2.trans (Int.mul_comm _ _)⟩

theorem tdiv_mul_ne_iff (a b : Int) (hb : 0 < b) : (Int.tdiv a b * b ≠ a) ↔ ¬ b ∣ a := by
  constructor
  · intro h hd
    exact h (Int.tdiv_mul_cancel hd)
  · intro h e
    exact h ⟨Int.tdiv a b, e.symm.trans (Int.mul_comm _ _)⟩

/-- signed integer kinds, integral factor: exact divisibility, and a non-positive factor is
    reported as such -/
theorem native_int_mul_exact (n : Nat) (a b : Int) :
    nativeMulInt (.int n) (a : Rat) (b : Rat) = some (specMul (a : Rat) (b : Rat)) := by
  simp only [nativeMulInt, truncToInt_intCast, MultipleOfInt, specMul]
  have hb : ((b : Rat) ≤ 0) ↔ b ≤ 0 := by
    have : ((b : Rat) ≤ ((0 : Int) : Rat)) ↔ b ≤ 0 := Rat.intCast_le_intCast
    simpa using this
  by_cases hle : b ≤ 0
  · simp [hle, hb.mpr hle, mulResOfCode]
  · have hpos : 0 < b := by omega
    have hnle : ¬ ((b : Rat) ≤ 0) := fun h => hle (hb.mp h)
    simp only [hle, decide_false, Bool.false_eq_true, ↓reduceIte, hnle, div_isInt_iff_dvd a b hpos]
    by_cases hd : b ∣ a
    · have : ¬ (Int.tdiv a b * b ≠ a) := fun h => (tdiv_mul_ne_iff a b hpos).mp h hd
      simp [this, hd, mulResOfCode]
    · have : Int.tdiv a b * b ≠ a := (tdiv_mul_ne_iff a b hpos).mpr hd
      simp [this, hd, mulResOfCode]

/-- unsigned kinds, positive integral factor: exact divisibility (a negative factor is converted with `uint64()` and wraps:
    the listed deviation) -/
theorem native_uint_mul_exact (n : Nat) (a : Nat) (b : Int) (hb : 0 < b) :
    nativeMulInt (.uint n) ((a : Int) : Rat) (b : Rat) = some (specMul ((a : Int) : Rat) (b : Rat)) := by
  have hbr : ¬ ((b : Rat) ≤ 0) := by
    intro h
    have : ((b : Rat) ≤ ((0 : Int) : Rat)) ↔ b ≤ 0 := Rat.intCast_le_intCast
    have := this.mp (by simpa using h)
    omega
  have hgo : goUint64 (b : Rat) = b.toNat := by
    simp only [goUint64, truncToInt_intCast]
    have : ¬ b < 0 := by omega
    simp [this]
  simp only [nativeMulInt, truncToInt_intCast, Int.toNat_natCast, hgo, MultipleOfUint, specMul, hbr, ↓reduceIte,
    div_isInt_iff_dvd (a : Int) b hb]
  have hm0 : b.toNat ≠ 0 := by omega
  have hbn : (b.toNat : Int) = b := Int.toNat_of_nonneg (by omega)
  have hdvd : (b ∣ (a : Int)) ↔ (b.toNat ∣ a) := by
    rw [← hbn]; exact Int.natCast_dvd_natCast
  by_cases hd : b.toNat ∣ a
  · have : ¬ (a / b.toNat * b.toNat ≠ a) := fun h => h (Nat.div_mul_cancel hd)
    simp [hm0, this, hdvd.mpr hd, mulResOfCode]
  · have : a / b.toNat * b.toNat ≠ a := fun e => hd ⟨a / b.toNat, by rw [Nat.mul_comm]; exact e.symm⟩
    have hnd : ¬ (b ∣ (a : Int)) := fun h => hd (hdvd.mp h)
    simp [hm0, this, hnd, mulResOfCode]

end VM.Values
