/-
  C01 — schema validation verdicts agree with JSON-Schema draft 4.
  Property theorems only; the proofs live in VM/Proofs/{Leaf,Slice,Object,Comp,Node,Tree}.lean.
-/
import VM.Proofs.Tree
namespace VM.C01
open VM Impl Spec

/-- the oracles used by the witnesses: no pattern, no format, exact arithmetic -/
def O0 : Oracles :=
  { re := fun _ _ => some false, fmtKnown := fun _ => false, fmt := fun _ _ => false,
    isIntTol := fun n => n.isInt, mulOfTol := fun n m => (n / m).isInt }

mutual
theorem adm_repaired (v : JVal) : adm Cfg.repaired v = true := by
  match v with
  | .null => rfl
  | .bool _ => rfl
  | .num _ => rfl
  | .str _ => rfl
  | .arr xs => simp only [adm]; exact admList_repaired xs
  | .obj kvs => simp only [adm]; exact admMembers_repaired kvs
theorem admList_repaired (xs : List JVal) : admList Cfg.repaired xs = true := by
  match xs with
  | [] => rfl
  | x :: xs => simp only [admList, adm_repaired x, admList_repaired xs, Bool.and_self]
theorem admMembers_repaired (kvs : List (String × JVal)) : admMembers Cfg.repaired kvs = true := by
  match kvs with
  | [] => rfl
  | (k, x) :: rest =>
    have h1 := adm_repaired x
    have h2 := admMembers_repaired rest
    simp only [admMembers]
    rw [h1, h2]
    rfl
end

/-- **Full strength, repaired model.** With every deviation switch off, the validator tree of
    the model never panics and accepts an instance exactly when draft 4 does — for every schema
    of the vocabulary (`wf`), every instance, every root path, every oracle (regexp engine, format
    registry), every definitions table and every amount of `$ref` fuel. -/
theorem C01_repaired (O : Oracles) (defs : String → Option Schema)
    (hdefs : DefsWf Cfg.repaired defs) (n : Nat) (s : Schema)
    (hs : wf Cfg.repaired (fun name => (defs name).isSome) s = true) (path : String) (v : JVal) :
    (validateF Cfg.repaired {} O defs n s path v).panicked = false ∧
    (validateF Cfg.repaired {} O defs n s path v).errors.isEmpty = validF O defs n s v :=
  validateF_agree Cfg.repaired O rfl (fun h => by cases h) defs hdefs n s hs path v (adm_repaired v)

/-- **Any configuration.** The same statement for an arbitrary setting of the switches, under
    exactly the conditions that keep each open switch from showing: exact float oracles
    (`floatTolerance`), admissible instances (`adm`: no `null` while the null early exit is open,
    no `$schema`/`id` members while that exemption is open, no `headers` member holding objects with a
    string `$ref` while IMPORTANT! messages are kept), and the per-node conditions in `wf`
    (`requiredByDefault`, `formatBypassesType`). Every switch may be open except the additional-items
    bound (repaired by a `fix:` commit). -/
theorem C01_main (cfg : Cfg) (O : Oracles)
    (hbound : cfg.addlItemsBound = false)
    (hO : cfg.floatTolerance = true → OExact O)
    (defs : String → Option Schema) (hdefs : DefsWf cfg defs) (n : Nat) (s : Schema)
    (hs : wf cfg (fun name => (defs name).isSome) s = true) (path : String) (v : JVal)
    (hv : adm cfg v = true) :
    (validateF cfg {} O defs n s path v).panicked = false ∧
    (validateF cfg {} O defs n s path v).errors.isEmpty = validF O defs n s v :=
  validateF_agree cfg O hbound hO defs hdefs n s hs path v hv

/-- **The code as it is.** For the switches exactly as they stand in the code today (`Cfg.asIs`, after the `fix:`
    commits): the validator tree never panics and its verdict is draft 4's whenever the float oracles are exact on the
    case, the instance contains no `null`, no `$schema`/`id` member and no `headers` member holding objects with a string
    `$ref`, no required property carries a default and no `format` sits on a non-numeric type — each condition the
    no-trigger condition of one open deviation (witnesses below), none of them about the model rather than the code. -/
theorem C01_asIs (O : Oracles) (hO : OExact O)
    (defs : String → Option Schema) (hdefs : DefsWf Cfg.asIs defs) (n : Nat) (s : Schema)
    (hs : wf Cfg.asIs (fun name => (defs name).isSome) s = true) (path : String) (v : JVal)
    (hv : adm Cfg.asIs v = true) :
    (validateF Cfg.asIs {} O defs n s path v).panicked = false ∧
    (validateF Cfg.asIs {} O defs n s path v).errors.isEmpty = validF O defs n s v :=
  validateF_agree Cfg.asIs O rfl (fun _ => hO) defs hdefs n s hs path v hv

/-- the code as it is with the leak of IMPORTANT! messages closed (kept for the statements that were proved before that
    switch was carried through the induction; `C01_asIs` supersedes them) -/
def asIsNoLeak : Cfg := { Cfg.asIs with leaksImportant := false }

/-- the same with the IMPORTANT!-message switch closed: no condition on `headers` members (`adm asIsNoLeak`) -/
theorem C01_asIs_partial (O : Oracles) (hO : OExact O)
    (defs : String → Option Schema) (hdefs : DefsWf asIsNoLeak defs) (n : Nat) (s : Schema)
    (hs : wf asIsNoLeak (fun name => (defs name).isSome) s = true) (path : String) (v : JVal)
    (hv : adm asIsNoLeak v = true) :
    (validateF asIsNoLeak {} O defs n s path v).panicked = false ∧
    (validateF asIsNoLeak {} O defs n s path v).errors.isEmpty = validF O defs n s v :=
  validateF_agree asIsNoLeak O rfl (fun _ => hO) defs hdefs n s hs path v hv

/-- The one-shot entry point (root path "") and a validator object built with any root path
    give the same verdict. -/
theorem C01_oneShot_eq_object (O : Oracles) (defs : String → Option Schema)
    (hdefs : DefsWf Cfg.repaired defs) (n : Nat) (s : Schema)
    (hs : wf Cfg.repaired (fun name => (defs name).isSome) s = true) (path : String) (v : JVal) :
    (validateF Cfg.repaired {} O defs n s "" v).errors.isEmpty
      = (validateF Cfg.repaired {} O defs n s path v).errors.isEmpty := by
  rw [(C01_repaired O defs hdefs n s hs "" v).2, (C01_repaired O defs hdefs n s hs path v).2]

/-! ### non-vacuity: a non-trivial schema and instance meet the hypotheses -/

def sDemo : Schema :=
  .mk { types := ["object"], required := ["a"] } none [] none
    [("a", .mk { types := ["integer"], maximum := some 3 } none [] none [] [] none [] [] [] [] none)]
    [] none [] [] [] [] none

example : wf Cfg.repaired (fun _ => false) sDemo = true := by decide
example : wf asIsNoLeak (fun _ => false) sDemo = true := by decide
example : wf Cfg.asIs (fun _ => false) sDemo = true := by decide
example : adm Cfg.asIs (.obj [("a", .num 2), ("headers", .obj [("X-A", .obj [("type", .str "string")])])]) = true := by decide
example : adm Cfg.asIs (.obj [("headers", .obj [("X-A", .obj [("$ref", .str "#/x")])])]) = false := by decide
example : adm asIsNoLeak (.obj [("a", .num 2), ("b", .arr [.str "x"])]) = true := by decide
example : DefsWf Cfg.repaired (fun _ => none) := by intro _ _ h; cases h

/-! ### witnesses: each open switch really deviates (as-is model ≠ specification) -/

def noDefs : String → Option Schema := fun _ => none
def run (cfg : Cfg) (s : Schema) (v : JVal) : Bool := (validateF cfg {} O0 noDefs 0 s "" v).errors.isEmpty
def spec (s : Schema) (v : JVal) : Bool := validF O0 noDefs 0 s v

def sNot : Schema := .mk {} none [] none [] [] none [] [] [] [] (some Schema.empty)

/-- `{"not":{}}` accepts `null` while the null early exit is open -/
theorem C01_witness_nullSkipsComposition :
    run Cfg.asIs sNot .null = true ∧ spec sNot .null = false
      ∧ run { Cfg.asIs with nullSkipsComposition := false } sNot .null = false := by decide

def sReqDefault : Schema :=
  .mk { required := ["a"] } none [] none
    [("a", .mk { default := some (.num 1) } none [] none [] [] none [] [] [] [] none)] [] none [] [] [] [] none

/-- a required property with a default is not required -/
theorem C01_witness_requiredByDefault :
    run Cfg.asIs sReqDefault (.obj []) = true ∧ spec sReqDefault (.obj []) = false
      ∧ run { Cfg.asIs with requiredByDefault := false } sReqDefault (.obj []) = false := by decide

def sNoAddl : Schema := .mk { addProps := .bool false } none [] none [] [] none [] [] [] [] none

/-- members named `id` escape `additionalProperties: false` -/
theorem C01_witness_ignoresSchemaIdKeys :
    run Cfg.asIs sNoAddl (.obj [("id", .num 1)]) = true ∧ spec sNoAddl (.obj [("id", .num 1)]) = false
      ∧ run { Cfg.asIs with ignoresSchemaIdKeys := false } sNoAddl (.obj [("id", .num 1)]) = false := by decide

def sStrFmt : Schema := .mk { types := ["string"], format := "date" } none [] none [] [] none [] [] [] [] none

/-- `{"type":"string","format":"date"}` accepts `[]` -/
theorem C01_witness_formatBypassesType :
    run Cfg.asIs sStrFmt (.arr []) = true ∧ spec sStrFmt (.arr []) = false
      ∧ run { Cfg.asIs with formatBypassesType := false } sStrFmt (.arr []) = false := by decide

def sTuple2 : Schema :=
  .mk { addItems := .schema } none [Schema.empty, Schema.empty]
    (some (.mk { types := ["integer"] } none [] none [] [] none [] [] [] [] none))
    [] [] none [] [] [] [] none

/-- the pinned snapshot (before the `fix:` commit): a tuple of two with schema-valued
    additionalItems accepted `[1,2,3,"x"]`; the code as it is now rejects it -/
theorem C01_witness_addlItemsBound_fixed :
    run Cfg.original sTuple2 (.arr [.num 1, .num 2, .num 3, .str "x"]) = true
      ∧ spec sTuple2 (.arr [.num 1, .num 2, .num 3, .str "x"]) = false
      ∧ run Cfg.asIs sTuple2 (.arr [.num 1, .num 2, .num 3, .str "x"]) = false := by decide

def sEnumNull : Schema := .mk { enum := [.null, .num 1] } none [] none [] [] none [] [] [] [] none

/-- the pinned snapshot rejected `null` against `{"enum":[null,1]}`; now accepted -/
theorem C01_witness_enumSkipsNil_fixed :
    run Cfg.original sEnumNull .null = false ∧ spec sEnumNull .null = true
      ∧ run Cfg.asIs sEnumNull .null = true := by decide

def sOneOfHeaders : Schema :=
  .mk {} none [] none [] [] none [] [] []
    [.mk { types := ["object"] } none [] none [] [] none [] [] [] [] none, sNoAddl] none

def vHeaders : JVal := .obj [("headers", .obj [("x", .obj [("$ref", .str "y")])])]

/-- an IMPORTANT!-tagged message of the failing alternative survives a satisfied oneOf -/
theorem C01_witness_leaksImportant :
    run Cfg.asIs sOneOfHeaders vHeaders = false ∧ spec sOneOfHeaders vHeaders = true
      ∧ run { Cfg.asIs with leaksImportant := false } sOneOfHeaders vHeaders = true := by decide

/-- an oracle that behaves like the tolerance-based integer test on 10000000001.5 -/
def Otol : Oracles := { O0 with isIntTol := fun _ => true }
/-- 3/2 as a normalised rational (a literal the kernel can inspect) -/
def r32 : Rat := ⟨3, 2, by decide, by decide⟩
def sInteger : Schema := .mk { types := ["integer"] } none [] none [] [] none [] [] [] [] none

/-- with a tolerant integer test `{"type":"integer"}` accepts a non-integer; with exact arithmetic
    (switch off) it does not. (That `swag.IsFloat64AJSONInteger(10000000001.5)` is true is observed
    on the real code by the correspondence check, not proved.) -/
theorem C01_witness_floatTolerance :
    (validateF Cfg.asIs {} Otol noDefs 0 sInteger "" (.num r32)).errors.isEmpty = true
      ∧ validF Otol noDefs 0 sInteger (.num r32) = false
      ∧ (validateF { Cfg.asIs with floatTolerance := false } {} Otol noDefs 0 sInteger "" (.num r32)).errors.isEmpty = false := by
  decide

end VM.C01
