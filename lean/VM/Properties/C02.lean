/-
  C02 — an accepted Swagger document satisfies the Swagger 2.0 JSON schema.
  The schema is the closed term regenerated from the JSON the library embeds
  (VM/Generated/SwaggerSchema.lean); the obligations below are kernel-checked facts about it.
-/
import VM.Proofs.Tree
import VM.Proofs.PipelineProof
import VM.Generated.SwaggerSchema
import VM.Properties.C01
import VM.Properties.C10
import VM.Impl.SpecModel
namespace VM.C02
open VM Impl Spec Generated Sw

theorem alookup_mem {α : Type} (k : String) (l : List (String × α)) (v : α) (h : alookup k l = some v) : (k, v) ∈ l := by
  induction l with
  | nil => simp [alookup] at h
  | cons p ps ih =>
    obtain ⟨k', v'⟩ := p
    simp only [alookup] at h
    split at h
    · rename_i hk; cases h; subst hk; exact List.mem_cons_self
    · exact List.mem_cons_of_mem _ (ih h)

def known : String → Bool := fun n => (swaggerDefs n).isSome

/-- every `$ref` of the Swagger schema resolves inside the generated table and every node of
    every definition is in the vocabulary of the C01 theorem — repaired configuration -/
theorem swagger_table_wf_repaired : swaggerTable.all (fun p => wf Cfg.repaired known p.2) = true := by decide

theorem swagger_root_wf_repaired : wf Cfg.repaired known swaggerRoot = true := by decide

theorem swagger_defs_wf_repaired : DefsWf Cfg.repaired swaggerDefs := by
  intro name t h
  have hm := alookup_mem name swaggerTable t h
  exact (List.all_eq_true.mp swagger_table_wf_repaired) (name, t) hm


/-- **The schema pass, repaired configuration.** For the Swagger 2.0 schema as the library embeds it,
    every raw document, every regexp engine and format registry and every amount of `$ref` fuel:
    the model of the validator tree reports no error exactly when the document is valid under
    draft-4 semantics, and never panics. -/
theorem C02_schema_pass_repaired (O : Oracles) (n : Nat) (path : String) (doc : JVal) :
    (validateF Cfg.repaired {} O swaggerDefs n swaggerRoot path doc).panicked = false ∧
    (validateF Cfg.repaired {} O swaggerDefs n swaggerRoot path doc).errors.isEmpty
      = validF O swaggerDefs n swaggerRoot doc :=
  validateF_agree Cfg.repaired O rfl (fun h => by cases h) swaggerDefs swagger_defs_wf_repaired n
    swaggerRoot swagger_root_wf_repaired path doc (C01.adm_repaired doc)

/-- the code as it is, minus the one open deviation whose no-trigger condition is a condition on
    the *schema* that the Swagger schema does not meet (`format: uri|email` on strings) -/
def asIsC02 : Cfg := { Cfg.asIs with formatBypassesType := false }

theorem swagger_table_wf_asIs : swaggerTable.all (fun p => wf asIsC02 known p.2) = true := by decide
theorem swagger_root_wf_asIs : wf asIsC02 known swaggerRoot = true := by decide
theorem swagger_defs_wf_asIs : DefsWf asIsC02 swaggerDefs := by
  intro name t h
  exact (List.all_eq_true.mp swagger_table_wf_asIs) (name, t) (alookup_mem name swaggerTable t h)

/-- **The schema pass, as-is, partial.** With the remaining switches as they stand in the code
    (null early exit, `$schema`/`id` exemption, required-satisfied-by-default, float tolerance):
    the same agreement for every document that contains no `null` and no member named `$schema`
    or `id` (`adm`), under exact float oracles. That no required property of the Swagger schema
    carries a default is part of the kernel-checked `wf` facts above. -/
theorem C02_schema_pass_asIs_partial (O : Oracles) (hO : OExact O) (n : Nat) (path : String) (doc : JVal)
    (hdoc : adm asIsC02 doc = true) :
    (validateF asIsC02 {} O swaggerDefs n swaggerRoot path doc).panicked = false ∧
    (validateF asIsC02 {} O swaggerDefs n swaggerRoot path doc).errors.isEmpty
      = validF O swaggerDefs n swaggerRoot doc :=
  validateF_agree asIsC02 O rfl (fun _ => hO) swaggerDefs swagger_defs_wf_asIs n
    swaggerRoot swagger_root_wf_asIs path doc hdoc

/-- **The pipeline never loses an error of the schema pass**: whatever the later stages report and
    whichever continue-on-errors setting, a run that ends without errors had an error-free schema pass. -/
theorem C02_pipeline (cont : Bool) (s : Stages) (h : (specValidate cont s).1.errors = []) :
    s.schemaPass.errors = [] := by
  have hnone : ∀ m, m ∉ s.schemaPass.errors := by
    intro m hm
    have : m ∈ (specValidate cont s).1.errors := by
      simp only [specValidate, Res.mergeAsWarningsOne]
      cases cont with
      | true => exact (C10.mem_runStages_cont s m).mpr (Or.inl hm)
      | false =>
        unfold runStages
        simp only [Bool.not_false, Bool.true_and]
        have h1 : m ∈ (Res.mergeOne {} s.schemaPass).errors := (mem_mergeOne_errors _ _ _).mpr (Or.inr hm)
        split
        · exact h1
        · have h2 := (mem_mergeOne_errors (Res.mergeOne {} s.schemaPass) s.refsValid m).mpr (Or.inl h1)
          split
          · exact h2
          · have h3 := (mem_mergeAll_errors _ (s.middle false) m).mpr (Or.inl h2)
            split
            · exact h3
            · exact (mem_mergeAll_errors _ s.late m).mpr (Or.inl h3)
    rw [h] at this; cases this
  exact List.eq_nil_iff_forall_not_mem.mpr hnone

/-- **C02, repaired model**: an accepted document is valid against the Swagger 2.0 schema. -/
theorem C02_accepted_is_schema_valid (cont : Bool) (s : Stages) (O : Oracles) (n : Nat) (doc : JVal)
    (hpass : s.schemaPass = validateF Cfg.repaired {} O swaggerDefs n swaggerRoot "" doc)
    (hacc : (specValidate cont s).1.errors = []) :
    validF O swaggerDefs n swaggerRoot doc = true := by
  have h := C02_pipeline cont s hacc
  rw [hpass] at h
  rw [← (C02_schema_pass_repaired O n "" doc).2, h]; rfl

/-- … and for the code as it is (IMPORTANT!-message leak included), on documents without `null`, without `$schema`/`id`
    members and without a `headers` member holding objects with a string `$ref` (Swagger 2.0 headers cannot be references) -/
theorem C02_accepted_is_schema_valid_partial (cont : Bool) (s : Stages) (O : Oracles) (hO : OExact O) (n : Nat) (doc : JVal)
    (hdoc : adm asIsC02 doc = true)
    (hpass : s.schemaPass = validateF asIsC02 {} O swaggerDefs n swaggerRoot "" doc)
    (hacc : (specValidate cont s).1.errors = []) :
    validF O swaggerDefs n swaggerRoot doc = true := by
  have h := C02_pipeline cont s hacc
  rw [hpass] at h
  rw [← (C02_schema_pass_asIs_partial O hO n "" doc hdoc).2, h]; rfl

/-- for the model of the whole of `Validate`: whatever the other stages say, in either mode, a document it accepts has passed
    the schema pass (the model of the validator tree, code as it is, with the Swagger strictness options, over the regenerated
    Swagger 2.0 schema term) without an error -/
theorem C02_whole_model_accepted_passed_schema (cont : Bool) (O : Oracles) (raw : JVal) (v0 v : View)
    (hacc : (specModel cont O raw v0 v).1.errors = []) : (schemaPassRes O raw).errors = [] :=
  C02_pipeline cont (modelStages O raw v0 v) hacc

/-! ### witness: the open null early exit shows in the Swagger schema itself -/

def O0 : Oracles :=
  { re := fun p s => some (p == "^/" && s == "/a" || p == "^([0-9]{3})$|^(default)$" && s == "200"),
    fmtKnown := fun _ => false, fmt := fun _ _ => false,
    isIntTol := fun n => n.isInt, mulOfTol := fun n m => (n / m).isInt }

/-- a document whose only response is `null` -/
def docNullResponse : JVal :=
  .obj [("swagger", .str "2.0"), ("info", .obj [("title", .str "t"), ("version", .str "1")]),
        ("paths", .obj [("/a", .obj [("get", .obj [("responses", .obj [("200", .null)])])])])]

/-- `"responses": {"200": null}`: the model of the code as it is accepts it, draft 4 does not
    (`null` matches neither alternative of the `oneOf` in `responseValue`), and closing the null
    early exit makes the model reject it. -/
theorem C02_witness_null_response :
    (validateF Cfg.asIs {} O0 swaggerDefs 8 swaggerRoot "" docNullResponse).errors.isEmpty = true
    ∧ validF O0 swaggerDefs 8 swaggerRoot docNullResponse = false
    ∧ (validateF { Cfg.asIs with nullSkipsComposition := false } {} O0 swaggerDefs 8 swaggerRoot "" docNullResponse).errors.isEmpty = false := by
  decide

/-! ### non-vacuity -/
def docMinimal : JVal :=
  .obj [("swagger", .str "2.0"), ("info", .obj [("title", .str "t"), ("version", .str "1")]), ("paths", .obj [])]
example : adm asIsC02 docMinimal = true := by decide
example : validF O0 swaggerDefs 8 swaggerRoot docMinimal = true := by decide

end VM.C02
