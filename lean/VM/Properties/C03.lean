/-
  C03 — spec validation enforces exactly the documented extra rules.
  Property theorems; proofs of the per-rule equivalences in VM/Proofs/RulesProof.lean.
-/
import VM.Proofs.RulesProof
import VM.Proofs.InheritProof
import VM.Proofs.PipelineProof
import VM.Impl.SpecModel
namespace VM.C03
open VM Sw Rules

/-- **Exactly the documented rules.** The model of the rule loops reports no error exactly when
    every documented rule holds — for every analysed view (any number of operations, parameters,
    responses, definitions), every regexp oracle, both settings of the path-uniqueness option.
    `DistinctKeys` is what Go's maps guarantee: no two operations share method and path.
    The two inheritance rules (duplicate inherited properties, circular ancestry) and
    every rule is stated in `Rules.*` without reference to the loops (the inheritance rules through the walk relation
    `Revisits` and the names along the ancestry, arrays-declare-items through the chain predicate `itemsDeclared`). -/
theorem C03_rules (O : Oracles) (v : View) (hk : DistinctKeys v.ops) :
    extraRuleErrs O v = [] ↔ RulesHold O v := by
  unfold extraRuleErrs RulesHold referenceErrs parameterErrs requiredDefinitionErrs requiredDefinitionErrsOf RequiredDefined
  simp only [List.append_eq_nil_iff]
  rw [dupOperationIDs_nil_iff, pathNameErrs_nil_iff, flatMap_eq_nil_iff', flatMap_eq_nil_iff']
  have hreq : (∀ a ∈ v.defs, (a.2.base.required.flatMap fun pn => requiredPropErrs O pn a.1 64 a.2) = [])
      ↔ ∀ ds ∈ v.defs, ∀ pn ∈ ds.2.base.required, requiredOK O pn 64 ds.2 = true := by
    constructor
    · intro h ds hds pn hpn
      exact (requiredPropErrs_nil_iff O pn ds.1 64 ds.2).mp ((flatMap_eq_nil_iff' _ _).mp (h ds hds) pn hpn)
    · intro h ds hds
      exact (flatMap_eq_nil_iff' _ _).mpr fun pn hpn => (requiredPropErrs_nil_iff O pn ds.1 64 ds.2).mpr (h ds hds pn hpn)
  have hops : (∀ a ∈ v.ops, operationParamErrs O a = []) ↔ ∀ o ∈ v.ops, OperationRules O o := by
    constructor
    · intro h o ho; exact (operationParamErrs_nil_iff O o).mp (h o ho)
    · intro h o ho; exact (operationParamErrs_nil_iff O o).mpr (h o ho)
  have hinh : duplicatePropertyErrs (defsLookup v) v.defs = [] ↔ InheritanceRules v := by
    rw [duplicatePropertyErrs_nil_iff]; rfl
  rw [hreq, hops, hinh, itemsErrs_nil_iff]
  cases hr : v.refsResolve <;> cases hs : v.strict <;>
    simp [overlapErrs_nil_iff v.ops hk, and_assoc]

/-- "reports an error as soon as any one of them is broken": each rule separately -/
theorem C03_each_rule_reported (O : Oracles) (v : View) (hk : DistinctKeys v.ops) (h : extraRuleErrs O v = []) :
    UniqueOperationIds v ∧ (v.strict = true → NoOverlap v.ops) ∧ (∀ o ∈ v.ops, OperationRules O o)
      ∧ RequiredDefined O v ∧ PathsPresent v ∧ v.refsResolve = true := by
  have := (C03_rules O v hk).mp h
  exact ⟨this.2.1, this.2.2.2.1, this.2.2.2.2.1, this.2.2.2.2.2.2.1, this.2.2.2.2.2.2.2, this.1⟩

/-- **The two inheritance rules, declaratively.** The loop of `validateDuplicatePropertyNames` reports nothing exactly when,
    for every definition that inherits, the walk down its ancestry never follows a reference it is already below
    (`Revisits`: no ancestor is its own ancestor) and no property name is declared twice along that ancestry
    (`leafNames … .Nodup`) — whatever the order of the allOf members, the alias chains, the anonymous allOf nesting. -/
theorem C03_inheritance_rules (defs : String → Option Schema) (l : List (String × Schema)) :
    duplicatePropertyErrs defs l = [] ↔
      ∀ ds ∈ l, ds.2.allOf ≠ [] → ¬ Revisits defs 64 ds.2 [defRef ds.1] ∧ (leafNames defs 64 ds.2).Nodup :=
  duplicatePropertyErrs_nil_iff defs l

/-- the walk reports a reference exactly when it is followed twice on one way down (any nesting bound) -/
theorem C03_circular_iff (defs : String → Option Schema) (fuel : Nat) (nm : String) (sch : Schema) (path : List String) :
    (circAnc defs fuel nm sch path).1 ≠ [] ↔ Revisits defs fuel sch path := circAnc_iff defs fuel nm sch path

/-! ### the whole of `Validate` (continue-on-errors): accepted exactly when the schema pass, the rules and the values agree -/

theorem errors_nil_iff (l : List Msg) : l = [] ↔ ∀ m, m ∉ l := List.eq_nil_iff_forall_not_mem

/-- **Acceptance by the model of the whole of `Validate`.** With continue-on-errors, the main result carries no error exactly
    when the Swagger schema pass reports none, every documented rule holds (`RulesHold`) and the default and example stages
    report none — no stage is skipped, none is merged twice, nothing else can raise an error. -/
theorem C03_whole_accepts_iff (O : Oracles) (raw : JVal) (v0 v : View) (hk : DistinctKeys v.ops) :
    (specModel true O raw v0 v).1.errors = [] ↔
      ((schemaPassRes O raw).errors = [] ∧ RulesHold O v
        ∧ (valueStage DCfg.asIs (modelJudges O (defsLookup v0)) .dflt O v).errors = []
        ∧ (valueStage DCfg.asIs (modelJudges O (defsLookup v0)) .exmp O v).errors = []) := by
  rw [← C03_rules O v hk]
  have hrun : (specModel true O raw v0 v).1.errors = (runStages true (modelStages O raw v0 v)).errors := rfl
  rw [hrun]
  simp only [errors_nil_iff]
  have hmem : ∀ m, m ∈ (runStages true (modelStages O raw v0 v)).errors ↔
      (m ∈ (schemaPassRes O raw).errors ∨ m ∈ extraRuleErrs O v
        ∨ m ∈ (valueStage DCfg.asIs (modelJudges O (defsLookup v0)) .dflt O v).errors
        ∨ m ∈ (valueStage DCfg.asIs (modelJudges O (defsLookup v0)) .exmp O v).errors) := by
    intro m
    simp only [runStages, Bool.not_true, Bool.false_and, Bool.false_eq_true, ↓reduceIte, mem_mergeAll_errors, mem_mergeOne_errors,
      Stages.middle, Stages.late, modelStages, msgsRes, extraRuleErrs, List.mem_cons, List.not_mem_nil, or_false, exists_eq_or_imp,
      List.mem_append, exists_false, false_or]
    simp only [exists_eq_left, List.not_mem_nil, or_false]
    generalize (m ∈ (schemaPassRes O raw).errors) = a0
    generalize (m ∈ referenceErrs v) = a1
    generalize (m ∈ dupOperationIDs v) = a2
    generalize (m ∈ duplicatePropertyErrs (defsLookup v) v.defs) = a3
    generalize (m ∈ parameterErrs O v) = a4
    generalize (m ∈ itemsErrs O (fun _ => none) v) = a5
    generalize (m ∈ requiredDefinitionErrs O v) = a6
    generalize (m ∈ pathNameErrs v) = a7
    generalize (m ∈ (valueStage DCfg.asIs (modelJudges O (defsLookup v0)) Which.dflt O v).errors) = a8
    generalize (m ∈ (valueStage DCfg.asIs (modelJudges O (defsLookup v0)) Which.exmp O v).errors) = a9
    simp only [or_assoc, or_comm, or_left_comm]
  constructor
  · intro h
    refine ⟨fun m hm => h m ((hmem m).mpr (.inl hm)), fun m hm => h m ((hmem m).mpr (.inr (.inl hm))),
      fun m hm => h m ((hmem m).mpr (.inr (.inr (.inl hm)))), fun m hm => h m ((hmem m).mpr (.inr (.inr (.inr hm))))⟩
  · rintro ⟨h1, h2, h3, h4⟩ m hm
    rcases (hmem m).mp hm with h | h | h | h
    · exact h1 m h
    · exact h2 m h
    · exact h3 m h
    · exact h4 m h

/-! ### the path-template scanner (helpers.go:130-158) -/

theorem scanParam_spec (cs acc : List Char) (n r : List Char) (h : scanParam cs acc = some (n, r)) :
    ∃ t, n = acc.reverse ++ t ∧ cs = t ++ '}' :: r ∧ '{' ∉ t ∧ '}' ∉ t ∧ n ≠ [] := by
  induction cs generalizing acc with
  | nil => simp [scanParam] at h
  | cons c rest ih =>
    simp only [scanParam] at h
    by_cases hc : c = '}'
    · subst hc
      simp only [beq_self_eq_true, ↓reduceIte] at h
      by_cases ha : acc.isEmpty = true
      · simp [ha] at h
      · simp only [ha, Bool.false_eq_true, ↓reduceIte, Option.some.injEq, Prod.mk.injEq] at h
        obtain ⟨rfl, rfl⟩ := h
        refine ⟨[], by simp, by simp, by simp, by simp, ?_⟩
        intro hrev
        apply ha
        have : acc = [] := by simpa using hrev
        simp [this]
    · have hc' : (c == '}') = false := by simpa using hc
      simp only [hc', Bool.false_eq_true, ↓reduceIte] at h
      by_cases ho : c = '{'
      · subst ho; simp at h
      · have ho' : (c == '{') = false := by simpa using ho
        simp only [ho', Bool.false_eq_true, ↓reduceIte] at h
        obtain ⟨t, ht1, ht2, ht3, ht4, ht5⟩ := ih (c :: acc) h
        refine ⟨c :: t, by simp [ht1], by simp [ht2], ?_, ?_, ht5⟩
        · simp only [List.mem_cons, not_or]; exact ⟨fun h => ho h.symm, ht3⟩
        · simp only [List.mem_cons, not_or]; exact ⟨fun h => hc h.symm, ht4⟩

/-- every placeholder the scanner extracts is `{name}` with a non-empty, brace-free name -/
theorem segParams_shape (fuel : Nat) (cs : List Char) :
    ∀ l ∈ segParams fuel cs, ∃ name : List Char, l = "{" ++ String.ofList name ++ "}" ∧ name ≠ [] ∧ '{' ∉ name ∧ '}' ∉ name := by
  induction fuel generalizing cs with
  | zero => intro l hl; simp [segParams] at hl
  | succ fuel ih =>
    intro l hl
    cases cs with
    | nil => simp [segParams] at hl
    | cons c rest =>
      simp only [segParams] at hl
      by_cases hc : (c == '{') = true
      · simp only [hc, ↓reduceIte] at hl
        cases hs : scanParam rest [] with
        | none => simp only [hs] at hl; exact ih rest l hl
        | some nr =>
          obtain ⟨n, r⟩ := nr
          simp only [hs, List.mem_cons] at hl
          obtain ⟨t, ht1, _, ht3, ht4, ht5⟩ := scanParam_spec rest [] n r hs
          rcases hl with rfl | hl
          · refine ⟨n, rfl, ht5, ?_, ?_⟩
            · simpa [ht1] using ht3
            · simpa [ht1] using ht4
          · exact ih r l hl
      · simp only [hc, Bool.false_eq_true, ↓reduceIte] at hl
        exact ih rest l hl

/-! ### witnesses: the shapes no fixture reaches -/

def O0 : Oracles :=
  { re := fun p _ => if p == "(" then none else some false, fmtKnown := fun _ => false, fmt := fun _ _ => false,
    isIntTol := fun n => n.isInt, mulOfTol := fun n m => (n / m).isInt }

def pathParam (n : String) : Param := { name := n, loc := "path", required := true, base := { types := ["string"] } }

/-- two placeholders in one segment are both extracted -/
example : extractPathParams "/a/{x}-{y}/b" = ["{x}", "{y}"] := by decide
/-- a repeated placeholder (the `i > j` scan) is reported once -/
example : (operationParamErrs O0 ({ method := "GET", path := "/a/{id}/b/{id}", opParams := [pathParam "id"] } : Op)).map (·.tag)
    = ["pathParamNotUnique:/a/{id}/b/{id}|{id}|{id}"] := by decide
/-- a body parameter arriving next to an inline one: two body parameters -/
def opTwoBodies : Op :=
  { id := "op", method := "POST", path := "/a", opParams := [{ name := "sb", loc := "body" }, { name := "inline", loc := "body" }] }
example : (operationParamErrs O0 opTwoBodies).map (·.tag) = ["multipleBodyParam:op"] := by decide
/-- a required property satisfied only through a schema-valued additionalProperties -/
example : requiredPropErrs O0 "missing" "D" 8
    (.mk { addProps := .schema } none [] none [] [] (some (.mk {} none [] none [("missing", Schema.empty)] [] none [] [] [] [] none)) [] [] [] [] none)
    = [] := by decide
example : (requiredPropErrs O0 "missing" "D" 8
    (.mk { addProps := .schema } none [] none [] [] (some (.mk {} none [] none [("other", Schema.empty)] [] none [] [] [] [] none)) [] [] [] [] none)).map (·.tag)
    = ["requiredButNotDefined:missing|D", "requiredButNotDefined:missing|D"] := by decide
/-! inheritance: a diamond is not a cycle (the code reported it as one before the `fix:` commit), a cycle below the
    starting definition is one, a property of the shared ancestor reaches the heir twice -/
def sRef (n : String) : Schema := .mk { ref := defRef n } none [] none [] [] none [] [] [] [] none
def sObj (ps : List String) : Schema :=
  .mk { types := ["object"] } none [] none (ps.map fun p => (p, Schema.empty)) [] none [] [] [] [] none
def sAllOf (l : List Schema) : Schema := .mk {} none [] none [] [] none [] l [] [] none
def diamond (cProps : List String) : List (String × Schema) :=
  [("C", sObj cProps), ("A", sAllOf [sRef "C", sObj ["a"]]), ("B", sAllOf [sRef "C", sObj ["b"]]), ("D", sAllOf [sRef "A", sRef "B"])]
def lookupIn (l : List (String × Schema)) : String → Option Schema := fun r => alookup r (l.map fun (n, s) => (defRef n, s))

theorem C03_witness_diamond_is_not_circular : duplicatePropertyErrs (lookupIn (diamond [])) (diamond []) = [] := by decide +kernel
theorem C03_witness_diamond_shared_property :
    (duplicatePropertyErrs (lookupIn (diamond ["c"])) (diamond ["c"])).map (·.tag) = ["duplicateProperties:D|[#/definitions/C.c]"] := by
  decide +kernel
def cycleBelow : List (String × Schema) :=
  [("A", sAllOf [sAllOf [sRef "B"], sObj []]), ("B", sAllOf [sRef "C"]), ("C", sAllOf [sRef "B", sObj []])]
theorem C03_witness_cycle_below_start :
    Revisits (lookupIn cycleBelow) 64 (sAllOf [sAllOf [sRef "B"], sObj []]) [defRef "A"] :=
  (circAnc_iff _ 64 "A" _ _).mp (by decide +kernel)

/-- two definitions that are bare references to each other, inherited from by a third: circular (the code looped for ever
    on this before the `fix:` commit) -/
def aliasCycle : List (String × Schema) := [("AlA", sRef "AlB"), ("AlB", sRef "AlA"), ("AlC", sAllOf [sRef "AlA", sObj []])]
theorem C03_witness_alias_cycle :
    (duplicatePropertyErrs (lookupIn aliasCycle) aliasCycle).map (·.tag) = ["circularAncestryDefinition:AlC|[#/definitions/AlA]"] := by
  decide +kernel

/-- non-vacuity: a view with two operations that meets every rule -/
def vGood : View :=
  { pathKeys := ["/a/{id}", "/b"],
    ops := [{ method := "GET", path := "/a/{id}", id := "op1", opParams := [pathParam "id"] },
            { method := "GET", path := "/b", id := "op2", opParams := [{ name := "q", loc := "query", base := { types := ["string"] } }] }] }
example : extraRuleErrs O0 vGood = [] := by decide
example : DistinctKeys vGood.ops := by simp [DistinctKeys, vGood]

/-- templates of one method that differ by a trailing slash — also after placeholder stripping — do not overlap: the stripped
    forms keep the trailing segment separator (`stripParametersInPath` is regenerated from helpers.go on every run) -/
theorem C03_witness_trailing_slash_is_not_an_overlap :
    overlapErrs [{ method := "GET", path := "/twin" }, { method := "GET", path := "/twin/" }] = []
    ∧ overlapErrs [{ method := "GET", path := "/twin/{id}/" }, { method := "GET", path := "/twin/{itemId}" }] = []
    ∧ overlapErrs [{ method := "GET", path := "/twin/{id}" }, { method := "GET", path := "/twin/{itemId}" }] ≠ [] := by decide

end VM.C03
