/-
  C04 — object recycling never changes an outcome, whatever came before.

  (1) `recycling_invisible`: for every client program that keeps the ownership discipline, running
      it against pools that hand back arbitrary used objects (stale contents, arbitrary choice) gives
      the result of running it with a brand-new zeroed object per borrow.
  (2) the validators keep the discipline: (d1) every object is redeemed exactly as often as it was
      borrowed — `protocol_exactly_once`, for every tree shape, slot script and panic point, given
      the regenerated fact that slots are released before the child runs; (d2) constructors
      overwrite every field and `cleared()` resets every field — obligations on regenerated tables;
      (d3) nothing is read after the merge that redeemed it — regenerated table (static part) and
      scribbling on redeem (dynamic part); (d4) every `Redeem*` puts once and the shared empty
      result is never put.
-/
import VM.Proofs.PoolProof
import VM.Proofs.ProtocolProof
import VM.Expect
namespace VM.C04
open VM Generated Expect

/-- **Recycling is invisible to disciplined clients** — for every program, every chooser (which
    pooled object a borrow takes), every initial pool content related to the fresh heap by `Sim`. -/
theorem recycling_invisible {H : Type} [DecidableEq H] {R : Type} (p : Pool.Prog H R) (chooser : List (Option Nat))
    (L : Pool.Live H) (σ : Pool.PState H) (τ : H → Pool.Obj) (hd : Pool.Disciplined p L) (hs : Pool.Sim L σ τ) :
    Pool.runPool p chooser σ = Pool.runFresh p τ :=
  Pool.recycling_invisible p chooser L σ τ hd hs

/-- the empty pool simulates the empty heap: the theorem applies from process start -/
theorem initial_sim {H : Type} [DecidableEq H] :
    Pool.Sim (H := H) (fun _ => none) { phys := fun _ => 0, mem := fun _ _ => 0, free := [], next := 0 }
    (fun _ _ => 0) := by
  constructor
  · intro h w hw; cases hw
  · intro h w hw; cases hw
  · intro h h' w w' hw; cases hw
  · exact List.nodup_nil
  · exact ⟨(by intro p hp; cases hp), (by intro h w hw; cases hw)⟩

/-- (d1) **exactly once**: whatever the tree shape, the slot script (which children are skipped,
    relinquished or run, which are built on the fly) and the panic point, every position is redeemed
    exactly as often as it was borrowed — when slots are released before the child runs. -/
theorem protocol_exactly_once (x : Protocol.Pos) (p : Protocol.Pos) (v : Protocol.VT) (k : Option Nat) :
    Protocol.cR x (Protocol.run true p v k).evs
      = Protocol.cB x (Protocol.borrowAll p v) + Protocol.cB x (Protocol.run true p v k).evs :=
  Protocol.run_bal x p v k

/-- T1: the source releases every child slot before running the child (what `run true` models) -/
theorem slots_released_before_call :
    slotOwners.all (fun f => redeemProtocol.any (fun r => r.func == f && r.nilBeforeCall && r.calls > 0)) = true := by
  decide

/-- T1: every slot owner redeems itself and its remaining children in a deferred call -/
theorem deferred_redeem_present :
    deferOwners.all (fun f => redeemProtocol.any (fun r => r.func == f && r.deferRedeem)) = true := by decide

/-- (d2) T1: every constructor of a recyclable type overwrites every field of the borrowed object -/
theorem ctor_overwrites_all : ctorFields.all ctorComplete = true := by decide

/-- T1: all thirteen recyclable validator types have such a constructor -/
theorem ctor_table_complete :
    recyclableTypes.all (fun t => ctorFields.any (fun c => c.type == t)) = true := by decide

/-- (d2) T1: `cleared()` resets every field of a borrowed result -/
theorem cleared_resets_all : clearedComplete clearedFields = true := by decide

/-- (d3, static part) T1: no pooled result is read after the merge/redeem that released it -/
theorem no_use_after_merge :
    useAfterMerge.all (fun u => harmlessUseAfterMerge.contains (u.1, u.2.1)) = true := by decide

/-- (d4) T1: each `Redeem*` calls `Put` exactly once, and `RedeemResult` lets the shared empty result go -/
theorem redeemFns_put_once : redeemFns.all (fun r => r.2.1 == 1) = true := by decide
theorem empty_result_guarded :
    (redeemFns.filter (fun r => r.1 == "resultsPool.RedeemResult")).all (fun r => r.2.2) = true
    ∧ (redeemFns.filter (fun r => r.1 == "resultsPool.RedeemResult")).length = 1 := by decide

/-! non-vacuity and the negative side -/

def okProg : Pool.Prog Nat Nat :=
  .borrow 0 (.write 0 0 5 (.read 0 0 fun v => .redeem 0 (.borrow 1 (.write 1 0 (v+1) (.read 1 0 fun u => .redeem 1 (.ret u))))))

example : Pool.Disciplined okProg (fun _ => none) := by simp [Pool.Disciplined, okProg, Pool.upd]

def σ0 : Pool.PState Nat := { phys := fun _ => 0, mem := fun _ _ => 0, free := [], next := 1 }
example : Pool.runPool okProg [none, some 0] σ0 = 6 := by decide

/-- a double redeem (what a panic caused before the `fix:` commit) lets two later borrows alias -/
def dblProg : Pool.Prog Nat Nat :=
  .borrow 0 (.redeem 0 (.redeem 0 (.borrow 1 (.borrow 2 (.write 1 0 7 (.write 2 0 9 (.read 1 0 fun v => .ret v)))))))

theorem witness_double_redeem_aliases :
    Pool.runFresh dblProg (fun _ _ => 0) = 7 ∧ Pool.runPool dblProg [none, some 0, some 0] σ0 = 9 := by decide

end VM.C04
