/-
  C05 — concurrent validations are race-free and independent of each other.

  The model: any number of client threads over one shared pool, a schedule picking which thread
  moves next, the pool choosing any pooled object at each borrow. What a model cannot exhibit — the
  Go memory model, the implementation of sync.Pool / atomic.Value / sync.Mutex — is assumed
  (DESIGN.md section 8); the race detector runs on the real code in the correspondence check.
-/
import VM.Proofs.ConcProof
import VM.Properties.C04
import VM.Properties.C15
namespace VM.C05
open VM Generated Expect Pool Conc

/-- **Interleaving independence**: every thread that keeps the ownership discipline gets, under
    every schedule and every pool choice, exactly the result it gets alone on fresh objects. -/
theorem interleaving_independent {H : Type} [DecidableEq H] {R : Type} (sched : List Nat)
    (ps : List (Prog (Nat × H) R)) (chooser : List (Option Nat)) (L : Live (Nat × H))
    (σ : PState (Nat × H)) (τ : Nat × H → Obj) (hd : AllDisc ps L) (hs : Sim L σ τ) (t : Nat) (r : R)
    (hr : (runPool (weave sched ps) chooser σ)[t]? = some (some r)) :
    ∃ p, ps[t]? = some p ∧ runFresh p τ = r :=
  Conc.interleaving_independent sched ps chooser L σ τ hd hs t r hr

/-- ownership is disjoint: along every execution of the interleaving, distinct live handles are
    backed by distinct physical objects and no live object sits in the pool (the simulation
    invariant is preserved by every step — it is what `recycling_invisible` is proved with). -/
theorem ownership_disjoint {H : Type} [DecidableEq H] (L : Live H) (σ : PState H) (τ : H → Obj)
    (hs : Sim L σ τ) :
    (∀ h h' w w', L h = some w → L h' = some w' → σ.phys h = σ.phys h' → h = h')
    ∧ (∀ h w, L h = some w → σ.phys h ∉ σ.free) ∧ σ.free.Nodup :=
  ⟨hs.inj, hs.notfree, hs.nodup⟩

/-- T1: the package-level default options are only touched under their mutex -/
theorem default_options_guarded : guardedAccess.all (fun a => a.2.2.2) = true := by decide

/-- T1: shared regexp cache — lock-free reads of an immutable snapshot, copy-on-write under the mutex -/
theorem regexp_cache_discipline :
    rexpShape.lockPresent = true ∧ rexpShape.loadAfterLock = true ∧ rexpShape.onlyFreshWritten = true :=
  ⟨C15.rexp_shape_as_modelled.2.2.2.2.2.2.2.1, C15.rexp_shape_as_modelled.2.2.2.2.2.2.2.2.2.1,
   C15.rexp_shape_as_modelled.2.2.2.2.2.2.2.2.2.2.1⟩

/-- T1: a validator built without recycling only writes its own slots under the recycling option:
    every receiver write inside a `Validate` method of a slot owner is one of those -/
theorem long_lived_readonly :
    (inputWrites.filter (fun w => w.target == "receiver" &&
        (w.func == "SchemaValidator.Validate" || w.func == "HeaderValidator.Validate"
          || w.func == "ParamValidator.Validate" || w.func == "itemsValidator.Validate"
          || w.func == "schemaPropsValidator.validateAnyOf" || w.func == "schemaPropsValidator.validateOneOf"
          || w.func == "schemaPropsValidator.validateAllOf"))).all
      (fun w => w.expr == "index s.validators[]" || w.expr == "index p.validators[]" || w.expr == "index i.validators[]"
        || w.expr == "index s.anyOfValidators[]" || w.expr == "index s.oneOfValidators[]"
        || w.expr == "index s.allOfValidators[]") = true := by decide

/-- T1: every `SpecValidator` owns the options object its schema validators read: `(*SpecValidator).Validate` writes
    `skipSchemataResult` into it (C08.option_writes_only_in_setters), which is only private to a validation if the
    object is allocated by the constructor -/
theorem spec_validator_owns_its_options : specOptionsOrigin = "local new(SchemaValidatorOptions)" := by decide

/-- T1: the inventory of process-wide state. These are all the package-level variables of the package: a constant table, the
    debug switch and its logger, five stateless helper singletons (nil pointers to empty structs), the default options with their
    mutex (`default_options_guarded`), the pools (C04), the shared empty result (C08.child_answers_never_written), and the
    regexp dictionary with its mutex (C15). A new one — a process-wide cache, a memo, a `sync.Once` — is shared state this model
    does not have, whatever it is used for -/
theorem process_wide_state_inventory :
    packageVars =
      [("context.go", "operationTypeEnum"), ("debug.go", "Debug"), ("debug.go", "validateLogger"),
       ("helpers.go", "pathHelp"), ("helpers.go", "valueHelp"), ("helpers.go", "errorHelp"), ("helpers.go", "paramHelp"),
       ("helpers.go", "responseHelp"), ("options.go", "defaultOpts"), ("options.go", "defaultOptsMutex"), ("pools.go", "pools"),
       ("result.go", "emptyResult"), ("rexp.go", "cacheMutex"), ("rexp.go", "reDict")] := by decide

/-! non-vacuity: two disciplined threads, a schedule that interleaves them -/
def thA : Prog Nat Nat := .borrow 0 (.write 0 0 5 (.read 0 0 fun v => .redeem 0 (.ret v)))
def thB : Prog Nat Nat := .borrow 0 (.write 0 0 9 (.read 0 0 fun v => .redeem 0 (.ret (v + 1))))

example : (runPool (weave [0, 1, 0, 1, 0, 1, 0, 1, 0, 1] [tag 0 thA, tag 1 thB]) [none, some 0]
    { phys := fun _ => 0, mem := fun _ _ => 0, free := [], next := 0 }) = [some 5, some 10] := by decide

example : AllDisc [tag 0 thA, tag 1 thB] (fun _ => none) := by
  intro t p hp
  match t, hp with
  | 0, hp => cases hp; exact ⟨tag_tagged 0 thA, by simp [Disciplined, thA, tag, upd]⟩
  | 1, hp => cases hp; exact ⟨tag_tagged 1 thB, by simp [Disciplined, thB, tag, upd]⟩
  | n + 2, hp => simp at hp

end VM.C05
