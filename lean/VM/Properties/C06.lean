/-
  C06 — schema validation always terminates with a verdict and never panics.
  (Termination of the model is by construction: every function is structurally recursive.)
-/
import VM.Properties.C01
namespace VM.C06
open VM Impl Spec

/-- In the vocabulary of C01 the repaired model never sets the panic flag. -/
theorem C06_inVocabulary_no_panic (O : Oracles) (defs : String → Option Schema)
    (hdefs : DefsWf Cfg.repaired defs) (n : Nat) (s : Schema)
    (hs : wf Cfg.repaired (fun name => (defs name).isSome) s = true) (path : String) (v : JVal) :
    (validateF Cfg.repaired {} O defs n s path v).panicked = false :=
  (C01.C01_repaired O defs hdefs n s hs path v).1

def sAddlNoTuple : Schema :=
  .mk { addItems := .schema } none [] (some Schema.empty) [] [] none [] [] [] [] none

/-- the pinned snapshot: schema-valued additionalItems without a tuple indexes one past the end of
    a non-empty array (reflect: slice index out of range); the code as it is now does not -/
theorem C06_witness_addlItems_original :
    (validateF Cfg.original {} C01.O0 C01.noDefs 0 sAddlNoTuple "" (.arr [.num 1])).panicked = true
    ∧ (validateF Cfg.asIs {} C01.O0 C01.noDefs 0 sAddlNoTuple "" (.arr [.num 1])).panicked = false := by
  decide

/-- an unresolvable reference is the documented panic -/
theorem C06_unresolvable_ref_panics (cfg : Cfg) (O : Oracles) (b : SBase) (hb : b.ref = "#/definitions/missing")
    (path : String) (v : JVal) :
    (validateF cfg {} O C01.noDefs 1 (.mk b none [] none [] [] none [] [] [] [] none) path v).panicked = true := by
  simp [validateF, validate_mk, hb, C01.noDefs, Impl.panic]

end VM.C06
