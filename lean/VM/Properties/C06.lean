/-
  C06 — schema validation always terminates with a verdict and never panics.
  (Termination of the model is by construction: every function is structurally recursive.)
-/
import VM.Properties.C01
import VM.Proofs.NoPanic
namespace VM.C06
open VM Impl Spec

/-- In the vocabulary of C01 the repaired model never sets the panic flag. -/
theorem C06_inVocabulary_no_panic (O : Oracles) (defs : String → Option Schema)
    (hdefs : DefsWf Cfg.repaired defs) (n : Nat) (s : Schema)
    (hs : wf Cfg.repaired (fun name => (defs name).isSome) s = true) (path : String) (v : JVal) :
    (validateF Cfg.repaired {} O defs n s path v).panicked = false :=
  (C01.C01_repaired O defs hdefs n s hs path v).1

/-- **No panic, every schema.** For the code as it is now (the additional-items loop with its repaired
    bound) and for every other setting of the deviation switches: the model of the validator tree never
    panics — whatever the schema (no vocabulary condition: empty enum or required, multipleOf ≤ 0, patterns
    that do not compile, unknown types and formats, keywords foreign to the instance's kind), whatever the
    instance, options, regexp engine and format registry, and whatever the amount of `$ref` fuel — provided
    every reference that occurs resolves (an unresolvable one is the documented panic:
    `C06_unresolvable_ref_panics`). Termination of the model is by structural recursion. -/
theorem C06_no_panic (cfg : Cfg) (hc : cfg.addlItemsBound = false) (opts : Opts) (O : Oracles)
    (defs : String → Option Schema) (hdefs : DefsClosed defs) (n : Nat) (s : Schema)
    (hs : refsKnown (fun m => (defs m).isSome) s = true) (path : String) (v : JVal) :
    (validateF cfg opts O defs n s path v).panicked = false :=
  validateF_np cfg hc opts O defs hdefs n s hs path v

/-- the code as it is, with and without the Swagger-specific options -/
theorem C06_no_panic_asIs (opts : Opts) (O : Oracles) (defs : String → Option Schema) (hdefs : DefsClosed defs)
    (n : Nat) (s : Schema) (hs : refsKnown (fun m => (defs m).isSome) s = true) (path : String) (v : JVal) :
    (validateF Cfg.asIs opts O defs n s path v).panicked = false :=
  C06_no_panic Cfg.asIs rfl opts O defs hdefs n s hs path v

/-- non-vacuity: a thoroughly degenerate schema (no reference) meets the hypotheses -/
def sDegenerate : Schema :=
  .mk { types := ["nonsense"], format := "unknown", multipleOf := some 0, pattern := "(", minItems := some (-1),
        required := [], addItems := .schema, addProps := .bool false, depProps := [("a", [])] }
    none [] (some Schema.empty) [("a", Schema.empty)] [("(", Schema.empty)] none [] [Schema.empty] [] [Schema.empty, Schema.empty] (some Schema.empty)
example : refsKnown (fun _ => false) sDegenerate = true := by decide
example : DefsClosed C01.noDefs := by intro _ _ h; cases h

def sAddlNoTuple : Schema :=
  .mk { addItems := .schema } none [] (some Schema.empty) [] [] none [] [] [] [] none

/-- the pinned snapshot: schema-valued additionalItems without a tuple indexes one past the end of
    a non-empty array (reflect: slice index out of range); the code as it is now does not -/
theorem C06_witness_addlItems_original :
    (validateF Cfg.original {} C01.O0 C01.noDefs 0 sAddlNoTuple "" (.arr [.num 1])).panicked = true
    ∧ (validateF Cfg.asIs {} C01.O0 C01.noDefs 0 sAddlNoTuple "" (.arr [.num 1])).panicked = false := by
  decide

/-- an unresolvable reference is the documented panic -/
theorem C06_unresolvable_ref_panics (cfg : Cfg) (O : Oracles) (b : SBase) (hb : b.ref = "#/definitions/missing")
    (path : String) (v : JVal) :
    (validateF cfg {} O C01.noDefs 1 (.mk b none [] none [] [] none [] [] [] [] none) path v).panicked = true := by
  simp [validateF, validate_mk, hb, C01.noDefs, Impl.panic]

end VM.C06
