/-
  C07 — spec validation never panics on a document that loads.
  What a model can carry: the nil-result flow of the default/example validators (the walker
  returns nil for a "visited" path; what its callers do with that), the regenerated table of
  reads on such results, and — through the sticky `panicked` flag — that the stages add no
  panic of their own to what the schema/parameter validators they call may raise (C06).
-/
import VM.Proofs.DefaultsProof
import VM.Impl.Pipeline
import VM.Generated.SpecFacts
import VM.Impl.SpecModel
import VM.Proofs.NoPanic
import VM.Proofs.SimpleProof
namespace VM.C07
open VM Sw

/-! ### T1: every read on a possibly-nil walker result is guarded, or its path has no dot -/

/-- the response sites pass `responseCodeAsStr` ("default" or the decimal status code): no dot,
    fresh visited set, non-nil schema — the walker cannot return nil there (`response_walk_some`) -/
theorem nilable_reads_guarded :
    Generated.nilableReads.all (fun r => r.guarded || r.pathArg == "responseCodeAsStr") = true := by decide

/-- the table is not empty: the four call sites are seen by the extractor -/
theorem nilable_reads_seen : Generated.nilableReads.length = 4 := by decide

/-! ### the visited test on a path without dots -/

theorem dotSplits_no_dot (cs : List Char) (h : '.' ∉ cs) : dotSplits cs = [] := by
  induction cs with
  | nil => rfl
  | cons c rest ih =>
    have hc : c ≠ '.' := fun e => h (by simp [e])
    have hr : '.' ∉ rest := fun e => h (by simp [e])
    have : (c == '.') = false := by simpa using hc
    simp [dotSplits, ih hr, this]

theorem suffixOverlap_no_dot (path : String) (h : '.' ∉ path.toList) : suffixOverlap path = false := by
  simp [suffixOverlap, dotSplits_no_dot _ h]

/-- with a fresh visited set and a dot-free path the walker always returns a result -/
theorem response_walk_some (c : DCfg) (J : Judges) (w : Which) (O : Oracles) (inn : String) (s : Schema) (code : String)
    (h : '.' ∉ code.toList) : (walk c J w O inn s code []).1.isSome = true := by
  have hv : isVisited c code [] = false := by simp [isVisited, suffixOverlap_no_dot code h]
  cases s with
  | mk b itemsS itemsT addItemsS props patProps addPropsS deps allOf anyOf oneOf nt =>
    rw [walk]
    simp [hv]

/-! ### witness of the repaired defect: a body parameter named `a.a` -/

def Jnone : Judges :=
  { schema := fun _ _ _ => {}, param := fun _ _ => {}, header := fun _ _ => {}, items := fun _ _ _ _ _ => {} }
def O0 : Oracles :=
  { re := fun _ _ => some false, fmtKnown := fun _ => false, fmt := fun _ _ => false,
    isIntTol := fun n => n.isInt, mulOfTol := fun n m => (n / m).isInt }

/-- the walker hands back nil for the parameter's own path, on entry, with nothing visited -/
theorem C07_witness_dotted_name :
    (walk DCfg.asIs Jnone .dflt O0 "body" Schema.empty "a.a" []).1.isNone = true
    ∧ (walk DCfg.repaired Jnone .dflt O0 "body" Schema.empty "a.a" []).1.isSome = true := by decide

/-! ### the stages add no panic of their own -/

/-- **The default and example stages never panic by themselves**: for every view, every visited-path
    configuration, every regexp oracle — if the validators they call to judge a value (schema,
    parameter, header, items validators: C06/C16) return normally, so do the stages. In particular
    the nil result the walker returns for a "visited" path is never dereferenced. -/
theorem C07_value_stages_no_panic (c : DCfg) (J : Judges) (w : Which) (O : Oracles) (hJ : JOk J) (v : View) :
    (valueStage c J w O v).panicked = false :=
  valueStage_ok c J w O (fun _ => True) kidsClosed_true hJ v
    ⟨fun _ _ => ⟨fun _ _ _ _ => trivial, fun _ _ _ _ _ _ => trivial⟩, fun _ _ => trivial⟩

theorem mergeAll_ok (r : Res) (os : List Res) (hr : Ok r) (h : ∀ o ∈ os, Ok o) : Ok (mergeAll r os) := by
  induction os generalizing r with
  | nil => exact hr
  | cons o os ih =>
    simp only [mergeAll, List.foldl_cons]
    exact ih _ (mergeOne_ok hr (h o List.mem_cons_self)) (fun x hx => h x (List.mem_cons_of_mem _ hx))

/-- **The pipeline returns normally when its stages do**, in both continue-on-errors modes -/
theorem C07_pipeline_no_panic (cont : Bool) (s : Stages)
    (h1 : Ok s.schemaPass) (h2 : Ok s.refsValid) (h3 : ∀ o ∈ s.middle cont, Ok o) (h4 : ∀ o ∈ s.late, Ok o) :
    (specValidate cont s).1.panicked = false := by
  have e1 : Ok (Res.mergeOne {} s.schemaPass) := mergeOne_ok ok_empty h1
  have e2 := mergeOne_ok e1 h2
  have e3 := mergeAll_ok _ _ e2 h3
  have e4 := mergeAll_ok _ _ e3 h4
  have : Ok (runStages cont s) := by
    unfold runStages
    simp only
    split
    · exact e1
    · split
      · exact e2
      · split
        · exact e3
        · exact e4
  simpa [specValidate, Res.mergeAsWarningsOne, Ok] using this

/-! ### the whole of `Validate`, with the models of the validators as judges -/

theorem simpleRes_ok (name : String) (r : Bool × Bool) (h : r.2 = false) : Ok (simpleRes name r) := by
  unfold simpleRes Ok
  simp only [h, Bool.false_eq_true, ↓reduceIte]
  split <;> rfl

/-- the judges of the model (validator tree, parameter / header / items chains, code as it is) return normally on every
    schema all of whose references are known to a closed definitions table -/
theorem modelJudges_ok (O : Oracles) (defs : String → Option Schema) (hdefs : DefsClosed defs) :
    JOkOn (fun s => allRefsKnown (fun m => (defs m).isSome) s = true) (modelJudges O defs) where
  schema := fun s p v hs =>
    validateF_np Impl.Cfg.asIs rfl swaggerOpts O defs hdefs modelFuel s (allRefsKnown_refsKnown _ s hs) p v
  param := fun p v => simpleRes_ok _ _ (Simple.validate_np O _ _ _)
  header := fun h v => simpleRes_ok _ _ (Simple.validate_np O _ _ _)
  items := fun path _ rootFmt chain v => by
    show Ok (match chainToSSchema chain, toGo v with
      | _, .nil => {}
      | some ss, gv => simpleRes (path ++ ".0") (Simple.validateAux O false (ss.depth + 1) .items rootFmt ss gv)
      | none, _ => {})
    split
    · rfl
    · exact simpleRes_ok _ _ (Simple.validateAux_np O _ _ _ _ _)
    · rfl

theorem kidsClosed_allRefsKnown (known : String → Bool) : KidsClosed (fun s => allRefsKnown known s = true) := by
  intro b itemsS itemsT addItemsS props patProps addPropsS deps allOf anyOf oneOf nt h
  rw [allRefsKnown_mk] at h
  simp only [Bool.and_eq_true] at h
  obtain ⟨⟨⟨⟨⟨⟨⟨⟨⟨⟨⟨_, h1⟩, h2⟩, h3⟩, h4⟩, h5⟩, h6⟩, _⟩, h8⟩, _⟩, _⟩, _⟩ := h
  refine ⟨?_, allRefsKnownL_mem known itemsT h2, ?_, allRefsKnownM_mem known props h4, allRefsKnownM_mem known patProps h5, ?_,
    allRefsKnownL_mem known allOf h8⟩
  · intro s hs; subst hs; exact h1
  · intro s hs; subst hs; exact h3
  · intro s hs; subst hs; exact h6

theorem alookup_mem' {α : Type} (k : String) (l : List (String × α)) (v : α) (h : alookup k l = some v) : (k, v) ∈ l := by
  induction l with
  | nil => simp [alookup] at h
  | cons p ps ih =>
    obtain ⟨k', v'⟩ := p
    simp only [alookup] at h
    split at h
    · rename_i hk; cases h; subst hk; exact List.mem_cons_self
    · exact List.mem_cons_of_mem _ (ih h)

theorem swagger_table_refs_known :
    Generated.swaggerTable.all (fun p => refsKnown (fun n => (Generated.swaggerDefs n).isSome) p.2) = true := by decide
theorem swagger_root_refs_known : refsKnown (fun n => (Generated.swaggerDefs n).isSome) Generated.swaggerRoot = true := by decide
theorem swagger_defs_closed : DefsClosed Generated.swaggerDefs := by
  intro name t h
  exact (List.all_eq_true.mp swagger_table_refs_known) (name, t) (alookup_mem' name Generated.swaggerTable t h)

/-- **The model of the whole of `Validate` never panics**: the Swagger schema pass over any raw document, the reference check,
    every rule loop, the default and example stages judging with the models of the schema, parameter, header and items
    validators (code as it is), merged by the pipeline in either continue-on-errors mode — for every document view whose
    definitions table is closed and whose parameter, response and definition schemas only hold references it knows
    (what the reference stage establishes before the value stages run), every regexp engine and format registry. -/
theorem C07_whole_model_no_panic (cont : Bool) (O : Oracles) (raw : JVal) (v0 v : View)
    (hdefs : DefsClosed (defsLookup v0))
    (hv : ViewP (fun s => allRefsKnown (fun m => (defsLookup v0 m).isSome) s = true) v) :
    (specModel cont O raw v0 v).1.panicked = false := by
  unfold specModel
  have hJ := modelJudges_ok O (defsLookup v0) hdefs
  have hcl := kidsClosed_allRefsKnown (fun m => (defsLookup v0 m).isSome)
  apply C07_pipeline_no_panic
  · exact validateF_np Impl.Cfg.asIs rfl swaggerOpts O Generated.swaggerDefs swagger_defs_closed modelFuel
      Generated.swaggerRoot swagger_root_refs_known "" raw
  · rfl
  · intro o ho
    simp only [Stages.middle, modelStages, List.mem_cons, List.not_mem_nil, or_false] at ho
    rcases ho with rfl | rfl | rfl | rfl | rfl <;> rfl
  · intro o ho
    simp only [Stages.late, modelStages, List.mem_cons, List.not_mem_nil, or_false] at ho
    rcases ho with rfl | rfl | rfl | rfl
    · exact valueStage_ok _ _ _ O _ hcl hJ v hv
    · exact valueStage_ok _ _ _ O _ hcl hJ v hv
    · rfl
    · rfl

/-! the hypotheses as executable checks, and a view that meets them -/

def optAll (known : String → Bool) : Option Schema → Bool
  | some s => allRefsKnown known s
  | none => true

/-- executable form of the hypotheses of `C07_whole_model_no_panic` -/
def viewClosed (v0 v : View) : Bool :=
  let known := fun m => (defsLookup v0 m).isSome
  (v0.defs.map fun (n, s) => (defRef n, s)).all (fun p => refsKnown known p.2)
  && v.ops.all (fun o => o.params.all (fun p => optAll known p.schema)
      && (match o.responses with | some rs => rs.all (fun r => optAll known r.schema) | none => true))
  && v.defs.all (fun d => allRefsKnown known d.2)

theorem viewClosed_spec (v0 v : View) (h : viewClosed v0 v = true) :
    DefsClosed (defsLookup v0) ∧ ViewP (fun s => allRefsKnown (fun m => (defsLookup v0 m).isSome) s = true) v := by
  unfold viewClosed at h
  simp only [Bool.and_eq_true, List.all_eq_true] at h
  obtain ⟨⟨h1, h2⟩, h3⟩ := h
  refine ⟨?_, ⟨?_, fun d hd => h3 d hd⟩⟩
  · intro name t ht
    exact h1 (name, t) (alookup_mem' name _ t ht)
  · intro o ho
    have := h2 o ho
    refine ⟨?_, ?_⟩
    · intro p hp s hs
      have := this.1 p hp
      simpa [optAll, hs] using this
    · intro rs hrs r hr s hs
      have h' := this.2
      rw [hrs] at h'
      have := List.all_eq_true.mp h' r hr
      simpa [optAll, hs] using this

/-- the theorem with its hypotheses in executable form -/
theorem C07_whole_model_no_panic_exec (cont : Bool) (O : Oracles) (raw : JVal) (v0 v : View) (h : viewClosed v0 v = true) :
    (specModel cont O raw v0 v).1.panicked = false :=
  C07_whole_model_no_panic cont O raw v0 v (viewClosed_spec v0 v h).1 (viewClosed_spec v0 v h).2

def sRefTo (n : String) : Schema := .mk { ref := defRef n } none [] none [] [] none [] [] [] [] none
def vDemo : View :=
  { pathKeys := ["/a"],
    ops := [{ method := "POST", path := "/a", id := "op",
              opParams := [{ name := "body", loc := "body",
                             schema := some (.mk { types := ["object"] } none [] none [("p", sRefTo "D")] [] none [] [] [] [] none) }],
              responses := some [{ code := "200", schema := some (sRefTo "D") }] }],
    defs := [("D", .mk { types := ["object"], default := some (.num 1) } none [] none [("q", sRefTo "D")] [] none [] [] [] [] none)] }
example : viewClosed vDemo vDemo = true := by decide

end VM.C07
