/-
  C07 — spec validation never panics on a document that loads.
  What a model can carry: the nil-result flow of the default/example validators (the walker
  returns nil for a "visited" path; what its callers do with that), the regenerated table of
  reads on such results, and — through the sticky `panicked` flag — that the stages add no
  panic of their own to what the schema/parameter validators they call may raise (C06).
-/
import VM.Proofs.DefaultsProof
import VM.Impl.Pipeline
import VM.Generated.SpecFacts
namespace VM.C07
open VM Sw

/-! ### T1: every read on a possibly-nil walker result is guarded, or its path has no dot -/

/-- the response sites pass `responseCodeAsStr` ("default" or the decimal status code): no dot,
    fresh visited set, non-nil schema — the walker cannot return nil there (`response_walk_some`) -/
theorem nilable_reads_guarded :
    Generated.nilableReads.all (fun r => r.guarded || r.pathArg == "responseCodeAsStr") = true := by decide

/-- the table is not empty: the four call sites are seen by the extractor -/
theorem nilable_reads_seen : Generated.nilableReads.length = 4 := by decide

/-! ### the visited test on a path without dots -/

theorem dotSplits_no_dot (cs : List Char) (h : '.' ∉ cs) : dotSplits cs = [] := by
  induction cs with
  | nil => rfl
  | cons c rest ih =>
    have hc : c ≠ '.' := fun e => h (by simp [e])
    have hr : '.' ∉ rest := fun e => h (by simp [e])
    have : (c == '.') = false := by simpa using hc
    simp [dotSplits, ih hr, this]

theorem suffixOverlap_no_dot (path : String) (h : '.' ∉ path.toList) : suffixOverlap path = false := by
  simp [suffixOverlap, dotSplits_no_dot _ h]

/-- with a fresh visited set and a dot-free path the walker always returns a result -/
theorem response_walk_some (c : DCfg) (J : Judges) (w : Which) (O : Oracles) (inn : String) (s : Schema) (code : String)
    (h : '.' ∉ code.toList) : (walk c J w O inn s code []).1.isSome = true := by
  have hv : isVisited c code [] = false := by simp [isVisited, suffixOverlap_no_dot code h]
  cases s with
  | mk b itemsS itemsT addItemsS props patProps addPropsS deps allOf anyOf oneOf nt =>
    rw [walk]
    simp [hv]

/-! ### witness of the repaired defect: a body parameter named `a.a` -/

def Jnone : Judges :=
  { schema := fun _ _ _ => {}, param := fun _ _ => {}, header := fun _ _ => {}, items := fun _ _ _ _ _ => {} }
def O0 : Oracles :=
  { re := fun _ _ => some false, fmtKnown := fun _ => false, fmt := fun _ _ => false,
    isIntTol := fun n => n.isInt, mulOfTol := fun n m => (n / m).isInt }

/-- the walker hands back nil for the parameter's own path, on entry, with nothing visited -/
theorem C07_witness_dotted_name :
    (walk DCfg.asIs Jnone .dflt O0 "body" Schema.empty "a.a" []).1.isNone = true
    ∧ (walk DCfg.repaired Jnone .dflt O0 "body" Schema.empty "a.a" []).1.isSome = true := by decide

/-! ### the stages add no panic of their own -/

/-- **The default and example stages never panic by themselves**: for every view, every visited-path
    configuration, every regexp oracle — if the validators they call to judge a value (schema,
    parameter, header, items validators: C06/C16) return normally, so do the stages. In particular
    the nil result the walker returns for a "visited" path is never dereferenced. -/
theorem C07_value_stages_no_panic (c : DCfg) (J : Judges) (w : Which) (O : Oracles) (hJ : JOk J) (v : View) :
    (valueStage c J w O v).panicked = false :=
  valueStage_ok c J w O hJ v

theorem mergeAll_ok (r : Res) (os : List Res) (hr : Ok r) (h : ∀ o ∈ os, Ok o) : Ok (mergeAll r os) := by
  induction os generalizing r with
  | nil => exact hr
  | cons o os ih =>
    simp only [mergeAll, List.foldl_cons]
    exact ih _ (mergeOne_ok hr (h o List.mem_cons_self)) (fun x hx => h x (List.mem_cons_of_mem _ hx))

/-- **The pipeline returns normally when its stages do**, in both continue-on-errors modes -/
theorem C07_pipeline_no_panic (cont : Bool) (s : Stages)
    (h1 : Ok s.schemaPass) (h2 : Ok s.refsValid) (h3 : ∀ o ∈ s.middle cont, Ok o) (h4 : ∀ o ∈ s.late, Ok o) :
    (specValidate cont s).1.panicked = false := by
  have e1 : Ok (Res.mergeOne {} s.schemaPass) := mergeOne_ok ok_empty h1
  have e2 := mergeOne_ok e1 h2
  have e3 := mergeAll_ok _ _ e2 h3
  have e4 := mergeAll_ok _ _ e3 h4
  have : Ok (runStages cont s) := by
    unfold runStages
    simp only
    split
    · exact e1
    · split
      · exact e2
      · split
        · exact e3
        · exact e4
  simpa [specValidate, Res.mergeAsWarningsOne, Ok] using this

end VM.C07
