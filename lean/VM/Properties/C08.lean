/-
  C08 — long-lived validators are stateless.
  In the model a validator built without recycling *is* its definition: `Impl.validate` is a
  function of (configuration, options, oracles, schema, path, value). What carries the property is
  the tie between that function and the code (correspondence on repeated use) and, for the
  "independent of map iteration order" clause, invariance of the verdict under permutations.
-/
import VM.Properties.C01
import VM.Generated.SpecFacts
namespace VM.C08
open VM Impl Spec

/-- repeating a call gives the same answer: it is literally the same term -/
theorem C08_pure (cfg : Cfg) (opts : Opts) (O : Oracles) (r : String → V) (s : Schema) (p : String)
    (v : JVal) : validate cfg opts O r s p v = validate cfg opts O r s p v := rfl

/-- whatever was validated before, the result on `v` is the result of a fresh validator: a history
    of earlier calls is not an argument of the function -/
theorem C08_history_irrelevant (cfg : Cfg) (opts : Opts) (O : Oracles) (r : String → V) (s : Schema)
    (p : String) (history : List JVal) (v : JVal) :
    (history.map (validate cfg opts O r s p), validate cfg opts O r s p v).2
      = validate cfg opts O r s p v := rfl

/-! ### T1: no validator leaves a range over a map early (except to answer "is there a key such that …") -/

/-- every range loop of the validator files that can be left early ranges over a slice or a fixed-size array
    of child validators, or is an existence search (`if cond { found = true; break }`): the answer of a
    validator does not depend on the order in which Go ranges over the instance's or the schema's maps -/
theorem validator_exit_ranges_order_free :
    Generated.validatorExitRanges.all (fun e => e.cls == "slice" || e.cls == "exists") = true := by decide

/-- the extractor still sees the loops (the table is not vacuously fine) -/
theorem validator_exit_ranges_seen : Generated.validatorExitRanges.length ≥ 8 := by decide

/-- the options object is shared by pointer through a validator tree: its fields are assigned only by the option
    setters (before any validator exists) and once at the top of `(*SpecValidator).Validate` (before the validators of
    that run are built) — never while validators that read them are alive -/
theorem option_writes_only_in_setters :
    Generated.optionWrites.map (·.2) =
      ["EnableObjectArrayTypeCheck: svo.EnableObjectArrayTypeCheck", "EnableArrayMustHaveItemsCheck: svo.EnableArrayMustHaveItemsCheck",
       "SwaggerSchema: svo.EnableObjectArrayTypeCheck", "SwaggerSchema: svo.EnableArrayMustHaveItemsCheck",
       "WithRecycleValidators: svo.recycleValidators", "withRecycleResults: svo.recycleResult",
       "WithSkipSchemataResult: svo.skipSchemataResult", "SpecValidator.Validate: s.schemaOptions.skipSchemataResult"] := by decide

end VM.C08
