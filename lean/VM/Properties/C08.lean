/-
  C08 — long-lived validators are stateless.
  In the model a validator built without recycling *is* its definition: `Impl.validate` is a
  function of (configuration, options, oracles, schema, path, value). What carries the property is
  the tie between that function and the code (correspondence on repeated use) and, for the
  "independent of map iteration order" clause, invariance of the verdict under permutations.
-/
import VM.Properties.C01
import VM.Generated.SpecFacts
import VM.Generated.Facts
namespace VM.C08
open VM Impl Spec

/-- repeating a call gives the same answer: it is literally the same term -/
theorem C08_pure (cfg : Cfg) (opts : Opts) (O : Oracles) (r : String → V) (s : Schema) (p : String)
    (v : JVal) : validate cfg opts O r s p v = validate cfg opts O r s p v := rfl

/-- whatever was validated before, the result on `v` is the result of a fresh validator: a history
    of earlier calls is not an argument of the function -/
theorem C08_history_irrelevant (cfg : Cfg) (opts : Opts) (O : Oracles) (r : String → V) (s : Schema)
    (p : String) (history : List JVal) (v : JVal) :
    (history.map (validate cfg opts O r s p), validate cfg opts O r s p v).2
      = validate cfg opts O r s p v := rfl

/-! ### T1: no validator leaves a range over a map early (except to answer "is there a key such that …") -/

/-- every range loop of the validator files that can be left early ranges over a slice or a fixed-size array
    of child validators, or is an existence search (`if cond { found = true; break }`): the answer of a
    validator does not depend on the order in which Go ranges over the instance's or the schema's maps -/
theorem validator_exit_ranges_order_free :
    Generated.validatorExitRanges.all (fun e => e.cls == "slice" || e.cls == "exists") = true := by decide

/-- the extractor still sees the loops (the table is not vacuously fine) -/
theorem validator_exit_ranges_seen : Generated.validatorExitRanges.length ≥ 8 := by decide

/-- the options object is shared by pointer through a validator tree: its fields are assigned only by the option
    setters (before any validator exists) and once at the top of `(*SpecValidator).Validate` (before the validators of
    that run are built) — never while validators that read them are alive -/
theorem option_writes_only_in_setters :
    Generated.optionWrites.map (·.2) =
      ["EnableObjectArrayTypeCheck: svo.EnableObjectArrayTypeCheck", "EnableArrayMustHaveItemsCheck: svo.EnableArrayMustHaveItemsCheck",
       "SwaggerSchema: svo.EnableObjectArrayTypeCheck", "SwaggerSchema: svo.EnableArrayMustHaveItemsCheck",
       "WithRecycleValidators: svo.recycleValidators", "withRecycleResults: svo.recycleResult",
       "WithSkipSchemataResult: svo.skipSchemataResult", "SpecValidator.Validate: s.schemaOptions.skipSchemataResult"] := by decide

/-- T1: *a validator built without recycling never assigns to itself while validating*: every assignment through the
    receiver inside a `Validate` / `validate…` / `Applies` method sits under the recycling option (the slot releases and
    nothing else), except in `SpecValidator`, which is a one-document-at-a-time object and not a schema, parameter or
    header validator (C05 validates distinct documents with distinct SpecValidators) -/
theorem unrecycled_validators_never_assign_to_themselves :
    (Generated.selfWrites.filter (fun w => w.2.2 == false)).map (fun w => (w.1, w.2.1)) =
      [("SpecValidator.Validate", "s.schemaOptions.skipSchemataResult"), ("SpecValidator.Validate", "s.spec"),
       ("SpecValidator.Validate", "s.analyzer"), ("SpecValidator.Validate", "s.expanded"),
       ("SpecValidator.validateReferencesValid", "s.expanded")] := by decide

/-- the extractor still sees the guarded slot releases of every slot owner (the table is not vacuously fine) -/
theorem guarded_slot_releases_seen :
    ["HeaderValidator.Validate", "ParamValidator.Validate", "SchemaValidator.Validate", "itemsValidator.Validate",
     "schemaPropsValidator.validateAllOf", "schemaPropsValidator.validateAnyOf", "schemaPropsValidator.validateNot",
     "schemaPropsValidator.validateOneOf"].all
      (fun f => Generated.selfWrites.any (fun w => w.1 == f && w.2.2)) = true := by decide

/-- T1: *the answer of a child validator is never written to*: every call of a mutating `*Result` method (Inc, AddErrors,
    AddWarnings, the Merge family, the schemata recorders, cleared) has as its receiver a result the function created or
    borrowed itself, one it was handed by its caller to fill, or the method's own receiver — never a value that came back
    from a `Validate` call, which may be the process-wide shared empty result (a write to it changes the match counts of
    every later validation) -/
theorem child_answers_never_written :
    Generated.resultMutations.all (fun m =>
      ["fresh", "fresh | zero", "zero", "param", "receiver", "expr", "multi call responseHelp.expandResponseRef"].contains m.2.2.2) = true := by
  decide

/-- the table sees the validators' own bookkeeping (not vacuous) -/
theorem result_mutations_seen :
    Generated.resultMutations.any (fun m => m.1 == "itemsValidator.Validate" && m.2.1 == "Inc" && m.2.2.2 == "fresh | zero") = true
    ∧ Generated.resultMutations.length ≥ 100 := by decide

end VM.C08
