/-
  C09 — spec defaults and examples are judged exactly as their schema judges them.
  Property theorems; proofs in VM/Proofs/LocationsProof.lean and VM/Proofs/DefaultsProof.lean.
  Judging a value against its own schema is C01/C16's business: every theorem here holds for
  arbitrary `Judges`.
-/
import VM.Proofs.LocationsProof
import VM.Proofs.CollisionProof
import VM.Proofs.PipelineProof
namespace VM.C09
open VM Sw

/-- **Repaired traversal: reported ⇔ rejected, at every location.** With the visited-path cut-off
    removed, the schema walker of the default validator (`w = .dflt`, findings are errors) and of
    the example validator (`w = .exmp`, findings are warnings) always returns a result, and a
    message is in it exactly when the specification `Exp` asks for it: the judgement of the value
    at some location reachable through items, tuple items, additionalItems, properties,
    patternProperties, additionalProperties, allOf — at any depth, under that location's path —
    or (defaults only) a pattern that does not compile. For every schema, path, visited set,
    judges and regexp oracle. -/
theorem C09_repaired (J : Judges) (O : Oracles) (w : Which) (inn : String) (s : Schema) (path : String) (vis : List String) :
    ∃ r, (walk DCfg.repaired J w O inn s path vis).1 = some r
      ∧ ∀ m, (m ∈ reportedOf w r ↔ Exp J O w inn s path m) :=
  walk_mem J O w inn s path vis

/-- **As the code is, minus exact collisions, partial.** With the suffix heuristic of the code in
    place (`suffixHeuristic := true`) the traversal is the same function as the repaired one on
    every schema none of whose walked paths triggers the heuristic (`noOverlap`, decidable).
    Missing for the full as-is statement: the exact-membership half of the visited test, which can
    also skip a location when two different locations render to the same dotted path
    (`C09_witness_exact_collision`). -/
theorem C09_heuristic_partial (J : Judges) (O : Oracles) (w : Which) (inn : String) (s : Schema) (path : String)
    (h : noOverlap w s path = true) :
    walk { exactVisited := false, suffixHeuristic := true } J w O inn s path = walk DCfg.repaired J w O inn s path :=
  walk_noOverlap J O w inn _ rfl s path h

/-- … hence, on such schemas, reported ⇔ rejected for the heuristic as the code has it -/
theorem C09_heuristic_partial_reports (J : Judges) (O : Oracles) (w : Which) (inn : String) (s : Schema) (path : String)
    (vis : List String) (h : noOverlap w s path = true) :
    ∃ r, (walk { exactVisited := false, suffixHeuristic := true } J w O inn s path vis).1 = some r
      ∧ ∀ m, (m ∈ reportedOf w r ↔ Exp J O w inn s path m) := by
  rw [C09_heuristic_partial J O w inn s path h]
  exact walk_mem J O w inn s path vis

/-- **The code as it is.** With both halves of the visited test in place (exact membership in the visited set and the suffix
    heuristic), the traversal is the repaired one — and hence reports exactly what the specification asks — on every schema,
    path and visited set where the bookkeeping is unambiguous (`Unambiguous`, decidable): no walked path triggers the
    heuristic, no two walked locations render to the same dotted path, none was visited before. What lies outside is the
    listed finding, with a witness for each half (`C09_witness_suffix`, `C09_witness_exact_collision`). -/
theorem C09_asIs (J : Judges) (O : Oracles) (w : Which) (inn : String) (s : Schema) (path : String) (vis : List String)
    (h : Unambiguous w s path vis) :
    walk DCfg.asIs J w O inn s path vis = walk DCfg.repaired J w O inn s path vis
    ∧ ∃ r, (walk DCfg.asIs J w O inn s path vis).1 = some r ∧ ∀ m, (m ∈ reportedOf w r ↔ Exp J O w inn s path m) := by
  have e := walk_unambiguous J O w inn DCfg.asIs s path vis h
  refine ⟨e, ?_⟩
  rw [e]
  exact walk_mem J O w inn s path vis

/-- defaults are errors, examples are warnings: a rejected example never lands in the walker's errors -/
theorem C09_examples_are_warnings (J : Judges) (O : Oracles) (inn : String) (s : Schema) (path : String) (vis : List String) (m : Msg) :
    ∃ r, (walk DCfg.repaired J .exmp O inn s path vis).1 = some r ∧ (m ∈ r.warnings ↔ Exp J O .exmp inn s path m) := by
  obtain ⟨r, hr, hm⟩ := walk_mem J O .exmp inn s path vis
  exact ⟨r, hr, hm m⟩

/-! ### from the walker to the stages -/

/-- **Definitions**: with the repaired traversal the stage reports, for the definitions, exactly what the
    specification asks for some definition walked under `definitions.<name>` — for any number of
    definitions, any names, the visited set shared across them notwithstanding -/
theorem C09_definitions (J : Judges) (O : Oracles) (w : Which) (defs : List (String × Schema)) (m : Msg) :
    m ∈ reportedOf w (defsStage DCfg.repaired J w O defs {} [])
      ↔ ∃ d ∈ defs, Exp J O w "body" d.2 ("definitions." ++ d.1) m := by
  rw [defsStage_mem]
  simp [not_mem_reportedOf_empty]

theorem hasEW_of_reported (w : Which) (r : Res) (m : Msg) (h : m ∈ reportedOf w r) : hasErrorsOrWarnings (some r) = true := by
  cases w
  · simp only [reportedOf] at h
    simp only [hasErrorsOrWarnings, Bool.or_eq_true, Bool.not_eq_true', List.isEmpty_eq_false_iff]
    exact Or.inl (List.ne_nil_of_mem h)
  · simp only [reportedOf] at h
    simp only [hasErrorsOrWarnings, Bool.or_eq_true, Bool.not_eq_true', List.isEmpty_eq_false_iff]
    exact Or.inr (List.ne_nil_of_mem h)

/-- **Body parameters, completeness**: whatever the specification asks for the parameter's schema is reported -/
theorem C09_body_param_reported (J : Judges) (O : Oracles) (w : Which) (res : Res) (p : Param) (s : Schema) (hs : p.schema = some s)
    (m : Msg) (h : Exp J O w p.loc s p.name m) : m ∈ reportedOf w (paramSchema DCfg.repaired J w O res p) := by
  rw [paramSchema_mem J O w res p s hs]
  refine Or.inr ⟨?_, Or.inr h⟩
  exact hasEW_of_reported w _ m (((walked_spec J O w p.loc s p.name []).2 m).mpr h)

/-- **Body parameters, soundness**: nothing else is reported but the wrapper message -/
theorem C09_body_param_only (J : Judges) (O : Oracles) (w : Which) (p : Param) (s : Schema) (hs : p.schema = some s)
    (m : Msg) (h : m ∈ reportedOf w (paramSchema DCfg.repaired J w O {} p)) :
    m = mkMsg (kindName w "Param") [p.name, p.loc] ∨ Exp J O w p.loc s p.name m := by
  rw [paramSchema_mem J O w {} p s hs] at h
  rcases h with h | ⟨_, h⟩
  · exact absurd h (not_mem_reportedOf_empty w m)
  · exact h

/-- **Response schemas**, both directions -/
theorem C09_response_reported (J : Judges) (O : Oracles) (w : Which) (o : Op) (r : Response) (res : Res) (s : Schema)
    (hs : r.schema = some s) (m : Msg) (h : Exp J O w "response" s r.code m) :
    m ∈ reportedOf w (respSchema DCfg.repaired J w O o r res) := by
  rw [respSchema_mem J O w o r res s hs]
  refine Or.inr ⟨?_, Or.inr h⟩
  exact hasEW_of_reported w _ m (((walked_spec J O w "response" s r.code []).2 m).mpr h)

theorem C09_response_only (J : Judges) (O : Oracles) (w : Which) (o : Op) (r : Response) (s : Schema)
    (hs : r.schema = some s) (m : Msg) (h : m ∈ reportedOf w (respSchema DCfg.repaired J w O o r {})) :
    m = mkMsg (kindName w "Response") [o.id, responseName r] ∨ Exp J O w "response" s r.code m := by
  rw [respSchema_mem J O w o r {} s hs] at h
  rcases h with h | ⟨_, h⟩
  · exact absurd h (not_mem_reportedOf_empty w m)
  · exact h

/-! ### witnesses -/

def O0 : Oracles :=
  { re := fun _ _ => some false, fmtKnown := fun _ => false, fmt := fun _ _ => false,
    isIntTol := fun n => n.isInt, mulOfTol := fun n m => (n / m).isInt }

/-- a judge that rejects every value, naming the location -/
def Jreject : Judges :=
  { schema := fun _ path _ => { errors := [{ code := 601, name := path, tag := "rejected" }] },
    param := fun _ _ => {}, header := fun _ _ => {}, items := fun _ _ _ _ _ => {} }

def intDefault : Schema := .mk { types := ["integer"], default := some (.str "bad") } none [] none [] [] none [] [] [] [] none
def defA : Schema := .mk { types := ["object"] } none [] none [("a", intDefault), ("b", intDefault)] [] none [] [] [] [] none

def namesOf (r : Option Res) : List String := match r with | some x => x.errors.map (·.name) | none => []

/-- property `a` of definition `a`: the code as it is never judges it (its path `definitions.a.a`
    ends in what its parent path ends in); the repaired traversal does -/
theorem C09_witness_suffix :
    namesOf (walk DCfg.asIs Jreject .dflt O0 "body" defA "definitions.a" []).1 = ["definitions.a.b.default"]
    ∧ namesOf (walk DCfg.repaired Jreject .dflt O0 "body" defA "definitions.a" []).1
        = ["definitions.a.a.default", "definitions.a.b.default"] := by decide

def defColl : Schema :=
  .mk { types := ["object"], addProps := .schema } none [] none [("additionalProperties", Schema.empty)] [] (some intDefault) [] [] [] [] none

/-- a property *named* `additionalProperties` next to a schema-valued additionalProperties: both
    render to the same path, the second is taken for visited and its default is never judged
    (exact membership, not the heuristic) -/
theorem C09_witness_exact_collision :
    namesOf (walk { exactVisited := true, suffixHeuristic := false } Jreject .dflt O0 "body" defColl "definitions.D" []).1 = []
    ∧ namesOf (walk DCfg.repaired Jreject .dflt O0 "body" defColl "definitions.D" []).1
        = ["definitions.D.additionalProperties.default"] := by decide

/-! ### non-vacuity -/
example : Unambiguous .dflt defA "definitions.Pet" [] := by
  refine ⟨by decide, by decide, by decide⟩
/-- the two witnesses are outside: one path overlaps its own suffix, two locations collide -/
example : ¬ Unambiguous .dflt defA "definitions.a" [] := fun h => absurd h.1 (by decide)
example : ¬ Unambiguous .dflt defColl "definitions.D" [] := fun h => absurd h.2.1 (by decide)
example : noOverlap .dflt defA "definitions.Pet" = true := by decide
example : noOverlap .dflt defA "definitions.a" = false := by decide

/-! ### through the pipeline: the value stages are not gated on each other

`(*SpecValidator).Validate` stops early at three points only, all of them *before* the default stage. Once a run gets past the
third one — in the default mode that means: no stage before found an error — the default stage's errors and the example
stage's warnings are both in the result, whatever the other one found. -/

/-- the run reaches the value stages: stopping was not asked for, or nothing before them failed -/
def ReachesValueStages (cont : Bool) (s : Stages) : Prop :=
  cont = true ∨ (mergeAll ((({} : Res).mergeOne s.schemaPass).mergeOne s.refsValid) (s.middle cont)).errors = []

theorem C09_value_stages_both_reported (cont : Bool) (s : Stages) (h : ReachesValueStages cont s) (m : Msg) :
    (m ∈ s.defaults.errors → m ∈ (runStages cont s).errors)
    ∧ (m ∈ s.examples.warnings → m ∈ (runStages cont s).warnings) := by
  have hlate : runStages cont s
      = mergeAll (mergeAll ((({} : Res).mergeOne s.schemaPass).mergeOne s.refsValid) (s.middle cont)) s.late := by
    rcases h with h | h
    · subst h; simp [runStages]
    · cases cont
      · have h3 := h
        have h2 : ((({} : Res).mergeOne s.schemaPass).mergeOne s.refsValid).errors = [] := by
          apply List.eq_nil_iff_forall_not_mem.mpr
          intro x hx
          have : x ∈ (mergeAll ((({} : Res).mergeOne s.schemaPass).mergeOne s.refsValid) (s.middle false)).errors :=
            (mem_mergeAll_errors _ _ _).mpr (Or.inl hx)
          rw [h3] at this; cases this
        have h1 : (({} : Res).mergeOne s.schemaPass).errors = [] := by
          apply List.eq_nil_iff_forall_not_mem.mpr
          intro x hx
          have : x ∈ ((({} : Res).mergeOne s.schemaPass).mergeOne s.refsValid).errors :=
            (mem_mergeOne_errors _ _ _).mpr (Or.inl hx)
          rw [h2] at this; cases this
        simp [runStages, h1, h2, h3]
      · simp [runStages]
  rw [hlate]
  constructor
  · intro hm
    exact (mem_mergeAll_errors _ _ _).mpr (Or.inr ⟨s.defaults, by simp [Stages.late], hm⟩)
  · intro hm
    exact (mem_mergeAll_warnings _ _ _).mpr (Or.inr ⟨s.examples, by simp [Stages.late], hm⟩)

/-- non-vacuity: a bad default and a bad example in a document that is otherwise clean, default mode -/
example : ReachesValueStages false { defaults := { errors := [mkMsg "d" []] }, examples := { warnings := [mkMsg "e" []] } } :=
  Or.inr (by decide)

end VM.C09
