/-
  C10 — spec validation is deterministic, monotone, and keeps warnings apart.
  Property theorems; helper lemmas in VM/Proofs/PipelineProof.lean.
-/
import VM.Proofs.PipelineProof
import VM.Impl.SpecRules
import VM.Generated.SpecFacts
import VM.Impl.SpecModel
namespace VM.C10
open VM Sw

/-! ### T1: the pipeline model is the pipeline of the source; no early exit from a map range -/

/-- the order of merges and early returns that `runStages` encodes -/
def expectedPipeline : List String :=
  ["errs.Merge:schv.Validate(obj)", "return-if:!s.Options.ContinueOnErrors && errs.HasErrors()",
   "errs.Merge:s.validateReferencesValid()", "return-if:!s.Options.ContinueOnErrors && errs.HasErrors()",
   "errs.Merge:s.validateDuplicateOperationIDs()", "errs.Merge:s.validateDuplicatePropertyNames()",
   "errs.Merge:s.validateParameters()", "errs.Merge:s.validateItems()", "errs.Merge:s.validateRequiredDefinitions()",
   "return-if:!s.Options.ContinueOnErrors && errs.HasErrors()",
   "errs.Merge:df.Validate()", "errs.Merge:ex.Validate()", "errs.Merge:s.validateNonEmptyPathParamNames()",
   "errs.Merge:s.validateReferenced()", "return"]

theorem pipeline_as_modelled : Generated.pipeline = expectedPipeline := by decide

theorem deferred_as_modelled :
    Generated.pipelineDeferred = ["errs.MergeAsWarnings(warnings)", "warnings.AddErrors(errs.Warnings...)"] := by decide

/-- every range loop of the spec-validation files that can be left early ranges over a slice
    (sorted names, parameters, allOf members …), never over a map: what a stop-early run reports
    does not depend on Go's map order -/
theorem exit_ranges_over_slices : Generated.exitRanges.all (fun e => e.cls == "slice") = true := by decide

/-- the extractor still sees the loops the three `fix:` commits sorted -/
theorem sorted_loops_seen :
    (Generated.exitRanges.filter fun e => e.expr == "names").length = 2 := by decide

/-! ### the pipeline: monotone in continue-on-errors, warnings apart -/

theorem mem_runStages_cont (s : Stages) (m : Msg) :
    m ∈ (runStages true s).errors ↔
      m ∈ s.schemaPass.errors ∨ m ∈ s.refsValid.errors ∨ (∃ o ∈ s.middle true, m ∈ o.errors) ∨ (∃ o ∈ s.late, m ∈ o.errors) := by
  simp only [runStages, Bool.not_true, Bool.false_and, Bool.false_eq_true, ↓reduceIte]
  rw [mem_mergeAll_errors, mem_mergeAll_errors, mem_mergeOne_errors, mem_mergeOne_errors]
  simp [or_assoc]

theorem mem_runStages_stop (s : Stages) (m : Msg) (h : m ∈ (runStages false s).errors) :
    m ∈ s.schemaPass.errors ∨ m ∈ s.refsValid.errors ∨ (∃ o ∈ s.middle false, m ∈ o.errors) ∨ (∃ o ∈ s.late, m ∈ o.errors) := by
  unfold runStages at h
  simp only [Bool.not_false, Bool.true_and] at h
  split at h
  · rw [mem_mergeOne_errors] at h; simp at h; exact Or.inl h
  · split at h
    · rw [mem_mergeOne_errors, mem_mergeOne_errors] at h; simp at h
      rcases h with h | h
      · exact Or.inl h
      · exact Or.inr (Or.inl h)
    · split at h
      · rw [mem_mergeAll_errors, mem_mergeOne_errors, mem_mergeOne_errors] at h; simp at h
        rcases h with (h | h) | h
        · exact Or.inl h
        · exact Or.inr (Or.inl h)
        · exact Or.inr (Or.inr (Or.inl h))
      · rw [mem_mergeAll_errors, mem_mergeAll_errors, mem_mergeOne_errors, mem_mergeOne_errors] at h; simp at h
        rcases h with ((h | h) | h) | h
        · exact Or.inl h
        · exact Or.inr (Or.inl h)
        · exact Or.inr (Or.inr (Or.inl h))
        · exact Or.inr (Or.inr (Or.inr h))

/-- **Monotone.** Every error reported when stopping early is also reported with
    continue-on-errors — for any stage results, provided the one stage that stops early by
    itself (`validateRequiredDefinitions`) reports, when stopping, a subset of what it reports
    when continuing (`requiredDefs_stop_subset` below shows that for the model of that loop). -/
theorem C10_monotone (s : Stages)
    (hreq : ∀ m ∈ (s.requiredDefs false).errors, m ∈ (s.requiredDefs true).errors) :
    ∀ m ∈ (runStages false s).errors, m ∈ (runStages true s).errors := by
  intro m hm
  rw [mem_runStages_cont]
  rcases mem_runStages_stop s m hm with h | h | h | h
  · exact Or.inl h
  · exact Or.inr (Or.inl h)
  · refine Or.inr (Or.inr (Or.inl ?_))
    obtain ⟨o, ho, hmo⟩ := h
    simp only [Stages.middle, List.mem_cons, List.not_mem_nil, or_false] at ho ⊢
    rcases ho with rfl | rfl | rfl | rfl | rfl
    · exact ⟨_, Or.inl rfl, hmo⟩
    · exact ⟨_, Or.inr (Or.inl rfl), hmo⟩
    · exact ⟨_, Or.inr (Or.inr (Or.inl rfl)), hmo⟩
    · exact ⟨_, Or.inr (Or.inr (Or.inr (Or.inl rfl))), hmo⟩
    · exact ⟨_, Or.inr (Or.inr (Or.inr (Or.inr rfl))), hreq m hmo⟩
  · exact Or.inr (Or.inr (Or.inr h))

/-- the verdict is "no errors": warnings play no part in it -/
theorem C10_verdict_is_no_errors (cont : Bool) (s : Stages) :
    isValid (some (specValidate cont s).1) = (specValidate cont s).1.errors.isEmpty := rfl

def dropW (r : Res) : Res := { r with warnings := [] }

def _root_.VM.Sw.Stages.dropWarnings (s : Stages) : Stages :=
  { schemaPass := dropW s.schemaPass, refsValid := dropW s.refsValid, dupIds := dropW s.dupIds,
    dupProps := dropW s.dupProps, params := dropW s.params, items := dropW s.items,
    requiredDefs := fun c => dropW (s.requiredDefs c), defaults := dropW s.defaults,
    examples := dropW s.examples, pathNames := dropW s.pathNames, referenced := dropW s.referenced }

theorem mergeOne_errors_eq (r r' o o' : Res) (h1 : r.errors = r'.errors) (h2 : o.errors = o'.errors) :
    (r.mergeOne o).errors = (r'.mergeOne o').errors := by
  simp [Res.mergeOne, h1, h2]

theorem mergeAll_errors_eq (r r' : Res) (os : List Res) (h1 : r.errors = r'.errors) :
    (mergeAll r os).errors = (mergeAll r' (os.map dropW)).errors := by
  induction os generalizing r r' with
  | nil => simpa [mergeAll] using h1
  | cons o os ih =>
    simp only [mergeAll, List.foldl_cons, List.map_cons] at ih ⊢
    exact ih _ _ (mergeOne_errors_eq r r' o (dropW o) h1 rfl)

/-- **Warnings alone never make a document invalid.** The errors `Validate` ends with — hence
    the verdict and every early return — are the same when every warning of every stage is
    removed. -/
theorem C10_warnings_never_invalidate (cont : Bool) (s : Stages) :
    (specValidate cont s).1.errors = (specValidate cont s.dropWarnings).1.errors := by
  have e1 : (Res.mergeOne {} s.schemaPass).errors = (Res.mergeOne {} (dropW s.schemaPass)).errors :=
    mergeOne_errors_eq _ _ _ _ rfl rfl
  have e2 : ((Res.mergeOne {} s.schemaPass).mergeOne s.refsValid).errors
      = ((Res.mergeOne {} (dropW s.schemaPass)).mergeOne (dropW s.refsValid)).errors :=
    mergeOne_errors_eq _ _ _ _ e1 rfl
  have e3 := mergeAll_errors_eq _ _ (s.middle cont) e2
  have e4 := mergeAll_errors_eq _ _ s.late e3
  have hm : (s.middle cont).map dropW = s.dropWarnings.middle cont := rfl
  have hl : s.late.map dropW = s.dropWarnings.late := rfl
  rw [hm] at e3 e4
  rw [hl] at e4
  simp only [specValidate, Res.mergeAsWarningsOne, runStages]
  have d1 : s.dropWarnings.schemaPass = dropW s.schemaPass := rfl
  have d2 : s.dropWarnings.refsValid = dropW s.refsValid := rfl
  rw [d1, d2, ← e1, ← e2, ← e3]
  split
  · exact e1
  · split
    · exact e2
    · split
      · exact e3
      · exact e4

/-- **Warnings apart.** The separately returned result holds, as its errors, exactly the
    warnings attached to the main result (same messages, same order) and nothing else. -/
theorem C10_returned_warnings_eq (cont : Bool) (s : Stages) :
    (specValidate cont s).2.errors = (specValidate cont s).1.warnings
      ∧ (specValidate cont s).2.warnings = [] := by
  have hnd := (runStages_nodup cont s).2
  simp only [specValidate, Res.mergeAsWarningsOne, Res.addErrors, List.map_nil, addMsgs, and_true]
  exact addMsgs_nil_of_nodup _ hnd

/-- no message is reported twice -/
theorem C10_no_duplicates (cont : Bool) (s : Stages) :
    (specValidate cont s).1.errors.Nodup ∧ (specValidate cont s).1.warnings.Nodup := by
  have h := runStages_nodup cont s
  simpa [specValidate, Res.mergeAsWarningsOne, addMsgs] using h

/-! ### the rules: the reported set does not depend on the order Go ranges over its maps -/

/-- `validateRequiredDefinitions`, continue-on-errors: any order of the definitions -/
theorem requiredDefs_perm (O : Oracles) (defs defs' : List (String × Schema)) (h : defs.Perm defs') (m : Msg) :
    m ∈ requiredDefinitionErrsOf O defs ↔ m ∈ requiredDefinitionErrsOf O defs' := by
  simp only [requiredDefinitionErrsOf, List.mem_flatMap]
  constructor
  · rintro ⟨ds, hds, hm⟩; exact ⟨ds, h.mem_iff.mp hds, hm⟩
  · rintro ⟨ds, hds, hm⟩; exact ⟨ds, h.mem_iff.mpr hds, hm⟩

theorem requiredNamesStop_subset (O : Oracles) (d : String) (s : Schema) (names : List String) (m : Msg)
    (hm : m ∈ (requiredNamesStop O d s names).1) : ∃ pn ∈ names, m ∈ requiredPropErrs O pn d 64 s := by
  induction names with
  | nil => simp [requiredNamesStop] at hm
  | cons pn rest ih =>
    simp only [requiredNamesStop] at hm
    split at hm
    · obtain ⟨p, hp, hmp⟩ := ih hm; exact ⟨p, List.mem_cons_of_mem _ hp, hmp⟩
    · exact ⟨pn, List.mem_cons_self, hm⟩

/-- stopping early reports a subset of what continuing reports, whatever the order -/
theorem requiredDefs_stop_subset (O : Oracles) (defs : List (String × Schema)) (m : Msg)
    (hm : m ∈ requiredDefinitionErrsStop O defs) : m ∈ requiredDefinitionErrsOf O defs := by
  induction defs with
  | nil => simp [requiredDefinitionErrsStop] at hm
  | cons ds rest ih =>
    simp only [requiredDefinitionErrsStop] at hm
    simp only [requiredDefinitionErrsOf, List.flatMap_cons, List.mem_append]
    split at hm
    · left
      obtain ⟨pn, hpn, hmp⟩ := requiredNamesStop_subset O ds.1 ds.2 _ m hm
      exact List.mem_flatMap.mpr ⟨pn, hpn, hmp⟩
    · right; exact ih hm

/-- … and for any two orders of the definitions (the order Go ranges in is not the caller's) -/
theorem requiredDefs_stop_subset_perm (O : Oracles) (defs defs' : List (String × Schema)) (h : defs.Perm defs')
    (m : Msg) (hm : m ∈ requiredDefinitionErrsStop O defs) : m ∈ requiredDefinitionErrsOf O defs' :=
  (requiredDefs_perm O defs defs' h m).mp (requiredDefs_stop_subset O defs m hm)

theorem countOf_perm (x : String) (l l' : List String) (h : l.Perm l') : countOf x l = countOf x l' := by
  simp only [countOf]; exact h.count_eq x

/-- duplicate operation ids: any order of the operations -/
theorem dupOperationIDs_perm (v v' : View) (h : v.ops.Perm v'.ops) (m : Msg) :
    m ∈ dupOperationIDs v ↔ m ∈ dupOperationIDs v' := by
  have hids : ((v.ops.map effId).filter (· != "")).Perm ((v'.ops.map effId).filter (· != "")) := (h.map _).filter _
  simp only [dupOperationIDs, List.mem_filterMap]
  constructor
  · rintro ⟨k, hk, hm⟩
    refine ⟨k, ?_, ?_⟩
    · have : k ∈ (v.ops.map effId).filter (· != "") := by simpa using hk
      simpa using hids.mem_iff.mp this
    · rw [← countOf_perm k _ _ hids]; exact hm
  · rintro ⟨k, hk, hm⟩
    refine ⟨k, ?_, ?_⟩
    · have : k ∈ (v'.ops.map effId).filter (· != "") := by simpa using hk
      simpa using hids.mem_iff.mpr this
    · rw [countOf_perm k _ _ hids]; exact hm

/-- arrays-declare-items: any order of the operations -/
theorem itemsErrs_perm (O : Oracles) (defs : String → Option Schema) (v v' : View) (h : v.ops.Perm v'.ops) (m : Msg) :
    m ∈ itemsErrs O defs v ↔ m ∈ itemsErrs O defs v' := by
  simp only [itemsErrs, List.mem_flatMap]
  constructor
  · rintro ⟨o, ho, hm⟩; exact ⟨o, h.mem_iff.mp ho, hm⟩
  · rintro ⟨o, ho, hm⟩; exact ⟨o, h.mem_iff.mpr ho, hm⟩

/-- parameter rules without the path-uniqueness option: any order of the operations -/
theorem parameterErrs_perm (O : Oracles) (v v' : View) (h : v.ops.Perm v'.ops) (hs : v.strict = false) (hs' : v'.strict = false)
    (m : Msg) : m ∈ parameterErrs O v ↔ m ∈ parameterErrs O v' := by
  simp only [parameterErrs, hs, hs', Bool.false_eq_true, ↓reduceIte, List.nil_append, List.mem_flatMap]
  constructor
  · rintro ⟨o, ho, hm⟩; exact ⟨o, h.mem_iff.mp ho, hm⟩
  · rintro ⟨o, ho, hm⟩; exact ⟨o, h.mem_iff.mpr ho, hm⟩

/-- empty placeholders: any order of the path keys -/
theorem pathNameErrs_perm (v v' : View) (h : v.pathKeys.Perm v'.pathKeys) (h1 : v.hasPaths = v'.hasPaths)
    (h2 : v.hasPathItems = v'.hasPathItems) (m : Msg) : m ∈ pathNameErrs v ↔ m ∈ pathNameErrs v' := by
  simp only [pathNameErrs, h1, h2]
  split
  · rfl
  · split
    · rfl
    · simp only [List.mem_filterMap]
      constructor
      · rintro ⟨k, hk, hm⟩; exact ⟨k, h.mem_iff.mp hk, hm⟩
      · rintro ⟨k, hk, hm⟩; exact ⟨k, h.mem_iff.mpr hk, hm⟩

/-! ### witnesses: where the order does show -/

/-! ### the model of the whole of `Validate` -/

/-- **Monotone, for the whole model**: every error `Validate` reports when it stops at the first failing group is reported
    when it continues — for every raw document, view, regexp engine and format registry (no hypothesis left: the one stage
    that stops by itself is covered by `requiredDefs_stop_subset`). -/
theorem C10_whole_model_monotone (O : Oracles) (raw : JVal) (v0 v : View) :
    ∀ m ∈ (specModel false O raw v0 v).1.errors, m ∈ (specModel true O raw v0 v).1.errors := by
  have h := C10_monotone (modelStages O raw v0 v) (by
    intro m hm
    simp only [modelStages, msgsRes, Bool.false_eq_true, ↓reduceIte] at hm ⊢
    exact requiredDefs_stop_subset O v.defs m hm)
  exact h

/-- the separately returned warnings of the whole model are the warnings of its main result -/
theorem C10_whole_model_warnings (cont : Bool) (O : Oracles) (raw : JVal) (v0 v : View) :
    (specModel cont O raw v0 v).2.errors = (specModel cont O raw v0 v).1.warnings :=
  (C10_returned_warnings_eq cont (modelStages O raw v0 v)).1

def O0 : Oracles :=
  { re := fun _ _ => some false, fmtKnown := fun _ => false, fmt := fun _ _ => false,
    isIntTol := fun n => n.isInt, mulOfTol := fun n m => (n / m).isInt }

def reqSchema (name : String) : Schema := .mk { required := [name] } none [] none [] [] none [] [] [] [] none

/-- stopping early, two definitions each with an undefined required property: which one is
    reported depends on the order Go ranges over the definitions map -/
theorem C10_witness_required_break :
    requiredDefinitionErrsStop O0 [("A", reqSchema "x"), ("B", reqSchema "y")]
      ≠ requiredDefinitionErrsStop O0 [("B", reqSchema "y"), ("A", reqSchema "x")] := by decide

def opAt (p : String) : Op := { method := "GET", path := p }

/-- with the path-uniqueness option and three paths that overlap pairwise, the reported pairs
    depend on which path Go meets first -/
theorem C10_witness_overlap_order :
    (overlapErrs [opAt "/a/{x}", opAt "/a/{y}", opAt "/a/{z}"]).contains (mkMsg "pathOverlap" ["/a/{y}", "/a/{z}"]) = false
    ∧ (overlapErrs [opAt "/a/{y}", opAt "/a/{z}", opAt "/a/{x}"]).contains (mkMsg "pathOverlap" ["/a/{y}", "/a/{z}"]) = true := by
  decide

/-! ### non-vacuity -/
example : (requiredDefinitionErrsOf O0 [("A", reqSchema "x")]) ≠ [] := by decide
example : ∃ s : Stages, (runStages false s).errors ≠ (runStages true s).errors :=
  ⟨{ schemaPass := { errors := [mkMsg "a" []] }, dupIds := { errors := [mkMsg "b" []] } }, by decide⟩

end VM.C10
