/-
  C11 — a panic during one validation does not corrupt later validations.
-/
import VM.Properties.C04
namespace VM.C11
open VM Generated Expect Protocol

/-- no object is ever redeemed more often than it was borrowed, whatever the validator tree, the
    slot script and the point where the panic is injected (slots released before the call) -/
theorem no_double_redeem (x : Pos) (p : Pos) (v : VT) (k : Option Nat) :
    cR x (run true p v k).evs ≤ cB x (borrowAll p v) + cB x (run true p v k).evs :=
  Nat.le_of_eq (run_bal x p v k)

/-- T1: that is the protocol the source follows now -/
theorem source_releases_slots_first :
    slotOwners.all (fun f => redeemProtocol.any (fun r => r.func == f && r.nilBeforeCall && r.calls > 0)) = true :=
  C04.slots_released_before_call

/-- the pinned snapshot released the slot only after the child returned: a panic inside a called
    child made the parent redeem the (already self-redeemed) child again -/
def t0 : VT := .mk [(.call, .mk [] [])] []
theorem witness_asIs_double_redeem :
    cR [0] (run false [] t0 (some 1)).evs = 2 ∧ cB [0] (borrowAll [] t0) = 1
    ∧ cR [0] (run true [] t0 (some 1)).evs = 1 := by decide

/-- later validations are then what they are in a fresh process: a leaked object is simply never
    reused, and everything else is `C04.recycling_invisible`. -/
theorem later_outcomes_fresh {H : Type} [DecidableEq H] {R : Type} (later : Pool.Prog H R) (chooser : List (Option Nat))
    (L : Pool.Live H) (σ : Pool.PState H) (τ : H → Pool.Obj) (hd : Pool.Disciplined later L) (hs : Pool.Sim L σ τ) :
    Pool.runPool later chooser σ = Pool.runFresh later τ :=
  C04.recycling_invisible later chooser L σ τ hd hs

end VM.C11
