/-
  C12 — validation treats its inputs as read-only.
  The model is a pure function, so it cannot express a write to its argument; the property is
  carried by (T1) the regenerated table of write sites with their targets and (T2) deep snapshots
  before and after every call. The theorems below are the obligations on that table: a new
  index/deref/field write through a parameter or an alias of the instance, or a new in-place
  expansion, makes them fail.
-/
import VM.Expect
namespace VM.C12
open VM Generated Expect

/-- every write site found in the non-test sources targets memory the validator owns, or is
    one of the documented in-place reference expansions -/
theorem C12_no_input_writes :
    inputWrites.all (fun w => ownedTarget w || documentedExpansion w) = true := by decide

/-- no write at all goes through a parameter or alias that holds the instance -/
theorem C12_instance_never_written :
    inputWrites.all (fun w => w.target != "param-instance" && w.target != "local-instance-alias"
      && w.target != "local-instance-typed") = true := by decide

/-- the scratch copies of property schemas are pool objects, not the caller's map entries
    (object_validator.go:339-357, 401-423) -/
theorem scratch_copy_used :
    (inputWrites.filter (fun w => w.func == "objectValidator.validatePropertiesSchema" && w.expr == "deref *pSchema")).all
      (fun w => w.target == "local-borrowed") = true
    ∧ (inputWrites.filter (fun w => w.func == "objectValidator.validatePatternProperty" && w.expr == "deref *schema")).all
      (fun w => w.target == "local-borrowed") = true := by decide

/-- the default and example stages walk *copies* of the caller's definitions: judging a value builds a schema
    validator, which expands the `$ref` below the schema in place (`documentedExpansion`), and that must not
    happen in the document being validated (fixed defect C12-definition-refs-expanded-in-document) -/
theorem definitions_walked_on_copies :
    definitionWalks.all (fun w => w.2.2) = true
    ∧ (definitionWalks.map (·.1)).contains "defaultValidator.validateDefaultValueValidAgainstSchema" = true
    ∧ (definitionWalks.map (·.1)).contains "exampleValidator.validateExampleValueValidAgainstSchema" = true := by decide

/-- `(*SpecValidator).Validate` builds the Swagger-schema validator over a *copy* of the schema it was constructed with: building
    it expands the schema's `$ref` in place, and on the caller's object (a document's own copy of the Swagger schema) every further
    validation expanded the remaining circular references one level more — the schema grew with each call and, depending on map
    order inside the expander, without bound (fixed defect C07-document-schema-grows-on-revalidation) -/
theorem swagger_schema_validated_on_a_copy :
    (schemaValidatorArgs.filter (fun a => a.1 == "SpecValidator.Validate")) = [("SpecValidator.Validate", "scratchSchema(s.schema)")]
    ∧ (schemaValidatorArgs.filter (fun a => a.1 == "SpecValidator.validateParameters")) = [("SpecValidator.validateParameters", "&paramSchema")] := by
  decide

/-- non-vacuity: the table is not empty and does contain the scratch-copy writes -/
example : inputWrites.length > 20 := by decide
example : (inputWrites.filter (fun w => w.target == "local-borrowed")).length = 2 := by decide

end VM.C12
