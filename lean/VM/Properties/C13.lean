/-
  C13 — numeric verdicts depend on the number, not on the Go type that carries it.

  The theorems are about `VM.Values.native*`, which *call* the definitions regenerated from
  values.go on every run (VM/Generated/Values.lean): a change of `MaximumInt`, `MinimumUint`,
  `MultipleOfInt`, … changes what is proved here.
-/
import VM.Proofs.ValuesProof
namespace VM.C13
open VM Values Generated

/-- T1: every whitelisted helper still has the shape the translator understands -/
theorem translator_complete : untranslated = [] := by decide

/-! #### exact for integral bounds, whatever the carrier -/

theorem native_int_max_exact (n : Nat) (a b : Int) (e : Bool) :
    nativeMax (.int n) (a : Rat) (b : Rat) e = specMax (a : Rat) (b : Rat) e := Values.native_int_max_exact n a b e
theorem native_int_min_exact (n : Nat) (a b : Int) (e : Bool) :
    nativeMin (.int n) (a : Rat) (b : Rat) e = specMin (a : Rat) (b : Rat) e := Values.native_int_min_exact n a b e
theorem native_uint_max_exact (n : Nat) (a : Nat) (b : Int) (e : Bool) :
    nativeMax (.uint n) ((a : Int) : Rat) (b : Rat) e = specMax ((a : Int) : Rat) (b : Rat) e :=
  Values.native_uint_max_exact n a b e
theorem native_uint_min_exact (n : Nat) (a : Nat) (b : Int) (e : Bool) :
    nativeMin (.uint n) ((a : Int) : Rat) (b : Rat) e = specMin ((a : Int) : Rat) (b : Rat) e :=
  Values.native_uint_min_exact n a b e
/-- float carriers: exact for every value and every bound (fractional, negative, huge) -/
theorem native_float_max_exact (n : Nat) (v b : Rat) (e : Bool) :
    nativeMax (.float n) v b e = specMax v b e := Values.native_float_max_exact n v b e
theorem native_float_min_exact (n : Nat) (v b : Rat) (e : Bool) :
    nativeMin (.float n) v b e = specMin v b e := Values.native_float_min_exact n v b e
/-- unsigned kinds, positive integral factor -/
theorem native_uint_mul_exact (n : Nat) (a : Nat) (b : Int) (hb : 0 < b) :
    nativeMulInt (.uint n) ((a : Int) : Rat) (b : Rat) = some (specMul ((a : Int) : Rat) (b : Rat)) :=
  Values.native_uint_mul_exact n a b hb

/-- integer carriers, integral factor: exact divisibility -/
theorem native_int_mul_exact (n : Nat) (a b : Int) :
    nativeMulInt (.int n) (a : Rat) (b : Rat) = some (specMul (a : Rat) (b : Rat)) := Values.native_int_mul_exact n a b

/-- **carrier independence** (partial: integral bounds): the same number gives the same verdict
    through every signed, unsigned and float kind -/
theorem carrier_independent_partial (k1 k2 : NumKind) (a : Nat) (b : Int) (e : Bool) :
    nativeMax k1 ((a : Int) : Rat) (b : Rat) e = nativeMax k2 ((a : Int) : Rat) (b : Rat) e
    ∧ nativeMin k1 ((a : Int) : Rat) (b : Rat) e = nativeMin k2 ((a : Int) : Rat) (b : Rat) e :=
  ⟨Values.carrier_independent_max k1 k2 a b e, Values.carrier_independent_min k1 k2 a b e⟩

/-- … and the same divisibility answer through every signed and unsigned kind, for a positive integral factor -/
theorem carrier_independent_mul_partial (n m : Nat) (a : Nat) (b : Int) (hb : 0 < b) :
    nativeMulInt (.int n) ((a : Int) : Rat) (b : Rat) = nativeMulInt (.uint m) ((a : Int) : Rat) (b : Rat) := by
  rw [native_int_mul_exact n (a : Int) b, native_uint_mul_exact m a b hb]

/-! #### the full statement fails for fractional bounds against integer carriers (known finding):
    the bound is truncated toward zero before the comparison -/

def r52 : Rat := ⟨5, 2, by decide, by decide⟩     -- 2.5
def rm52 : Rat := ⟨-5, 2, by decide, by decide⟩   -- -2.5
def r12 : Rat := ⟨1, 2, by decide, by decide⟩     -- 0.5

/-- `MinimumNativeType(int 2, 2.5)` passes; exact arithmetic rejects (2 < 2.5); a float carrier
    of the same number is rejected -/
theorem witness_fractional_minimum :
    nativeMin (.int 64) 2 r52 false = false ∧ specMin 2 r52 false = true
      ∧ nativeMin (.float 64) 2 r52 false = true := by decide

/-- `MaximumNativeType(int -2, -2.5)` passes; exact arithmetic rejects (-2 > -2.5) -/
theorem witness_fractional_negative_maximum :
    nativeMax (.int 64) (-2) rm52 false = false ∧ specMax (-2) rm52 false = true := by decide

/-- `MultipleOfNativeType(int 3, 0.5)` reports "factor must be positive" (0.5 truncates to 0);
    exact arithmetic says 3 is a multiple of 0.5 -/
theorem witness_fractional_multipleOf :
    nativeMulInt (.int 64) 3 r12 = some .notPositive ∧ specMul 3 r12 = .ok := by decide +kernel

/-! non-vacuity -/
example : nativeMax (.uint 8) (200 : Int) (-1 : Int) false = true := by decide
example : nativeMin (.int 8) (-3 : Int) (-3 : Int) true = true := by decide

end VM.C13
