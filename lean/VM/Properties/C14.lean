/-
  C14 — the exported value helpers implement their textbook definitions for every input.
  (`true` = the helper returns an error.)
-/
import VM.Proofs.HelpersProof
import VM.Proofs.ValuesProof
namespace VM.C14
open VM GoVal Helpers

/-- MinItems / MaxItems compare sizes (definitions regenerated from values.go) -/
theorem minItems_iff (size n : Int) : minItemsErr size n = decide (size < n) := by
  unfold minItemsErr Generated.MinItems; by_cases h : size < n <;> simp [h]
theorem maxItems_iff (size n : Int) : maxItemsErr size n = decide (size > n) := by
  unfold maxItemsErr Generated.MaxItems; by_cases h : size > n <;> simp [h]

/-- Required rejects exactly the zero values (nil included) -/
theorem required_iff_zero (v : GoVal) : requiredErr v = specRequired v := by
  cases v <;> rfl
theorem requiredString_iff (s : List UInt8) : requiredStringErr s = s.isEmpty := rfl
theorem requiredNumber_iff (x : Rat) : requiredNumberErr x = (x == 0) := rfl

/-- ReadOnly rejects exactly the non-zero values, and only in a request context -/
theorem readOnly_iff (op : OpType) (v : GoVal) : readOnlyErr op v = specReadOnly op v := by
  cases op <;> cases v <;> simp [readOnlyErr, specReadOnly, isZero]

/-- Pattern: an invalid pattern is an error, otherwise a search -/
theorem pattern_iff (O : Oracles) (s pat : String) :
    patternErr O s pat = true ↔ (O.re pat s = none ∨ O.re pat s = some false) := by
  unfold patternErr
  cases h : O.re pat s with
  | none => simp
  | some b => cases b <;> simp

/-- FormatOf: unknown names are errors, otherwise the registry decides -/
theorem formatOf_iff (O : Oracles) (f d : String) :
    formatOfErr O f d = true ↔ (O.fmtKnown f = false ∨ O.fmt f d = false) := by
  unfold formatOfErr; cases O.fmtKnown f <;> cases O.fmt f d <;> simp

/-- string lengths count code points: on ASCII text every byte is one -/
theorem runeCountAux_ascii : ∀ (fuel : Nat) (s : List UInt8), s.length ≤ fuel → (∀ b ∈ s, b < 0x80) →
    runeCountAux fuel s = s.length
  | 0, s, hl, _ => by
    have : s = [] := List.eq_nil_of_length_eq_zero (by omega)
    simp [this, runeCountAux]
  | fuel + 1, [], _, _ => by simp [runeCountAux]
  | fuel + 1, b :: rest, hl, h => by
    have hb : b < 0x80 := h b (List.mem_cons_self ..)
    have := runeCountAux_ascii fuel rest (by simp at hl; omega) (fun x hx => h x (List.mem_cons_of_mem _ hx))
    simp only [runeCountAux, hb, ↓reduceIte, this, List.length_cons]
    omega

theorem minLength_ascii (s : List UInt8) (h : ∀ b ∈ s, b < 0x80) (n : Int) :
    minLengthErr s n = decide ((s.length : Int) < n) := by
  unfold minLengthErr runeCount
  rw [runeCountAux_ascii s.length s (Nat.le_refl _) h]

/-- UniqueItems (partial): every duplicate it reports is a duplicate under value equality -/
theorem uniqueItems_sound (v : GoVal) (h : uniqueItemsErr v = true) : specUniqueItems v = true := by
  cases v <;> simp [uniqueItemsErr] at h
  exact hasDeepDup_sound _ h

/-- two scalars of the same Go type -/
def sameScalarType : GoVal → GoVal → Bool
  | .bool _, .bool _ => true
  | .int b1 _, .int b2 _ => b1 == b2
  | .uint b1 _, .uint b2 _ => b1 == b2
  | .float b1 _, .float b2 _ => b1 == b2
  | .str _, .str _ => true
  | .named t1 _, .named t2 _ => t1 == t2
  | _, _ => false

theorem int_beq_cast (a b : Int) : (a == b) = ((a : Rat) == (b : Rat)) := by
  by_cases h : a = b
  · subst h; simp
  · have : ¬ ((a : Rat) = (b : Rat)) := fun e => h (Rat.intCast_inj.mp e)
    rw [beq_eq_false_iff_ne.mpr h, beq_eq_false_iff_ne.mpr this]

theorem deepEq_eq_valEq_sameType (x y : GoVal) (h : sameScalarType x y = true) : deepEq x y = valEq x y := by
  cases x <;> cases y <;> simp_all [sameScalarType, deepEq, valEq, numVal]
  · exact int_beq_cast _ _
  · rename_i v1 _ v2
    rw [← int_beq_cast]
    by_cases h : v1 = v2
    · subst h; simp
    · have : ¬ ((v1 : Int) = (v2 : Int)) := fun e => h (by exact_mod_cast e)
      rw [beq_eq_false_iff_ne.mpr h, beq_eq_false_iff_ne.mpr this]

theorem any_congr_mem' {α : Type} {l : List α} {p q : α → Bool} (h : ∀ a ∈ l, p a = q a) : l.any p = l.any q := by
  induction l with
  | nil => rfl
  | cons a l ih =>
    simp only [List.any_cons, h a List.mem_cons_self, ih (fun b hb => h b (List.mem_cons_of_mem _ hb))]

theorem hasDeepDup_exact (xs : List GoVal) (h : ∀ x ∈ xs, ∀ y ∈ xs, sameScalarType x y = true) : hasDeepDup xs = specHasDup xs := by
  induction xs with
  | nil => rfl
  | cons x xs ih =>
    simp only [hasDeepDup, specHasDup]
    rw [ih (fun a ha b hb => h a (List.mem_cons_of_mem _ ha) b (List.mem_cons_of_mem _ hb))]
    congr 1
    exact any_congr_mem' (fun y hy => deepEq_eq_valEq_sameType x y (h x List.mem_cons_self y (List.mem_cons_of_mem _ hy)))

/-- **UniqueItems is exact on slices of scalars of one Go type** (strings, booleans, one integer or float width): it reports a
    duplicate exactly when two elements are equal. The open deviation lies entirely in comparing values of *different* Go types. -/
theorem uniqueItems_exact_homogeneous (e : String) (n : Bool) (xs : List GoVal)
    (h : ∀ x ∈ xs, ∀ y ∈ xs, sameScalarType x y = true) :
    uniqueItemsErr (.slice e n xs) = specUniqueItems (.slice e n xs) := by
  simp only [uniqueItemsErr, specUniqueItems]
  exact hasDeepDup_exact xs h

/-- …but it misses numerically equal numbers of different Go types (known finding) -/
theorem witness_uniqueItems_numeric_types :
    uniqueItemsErr (.slice "interface" false [.int 64 1, .float 64 1]) = false
    ∧ specUniqueItems (.slice "interface" false [.int 64 1, .float 64 1]) = true := by decide

/-- Enum (partial): a member of the same Go type is always accepted -/
theorem enum_accepts_members (data : GoVal) (es : List GoVal) (e : String) (n cs : Bool)
    (hd : ∃ x ∈ es, deepEq data x = true) (hnn : data.typeTag ≠ "nil") :
    enumErr data (.slice e n es) cs = false := by
  obtain ⟨x, hx, hdx⟩ := hd
  cases data with
  | nil => simp [typeTag] at hnn
  | _ =>
    simp only [enumErr, Bool.not_eq_eq_eq_not, Bool.not_false]
    rw [List.any_eq_true]
    exact ⟨x, hx, by simp [enumMember, hdx]⟩

/-- …but the `reflect.Convert` fallback also accepts values that are *not* equal to any member
    (known finding): 65 is "A", 256 is uint8 0, 2.5 is 2 -/
def r52 : Rat := ⟨5, 2, by decide, by decide⟩
theorem witness_enum_lossy_conversion :
    enumErr (.int 64 65) (.slice "string" false [.str [65]]) true = false
    ∧ specEnum (.int 64 65) (.slice "string" false [.str [65]]) true = true
    ∧ enumErr (.int 64 256) (.slice "uint8" false [.uint 8 0]) true = false
    ∧ enumErr (.float 64 r52) (.slice "uint8" false [.uint 8 2]) true = false := by decide

/-- nil matches a nil member (after the `fix:` commit) and nothing else -/
theorem enum_nil (es : List GoVal) (e : String) (n cs : Bool) :
    enumErr .nil (.slice e n es) cs = !es.any (fun x => match x with | .nil => true | _ => false) := rfl

end VM.C14
