/-
  C15 — pattern matching always uses the expression that was asked for.
-/
import VM.Proofs.RexpProof
import VM.Expect
namespace VM.C15
open VM Generated Rexp

/-- In every state reachable by any schedule of any number of threads asking for any patterns,
    every cached entry is the expression compiled from its own key, and only valid patterns are
    cached. -/
theorem cache_entries_belong (valid : Pat → Bool) (sched : List (Nat × Pat)) :
    CacheOk valid (runSched valid g0 sched).published :=
  (reachable_inv valid sched g0 ⟨by intro k r hm; simp [g0] at hm, fun _ => trivial⟩).1

/-- whatever else is going on, a call returns the expression of the pattern it asked for, or
    reports the pattern invalid exactly when it is -/
theorem returns_requested (valid : Pat → Bool) (sched : List (Nat × Pat)) (t : Nat) (p : Pat)
    (res : Option Pat) (h : (runSched valid g0 sched).th t = .done p res) :
    res = (if valid p then some p else none) :=
  Rexp.returns_requested valid sched t p res h

/-- afterwards, alone: whatever the schedule was, asking the dictionary for a pattern gives that pattern's own expression
    (the after-phase of the correspondence check asks every pattern of a case again once the goroutines are done) -/
theorem afterwards_own_expression (valid : Pat → Bool) (sched : List (Nat × Pat)) (k r : Pat)
    (h : lookup k (runSched valid g0 sched).published = some r) : r = k :=
  ((cache_entries_belong valid sched) k r (lookup_mem h)).1

/-- an invalid pattern is reported, never cached -/
theorem invalid_reported_never_cached (valid : Pat → Bool) (sched : List (Nat × Pat)) (k r : Pat)
    (hm : (k, r) ∈ (runSched valid g0 sched).published) : valid k = true :=
  ((cache_entries_belong valid sched) k r hm).2

/-- once published, an entry is never lost (needs the mutex and the load inside it) -/
theorem entries_never_lost (valid : Pat → Bool) (sched : List (Nat × Pat)) (g : G) (hg : LInv g)
    (k : Pat) (h : lookup k g.published ≠ none) :
    lookup k (runSchedK valid id g sched).published ≠ none :=
  Rexp.entries_never_lost valid id sched g hg k h

theorem initial_lock_invariant : LInv g0 :=
  ⟨fun t h => by simp [g0, holdsLock] at h, fun t r c h => by simp [g0] at h⟩

/-- T1: the source has the shape the model assumes — looks up and compiles the requested pattern,
    inserts under the compiled expression's own source text, loads inside the critical section,
    writes only the fresh map and publishes it -/
theorem rexp_shape_as_modelled :
    rexpShape.lookupKey = "pattern" ∧ rexpShape.compileArg = "pattern"
    ∧ rexpShape.mustLookupKey = "pattern" ∧ rexpShape.mustCompileArg = "pattern"
    ∧ rexpShape.insertKey = "r.String()" ∧ rexpShape.testKey = "r.String()"
    ∧ rexpShape.storeArg = "newCache"
    ∧ rexpShape.lockPresent = true ∧ rexpShape.unlockDeferred = true ∧ rexpShape.loadAfterLock = true
    ∧ rexpShape.onlyFreshWritten = true ∧ rexpShape.copiesOld = true := by decide

/-- T1: `compileRegexp` answers with the dictionary's entry for the requested pattern or with the expression it has just
    compiled from it — there is no other way out — and rexp.go keeps no shared state beside the mutex and the dictionary
    (a second cache, e.g. a "last pattern" memo, is state the model does not have) -/
theorem rexp_no_other_answer :
    rexpReturns = ["r, nil", "nil, err", "r, nil"] ∧ rexpPkgVars = ["cacheMutex", "reDict"] := by decide

/-- a wrong insert key (what a careless edit could produce) breaks it: thread 0 asks for "^a",
    then for "^b", and is handed the expression of "^a" -/
def badKey : Pat → Pat := fun _ => "^b"
theorem witness_wrong_insert_key :
    (match (runSchedK (fun _ => true) badKey g0 (List.replicate 7 (0, "^a") ++ List.replicate 3 (0, "^b"))).th 0 with
     | .done p res => (p, res) | _ => ("", none)) = ("^b", some "^a") := by decide

/-- non-vacuity: two threads racing to insert different patterns both end up published -/
example : ((runSchedK (fun _ => true) id g0
    [(0, "a"), (1, "b"), (0, "a"), (1, "b"), (0, "a"), (1, "b"), (0, "a"), (1, "b"), (0, "a"), (0, "a"), (0, "a"),
     (1, "b"), (1, "b"), (1, "b"), (1, "b")]).published.map Prod.fst) = ["b", "a"] := by decide

end VM.C15
