/-
  C16 — parameter, header and items validators follow Swagger simple-schema semantics.
-/
import VM.Impl.Simple
import VM.Expect
namespace VM.C16
open VM GoVal Simple Generated Expect

/-- T1: the three chains are type → string → format → number → slice → enum, in that order -/
theorem chain_order :
    (validatorOrder.filter (fun c => c.2.1 == "6")).all (fun c => normChain c.2.2 == simpleChain) = true
    ∧ (validatorOrder.filter (fun c => c.2.1 == "6")).length = 3 := by decide

/-- a nil value is not validated -/
theorem nil_not_validated (O : Oracles) (root : Root) (s : SSchema) (p : Bool) :
    validate O root s .nil p = (true, false) := rfl

/-- first-error exit: a type error decides the verdict, whatever the later groups would say -/
theorem type_error_exits (O : Oracles) (p : Bool) (fuel : Nat) (root : Root) (rootFmt : String) (b : SBase)
    (req ae : Bool) (items : Option SSchema) (x : Bool) (t : String) (ht : b.types = [t]) (hne : t ≠ "boolean")
    (hf : b.format = "") (ht0 : t ≠ "") :
    validateAux O p (fuel + 1) root rootFmt (.mk b req ae items) (.bool x) = (false, false) := by
  have h1 : (t == "boolean") = false := by simpa using hne
  have h2 : (t != "") = true := by simpa using ht0
  simp [validateAux, ht, hf, numKindOf, typeErrOther, h1, h2]

/-! witnesses of the open deviations (known findings) -/

def sArrDate : SSchema :=
  .mk { types := ["array"] } false false (some (.mk { types := ["string"], format := "date" } false false none))
def Odate : Oracles :=
  { re := fun _ _ => some false, fmtKnown := fun f => f == "date", fmt := fun _ s => s == "2020-01-01",
    isIntTol := fun n => n.isInt, mulOfTol := fun n m => (n / m).isInt }
def notADate : GoVal := .slice "interface" false [.str "x".toUTF8.toList]

/-- the format of items is only looked at when the parameter/header itself carries a registered
    format: `items: {type: string, format: date}` accepts "x" -/
theorem witness_items_format_ignored :
    (validate Odate .param sArrDate notADate).1 = true ∧ specValid Odate sArrDate notADate = false := by decide +kernel

def sStrDate : SSchema := .mk { types := ["string"], format := "date" } false false none
/-- with a format, a slice passes the type check of a string parameter -/
theorem witness_format_bypasses_type :
    (validate Odate .param sStrDate (.slice "interface" false [])).1 = true
    ∧ specValid Odate sStrDate (.slice "interface" false []) = false := by decide +kernel

def sArrInt : SSchema := .mk { types := ["array"] } false false (some (.mk { types := ["integer"] } false false none))
/-- the pinned snapshot panicked on a nil element; the code as it is now skips it -/
theorem witness_nil_element_fixed :
    (validate Odate .param sArrInt (.slice "interface" false [.nil]) true).2 = true
    ∧ validate Odate .param sArrInt (.slice "interface" false [.nil]) = (true, false) := by decide +kernel

end VM.C16
