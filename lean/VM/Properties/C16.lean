/-
  C16 — parameter, header and items validators follow Swagger simple-schema semantics.
-/
import VM.Impl.Simple
import VM.Proofs.SimpleProof
import VM.Expect
namespace VM.C16
open VM GoVal Simple Generated Expect

/-- T1: the three chains are type → string → format → number → slice → enum, in that order -/
theorem chain_order :
    (validatorOrder.filter (fun c => c.2.1 == "6")).all (fun c => normChain c.2.2 == simpleChain) = true
    ∧ (validatorOrder.filter (fun c => c.2.1 == "6")).length = 3 := by decide

/-- a nil value is not validated -/
theorem nil_not_validated (O : Oracles) (root : Root) (s : SSchema) (p : Bool) :
    validate O root s .nil p = (true, false) := rfl

/-- first-error exit: a type error decides the verdict, whatever the later groups would say -/
theorem type_error_exits (O : Oracles) (p : Bool) (fuel : Nat) (root : Root) (rootFmt : String) (s : SSchema) (v : GoVal)
    (h : typeBad O s.base v = true) :
    validateAux O p (fuel + 1) root rootFmt s v = (false, false) := by
  obtain ⟨b, req, ae, items⟩ := s
  simp only [SSchema.base] at h
  simp [validateAux, h]

/-- **C16, structure**: the chain composes its six slots, and the recursion through `items`, as the simple-schema
    specification composes its constraints — for every nesting depth — whenever the leaf checks agree at every
    (level, value) pair reached (`LeafAgree`: one Boolean equation per pair). -/
theorem C16_chain_composes (O : Oracles) (root : Root) (s : SSchema) (v : GoVal)
    (hA : LeafAgree O s.base.format (s.depth + 1) s v) :
    validate O root s v = (specValid O s v, false) := validate_eq_spec O root s v hA

/-- **C16 on the deviation-free fragment** (strings, booleans, signed and unsigned integers with integral bounds within int64,
    floats under exact float oracles — with a declared `integer` type: integral values and bounds within int64 —, arrays
    of these nested to any depth, no `format`, enum members of the value's own kind): parameter, header and items
    validators accept exactly what the simple-schema specification accepts, and do not panic. Outside this fragment lie
    exactly the listed deviations (C13 fractional bounds / unsigned and float carriers, C14 enum conversions and
    cross-type equality, C16 formats). -/
theorem C16_fragment (O : Oracles) (root : Root) (s : SSchema) (v : GoVal)
    (h0 : O.fmtKnown "" = false) (hroot : s.base.format = "") (hF : Frag O (s.depth + 1) s v) :
    validate O root s v = (specValid O s v, false) := validate_eq_spec_frag O root s v h0 hroot hF

/-- the fragment is inhabited by a two-level case: an array (1-3 unique items) of arrays of bounded integers -/
def sNested : SSchema :=
  .mk { types := ["array"], minItems := some 1, maxItems := some 3 } true false
    (some (.mk { types := ["array"], uniqueItems := false } false false
      (some (.mk { types := ["integer"], minimum := some 0, maximum := some 10, multipleOf := some 2,
                   enum := [.num 2, .num 4, .num 11] } false false none))))
def vNested : GoVal := .slice "interface" false [.slice "interface" false [.int 32 2, .int 64 4], .slice "interface" false []]

example (O : Oracles) : Frag O (sNested.depth + 1) sNested vNested := by
  simp only [sNested, vNested, SSchema.depth, Frag]
  refine ⟨by simp, by simp, by simp, ?_⟩
  intro x hx _
  simp only [List.mem_cons, List.not_mem_nil, or_false] at hx
  rcases hx with rfl | rfl
  · refine ⟨by simp, by simp, by simp, ?_⟩
    intro y hy _
    simp only [List.mem_cons, List.not_mem_nil, or_false] at hy
    have hb0 : IntBound (some (0 : Rat)) := ⟨0, by simp, by decide⟩
    have hb10 : IntBound (some (10 : Rat)) := ⟨10, by simp, by decide⟩
    have hb2 : IntBound (some (2 : Rat)) := ⟨2, by simp, by decide⟩
    rcases hy with rfl | rfl
    · exact ⟨by simp, by decide, hb10, hb0, hb2, by simp⟩
    · exact ⟨by simp, by decide, hb10, hb0, hb2, by simp⟩
  · exact ⟨by simp, by simp, by simp, by simp⟩

/-- … and by what a JSON body delivers: float64 carriers against an `integer` parameter with integral bounds -/
def Oexact : Oracles :=
  { re := fun _ _ => some false, fmtKnown := fun _ => false, fmt := fun _ _ => false,
    isIntTol := fun n => n.isInt, mulOfTol := fun n m => (n / m).isInt }
def sIntParam : SSchema := .mk { types := ["integer"], minimum := some 0, maximum := some 10, multipleOf := some 2 } true false none
example : Frag Oexact (sIntParam.depth + 1) sIntParam (.float 64 4) := by
  simp only [sIntParam, SSchema.depth, Frag]
  have hb0 : IntBound (some (0 : Rat)) := ⟨0, by simp, by decide⟩
  have hb10 : IntBound (some (10 : Rat)) := ⟨10, by simp, by decide⟩
  have hb2 : IntBound (some (2 : Rat)) := ⟨2, by simp, by decide⟩
  refine ⟨by simp, ⟨fun _ => rfl, fun _ _ => rfl⟩, fun _ => ⟨fun _ => by decide, hb10, hb0, hb2⟩⟩

/-! witnesses of the open deviations (known findings) -/

def sArrDate : SSchema :=
  .mk { types := ["array"] } false false (some (.mk { types := ["string"], format := "date" } false false none))
def Odate : Oracles :=
  { re := fun _ _ => some false, fmtKnown := fun f => f == "date", fmt := fun _ s => s == "2020-01-01",
    isIntTol := fun n => n.isInt, mulOfTol := fun n m => (n / m).isInt }
def Odate0 : Oracles := { Odate with fmtKnown := fun f => f == "date" }
def notADate : GoVal := .slice "interface" false [.str "x".toUTF8.toList]

/-- the format of items is only looked at when the parameter/header itself carries a registered
    format: `items: {type: string, format: date}` accepts "x" -/
theorem witness_items_format_ignored :
    (validate Odate .param sArrDate notADate).1 = true ∧ specValid Odate sArrDate notADate = false := by decide +kernel

def sStrDate : SSchema := .mk { types := ["string"], format := "date" } false false none
/-- with a format, a slice passes the type check of a string parameter -/
theorem witness_format_bypasses_type :
    (validate Odate .param sStrDate (.slice "interface" false [])).1 = true
    ∧ specValid Odate sStrDate (.slice "interface" false []) = false := by decide +kernel

def sArrInt : SSchema := .mk { types := ["array"] } false false (some (.mk { types := ["integer"] } false false none))
/-- the pinned snapshot panicked on a nil element; the code as it is now skips it -/
theorem witness_nil_element_fixed :
    (validate Odate .param sArrInt (.slice "interface" false [.nil]) true).2 = true
    ∧ validate Odate .param sArrInt (.slice "interface" false [.nil]) = (true, false) := by decide +kernel

end VM.C16
