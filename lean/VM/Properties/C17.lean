/-
  C17 — every rejection is explained by well-formed, correctly located errors.
-/
import VM.Properties.C01
import VM.Proofs.Located
namespace VM.C17
open VM Impl Spec

/-- the verdict of a result is *defined* as the absence of errors (result.go:421-426) -/
theorem invalid_has_error (r : Res) : isValid (some r) = false ↔ r.errors ≠ [] := by
  simp [isValid]

theorem valid_has_none (r : Res) : isValid (some r) = true ↔ r.errors = [] := by
  simp [isValid]

/-- the one-shot entry point returns nil exactly when the underlying result is valid, and
    otherwise a composite of exactly that result's errors (schema.go:41-54); results never hold
    a message twice (C20.merge_nodup / addErrors_nodup), so neither does the composite -/
def oneShot (r : Res) : Option (Nat × List Msg) :=
  if r.errors.isEmpty then none else some (422, r.errors)

theorem oneShot_lists_exactly (r : Res) :
    (oneShot r = none ↔ r.errors = []) ∧
    (∀ c es, oneShot r = some (c, es) → c = 422 ∧ es = r.errors) := by
  unfold oneShot
  constructor
  · cases h : r.errors <;> simp
  · intro c es h
    split at h
    · cases h
    · cases h; exact ⟨rfl, rfl⟩

/-- **Every error is located under the caller's root path.** For every schema (no vocabulary condition), every
    instance, every regexp engine and format registry, every setting of the deviation switches and every amount of
    `$ref` fuel, with the plain options: each error the model of the validator tree reports carries a name that is the
    root path it was given, extended by the member names and indices walked through (`pre root name`) — or no name at
    all (the two messages without a location: "array doesn't allow for additional items" and the model's fuel marker).
    With nesting: a failure below member `k` of an object at `p` is reported under `p.k`, below element `i` of a tuple
    under `p.i`; the lemmas per sub-validator are in VM/Proofs/Located.lean. -/
theorem C17_errors_under_root (cfg : Cfg) (O : Oracles) (defs : String → Option Schema) (n : Nat) (s : Schema)
    (root : String) (v : JVal) :
    ∀ m ∈ (validateF cfg {} O defs n s root v).errors, pre root m.name ∨ m.name = "" :=
  validateF_loc cfg O defs n s root v

/-- a missing required member is reported *at the member's own path* under the object that lacks it -/
theorem C17_required_located :
    (validateF Cfg.asIs {} C01.O0 C01.noDefs 0
        (.mk { required := ["a"] } none [] none [] [] none [] [] [] [] none) "doc.x" (.obj [])).errors.map (·.name)
      = ["doc.x.a"] := by decide

/-- non-vacuity: a nested failure and where it is reported -/
example : ((validateF Cfg.asIs {} C01.O0 C01.noDefs 0 C01.sDemo "doc" (.obj [("a", .num 7)])).errors.map (·.name)) = ["doc.a"] := by decide

end VM.C17
