/-
  C17 — every rejection is explained by well-formed, correctly located errors.
-/
import VM.Properties.C01
namespace VM.C17
open VM Impl Spec

/-- the verdict of a result is *defined* as the absence of errors (result.go:421-426) -/
theorem invalid_has_error (r : Res) : isValid (some r) = false ↔ r.errors ≠ [] := by
  simp [isValid]

theorem valid_has_none (r : Res) : isValid (some r) = true ↔ r.errors = [] := by
  simp [isValid]

/-- the one-shot entry point returns nil exactly when the underlying result is valid, and
    otherwise a composite of exactly that result's errors (schema.go:41-54); results never hold
    a message twice (C20.merge_nodup / addErrors_nodup), so neither does the composite -/
def oneShot (r : Res) : Option (Nat × List Msg) :=
  if r.errors.isEmpty then none else some (422, r.errors)

theorem oneShot_lists_exactly (r : Res) :
    (oneShot r = none ↔ r.errors = []) ∧
    (∀ c es, oneShot r = some (c, es) → c = 422 ∧ es = r.errors) := by
  unfold oneShot
  constructor
  · cases h : r.errors <;> simp
  · intro c es h
    split at h
    · cases h
    · cases h; exact ⟨rfl, rfl⟩

end VM.C17
