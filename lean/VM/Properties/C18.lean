/-
  C18 — applying defaults fills exactly the absent members that have a default.
  Theorems about `Post.applyDefaults` for an arbitrary list of recorded entries; the entries are
  tied to the code by the correspondence check (defaulted data of the real code = model =
  what `Spec.applies` allows).
-/
import VM.Impl.Post
namespace VM.C18
open VM Post Impl

/-- members that were present stay, in place, under their own names -/
theorem applyMembers_keys (es : List Entry) (pos : Pos) (kvs : List (String × JVal)) :
    (applyMembers es pos kvs).map Prod.fst = kvs.map Prod.fst := by
  induction kvs with
  | nil => rfl
  | cons kv rest ih => obtain ⟨k, x⟩ := kv; simp [applyMembers, ih]

/-- a present scalar member keeps its value -/
theorem applyDefaults_scalar (es : List Entry) (pos : Pos) (v : JVal)
    (h : match v with | .arr _ | .obj _ => False | _ => True) : applyDefaults es pos v = v := by
  cases v <;> simp_all [applyDefaults]

/-- the shape of a defaulted object: the old members (each defaulted in turn), then the added ones -/
theorem applyDefaults_obj (es : List Entry) (pos : Pos) (kvs : List (String × JVal)) :
    applyDefaults es pos (.obj kvs) =
      .obj (applyMembers es pos kvs ++ (entryFields es pos).filterMap fun f =>
        if ahas f kvs then none else (firstDefault es pos f).map fun d => (f, d)) := rfl

/-- every added member was absent, was reached by a schema, and holds a default declared by one
    of the schemas that reached it — nothing else appears -/
theorem added_members_justified (es : List Entry) (pos : Pos) (kvs : List (String × JVal)) (f : String) (d : JVal)
    (h : (f, d) ∈ (entryFields es pos).filterMap fun f =>
        if ahas f kvs then none else (firstDefault es pos f).map fun d => (f, d)) :
    ahas f kvs = false ∧ ∃ e ∈ es, e.pos = pos ∧ e.field = f ∧ e.dflt = some d ∧ hasDefault e.dflt = true := by
  rw [List.mem_filterMap] at h
  obtain ⟨f', _, hf⟩ := h
  by_cases ha : ahas f' kvs = true
  · simp [ha] at hf
  · have ha' : ahas f' kvs = false := by simpa using ha
    simp only [ha', Bool.false_eq_true, ↓reduceIte, Option.map_eq_some_iff, Prod.mk.injEq] at hf
    obtain ⟨d', hd, rfl, rfl⟩ := hf
    refine ⟨ha', ?_⟩
    unfold firstDefault at hd
    cases hfind : es.find? (fun e => e.pos == pos && e.field == f' && hasDefault e.dflt) with
    | none => simp [hfind] at hd
    | some e =>
      simp only [hfind, Option.bind_some] at hd
      have hmem := List.mem_of_find?_eq_some hfind
      have hp := List.find?_some hfind
      simp only [Bool.and_eq_true, beq_iff_eq] at hp
      exact ⟨e, hmem, hp.1.1, hp.1.2, hd, hp.2⟩

/-- every absent member that a schema reached with a default does get filled -/
theorem absent_with_default_filled (es : List Entry) (pos : Pos) (kvs : List (String × JVal)) (e : Entry)
    (he : e ∈ es) (hp : e.pos = pos) (hd : hasDefault e.dflt = true) (ha : ahas e.field kvs = false) :
    ∃ d, (e.field, d) ∈ (entryFields es pos).filterMap fun f =>
        if ahas f kvs then none else (firstDefault es pos f).map fun d => (f, d) := by
  have hfield : e.field ∈ entryFields es pos := by
    unfold entryFields
    rw [List.mem_eraseDups]
    exact List.mem_map.mpr ⟨e, List.mem_filter.mpr ⟨he, by simp [hp]⟩, rfl⟩
  have hsome : (es.find? fun e' => e'.pos == pos && e'.field == e.field && hasDefault e'.dflt).isSome := by
    rw [List.find?_isSome]
    exact ⟨e, he, by simp [hp, hd]⟩
  obtain ⟨e', he'⟩ := Option.isSome_iff_exists.mp hsome
  have hp' := List.find?_some he'
  simp only [Bool.and_eq_true, beq_iff_eq] at hp'
  have hdflt : ∃ d, e'.dflt = some d := by
    cases hx : e'.dflt with
    | none => rw [hx] at hp'; simp [hasDefault] at hp'
    | some d => exact ⟨d, rfl⟩
  obtain ⟨d, hd'⟩ := hdflt
  refine ⟨d, List.mem_filterMap.mpr ⟨e.field, hfield, ?_⟩⟩
  simp [ha, firstDefault, he', hd']

/-! non-vacuity -/
example : jeq (applyDefaults [{ pos := [], field := "b", dflt := some (.num 7) }] [] (.obj [("a", .num 1)]))
    (.obj [("a", .num 1), ("b", .num 7)]) = true := by decide

end VM.C18
