/-
  C18 — applying defaults fills exactly the absent members that have a default.
  Theorems about `Post.applyDefaults` for an arbitrary list of recorded entries; the entries are
  tied to the code by the correspondence check (defaulted data of the real code = model =
  what `Spec.applies` allows).
-/
import VM.Impl.Post
import VM.Proofs.PostProof
import VM.Properties.C01
namespace VM.C18
open VM Post Impl Spec

/-- members that were present stay, in place, under their own names -/
theorem applyMembers_keys (es : List Entry) (pos : Post.Pos) (kvs : List (String × JVal)) :
    (applyMembers es pos kvs).map Prod.fst = kvs.map Prod.fst := by
  induction kvs with
  | nil => rfl
  | cons kv rest ih => obtain ⟨k, x⟩ := kv; simp [applyMembers, ih]

/-- a present scalar member keeps its value -/
theorem applyDefaults_scalar (es : List Entry) (pos : Post.Pos) (v : JVal)
    (h : match v with | .arr _ | .obj _ => False | _ => True) : applyDefaults es pos v = v := by
  cases v <;> simp_all [applyDefaults]

/-- the shape of a defaulted object: the old members (each defaulted in turn), then the added ones -/
theorem applyDefaults_obj (es : List Entry) (pos : Post.Pos) (kvs : List (String × JVal)) :
    applyDefaults es pos (.obj kvs) =
      .obj (applyMembers es pos kvs ++ (entryFields es pos).filterMap fun f =>
        if ahas f kvs then none else (firstDefault es pos f).map fun d => (f, d)) := rfl

/-- every added member was absent, was reached by a schema, and holds a default declared by one
    of the schemas that reached it — nothing else appears -/
theorem added_members_justified (es : List Entry) (pos : Post.Pos) (kvs : List (String × JVal)) (f : String) (d : JVal)
    (h : (f, d) ∈ (entryFields es pos).filterMap fun f =>
        if ahas f kvs then none else (firstDefault es pos f).map fun d => (f, d)) :
    ahas f kvs = false ∧ ∃ e ∈ es, e.pos = pos ∧ e.field = f ∧ e.dflt = some d ∧ hasDefault e.dflt = true := by
  rw [List.mem_filterMap] at h
  obtain ⟨f', _, hf⟩ := h
  by_cases ha : ahas f' kvs = true
  · simp [ha] at hf
  · have ha' : ahas f' kvs = false := by simpa using ha
    simp only [ha', Bool.false_eq_true, ↓reduceIte, Option.map_eq_some_iff, Prod.mk.injEq] at hf
    obtain ⟨d', hd, rfl, rfl⟩ := hf
    refine ⟨ha', ?_⟩
    unfold firstDefault at hd
    cases hfind : es.find? (fun e => e.pos == pos && e.field == f' && hasDefault e.dflt) with
    | none => simp [hfind] at hd
    | some e =>
      simp only [hfind, Option.bind_some] at hd
      have hmem := List.mem_of_find?_eq_some hfind
      have hp := List.find?_some hfind
      simp only [Bool.and_eq_true, beq_iff_eq] at hp
      exact ⟨e, hmem, hp.1.1, hp.1.2, hd, hp.2⟩

/-- every absent member that a schema reached with a default does get filled -/
theorem absent_with_default_filled (es : List Entry) (pos : Post.Pos) (kvs : List (String × JVal)) (e : Entry)
    (he : e ∈ es) (hp : e.pos = pos) (hd : hasDefault e.dflt = true) (ha : ahas e.field kvs = false) :
    ∃ d, (e.field, d) ∈ (entryFields es pos).filterMap fun f =>
        if ahas f kvs then none else (firstDefault es pos f).map fun d => (f, d) := by
  have hfield : e.field ∈ entryFields es pos := by
    unfold entryFields
    rw [List.mem_eraseDups]
    exact List.mem_map.mpr ⟨e, List.mem_filter.mpr ⟨he, by simp [hp]⟩, rfl⟩
  have hsome : (es.find? fun e' => e'.pos == pos && e'.field == e.field && hasDefault e'.dflt).isSome := by
    rw [List.find?_isSome]
    exact ⟨e, he, by simp [hp, hd]⟩
  obtain ⟨e', he'⟩ := Option.isSome_iff_exists.mp hsome
  have hp' := List.find?_some he'
  simp only [Bool.and_eq_true, beq_iff_eq] at hp'
  have hdflt : ∃ d, e'.dflt = some d := by
    cases hx : e'.dflt with
    | none => rw [hx] at hp'; simp [hasDefault] at hp'
    | some d => exact ⟨d, rfl⟩
  obtain ⟨d, hd'⟩ := hdflt
  refine ⟨d, List.mem_filterMap.mpr ⟨e.field, hfield, ?_⟩⟩
  simp [ha, firstDefault, he', hd']

/-- **C18 against the specification of applicable schemas, soundness**: every member added to the object at `pos` was
    absent and receives a default that an applicable schema declares for it. -/
theorem C18_added_are_applicable_defaults (cfg : Cfg) (O : Oracles)
    (hbound : cfg.addlItemsBound = false)
    (hO : cfg.floatTolerance = true → OExact O)
    (defs : String → Option Schema) (hdefs : DefsWf cfg defs) (n : Nat) (s : Schema)
    (hs : wf cfg (fun name => (defs name).isSome) s = true) (v : JVal) (hv : adm cfg v = true)
    (pos : Post.Pos) (kvs : List (String × JVal)) (f : String) (d : JVal)
    (h : (f, d) ∈ (entryFields (entriesF cfg O defs n s [] v) pos).filterMap fun f =>
        if ahas f kvs then none else (firstDefault (entriesF cfg O defs n s [] v) pos f).map fun d => (f, d)) :
    ahas f kvs = false ∧ ∃ a ∈ appliesF O defs n s [] v, a.pos = pos ∧ a.field = f ∧ a.dflt = some d
      ∧ Spec.declaresDefault a.dflt = true := by
  obtain ⟨h1, e, he, h2, h3, h4, h5⟩ := added_members_justified _ pos kvs f d h
  have hsim := PostProof.entriesF_sim cfg O hbound hO defs hdefs n s hs [] v hv
  exact ⟨h1, e, (hsim e).mp he, h2, h3, h4, by rw [← PostProof.hasDefault_eq]; exact h5⟩

/-- **completeness**: every absent member for which an applicable schema declares a default is filled -/
theorem C18_applicable_defaults_are_added (cfg : Cfg) (O : Oracles)
    (hbound : cfg.addlItemsBound = false)
    (hO : cfg.floatTolerance = true → OExact O)
    (defs : String → Option Schema) (hdefs : DefsWf cfg defs) (n : Nat) (s : Schema)
    (hs : wf cfg (fun name => (defs name).isSome) s = true) (v : JVal) (hv : adm cfg v = true)
    (pos : Post.Pos) (kvs : List (String × JVal)) (a : Spec.Applies)
    (ha : a ∈ appliesF O defs n s [] v) (hp : a.pos = pos) (hd : Spec.declaresDefault a.dflt = true)
    (habs : ahas a.field kvs = false) :
    ∃ d, (a.field, d) ∈ (entryFields (entriesF cfg O defs n s [] v) pos).filterMap fun f =>
        if ahas f kvs then none else (firstDefault (entriesF cfg O defs n s [] v) pos f).map fun d => (f, d) := by
  have hsim := PostProof.entriesF_sim cfg O hbound hO defs hdefs n s hs [] v hv
  exact absent_with_default_filled _ pos kvs a ((hsim a).mpr ha) hp (by rw [PostProof.hasDefault_eq]; exact hd) habs

/-- the repaired configuration: every instance (both directions) -/
theorem C18_repaired (O : Oracles) (defs : String → Option Schema) (hdefs : DefsWf Cfg.repaired defs) (n : Nat) (s : Schema)
    (hs : wf Cfg.repaired (fun name => (defs name).isSome) s = true) (v : JVal)
    (pos : Post.Pos) (kvs : List (String × JVal)) :
    (∀ f d, (f, d) ∈ ((entryFields (entriesF Cfg.repaired O defs n s [] v) pos).filterMap fun f =>
        if ahas f kvs then none else (firstDefault (entriesF Cfg.repaired O defs n s [] v) pos f).map fun d => (f, d)) →
      ahas f kvs = false ∧ ∃ a ∈ appliesF O defs n s [] v, a.pos = pos ∧ a.field = f ∧ a.dflt = some d
        ∧ Spec.declaresDefault a.dflt = true)
    ∧ (∀ a ∈ appliesF O defs n s [] v, a.pos = pos → Spec.declaresDefault a.dflt = true → ahas a.field kvs = false →
      ∃ d, (a.field, d) ∈ (entryFields (entriesF Cfg.repaired O defs n s [] v) pos).filterMap fun f =>
        if ahas f kvs then none else (firstDefault (entriesF Cfg.repaired O defs n s [] v) pos f).map fun d => (f, d)) :=
  ⟨fun f d h => C18_added_are_applicable_defaults Cfg.repaired O rfl (fun h => by cases h) defs hdefs n s hs v
      (C01.adm_repaired v) pos kvs f d h,
   fun a ha hp hd habs => C18_applicable_defaults_are_added Cfg.repaired O rfl (fun h => by cases h) defs hdefs n s hs v
      (C01.adm_repaired v) pos kvs a ha hp hd habs⟩

/-! non-vacuity: a schema with a defaulted property under an anyOf alternative meets the hypotheses -/
def sPost : Schema :=
  .mk { types := ["object"] } none [] none
    [("a", .mk { types := ["integer"], default := some (.num 1) } none [] none [] [] none [] [] [] [] none)]
    [] none [] []
    [.mk {} none [] none [("b", .mk { default := some (.str "x") } none [] none [] [] none [] [] [] [] none)] [] none [] [] [] [] none]
    [] none
example : wf Cfg.repaired (fun _ => false) sPost = true := by decide
example : DefsWf Cfg.repaired (fun _ => none) := by intro _ _ h; cases h

example : jeq (applyDefaults [{ pos := [], field := "b", dflt := some (.num 7) }] [] (.obj [("a", .num 1)]))
    (.obj [("a", .num 1), ("b", .num 7)]) = true := by decide

end VM.C18
