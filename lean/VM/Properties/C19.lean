/-
  C19 — pruning removes exactly the members no schema describes.
  Theorems about `Post.prune` for an arbitrary list of recorded entries (whatever the validator
  tree produced); the entries themselves are tied to the code by the correspondence check, which
  compares the pruned data of the real code with `prune (entries …)` and with the specification
  `Spec.applies`.
-/
import VM.Impl.Post
import VM.Proofs.PostProof
import VM.Properties.C01
namespace VM.C19
open VM Post Impl Spec

/-- at every object, a member remains exactly when some schema reached it -/
theorem pruneMembers_keys (es : List Entry) (pos : Post.Pos) (kvs : List (String × JVal)) (k : String) :
    k ∈ (pruneMembers es pos kvs).map Prod.fst ↔ (k ∈ kvs.map Prod.fst ∧ hasEntry es pos k = true) := by
  induction kvs with
  | nil => simp [pruneMembers]
  | cons kv rest ih =>
    obtain ⟨k', x⟩ := kv
    simp only [pruneMembers]
    by_cases h : hasEntry es pos k' = true
    · simp only [h, ↓reduceIte, List.map_cons, List.mem_cons, ih]
      constructor
      · rintro (rfl | ⟨h1, h2⟩)
        · exact ⟨.inl rfl, h⟩
        · exact ⟨.inr h1, h2⟩
      · rintro ⟨rfl | h1, h2⟩
        · exact .inl rfl
        · exact .inr ⟨h1, h2⟩
    · simp only [h, Bool.false_eq_true, ↓reduceIte, List.map_cons, List.mem_cons, ih]
      constructor
      · rintro ⟨h1, h2⟩; exact ⟨.inr h1, h2⟩
      · rintro ⟨rfl | h1, h2⟩
        · exact absurd h2 h
        · exact ⟨h1, h2⟩

mutual
/-- pruning already pruned data (against the same recorded entries) removes nothing more -/
theorem prune_idempotent (es : List Entry) (pos : Post.Pos) (v : JVal) :
    prune es pos (prune es pos v) = prune es pos v := by
  match v with
  | .null => rfl
  | .bool _ => rfl
  | .num _ => rfl
  | .str _ => rfl
  | .arr xs => simp only [prune]; rw [pruneElems_idempotent es pos 0 xs]
  | .obj kvs => simp only [prune]; rw [pruneMembers_idempotent es pos kvs]
theorem pruneMembers_idempotent (es : List Entry) (pos : Post.Pos) (kvs : List (String × JVal)) :
    pruneMembers es pos (pruneMembers es pos kvs) = pruneMembers es pos kvs := by
  match kvs with
  | [] => rfl
  | (k, x) :: rest =>
    simp only [pruneMembers]
    by_cases h : hasEntry es pos k = true
    · simp only [h, ↓reduceIte, pruneMembers]
      rw [prune_idempotent es (pos ++ [k]) x, pruneMembers_idempotent es pos rest]
    · simp only [h, Bool.false_eq_true, ↓reduceIte]
      exact pruneMembers_idempotent es pos rest
theorem pruneElems_idempotent (es : List Entry) (pos : Post.Pos) (i : Nat) (xs : List JVal) :
    pruneElems es pos i (pruneElems es pos i xs) = pruneElems es pos i xs := by
  match xs with
  | [] => rfl
  | x :: rest =>
    simp only [pruneElems]
    rw [prune_idempotent es (pos ++ [idxSeg i]) x, pruneElems_idempotent es pos (i + 1) rest]
end

/-- array elements are never removed, only looked into -/
theorem pruneElems_length (es : List Entry) (pos : Post.Pos) (i : Nat) (xs : List JVal) :
    (pruneElems es pos i xs).length = xs.length := by
  induction xs generalizing i with
  | nil => rfl
  | cons x rest ih => simp [pruneElems, ih]

/-- scalars are untouched -/
theorem prune_scalar (es : List Entry) (pos : Post.Pos) (v : JVal)
    (h : match v with | .arr _ | .obj _ => False | _ => True) : prune es pos v = v := by
  cases v <;> simp_all [prune]

theorem hasEntry_iff (es : List Entry) (pos : Post.Pos) (k : String) :
    hasEntry es pos k = true ↔ ∃ e ∈ es, e.pos = pos ∧ e.field = k := by
  simp [hasEntry, List.any_eq_true]

/-- **C19 against the specification of applicable schemas.** For every schema of the vocabulary, definitions table,
    amount of `$ref` fuel and admissible instance (any instance for the repaired configuration), pruning with the entries
    the validator tree records keeps a member of the object at `pos` exactly when it is present and some applicable schema
    describes it (through properties, pattern properties, additionalProperties, every allOf member, the selected anyOf /
    oneOf alternative, schema dependencies of present keys, at any depth) — nothing else is removed, nothing else is kept. -/
theorem C19_member_remains_iff_described (cfg : Cfg) (O : Oracles)
    (hbound : cfg.addlItemsBound = false)
    (hO : cfg.floatTolerance = true → OExact O)
    (defs : String → Option Schema) (hdefs : DefsWf cfg defs) (n : Nat) (s : Schema)
    (hs : wf cfg (fun name => (defs name).isSome) s = true) (v : JVal) (hv : adm cfg v = true)
    (pos : Post.Pos) (kvs : List (String × JVal)) (k : String) :
    k ∈ (pruneMembers (entriesF cfg O defs n s [] v) pos kvs).map Prod.fst
      ↔ (k ∈ kvs.map Prod.fst ∧ ∃ a ∈ appliesF O defs n s [] v, a.pos = pos ∧ a.field = k) := by
  rw [pruneMembers_keys, hasEntry_iff]
  have hsim := PostProof.entriesF_sim cfg O hbound hO defs hdefs n s hs [] v hv
  constructor
  · rintro ⟨h1, e, he, h2⟩; exact ⟨h1, e, (hsim e).mp he, h2⟩
  · rintro ⟨h1, e, he, h2⟩; exact ⟨h1, e, (hsim e).mpr he, h2⟩

/-- the repaired configuration: every instance -/
theorem C19_repaired (O : Oracles) (defs : String → Option Schema) (hdefs : DefsWf Cfg.repaired defs) (n : Nat) (s : Schema)
    (hs : wf Cfg.repaired (fun name => (defs name).isSome) s = true) (v : JVal)
    (pos : Post.Pos) (kvs : List (String × JVal)) (k : String) :
    k ∈ (pruneMembers (entriesF Cfg.repaired O defs n s [] v) pos kvs).map Prod.fst
      ↔ (k ∈ kvs.map Prod.fst ∧ ∃ a ∈ appliesF O defs n s [] v, a.pos = pos ∧ a.field = k) :=
  C19_member_remains_iff_described Cfg.repaired O rfl (fun h => by cases h) defs hdefs n s hs v (C01.adm_repaired v) pos kvs k

/-! non-vacuity: a schema with a defaulted property under an anyOf alternative meets the hypotheses -/
def sPost : Schema :=
  .mk { types := ["object"] } none [] none
    [("a", .mk { types := ["integer"], default := some (.num 1) } none [] none [] [] none [] [] [] [] none)]
    [] none [] []
    [.mk {} none [] none [("b", .mk { default := some (.str "x") } none [] none [] [] none [] [] [] [] none)] [] none [] [] [] [] none]
    [] none
example : wf Cfg.repaired (fun _ => false) sPost = true := by decide
example : DefsWf Cfg.repaired (fun _ => none) := by intro _ _ h; cases h

example : jeq (prune [{ pos := [], field := "a", dflt := none }] [] (.obj [("a", .num 1), ("b", .num 2)]))
    (.obj [("a", .num 1)]) = true := by decide

end VM.C19
