/-
  C19 — pruning removes exactly the members no schema describes.
  Theorems about `Post.prune` for an arbitrary list of recorded entries (whatever the validator
  tree produced); the entries themselves are tied to the code by the correspondence check, which
  compares the pruned data of the real code with `prune (entries …)` and with the specification
  `Spec.applies`.
-/
import VM.Impl.Post
namespace VM.C19
open VM Post

/-- at every object, a member remains exactly when some schema reached it -/
theorem pruneMembers_keys (es : List Entry) (pos : Pos) (kvs : List (String × JVal)) (k : String) :
    k ∈ (pruneMembers es pos kvs).map Prod.fst ↔ (k ∈ kvs.map Prod.fst ∧ hasEntry es pos k = true) := by
  induction kvs with
  | nil => simp [pruneMembers]
  | cons kv rest ih =>
    obtain ⟨k', x⟩ := kv
    simp only [pruneMembers]
    by_cases h : hasEntry es pos k' = true
    · simp only [h, ↓reduceIte, List.map_cons, List.mem_cons, ih]
      constructor
      · rintro (rfl | ⟨h1, h2⟩)
        · exact ⟨.inl rfl, h⟩
        · exact ⟨.inr h1, h2⟩
      · rintro ⟨rfl | h1, h2⟩
        · exact .inl rfl
        · exact .inr ⟨h1, h2⟩
    · simp only [h, Bool.false_eq_true, ↓reduceIte, List.map_cons, List.mem_cons, ih]
      constructor
      · rintro ⟨h1, h2⟩; exact ⟨.inr h1, h2⟩
      · rintro ⟨rfl | h1, h2⟩
        · exact absurd h2 h
        · exact ⟨h1, h2⟩

mutual
/-- pruning already pruned data (against the same recorded entries) removes nothing more -/
theorem prune_idempotent (es : List Entry) (pos : Pos) (v : JVal) :
    prune es pos (prune es pos v) = prune es pos v := by
  match v with
  | .null => rfl
  | .bool _ => rfl
  | .num _ => rfl
  | .str _ => rfl
  | .arr xs => simp only [prune]; rw [pruneElems_idempotent es pos 0 xs]
  | .obj kvs => simp only [prune]; rw [pruneMembers_idempotent es pos kvs]
theorem pruneMembers_idempotent (es : List Entry) (pos : Pos) (kvs : List (String × JVal)) :
    pruneMembers es pos (pruneMembers es pos kvs) = pruneMembers es pos kvs := by
  match kvs with
  | [] => rfl
  | (k, x) :: rest =>
    simp only [pruneMembers]
    by_cases h : hasEntry es pos k = true
    · simp only [h, ↓reduceIte, pruneMembers]
      rw [prune_idempotent es (pos ++ [k]) x, pruneMembers_idempotent es pos rest]
    · simp only [h, Bool.false_eq_true, ↓reduceIte]
      exact pruneMembers_idempotent es pos rest
theorem pruneElems_idempotent (es : List Entry) (pos : Pos) (i : Nat) (xs : List JVal) :
    pruneElems es pos i (pruneElems es pos i xs) = pruneElems es pos i xs := by
  match xs with
  | [] => rfl
  | x :: rest =>
    simp only [pruneElems]
    rw [prune_idempotent es (pos ++ [idxSeg i]) x, pruneElems_idempotent es pos (i + 1) rest]
end

/-- array elements are never removed, only looked into -/
theorem pruneElems_length (es : List Entry) (pos : Pos) (i : Nat) (xs : List JVal) :
    (pruneElems es pos i xs).length = xs.length := by
  induction xs generalizing i with
  | nil => rfl
  | cons x rest ih => simp [pruneElems, ih]

/-- scalars are untouched -/
theorem prune_scalar (es : List Entry) (pos : Pos) (v : JVal)
    (h : match v with | .arr _ | .obj _ => False | _ => True) : prune es pos v = v := by
  cases v <;> simp_all [prune]

/-! non-vacuity -/
example : jeq (prune [{ pos := [], field := "a", dflt := none }] [] (.obj [("a", .num 1), ("b", .num 2)]))
    (.obj [("a", .num 1)]) = true := by decide

end VM.C19
