/-
  C20 — Results combine as ordered sets of messages with additive match counts.
  Property theorems only; helper lemmas live in VM/Proofs/ResultLemmas.lean.
-/
import VM.Proofs.ResultLemmas
namespace VM.C20
open VM Spec

/-! #### AddErrors / AddWarnings -/

/-- never duplicates a message -/
theorem addErrors_nodup (r : Res) (es : List (Option Msg)) (h : r.errors.Nodup) :
    (r.addErrors es).errors.Nodup := addMsgs_nodup h es

theorem addWarnings_nodup (r : Res) (es : List (Option Msg)) (h : r.warnings.Nodup) :
    (r.addWarnings es).warnings.Nodup := addMsgs_nodup h es

/-- never loses a distinct message and invents none -/
theorem addErrors_no_loss (r : Res) (es : List (Option Msg)) (m : Msg) :
    m ∈ (r.addErrors es).errors ↔ m ∈ r.errors ∨ some m ∈ es := mem_addMsgs _ _ _

theorem addWarnings_no_loss (r : Res) (es : List (Option Msg)) (m : Msg) :
    m ∈ (r.addWarnings es).warnings ↔ m ∈ r.warnings ∨ some m ∈ es := mem_addMsgs _ _ _

/-- preserves first-occurrence order: the outcome *is* the ordered-set union -/
theorem addErrors_first_occurrence_order (r : Res) (es : List (Option Msg)) :
    (r.addErrors es).errors = ordUnion r.errors (es.filterMap id) := addMsgs_eq_ordUnion _ _

theorem addWarnings_first_occurrence_order (r : Res) (es : List (Option Msg)) :
    (r.addWarnings es).warnings = ordUnion r.warnings (es.filterMap id) := addMsgs_eq_ordUnion _ _

/-- the other category and the count are untouched -/
theorem addErrors_frame (r : Res) (es : List (Option Msg)) :
    (r.addErrors es).warnings = r.warnings ∧ (r.addErrors es).mc = r.mc := ⟨rfl, rfl⟩
theorem addWarnings_frame (r : Res) (es : List (Option Msg)) :
    (r.addWarnings es).errors = r.errors ∧ (r.addWarnings es).mc = r.mc := ⟨rfl, rfl⟩

/-- nil errors are ignored, wherever they stand in the argument list -/
theorem nil_ignored (cur : List Msg) (es : List (Option Msg)) :
    addMsgs cur es = addMsgs cur ((es.filterMap id).map some) := by
  rw [addMsgs_eq_ordUnion, addMsgs_eq_ordUnion]
  congr 1
  generalize es.filterMap id = l
  induction l with
  | nil => rfl
  | cons a l ih => simpa using ih

/-! #### Merge -/

theorem mergeOne_errors (r o : Res) (m : Msg) :
    m ∈ (r.mergeOne o).errors ↔ m ∈ r.errors ∨ m ∈ o.errors := by
  simp [Res.mergeOne, mem_addMsgs]
theorem mergeOne_warnings (r o : Res) (m : Msg) :
    m ∈ (r.mergeOne o).warnings ↔ m ∈ r.warnings ∨ m ∈ o.warnings := by
  simp [Res.mergeOne, mem_addMsgs]

/-- nil operands are ignored -/
theorem merge_nil_ignored (r : Res) (os : List (Option Res)) :
    r.merge os = r.merge ((os.filterMap id).map some) := by
  induction os generalizing r with
  | nil => rfl
  | cons o os ih => cases o <;> simp [Res.merge, ih]

/-- merging adds match counts -/
theorem merge_counts_add (r : Res) (os : List (Option Res)) :
    (r.merge os).mc = r.mc + ((os.filterMap id).map (·.mc)).sum := by
  induction os generalizing r with
  | nil => simp [Res.merge]
  | cons o os ih =>
    cases o with
    | none => simpa [Res.merge] using ih r
    | some o => simp [Res.merge, ih, Res.mergeOne]; omega

/-- merge neither loses nor invents errors -/
theorem merge_errors (r : Res) (os : List (Option Res)) (m : Msg) :
    m ∈ (r.merge os).errors ↔ m ∈ r.errors ∨ ∃ o, some o ∈ os ∧ m ∈ o.errors := by
  induction os generalizing r with
  | nil => simp [Res.merge]
  | cons o os ih =>
    cases o with
    | none => simp [Res.merge, ih]
    | some o =>
      simp only [Res.merge, ih, mergeOne_errors, List.mem_cons, Option.some.injEq]
      constructor
      · rintro ((h | h) | ⟨o', ho', h⟩)
        · exact .inl h
        · exact .inr ⟨o, .inl rfl, h⟩
        · exact .inr ⟨o', .inr ho', h⟩
      · rintro (h | ⟨o', (rfl | ho'), h⟩)
        · exact .inl (.inl h)
        · exact .inl (.inr h)
        · exact .inr ⟨o', ho', h⟩

theorem merge_warnings (r : Res) (os : List (Option Res)) (m : Msg) :
    m ∈ (r.merge os).warnings ↔ m ∈ r.warnings ∨ ∃ o, some o ∈ os ∧ m ∈ o.warnings := by
  induction os generalizing r with
  | nil => simp [Res.merge]
  | cons o os ih =>
    cases o with
    | none => simp [Res.merge, ih]
    | some o =>
      simp only [Res.merge, ih, mergeOne_warnings, List.mem_cons, Option.some.injEq]
      constructor
      · rintro ((h | h) | ⟨o', ho', h⟩)
        · exact .inl h
        · exact .inr ⟨o, .inl rfl, h⟩
        · exact .inr ⟨o', .inr ho', h⟩
      · rintro (h | ⟨o', (rfl | ho'), h⟩)
        · exact .inl (.inl h)
        · exact .inl (.inr h)
        · exact .inr ⟨o', ho', h⟩

theorem merge_nodup (r : Res) (os : List (Option Res))
    (he : r.errors.Nodup) (hw : r.warnings.Nodup) :
    (r.merge os).errors.Nodup ∧ (r.merge os).warnings.Nodup := by
  induction os generalizing r with
  | nil => exact ⟨he, hw⟩
  | cons o os ih =>
    cases o with
    | none => exact ih r he hw
    | some o => exact ih _ (addMsgs_nodup he _) (addMsgs_nodup hw _)

/-- the receiver's own messages stay first, in their order -/
theorem merge_keeps_prefix (r : Res) (os : List (Option Res)) :
    r.errors <+: (r.merge os).errors ∧ r.warnings <+: (r.merge os).warnings := by
  induction os generalizing r with
  | nil => exact ⟨List.prefix_rfl, List.prefix_rfl⟩
  | cons o os ih =>
    cases o with
    | none => exact ih r
    | some o =>
      have := ih (r.mergeOne o)
      exact ⟨(addMsgs_prefix _ _).trans this.1, (addMsgs_prefix _ _).trans this.2⟩

/-! #### MergeAsErrors / MergeAsWarnings move every message to the named category -/

theorem mergeAsErrors_moves_all (r : Res) (os : List (Option Res)) (m : Msg) :
    (m ∈ (r.mergeAsErrors os).errors ↔
      m ∈ r.errors ∨ ∃ o, some o ∈ os ∧ (m ∈ o.errors ∨ m ∈ o.warnings))
    ∧ (r.mergeAsErrors os).warnings = r.warnings
    ∧ (r.mergeAsErrors os).mc = r.mc + ((os.filterMap id).map (·.mc)).sum := by
  induction os generalizing r with
  | nil => simp [Res.mergeAsErrors]
  | cons o os ih =>
    cases o with
    | none => simpa [Res.mergeAsErrors] using ih r
    | some o =>
      obtain ⟨h1, h2, h3⟩ := ih (r.mergeAsErrorsOne o)
      refine ⟨?_, ?_, ?_⟩
      · simp only [Res.mergeAsErrors, h1, List.mem_cons, Option.some.injEq]
        simp only [Res.mergeAsErrorsOne, mem_addMsgs, List.mem_map, Option.some.injEq,
          exists_eq_right]
        constructor
        · rintro (((h | h) | h) | ⟨o', ho', h⟩)
          · exact .inl h
          · exact .inr ⟨o, .inl rfl, .inl h⟩
          · exact .inr ⟨o, .inl rfl, .inr h⟩
          · exact .inr ⟨o', .inr ho', h⟩
        · rintro (h | ⟨o', (rfl | ho'), h⟩)
          · exact .inl (.inl (.inl h))
          · rcases h with h | h
            · exact .inl (.inl (.inr h))
            · exact .inl (.inr h)
          · exact .inr ⟨o', ho', h⟩
      · simp only [Res.mergeAsErrors]; rw [h2]; rfl
      · simp only [Res.mergeAsErrors]; rw [h3]; simp [Res.mergeAsErrorsOne]; omega

theorem mergeAsWarnings_moves_all (r : Res) (os : List (Option Res)) (m : Msg) :
    (m ∈ (r.mergeAsWarnings os).warnings ↔
      m ∈ r.warnings ∨ ∃ o, some o ∈ os ∧ (m ∈ o.errors ∨ m ∈ o.warnings))
    ∧ (r.mergeAsWarnings os).errors = r.errors
    ∧ (r.mergeAsWarnings os).mc = r.mc + ((os.filterMap id).map (·.mc)).sum := by
  induction os generalizing r with
  | nil => simp [Res.mergeAsWarnings]
  | cons o os ih =>
    cases o with
    | none => simpa [Res.mergeAsWarnings] using ih r
    | some o =>
      obtain ⟨h1, h2, h3⟩ := ih (r.mergeAsWarningsOne o)
      refine ⟨?_, ?_, ?_⟩
      · simp only [Res.mergeAsWarnings, h1, List.mem_cons, Option.some.injEq]
        simp only [Res.mergeAsWarningsOne, mem_addMsgs, List.mem_map, Option.some.injEq,
          exists_eq_right]
        constructor
        · rintro (((h | h) | h) | ⟨o', ho', h⟩)
          · exact .inl h
          · exact .inr ⟨o, .inl rfl, .inl h⟩
          · exact .inr ⟨o, .inl rfl, .inr h⟩
          · exact .inr ⟨o', .inr ho', h⟩
        · rintro (h | ⟨o', (rfl | ho'), h⟩)
          · exact .inl (.inl (.inl h))
          · rcases h with h | h
            · exact .inl (.inl (.inr h))
            · exact .inl (.inr h)
          · exact .inr ⟨o', ho', h⟩
      · simp only [Res.mergeAsWarnings]; rw [h2]; rfl
      · simp only [Res.mergeAsWarnings]; rw [h3]; simp [Res.mergeAsWarningsOne]; omega

/-! #### Queries -/

/-- validity is exactly the absence of errors -/
theorem isValid_iff_no_errors (r : Res) : isValid (some r) = true ↔ r.errors = [] := by
  simp [isValid]

theorem hasErrors_eq_not_isValid (r : Option Res) : hasErrors r = !isValid r := by
  cases r <;> simp [hasErrors, isValid]

/-- all queries tolerate a nil result -/
theorem queries_nil_safe :
    isValid none = true ∧ hasErrors none = false ∧ hasWarnings none = false
      ∧ hasErrorsOrWarnings none = false := ⟨rfl, rfl, rfl, rfl⟩

/-- warnings alone never invalidate -/
theorem warnings_never_invalidate (r : Res) (ws : List (Option Msg)) :
    isValid (some (r.addWarnings ws)) = isValid (some r) := rfl

/-! #### Every finite operation sequence -/

def NodupAll (s : RState) : Prop :=
  ∀ r, some r ∈ s → r.errors.Nodup ∧ r.warnings.Nodup

/-- API operations: everything except the raw field write used to probe aliasing -/
def ROp.isApi : ROp → Bool
  | .setErr .. => false
  | _ => true

theorem nodupAll_set {s : RState} (h : NodupAll s) (i : Nat) (r : Res)
    (hr : r.errors.Nodup ∧ r.warnings.Nodup) : NodupAll (s.set i (some r)) := by
  intro r' hr'
  rcases List.mem_or_eq_of_mem_set hr' with h' | h'
  · exact h r' h'
  · cases h'; exact hr

theorem nodupAll_setNone {s : RState} (h : NodupAll s) (i : Nat) : NodupAll (s.set i none) := by
  intro r' hr'
  rcases List.mem_or_eq_of_mem_set hr' with h' | h'
  · exact h r' h'
  · cases h'

theorem getSlot_mem {s : RState} {i : Nat} {r : Res} (h : getSlot s i = some r) : some r ∈ s := by
  unfold getSlot at h
  cases hi : s[i]? with
  | none => simp [hi] at h
  | some o =>
    simp [hi] at h; subst h
    exact List.mem_of_getElem? hi

theorem mergeSeq_nodup (f : Res → Res → Res)
    (hf : ∀ r o, (r.errors.Nodup ∧ r.warnings.Nodup) → (o.errors.Nodup ∧ o.warnings.Nodup) →
      ((f r o).errors.Nodup ∧ (f r o).warnings.Nodup))
    (s : RState) (i : Nat) (js : List Nat) (h : NodupAll s) : NodupAll (mergeSeq f s i js) := by
  induction js generalizing s with
  | nil => exact h
  | cons j js ih =>
    unfold mergeSeq
    split
    · rename_i r o hr ho
      exact ih _ (nodupAll_set h i _ (hf r o (h r (getSlot_mem hr)) (h o (getSlot_mem ho))))
    · exact ih _ h

/-- In every state reachable by API operations from a duplicate-free state, no result holds a
    message twice. (All finite sequences: induction over the operation list.) -/
theorem run_nodup (s : RState) (ops : List ROp) (hops : ∀ op ∈ ops, ROp.isApi op = true)
    (h : NodupAll s) : NodupAll (rrun s ops) := by
  induction ops generalizing s with
  | nil => exact h
  | cons op ops ih =>
    have hop := hops op (List.mem_cons_self ..)
    refine ih _ (fun o ho => hops o (List.mem_cons_of_mem _ ho)) ?_
    cases op with
    | addErrors i es =>
      simp only [rstep]; split
      · rename_i r hr
        have := h r (getSlot_mem hr)
        exact nodupAll_set h i _ ⟨addMsgs_nodup this.1 _, this.2⟩
      · exact h
    | addWarnings i es =>
      simp only [rstep]; split
      · rename_i r hr
        have := h r (getSlot_mem hr)
        exact nodupAll_set h i _ ⟨this.1, addMsgs_nodup this.2 _⟩
      · exact h
    | merge i js =>
      exact mergeSeq_nodup Res.mergeOne (fun r o hr _ => ⟨addMsgs_nodup hr.1 _, addMsgs_nodup hr.2 _⟩) s i js h
    | mergeAsErrors i js =>
      exact mergeSeq_nodup Res.mergeAsErrorsOne
        (fun r o hr _ => ⟨addMsgs_nodup (addMsgs_nodup hr.1 _) _, hr.2⟩) s i js h
    | mergeAsWarnings i js =>
      exact mergeSeq_nodup Res.mergeAsWarningsOne
        (fun r o hr _ => ⟨hr.1, addMsgs_nodup (addMsgs_nodup hr.2 _) _⟩) s i js h
    | inc i =>
      simp only [rstep]; split
      · rename_i r hr
        exact nodupAll_set h i _ (h r (getSlot_mem hr))
      · exact h
    | setErr i k m => simp [ROp.isApi] at hop
    | fresh i => exact nodupAll_set h i _ ⟨List.nodup_nil, List.nodup_nil⟩
    | setNil i => exact nodupAll_setNone h i

/-- Frame / no aliasing at the level of values: an operation whose receiver is slot `i`
    leaves every other slot exactly as it was — in particular a result that was merged into
    another one can be changed afterwards without altering the merged result.
    (That Go's slices do realise value semantics here is what the correspondence check
    probes with `setErr` and post-merge mutations.) -/
def ROp.receiver : ROp → Nat
  | .addErrors i _ | .addWarnings i _ | .merge i _ | .mergeAsErrors i _ | .mergeAsWarnings i _
  | .inc i | .setErr i _ _ | .fresh i | .setNil i => i

theorem getSlot_set_ne (s : RState) (i k : Nat) (v : Option Res) (h : k ≠ i) :
    getSlot (s.set i v) k = getSlot s k := by
  unfold getSlot; rw [List.getElem?_set_ne (Ne.symm h)]

theorem mergeSeq_frame (f : Res → Res → Res) (s : RState) (i k : Nat) (js : List Nat) (h : k ≠ i) :
    getSlot (mergeSeq f s i js) k = getSlot s k := by
  induction js generalizing s with
  | nil => rfl
  | cons j js ih =>
    unfold mergeSeq
    split
    · rw [ih, getSlot_set_ne _ _ _ _ h]
    · exact ih _

theorem later_changes_do_not_alter_others (s : RState) (op : ROp) (k : Nat)
    (h : k ≠ ROp.receiver op) : getSlot (rstep s op) k = getSlot s k := by
  cases op <;> simp only [rstep, ROp.receiver] at h ⊢
  case addErrors i es => split <;> simp [getSlot_set_ne _ _ _ _ h]
  case addWarnings i es => split <;> simp [getSlot_set_ne _ _ _ _ h]
  case merge i js => exact mergeSeq_frame _ _ _ _ _ h
  case mergeAsErrors i js => exact mergeSeq_frame _ _ _ _ _ h
  case mergeAsWarnings i js => exact mergeSeq_frame _ _ _ _ _ h
  case inc i => split <;> simp [getSlot_set_ne _ _ _ _ h]
  case setErr i k' m => split <;> simp [getSlot_set_ne _ _ _ _ h]
  case fresh i => exact getSlot_set_ne _ _ _ _ h
  case setNil i => exact getSlot_set_ne _ _ _ _ h

/-! non-vacuity: the hypotheses are met by a non-trivial state -/
private def m (t : String) : Msg := { tag := t }

example : NodupAll [some { errors := [m "a", m "b"], warnings := [m "w"], mc := 3 }, none, some {}] := by
  intro r hr
  simp at hr
  rcases hr with rfl | rfl <;> simp [m]

example : rrun [some { errors := [m "a"] }, some { errors := [m "a", m "b"], warnings := [m "w"], mc := 2 }]
    [.merge 0 [1, 0], .addErrors 1 [none, some (m "z")]]
    = [some { errors := [m "a", m "b"], warnings := [m "w"], mc := 4 },
       some { errors := [m "a", m "b", m "z"], warnings := [m "w"], mc := 2 }] := by decide

end VM.C20
