/-
  Schemas as `spec.Schema` holds them after decoding: the draft-4 keywords the library
  supports plus the Swagger extras that influence validation (nullable, default, readOnly,
  example). `$ref` is a symbolic leaf; the definitions table is passed separately.
-/
import VM.Json
namespace VM

/-- `spec.SchemaOrBool` without its schema pointer (kept in the recursive part):
    absent (nil pointer) | `true`/`false` | an object (Allows = true, Schema ≠ nil) -/
inductive AddL where
  | absent | bool (b : Bool) | schema
  deriving DecidableEq, Repr, Inhabited

/-- the non-recursive keywords of one schema node -/
structure SBase where
  types : List String := []
  nullable : Bool := false
  format : String := ""
  enum : List JVal := []            -- [] = absent (`len(b.Enum) == 0`)
  default : Option JVal := none
  multipleOf : Option Rat := none
  maximum : Option Rat := none
  exclMax : Bool := false
  minimum : Option Rat := none
  exclMin : Bool := false
  maxLength : Option Int := none
  minLength : Option Int := none
  pattern : String := ""            -- "" = absent (`s.Pattern != ""`)
  maxItems : Option Int := none
  minItems : Option Int := none
  uniqueItems : Bool := false
  maxProps : Option Int := none
  minProps : Option Int := none
  required : List String := []
  addItems : AddL := .absent
  addProps : AddL := .absent
  depProps : List (String × List String) := []
  ref : String := ""                -- "" = no $ref
  sid : String := ""                -- `id`
  readOnly : Bool := false
  exampleV : Option JVal := none    -- Swagger `example` (judged by spec validation only: C09)
  deriving Inhabited

inductive Schema where
  | mk (b : SBase)
       (itemsS : Option Schema)            -- items: {schema}
       (itemsT : List Schema)              -- items: [schemas]   ([] = no tuple)
       (addItemsS : Option Schema)         -- additionalItems: {schema}
       (props : List (String × Schema))
       (patProps : List (String × Schema))
       (addPropsS : Option Schema)         -- additionalProperties: {schema}
       (depSchemas : List (String × Schema))
       (allOf anyOf oneOf : List Schema)
       (not : Option Schema)
  deriving Inhabited

namespace Schema
def base : Schema → SBase | .mk b .. => b
def itemsS : Schema → Option Schema | .mk _ i .. => i
def itemsT : Schema → List Schema | .mk _ _ t .. => t
def addItemsS : Schema → Option Schema | .mk _ _ _ a .. => a
def props : Schema → List (String × Schema) | .mk _ _ _ _ p .. => p
def patProps : Schema → List (String × Schema) | .mk _ _ _ _ _ p .. => p
def addPropsS : Schema → Option Schema | .mk _ _ _ _ _ _ a .. => a
def depSchemas : Schema → List (String × Schema) | .mk _ _ _ _ _ _ _ d .. => d
def allOf : Schema → List Schema | .mk _ _ _ _ _ _ _ _ a .. => a
def anyOf : Schema → List Schema | .mk _ _ _ _ _ _ _ _ _ a .. => a
def oneOf : Schema → List Schema | .mk _ _ _ _ _ _ _ _ _ _ o _ => o
def not : Schema → Option Schema | .mk _ _ _ _ _ _ _ _ _ _ _ n => n
/-- the empty schema `{}` -/
def empty : Schema := .mk {} none [] none [] [] none [] [] [] [] none
end Schema

/-- External behaviour the validators depend on, as parameters (∀ in theorems; filled by
    the harness from Go's own `regexp`, the supplied `strfmt.Registry` and `swag`). -/
structure Oracles where
  /-- `regexp.Compile(p)` then `MatchString(s)`; `none` = pattern does not compile -/
  re : String → String → Option Bool
  /-- `registry.ContainsName(f)` -/
  fmtKnown : String → Bool
  /-- `registry.Validates(f, s)` -/
  fmt : String → String → Bool
  /-- `swag.IsFloat64AJSONInteger(float64(x))` (tolerance-based) -/
  isIntTol : Rat → Bool
  /-- float path of `MultipleOf(data, factor)`: quotient in float64, then `isIntTol` -/
  mulOfTol : Rat → Rat → Bool

end VM
