/-
  Specification layer for C09: what a traversal of a schema must report — the judgement of the
  default (or example) at every place the schema can carry one, at any depth through items,
  tuple items, additionalItems, properties, patternProperties, additionalProperties and allOf,
  each under the dotted path of its location — stated by recursion over the schema, without
  visited sets, result merging or iteration state.
-/
import VM.Impl.Defaults
namespace VM.Sw
open VM

/-- where the walker's findings end up: errors for defaults, warnings for examples -/
def reportedOf (w : Which) (r : Res) : List Msg := match w with | .dflt => r.errors | .exmp => r.warnings
/-- what a judge's result contributes: for examples its errors *and* warnings become warnings -/
def judgedOf (w : Which) (j : Res) : List Msg := match w with | .dflt => j.errors | .exmp => j.errors ++ j.warnings

/-- the value at this node, judged by the node's own schema under `path.default` / `path.example` -/
def ownJudged (J : Judges) (w : Which) (s : Schema) (path : String) (m : Msg) : Prop :=
  match w.value s.base with
  | some v => m ∈ judgedOf w (J.schema s (path ++ "." ++ w.suffix) v)
  | none => False

/-- a pattern that does not compile is an error of the default validator's traversal -/
def ownPattern (O : Oracles) (w : Which) (inn : String) (b : SBase) (path : String) (m : Msg) : Prop :=
  w = .dflt ∧ patOK O b.pattern = false ∧ m = mkMsg "invalidPatternIn" [path, inn, b.pattern]

mutual
/-- `m` must be reported for schema `s` located at `path` -/
def Exp (J : Judges) (O : Oracles) (w : Which) (inn : String) : Schema → String → Msg → Prop
  | .mk b itemsS itemsT addItemsS props patProps addPropsS deps allOf anyOf oneOf nt, path, m =>
    ownJudged J w (.mk b itemsS itemsT addItemsS props patProps addPropsS deps allOf anyOf oneOf nt) path m
    ∨ (match itemsS with | some s => Exp J O w inn s (path ++ ".items." ++ w.suffix) m | none => False)
    ∨ ExpL J O w inn itemsT path 0 m
    ∨ ownPattern O w inn b path m
    ∨ (match addItemsS with | some s => Exp J O w inn s (path ++ ".additionalItems") m | none => False)
    ∨ ExpM J O w inn props path m
    ∨ ExpM J O w inn patProps path m
    ∨ (match addPropsS with | some s => Exp J O w inn s (path ++ ".additionalProperties") m | none => False)
    ∨ ExpA J O w inn allOf path 0 m
termination_by structural s => s
def ExpL (J : Judges) (O : Oracles) (w : Which) (inn : String) : List Schema → String → Nat → Msg → Prop
  | [], _, _, _ => False
  | s :: ss, path, i, m =>
    Exp J O w inn s (path ++ ".items[" ++ toString i ++ "]." ++ w.suffix) m ∨ ExpL J O w inn ss path (i + 1) m
termination_by structural l => l
def ExpM (J : Judges) (O : Oracles) (w : Which) (inn : String) : List (String × Schema) → String → Msg → Prop
  | [], _, _ => False
  | (name, s) :: ps, path, m => Exp J O w inn s (path ++ "." ++ name) m ∨ ExpM J O w inn ps path m
termination_by structural l => l
def ExpA (J : Judges) (O : Oracles) (w : Which) (inn : String) : List Schema → String → Nat → Msg → Prop
  | [], _, _, _ => False
  | s :: ss, path, i, m =>
    Exp J O w inn s (path ++ ".allOf[" ++ toString i ++ "]") m ∨ ExpA J O w inn ss path (i + 1) m
termination_by structural l => l
end

/- no path the walker would visit below (and including) `path` triggers the suffix heuristic -/
mutual
def noOverlap (w : Which) : Schema → String → Bool
  | .mk _ itemsS itemsT addItemsS props patProps addPropsS _ allOf _ _ _, path =>
    !suffixOverlap path
    && (match itemsS with | some s => noOverlap w s (path ++ ".items." ++ w.suffix) | none => true)
    && noOverlapL w itemsT path 0
    && (match addItemsS with | some s => noOverlap w s (path ++ ".additionalItems") | none => true)
    && noOverlapM w props path && noOverlapM w patProps path
    && (match addPropsS with | some s => noOverlap w s (path ++ ".additionalProperties") | none => true)
    && noOverlapA w allOf path 0
termination_by structural s => s
def noOverlapL (w : Which) : List Schema → String → Nat → Bool
  | [], _, _ => true
  | s :: ss, path, i => noOverlap w s (path ++ ".items[" ++ toString i ++ "]." ++ w.suffix) && noOverlapL w ss path (i + 1)
termination_by structural l => l
def noOverlapM (w : Which) : List (String × Schema) → String → Bool
  | [], _ => true
  | (name, s) :: ps, path => noOverlap w s (path ++ "." ++ name) && noOverlapM w ps path
termination_by structural l => l
def noOverlapA (w : Which) : List Schema → String → Nat → Bool
  | [], _, _ => true
  | s :: ss, path, i => noOverlap w s (path ++ ".allOf[" ++ toString i ++ "]") && noOverlapA w ss path (i + 1)
termination_by structural l => l
end


/- the paths the walker visits below (and including) `path`, in the order it visits them -/
mutual
def pathsOf (w : Which) : Schema → String → List String
  | .mk _ itemsS itemsT addItemsS props patProps addPropsS _ allOf _ _ _, path =>
    path ::
    ((match itemsS with | some s => pathsOf w s (path ++ ".items." ++ w.suffix) | none => [])
    ++ pathsOfL w itemsT path 0
    ++ (match addItemsS with | some s => pathsOf w s (path ++ ".additionalItems") | none => [])
    ++ pathsOfM w props path ++ pathsOfM w patProps path
    ++ (match addPropsS with | some s => pathsOf w s (path ++ ".additionalProperties") | none => [])
    ++ pathsOfA w allOf path 0)
termination_by structural s => s
def pathsOfL (w : Which) : List Schema → String → Nat → List String
  | [], _, _ => []
  | s :: ss, path, i => pathsOf w s (path ++ ".items[" ++ toString i ++ "]." ++ w.suffix) ++ pathsOfL w ss path (i + 1)
termination_by structural l => l
def pathsOfM (w : Which) : List (String × Schema) → String → List String
  | [], _ => []
  | (name, s) :: ps, path => pathsOf w s (path ++ "." ++ name) ++ pathsOfM w ps path
termination_by structural l => l
def pathsOfA (w : Which) : List Schema → String → Nat → List String
  | [], _, _ => []
  | s :: ss, path, i => pathsOf w s (path ++ ".allOf[" ++ toString i ++ "]") ++ pathsOfA w ss path (i + 1)
termination_by structural l => l
end

/-- the walker's bookkeeping cannot cut anything off: no walked path triggers the suffix heuristic, no two walked
    locations render to the same path, none was visited before -/
def Unambiguous (w : Which) (s : Schema) (path : String) (vis : List String) : Prop :=
  noOverlap w s path = true ∧ (pathsOf w s path).Nodup ∧ ∀ p ∈ pathsOf w s path, p ∉ vis

end VM.Sw
