/-
  Specification for C18 / C19: which schemas are *applicable* to a member of an object of valid
  data — through properties, every allOf member, the selected (first valid) anyOf alternative, the
  single valid oneOf alternative, schema dependencies of present keys, at any depth of objects and
  array elements present in the data.
-/
import VM.Spec.Valid
namespace VM.Spec

abbrev Pos := List String

/-- "schema `dflt?` describes member `field` of the object at `pos`" -/
structure Applies where
  pos : Pos
  field : String
  dflt : Option JVal      -- the default the describing property schema declares, if the member is absent
  deriving Inhabited

abbrev A := Pos → JVal → List Applies

structure AKids where
  itemsS : Option A := none
  itemsT : List A := []
  addItemsS : Option A := none
  props : List (String × Option JVal × A) := []
  patProps : List (String × A) := []
  addPropsS : Option A := none
  depSchemas : List (String × A) := []
  allOf : List A := []
  anyOf : List A := []
  oneOf : List A := []

def declaresDefault : Option JVal → Bool
  | some .null => false | some _ => true | none => false

def nodeApplies (O : Oracles) (b : SBase) (k : AKids) (anyOk oneOk : List Bool) (pos : Pos) (v : JVal) : List Applies :=
  let sel (fs : List A) (oks : List Bool) : List Applies :=
    match (fs.zip oks).find? (·.2) with | some (f, _) => f pos v | none => []
  -- composition: same object, same position
  (sel k.anyOf anyOk)
  ++ (if (oneOk.filter id).length == 1 then sel k.oneOf oneOk else [])
  ++ (k.allOf.map fun f => f pos v).flatten
  ++ (match v with
      | .obj kvs => (k.depSchemas.map fun (name, f) => if ahas name kvs then f pos v else []).flatten
      | _ => [])
  -- array elements
  ++ (match v with
      | .arr xs =>
        (match k.itemsS with
         | some f => (xs.zipIdx.map fun (x, i) => f (pos ++ [toString i]) x).flatten
         | none => [])
        ++ ((k.itemsT.zip xs).zipIdx.map fun ((f, x), i) => f (pos ++ [toString i]) x).flatten
        ++ (match b.addItems, k.addItemsS with
            | .schema, some f =>
              if k.itemsT.isEmpty then []
              else ((xs.zipIdx.drop k.itemsT.length).map fun (x, i) => f (pos ++ [toString i]) x).flatten
            | _, _ => [])
      | _ => [])
  -- object members
  ++ (match v with
      | .obj kvs =>
        -- declared properties: present ones are described (and looked into), absent ones may carry a default
        (k.props.map fun (name, dflt, f) =>
          match alookup name kvs with
          | some x => { pos := pos, field := name, dflt := none } :: f (pos ++ [name]) x
          | none => if declaresDefault dflt then [{ pos := pos, field := name, dflt := dflt }] else []).flatten
        -- members matched by pattern properties
        ++ (kvs.map fun (name, x) =>
              (k.patProps.filter fun (p, _) => O.re p name == some true).map (fun (_, f) =>
                (if ahas name k.props then [] else [{ pos := pos, field := name, dflt := none }]) ++ f (pos ++ [name]) x)
              |>.flatten).flatten
        -- additional members under a schema-valued additionalProperties
        ++ (match b.addProps, k.addPropsS with
            | .schema, some f =>
              (kvs.map fun (name, x) =>
                if ahas name k.props || k.patProps.any (fun (p, _) => O.re p name == some true) then []
                else { pos := pos, field := name, dflt := none } :: f (pos ++ [name]) x).flatten
            | _, _ => [])
      | _ => [])

mutual
def applies (O : Oracles) (r : String → JVal → Bool) (ra : String → A) : Schema → A
  | .mk b itemsS itemsT addItemsS props patProps addPropsS depSchemas allOf anyOf oneOf _, pos, v =>
    if b.ref != "" then ra b.ref pos v else
    nodeApplies O b
      { itemsS := match itemsS with | some s => some (fun p x => applies O r ra s p x) | none => none
        itemsT := appliesL O r ra itemsT
        addItemsS := match addItemsS with | some s => some (fun p x => applies O r ra s p x) | none => none
        props := appliesP O r ra props
        patProps := appliesM O r ra patProps
        addPropsS := match addPropsS with | some s => some (fun p x => applies O r ra s p x) | none => none
        depSchemas := appliesM O r ra depSchemas
        allOf := appliesL O r ra allOf
        anyOf := appliesL O r ra anyOf
        oneOf := appliesL O r ra oneOf }
      (validOkL O r anyOf v) (validOkL O r oneOf v) pos v
termination_by structural s => s
def appliesL (O : Oracles) (r : String → JVal → Bool) (ra : String → A) : List Schema → List A
  | [] => []
  | s :: ss => (fun p x => applies O r ra s p x) :: appliesL O r ra ss
termination_by structural l => l
def appliesM (O : Oracles) (r : String → JVal → Bool) (ra : String → A) : List (String × Schema) → List (String × A)
  | [] => []
  | (k, s) :: ps => (k, fun p x => applies O r ra s p x) :: appliesM O r ra ps
termination_by structural l => l
def appliesP (O : Oracles) (r : String → JVal → Bool) (ra : String → A) :
    List (String × Schema) → List (String × Option JVal × A)
  | [] => []
  | (k, s) :: ps => (k, s.base.default, fun p x => applies O r ra s p x) :: appliesP O r ra ps
termination_by structural l => l
def validOkL (O : Oracles) (r : String → JVal → Bool) : List Schema → JVal → List Bool
  | [], _ => []
  | s :: ss, v => valid O r s v :: validOkL O r ss v
termination_by structural l => l
end

def appliesF (O : Oracles) (defs : String → Option Schema) : Nat → Schema → A
  | 0, s, p, v => applies O (fun _ _ => false) (fun _ _ _ => []) s p v
  | n + 1, s, p, v =>
    applies O (fun name x => match defs name with | some t => validF O defs n t x | none => false)
      (fun name p' x => match defs name with | some t => appliesF O defs n t p' x | none => []) s p v

end VM.Spec
