/-
  Specification of results for C20: ordered duplicate-free message lists and a counter.
-/
import VM.Impl.Result
namespace VM.Spec

/-- first-occurrence de-duplication -/
def dedup : List Msg → List Msg
  | [] => []
  | m :: ms => m :: (dedup ms).filter (· != m)

/-- ordered-set union: what is there stays, in order; then the new messages, each once,
    in order of first occurrence. -/
def ordUnion (cur : List Msg) (new : List Msg) : List Msg :=
  cur ++ (dedup new).filter (fun m => !cur.contains m)

end VM.Spec
