/-
  Specification layer for C03: the documented extra rules of spec validation, stated over the
  analysed view as plain propositions (one conjunct per rule, phrased from doc.go and the rule's
  own comment, not from its loop).
-/
import VM.SpecView
import VM.Impl.SpecRules
namespace VM.Sw.Rules
open VM Sw

/-- "OperationID, if specified, must be unique across the board" (operations without one count
    under their "METHOD path" name, as the analyzer lists them) -/
def UniqueOperationIds (v : View) : Prop := ((v.ops.map effId).filter (· != "")).Nodup

/-- "each parameter should have a unique `name` and `in` combination" (among the operation's own
    parameters; unnamed ones do not take part) -/
def UniqueNameLocation (o : Op) : Prop := ((o.opParams.filter (·.name != "")).map pkey).Nodup

/-- "each defined operation path parameter must correspond to a named element in the path
    pattern" and the other way round: the two are in one-to-one correspondence -/
def PathParamsMatch (o : Op) : Prop :=
  (∀ l ∈ extractPathParams o.path, ∃ p ∈ o.params, p.loc = "path" ∧ l = "{" ++ p.name ++ "}")
  ∧ (∀ p ∈ o.params, p.loc = "path" → ("{" ++ p.name ++ "}") ∈ extractPathParams o.path)
  ∧ (extractPathParams o.path).Nodup

/-- "path param must be required" -/
def PathParamsRequired (o : Op) : Prop := ∀ p ∈ o.params, p.loc = "path" → p.required = true

/-- "there must be at most 1 parameter in body" -/
def AtMostOneBody (o : Op) : Prop := (o.params.filter (·.loc == "body")).length ≤ 1

/-- "In:formData and In:body are mutually exclusive" -/
def NotBodyAndForm (o : Op) : Prop := ¬ ((∃ p ∈ o.params, p.loc = "body") ∧ (∃ p ∈ o.params, p.loc = "formData"))

/-- "parameters with pattern property must specify valid patterns" -/
def ParamPatternsValid (O : Oracles) (o : Op) : Prop := ∀ p ∈ o.params, patOK O p.base.pattern = true

def OperationRules (O : Oracles) (o : Op) : Prop :=
  UniqueNameLocation o ∧ PathParamsMatch o ∧ PathParamsRequired o ∧ AtMostOneBody o ∧ NotBodyAndForm o ∧ ParamPatternsValid O o

/-- "for each method, path is unique, regardless of path parameters" (with the option on) -/
def NoOverlap (ops : List Op) : Prop :=
  ∀ a ∈ ops, ∀ b ∈ ops, a.method = b.method → stripParametersInPath a.path = stripParametersInPath b.path → a.path = b.path

/-- "each property listed in the required array must be defined": a declared property, or a
    pattern property whose pattern matches the name, or `additionalProperties: true`, or defined
    the same way inside a schema-valued `additionalProperties` — and every pattern looked at on
    the way compiles ("valid patterns") -/
def requiredOK (O : Oracles) (name : String) : Nat → Schema → Bool
  | 0, _ => true
  | fuel + 1, s =>
    s.patProps.all (fun pp => (O.re pp.1 name).isSome)
    && (directMatch O name s
        || (match s.base.addProps, s.addPropsS with
            | .bool true, _ => true
            | .schema, some a => requiredOK O name fuel a
            | _, _ => false))

def RequiredDefined (O : Oracles) (v : View) : Prop :=
  ∀ ds ∈ v.defs, ∀ pn ∈ ds.2.base.required, requiredOK O pn 64 ds.2 = true

/-- "a path is defined, no placeholder is empty" -/
def PathsPresent (v : View) : Prop :=
  v.hasPaths = true ∧ (v.hasPathItems = true → ∀ k ∈ v.pathKeys, containsEmptyBraces k.toList = false)

/-! ### "items property is required for all schemas/definitions of type `array`" -/

/-- along the chain of `items` of a schema (references followed): every level of type array declares its items (one schema
    or a tuple), and the pattern of each single-schema items level compiles ("valid patterns") -/
def itemsDeclared (O : Oracles) (defs : String → Option Schema) : Nat → Schema → Bool
  | 0, _ => true
  | fuel + 1, s =>
    if s.base.ref != "" then
      (match defs s.base.ref with
       | some t => itemsDeclared O defs fuel t
       | none => true)
    else if !s.base.types.contains "array" then true
    else match s.itemsS, s.itemsT with
      | none, [] => false
      | none, _ :: _ => true
      | some it, _ => patOK O ((chase defs 64 it).getD it).base.pattern && itemsDeclared O defs fuel it

/-- a parameter: an array declares its items at every level of its `items` chain; a body parameter's schema likewise -/
def ParamDeclaresItems (O : Oracles) (defs : String → Option Schema) (p : Param) : Prop :=
  ¬ (p.type = "array" ∧ p.itemsType = "")
  ∧ (p.loc ≠ "body" → itemsChainOK p.items = true)
  ∧ (p.loc = "body" → ∀ s, p.schema = some s → itemsDeclared O defs 64 s = true)

def ResponseDeclaresItems (O : Oracles) (r : Response) : Prop :=
  (∀ h ∈ r.headers, ¬ (h.type = "array" ∧ h.itemsType = ""))
  ∧ (∀ s, r.schema = some s → itemsDeclared O (fun _ => none) 64 s = true)

def ArraysDeclareItems (O : Oracles) (defs : String → Option Schema) (v : View) : Prop :=
  ∀ o ∈ v.ops, (∀ p ∈ o.params, ParamDeclaresItems O defs p) ∧ (∀ r ∈ o.rawResponses, ResponseDeclaresItems O r)

/-! ### inheritance: "definition's ancestor can't be a descendant of the same model", "definition can't declare a
    property that's already defined by one of its ancestors" -/

/-- The walk down the ancestry of `sch` — through `$ref` (alias chains resolved by `chase`; a chain of bare references that
    closes on itself, `aliasLoop`, is circular by itself) and through the allOf members
    that are references or anonymous allOf — having followed the references in `path`, follows one of them again within
    `n` levels of nesting. -/
inductive Revisits (defs : String → Option Schema) : Nat → Schema → List String → Prop
  | alias {n : Nat} {sch : Schema} {path : List String} {r : String} :
      ¬ (sch.base.ref = "" ∧ sch.allOf = []) → aliasLoop defs 64 sch [] = some r → Revisits defs (n + 1) sch path
  | hit {n : Nat} {sch schc : Schema} {path : List String} :
      sch.base.ref ≠ "" → chase defs 64 sch = some schc → sch.base.ref ∈ path → Revisits defs (n + 1) sch path
  | down {n : Nat} {sch schc chld : Schema} {path : List String} :
      ¬ (sch.base.ref = "" ∧ sch.allOf = []) → chase defs 64 sch = some schc →
      ¬ (sch.base.ref ≠ "" ∧ sch.base.ref ∈ path) → chld ∈ ancestryKids schc →
      Revisits defs n chld (if sch.base.ref ≠ "" then sch.base.ref :: path else path) →
      Revisits defs (n + 1) sch path

/-- no ancestor of definition `k` is its own ancestor (the walk starts with the definition itself on the path);
    64 = the nesting depth the model follows -/
def NoCircularAncestry (defs : String → Option Schema) (k : String) (sch : Schema) : Prop :=
  ¬ Revisits defs 64 sch [defRef k]

/-- the property names declared along the ancestry of `sch`: those of the leaves of its allOf tree, references followed -/
def leafNames (defs : String → Option Schema) : Nat → Schema → List String
  | 0, _ => []
  | fuel + 1, sch =>
    match chase defs 64 sch with
    | none => []
    | some schc =>
      if !schc.allOf.isEmpty then (schc.allOf.map fun c => leafNames defs fuel c).flatten
      else akeys schc.props

/-- no property name is declared twice along the ancestry -/
def NoDuplicateInheritedProperty (defs : String → Option Schema) (sch : Schema) : Prop :=
  (leafNames defs 64 sch).Nodup

/-- both inheritance rules, for every definition that inherits -/
def InheritanceRules (v : View) : Prop :=
  ∀ ds ∈ v.defs, ds.2.allOf ≠ [] →
    NoCircularAncestry (defsLookup v) ds.1 ds.2 ∧ NoDuplicateInheritedProperty (defsLookup v) ds.2

def RulesHold (O : Oracles) (v : View) : Prop :=
  v.refsResolve = true
  ∧ UniqueOperationIds v
  ∧ InheritanceRules v
  ∧ (v.strict = true → NoOverlap v.ops)
  ∧ (∀ o ∈ v.ops, OperationRules O o)
  ∧ ArraysDeclareItems O (fun _ => none) v
  ∧ RequiredDefined O v
  ∧ PathsPresent v

end VM.Sw.Rules
