/-
  Specification layer for C03: the documented extra rules of spec validation, stated over the
  analysed view as plain propositions (one conjunct per rule, phrased from doc.go and the rule's
  own comment, not from its loop).
-/
import VM.SpecView
import VM.Impl.SpecRules
namespace VM.Sw.Rules
open VM Sw

/-- "OperationID, if specified, must be unique across the board" (operations without one count
    under their "METHOD path" name, as the analyzer lists them) -/
def UniqueOperationIds (v : View) : Prop := ((v.ops.map effId).filter (· != "")).Nodup

/-- "each parameter should have a unique `name` and `in` combination" (among the operation's own
    parameters; unnamed ones do not take part) -/
def UniqueNameLocation (o : Op) : Prop := ((o.opParams.filter (·.name != "")).map pkey).Nodup

/-- "each defined operation path parameter must correspond to a named element in the path
    pattern" and the other way round: the two are in one-to-one correspondence -/
def PathParamsMatch (o : Op) : Prop :=
  (∀ l ∈ extractPathParams o.path, ∃ p ∈ o.params, p.loc = "path" ∧ l = "{" ++ p.name ++ "}")
  ∧ (∀ p ∈ o.params, p.loc = "path" → ("{" ++ p.name ++ "}") ∈ extractPathParams o.path)
  ∧ (extractPathParams o.path).Nodup

/-- "path param must be required" -/
def PathParamsRequired (o : Op) : Prop := ∀ p ∈ o.params, p.loc = "path" → p.required = true

/-- "there must be at most 1 parameter in body" -/
def AtMostOneBody (o : Op) : Prop := (o.params.filter (·.loc == "body")).length ≤ 1

/-- "In:formData and In:body are mutually exclusive" -/
def NotBodyAndForm (o : Op) : Prop := ¬ ((∃ p ∈ o.params, p.loc = "body") ∧ (∃ p ∈ o.params, p.loc = "formData"))

/-- "parameters with pattern property must specify valid patterns" -/
def ParamPatternsValid (O : Oracles) (o : Op) : Prop := ∀ p ∈ o.params, patOK O p.base.pattern = true

def OperationRules (O : Oracles) (o : Op) : Prop :=
  UniqueNameLocation o ∧ PathParamsMatch o ∧ PathParamsRequired o ∧ AtMostOneBody o ∧ NotBodyAndForm o ∧ ParamPatternsValid O o

/-- "for each method, path is unique, regardless of path parameters" (with the option on) -/
def NoOverlap (ops : List Op) : Prop :=
  ∀ a ∈ ops, ∀ b ∈ ops, a.method = b.method → stripParametersInPath a.path = stripParametersInPath b.path → a.path = b.path

/-- "each property listed in the required array must be defined": a declared property, or a
    pattern property whose pattern matches the name, or `additionalProperties: true`, or defined
    the same way inside a schema-valued `additionalProperties` — and every pattern looked at on
    the way compiles ("valid patterns") -/
def requiredOK (O : Oracles) (name : String) : Nat → Schema → Bool
  | 0, _ => true
  | fuel + 1, s =>
    s.patProps.all (fun pp => (O.re pp.1 name).isSome)
    && (directMatch O name s
        || (match s.base.addProps, s.addPropsS with
            | .bool true, _ => true
            | .schema, some a => requiredOK O name fuel a
            | _, _ => false))

def RequiredDefined (O : Oracles) (v : View) : Prop :=
  ∀ ds ∈ v.defs, ∀ pn ∈ ds.2.base.required, requiredOK O pn 64 ds.2 = true

/-- "a path is defined, no placeholder is empty" -/
def PathsPresent (v : View) : Prop :=
  v.hasPaths = true ∧ (v.hasPathItems = true → ∀ k ∈ v.pathKeys, containsEmptyBraces k.toList = false)

def RulesHold (O : Oracles) (v : View) : Prop :=
  v.refsResolve = true
  ∧ UniqueOperationIds v
  ∧ duplicatePropertyErrs (defsLookup v) v.defs = []          -- inheritance rules: as computed (no independent statement yet)
  ∧ (v.strict = true → NoOverlap v.ops)
  ∧ (∀ o ∈ v.ops, OperationRules O o)
  ∧ itemsErrs O (fun _ => none) v = []                        -- arrays declare items: the chain predicate is its own statement
  ∧ RequiredDefined O v
  ∧ PathsPresent v

end VM.Sw.Rules
