/-
  Specification layer for C01: JSON-Schema draft-4 validity, as a Boolean function.

  `nodeValid` is the semantics of one schema node given the verdict functions of its
  sub-schemas (`SKids`); `valid` ties the recursion over the schema tree; `r` resolves `$ref`
  leaves (name → instance → verdict) and `validF` ties that knot by fuel.
-/
import VM.Schema
namespace VM.Spec

/-- `x ≤ *m` for an optional upper bound (absent = no constraint) -/
def atMost (x : Int) : Option Int → Bool
  | none => true
  | some m => decide (x ≤ m)
/-- `*m ≤ x` for an optional lower bound -/
def atLeast (x : Int) : Option Int → Bool
  | none => true
  | some m => decide (m ≤ x)

def typeMatches (t : String) (v : JVal) : Bool :=
  if t == "integer" then v.isInteger else t == v.typeName

def typeOK (types : List String) (v : JVal) : Bool :=
  types.isEmpty || types.any (typeMatches · v)

def enumOK (enum : List JVal) (v : JVal) : Bool :=
  enum.isEmpty || enum.any (jeq · v)

def maxOK (b : SBase) (n : Rat) : Bool :=
  match b.maximum with
  | none => true
  | some m => if b.exclMax then n < m else n ≤ m

def minOK (b : SBase) (n : Rat) : Bool :=
  match b.minimum with
  | none => true
  | some m => if b.exclMin then m < n else m ≤ n

def mulOK (b : SBase) (n : Rat) : Bool :=
  match b.multipleOf with
  | none => true
  | some m => (n / m).isInt

def numOK (b : SBase) : JVal → Bool
  | .num n => maxOK b n && minOK b n && mulOK b n
  | _ => true

def strOK (O : Oracles) (b : SBase) : JVal → Bool
  | .str s =>
    atMost s.length b.maxLength
    && atLeast s.length b.minLength
    && (b.pattern == "" || O.re b.pattern s == some true)
    && (!O.fmtKnown b.format || O.fmt b.format s)
  | _ => true

/-- pairwise distinct under `jeq` -/
def uniq : List JVal → Bool
  | [] => true
  | x :: xs => !xs.any (jeq x ·) && uniq xs

def arrSizeOK (b : SBase) : JVal → Bool
  | .arr xs =>
    atMost xs.length b.maxItems
    && atLeast xs.length b.minItems
    && (!b.uniqueItems || uniq xs)
  | _ => true

def objSizeOK (b : SBase) : JVal → Bool
  | .obj kvs =>
    atMost kvs.length b.maxProps
    && atLeast kvs.length b.minProps
    && b.required.all (fun k => ahas k kvs)
  | _ => true

/-- verdict functions of the sub-schemas of one node -/
structure SKids where
  itemsS : Option (JVal → Bool) := none
  itemsT : List (JVal → Bool) := []
  addItemsS : Option (JVal → Bool) := none
  props : List (String × (JVal → Bool)) := []
  patProps : List (String × (JVal → Bool)) := []
  addPropsS : Option (JVal → Bool) := none
  depSchemas : List (String × (JVal → Bool)) := []
  allOf : List (JVal → Bool) := []
  anyOf : List (JVal → Bool) := []
  oneOf : List (JVal → Bool) := []
  not : Option (JVal → Bool) := none

/-- does some patternProperties key match the member name? -/
def patMatches (O : Oracles) (pats : List String) (k : String) : Bool :=
  pats.any (fun p => O.re p k == some true)

/-- positional items: element i against schema i, as far as both go -/
def tupleOK : List (JVal → Bool) → List JVal → Bool
  | f :: fs, x :: xs => f x && tupleOK fs xs
  | _, _ => true

/-- `items: {schema}`: every element -/
def allItems (f : Option (JVal → Bool)) (xs : List JVal) : Bool :=
  match f with
  | some g => xs.all g
  | none => true

/-- `additionalItems` next to a tuple: `false` forbids extra elements, a schema constrains them -/
def addlItemsOK (b : SBase) (k : SKids) (xs : List JVal) : Bool :=
  match b.addItems, k.addItemsS with
  | .bool false, _ => decide (xs.length ≤ k.itemsT.length)
  | .schema, some f => (xs.drop k.itemsT.length).all f
  | _, _ => true

def itemsOK (b : SBase) (k : SKids) : JVal → Bool
  | .arr xs =>
    allItems k.itemsS xs && (k.itemsT.isEmpty || (tupleOK k.itemsT xs && addlItemsOK b k xs))
  | _ => true

/-- is the member name "additional" (neither declared nor pattern-matched)? -/
def isAdditional (O : Oracles) (k : SKids) (name : String) : Bool :=
  !(ahas name k.props || patMatches O (akeys k.patProps) name)

/-- a declared property that is present must satisfy its schema -/
def propOK (kvs : List (String × JVal)) (nf : String × (JVal → Bool)) : Bool :=
  match alookup nf.1 kvs with
  | some x => nf.2 x
  | none => true

def propsOK (k : SKids) (kvs : List (String × JVal)) : Bool := k.props.all (propOK kvs)

/-- member (name, x) against every pattern property whose pattern matches its name -/
def patsOKFor (O : Oracles) (k : SKids) (name : String) (x : JVal) : Bool :=
  k.patProps.all (fun pf => !(O.re pf.1 name == some true) || pf.2 x)

def patsOK (O : Oracles) (k : SKids) (kvs : List (String × JVal)) : Bool :=
  kvs.all (fun kv => patsOKFor O k kv.1 kv.2)

/-- additional members: forbidden by `false`, constrained by a schema -/
def addlPropsOK (O : Oracles) (b : SBase) (k : SKids) (kvs : List (String × JVal)) : Bool :=
  match b.addProps, k.addPropsS with
  | .bool false, _ => kvs.all (fun kv => !isAdditional O k kv.1)
  | .schema, some f => kvs.all (fun kv => !isAdditional O k kv.1 || f kv.2)
  | _, _ => true

def membersOK (O : Oracles) (b : SBase) (k : SKids) (v : JVal) : Bool :=
  match v with
  | .obj kvs => propsOK k kvs && patsOK O k kvs && addlPropsOK O b k kvs
  | _ => true

/-- dependencies: if the key is present, the listed members must be present too (property
    dependency) or the whole object must satisfy the schema (schema dependency) -/
def depsOK (b : SBase) (k : SKids) (v : JVal) : Bool :=
  match v with
  | .obj kvs =>
    b.depProps.all (fun nd => !ahas nd.1 kvs || nd.2.all (fun d => ahas d kvs))
    && k.depSchemas.all (fun nf => !ahas nf.1 kvs || nf.2 v)
  | _ => true

def countTrue (fs : List (JVal → Bool)) (v : JVal) : Nat := (fs.filter (· v)).length

/-- `not`: the instance must be rejected by the schema -/
def notOK (f : Option (JVal → Bool)) (v : JVal) : Bool :=
  match f with
  | some g => !g v
  | none => true

def compOK (k : SKids) (v : JVal) : Bool :=
  k.allOf.all (· v)
  && (k.anyOf.isEmpty || k.anyOf.any (· v))
  && (k.oneOf.isEmpty || countTrue k.oneOf v == 1)
  && notOK k.not v

/-- draft-4 validity of one node, given the verdicts of its sub-schemas -/
def nodeValid (O : Oracles) (b : SBase) (k : SKids) (v : JVal) : Bool :=
  typeOK b.types v && enumOK b.enum v && numOK b v && strOK O b v
  && arrSizeOK b v && objSizeOK b v
  && itemsOK b k v && membersOK O b k v && depsOK b k v && compOK k v

mutual
def valid (O : Oracles) (r : String → JVal → Bool) : Schema → JVal → Bool
  | .mk b itemsS itemsT addItemsS props patProps addPropsS depSchemas allOf anyOf oneOf not, v =>
    if b.ref != "" then r b.ref v else
    nodeValid O b
      { itemsS := match itemsS with | some s => some (fun x => valid O r s x) | none => none
        itemsT := validL O r itemsT
        addItemsS := match addItemsS with | some s => some (fun x => valid O r s x) | none => none
        props := validM O r props
        patProps := validM O r patProps
        addPropsS := match addPropsS with | some s => some (fun x => valid O r s x) | none => none
        depSchemas := validM O r depSchemas
        allOf := validL O r allOf
        anyOf := validL O r anyOf
        oneOf := validL O r oneOf
        not := match not with | some s => some (fun x => valid O r s x) | none => none } v
termination_by structural s => s
def validL (O : Oracles) (r : String → JVal → Bool) : List Schema → List (JVal → Bool)
  | [] => []
  | s :: ss => (fun x => valid O r s x) :: validL O r ss
termination_by structural l => l
def validM (O : Oracles) (r : String → JVal → Bool) : List (String × Schema) → List (String × (JVal → Bool))
  | [] => []
  | (k, s) :: ps => (k, fun x => valid O r s x) :: validM O r ps
termination_by structural l => l
end

/-- `$ref` resolution by fuel: `defs name` is the schema a reference points to. A reference
    chain longer than the fuel yields `false`. -/
def validF (O : Oracles) (defs : String → Option Schema) : Nat → Schema → JVal → Bool
  | 0, s, v => valid O (fun _ _ => false) s v
  | n + 1, s, v =>
    valid O (fun name x => match defs name with
                           | some t => validF O defs n t x
                           | none => false) s v

end VM.Spec
