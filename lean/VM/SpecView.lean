/-
  The analysed view of a Swagger 2.0 document that the extra rules of spec validation work on
  (spec.go, helpers.go, default_validator.go, example_validator.go): operations with their
  resolved parameters and responses, and the definitions. Decoding and `$ref` expansion
  (go-openapi/spec, loads, analysis) are outside the model; the driver builds the view from the
  raw document and the correspondence check ties the whole to the code.
-/
import VM.Schema
namespace VM.Sw

/-- one level of a `spec.Items` chain (the `items` of a simple parameter or header) -/
structure ItemLevel where
  base : SBase := {}            -- type (first of `types`), format, pattern, default, example, constraints
  deriving Inhabited

def ItemLevel.type (l : ItemLevel) : String := l.base.types.headD ""

structure Param where
  name : String := ""
  loc : String := ""            -- `in`
  required : Bool := false
  allowEmpty : Bool := false    -- `allowEmptyValue`
  base : SBase := {}            -- simple-schema keywords of a non-body parameter
  /-- the `items` chain, outermost first; [] = no `items` -/
  items : List ItemLevel := []
  /-- `schema` of a body parameter (expanded: `$ref` leaves resolve through the definitions) -/
  schema : Option Schema := none
  deriving Inhabited

def Param.type (p : Param) : String := p.base.types.headD ""
/-- `Parameter.ItemsTypeName()` -/
def Param.itemsType (p : Param) : String := match p.items with | l :: _ => l.type | [] => ""

structure Header where
  name : String := ""
  base : SBase := {}
  items : List ItemLevel := []
  deriving Inhabited

def Header.type (h : Header) : String := h.base.types.headD ""
def Header.itemsType (h : Header) : String := match h.items with | l :: _ => l.type | [] => ""

structure Response where
  /-- "default" or the status code in decimal -/
  code : String := ""
  isDefault : Bool := false
  schema : Option Schema := none
  headers : List Header := []
  /-- `none` = no `examples` member -/
  examples : Option (List (String × JVal)) := none
  deriving Inhabited

structure Op where
  /-- upper case, as the analyzer keys operations -/
  method : String := ""
  path : String := ""
  id : String := ""
  /-- path-item level parameters, resolved, in document order -/
  piParams : List Param := []
  /-- operation level parameters, resolved, in document order -/
  opParams : List Param := []
  /-- responses after expansion of `#/responses/…` (`none` = no responses object) -/
  responses : Option (List Response) := none
  /-- responses as written (a referenced response shows no schema and no headers) -/
  rawResponses : List Response := []
  deriving Inhabited

structure View where
  /-- `Paths != nil` -/
  hasPaths : Bool := true
  /-- `Paths.Paths != nil` -/
  hasPathItems : Bool := true
  pathKeys : List String := []
  ops : List Op := []
  /-- definitions as written (references unexpanded) -/
  defs : List (String × Schema) := []
  /-- `Options.StrictPathParamUniqueness` -/
  strict : Bool := false
  /-- every `$ref` of the document is a valid URI and resolves (oracle: `spec.ExpandSpec`) -/
  refsResolve : Bool := true
  deriving Inhabited

end VM.Sw
